import ZV.Model.TlsHello
import ZV.Generated.C29
/-!
  Model of `tls/handshake_client.go: (*ClientFingerprintConfiguration).marshal` and of the
  `Marshal` / `CheckImplemented` methods of the built-in `ClientExtension` types of
  `tls/handshake_extensions.go`, branch for branch.

  Every length byte is computed as the Go code computes it (`uint8(x>>8)`, `uint8(x)`:
  `UInt8.ofNat` truncates mod 256), so the model also reproduces the malformed output for
  over-long fields; the theorems state the domain in which the length fields are right.

  The tables consulted by the `CheckImplemented` methods / the cipher-suite check come from
  `ZV.Generated.C29` (T1: dumped from the working tree on every check run).

  `time` (seconds since the epoch, what `time.Now().Unix()` returned) and `rand` (the bytes the
  configured `Config.Rand` reader will deliver) are inputs of the model.
-/
namespace ZV.C29
open ZV.TlsHello

/-- the built-in `ClientExtension` implementations -/
inductive Ext where
  | null
  | sni (domains : List Bytes)              -- SNIExtension.Domains ([]string as byte strings)
  | alpn (protocols : List Bytes)           -- ALPNExtension.Protocols
  | reneg                                   -- SecureRenegotiationExtension
  | ems                                     -- ExtendedMasterSecretExtension
  | status                                  -- StatusRequestExtension
  | sct                                     -- SCTExtension
  | curves (l : List UInt16)                -- SupportedCurvesExtension.Curves ([]CurveID)
  | points (l : Bytes)                      -- PointFormatExtension.Formats
  | ticket (t : Bytes)                      -- SessionTicketExtension.Ticket
  | sigalgs (l : List UInt16)               -- SignatureAlgorithmExtension.SignatureAndHashes
  deriving DecidableEq, Repr

structure Cfg where
  vers : UInt16                  -- HandshakeVersion
  random : Bytes                 -- ClientRandom
  insertTimestamp : Bool
  sessionId : Bytes
  suites : List UInt16           -- CipherSuites
  comp : Bytes                   -- CompressionMethods
  exts : List Ext
  deriving DecidableEq, Repr

/-- big-endian encoding of a `uint16` value (`uint8(x>>8), uint8(x)`) -/
def w16 (x : UInt16) : Bytes := u16 x.toNat

def w16s (l : List UInt16) : Bytes := (l.map w16).flatten

/-- `ext.CheckImplemented() == nil` -/
def checkExt : Ext → Bool
  | .curves l => l.all (fun c => Gen.curvePrefs.contains c.toNat)
  | .points l => l.all (fun f => f == 0)                      -- pointFormatUncompressed
  | .sigalgs l => l.all (fun a => Gen.skxSigAlgs.contains a.toNat)   -- (hash, signature) = (a>>8, a&0xff)
  | _ => true

/-- SNI body: every domain with its own 2-byte length (the single name_type byte is in the header) -/
def sniNames (domains : List Bytes) : Bytes := (domains.map (fun d => u16 d.length ++ d)).flatten

def alpnProtos (protocols : List Bytes) : Bytes := (protocols.map (fun p => u8 p.length ++ p)).flatten

/-- `ext.Marshal()` -/
def marshalExt : Ext → Bytes
  | .null => []
  | .sni domains =>
    let result := sniNames domains
    let result := u16 (result.length + 1) ++ [0] ++ result
    [0, 0] ++ u16 result.length ++ result
  | .alpn protocols =>
    let result := alpnProtos protocols
    let result := u16 result.length ++ result
    u16 extensionALPN ++ u16 result.length ++ result
  | .reneg => u16 extensionRenegotiationInfo ++ [0, 1, 0]
  | .ems => u16 extensionExtendedMasterSecret ++ [0, 0]
  | .status => u16 extensionStatusRequest ++ [0, 5, 1, 0, 0, 0, 0]
  | .sct => u16 extensionSCT ++ [0, 0]
  | .curves l =>
    u16 extensionSupportedCurves ++ u16 (2 + 2 * l.length) ++ u16 (2 * l.length) ++ w16s l
  | .points l =>
    u16 extensionSupportedPoints ++ u16 (1 + l.length) ++ u8 l.length ++ l
  | .ticket t =>
    u16 extensionSessionTicket ++ u16 t.length ++ t
  | .sigalgs l =>
    u16 extensionSignatureAlgorithms ++ u16 (2 + 2 * l.length) ++ u16 (2 * l.length) ++ w16s l

def marshalExts (l : List Ext) : Bytes := (l.map marshalExt).flatten

/-- the 32 bytes at `head[6:38]`: configured random iff it has 32 bytes; otherwise fresh bytes from
    `config.rand()` (`io.ReadFull`: error when the reader runs dry), preceded — with InsertTimestamp —
    by the big-endian low 32 bits of the Unix time (code after `fix:` D25). -/
def randomField (cfg : Cfg) (rand : Bytes) (time : Nat) : Option Bytes :=
  if cfg.random.length = 32 then some cfg.random
  else if cfg.insertTimestamp then
    if rand.length < 28 then none else some (u32 time ++ rand.take 28)
  else
    if rand.length < 32 then none else some (rand.take 32)

/-- cipher-suite block: 2 length bytes `uint8(n>>7), uint8(n<<1)` and the ids -/
def suiteBlock (suites : List UInt16) : Bytes :=
  [UInt8.ofNat (suites.length / 128), UInt8.ofNat (suites.length * 2)] ++ w16s suites

/-- `len(extensions) > 0` ⇒ 2 length bytes + extensions; nothing otherwise -/
def extBlock (exts : List Ext) : Bytes :=
  let e := marshalExts exts
  if e.length > 0 then u16 e.length ++ e else []

/-- `(*ClientFingerprintConfiguration).marshal(config)`; `none` = error.
    `force` = `config.ForceSuites`. -/
def marshal (cfg : Cfg) (force : Bool) (rand : Bytes) (time : Nat) : Option Bytes :=
  if !cfg.exts.all checkExt then none                      -- CheckImplementedExtensions
  else
    match randomField cfg rand time with
    | none => none
    | some random =>
      let head : Bytes := [1, 0, 0, 0] ++ w16 cfg.vers ++ random
      if cfg.sessionId.length ≥ 256 then none
      else
        let sessionID := u8 cfg.sessionId.length ++ cfg.sessionId
        if !force && !cfg.suites.all (fun s => Gen.implementedSuites.contains s.toNat) then none
        else
          let ciphers := suiteBlock cfg.suites
          if cfg.comp.length ≥ 256 then none
          else
            match cfg.comp with
            | [] => none                                      -- "no compression method"
            | c0 :: rest =>
              if c0 != 0 then none
              else if rest.length > 0 then none
              else
                let compressions := u8 cfg.comp.length ++ cfg.comp
                let hello := head ++ sessionID ++ ciphers ++ compressions ++ extBlock cfg.exts
                let lengthOnTheWire := hello.length - 4
                if lengthOnTheWire ≥ 16777216 then none
                else some (1 :: u24 lengthOnTheWire ++ hello.drop 4)

/-! ## The hello a real client sends (`c29 wire`)

  Model of the fingerprint branch of `tls/handshake_client.go: (*Conn).clientHandshake` up to
  `c.WriteRecord(recordTypeHandshake, hello.marshal())`, as far as it decides WHICH bytes are sent:
  `ClientFingerprintConfiguration.WriteToConfig` (the `SNIExtension.Autopopulate` rewrite of the extension
  list), the lookup in the fingerprint's `SessionCache`, the `SessionTicketExtension.Autopopulate` /
  `RandomSessionID` loop, `marshal`, `hello.unmarshal(helloBytes)` (which keeps the bytes in `hello.raw`,
  what `hello.marshal()` returns), and the first lines of `loadSession`.
  Everything between `unmarshal` and `WriteRecord` leaves `hello.raw` alone, so the bytes on the wire are
  the bytes `marshal` produced for the rewritten configuration.  -/

/-- an entry of `ClientFingerprintConfiguration.Extensions`: a built-in extension and its `Autopopulate`
    flag (only `SNIExtension` and `SessionTicketExtension` have one) -/
structure WExt where
  e : Ext
  auto : Bool
  deriving DecidableEq, Repr

/-- `ClientFingerprintConfiguration.SessionCache` / `CacheKey` and what `Get(cacheKey)` finds -/
inductive FpCache where
  | none                                            -- SessionCache == nil
  | noKey                                           -- SessionCache set, CacheKey == nil
  | empty                                           -- Get: !ok
  | hit (vers suite : UInt16) (ticket : Bytes)      -- candidateSession.vers / .cipherSuite / .sessionTicket
  deriving DecidableEq, Repr

/-- the inner loop of `(*SNIExtension).WriteToConfig` with `Autopopulate`: EVERY `*SNIExtension` of the list
    becomes a `NullExtension` (no `Config.ServerName`) or `SNIExtension{[ServerName], Autopopulate: true}` -/
def replaceSni (exts : List WExt) (sn : Bytes) : List WExt :=
  exts.map (fun w =>
    match w.e with
    | .sni _ => if sn.isEmpty then { e := .null, auto := false } else { e := .sni [sn], auto := true }
    | _ => w)

/-- `for _, ext := range c.Extensions { ext.WriteToConfig(config) }`: position `i`, `fuel` = iterations
    left (the `range` bound is the fixed length of the slice; the elements are read live, so an entry
    rewritten by an earlier `Autopopulate` SNI is seen in its new form).  State: the list and
    `config.ServerName`. Only `SNIExtension.WriteToConfig` touches either. -/
def wtcLoop : Nat → Nat → List WExt → Bytes → List WExt × Bytes
  | 0, _, exts, sn => (exts, sn)
  | fuel + 1, i, exts, sn =>
    match exts[i]? with
    | none => (exts, sn)
    | some w =>
      match w.e with
      | .sni domains =>
        let exts' := if w.auto then replaceSni exts sn else exts
        -- `if c.ServerName == "" && len(e.Domains) > 0 { c.ServerName = e.Domains[0] }` (e = the receiver)
        let sn' := if sn.isEmpty then (match domains with | d :: _ => d | [] => sn) else sn
        wtcLoop fuel (i + 1) exts' sn'
      | _ => wtcLoop fuel (i + 1) exts sn

def isTicket (w : WExt) : Bool := match w.e with | .ticket _ => true | _ => false

/-- `tls/common.go: supportedVersions` (T1: `Gen.supportedVersions`, extracted by go/ast on every run) -/
def supportedVersionsTable : List UInt16 := Gen.supportedVersions.map UInt16.ofNat

/-- `config.minSupportedVersion()` with `MinVersion = 0` and `MaxVersion = HandshakeVersion`
    (`WriteToConfig` sets it): the last entry of the table that is not above the handshake version, else 0 -/
def minSupported (hv : UInt16) : UInt16 :=
  match (supportedVersionsTable.filter (fun v => v ≤ hv)).getLast? with
  | some v => v
  | none => 0

/-- the session the handshake will try to resume (`session`), if any -/
def pickSession (cfg : Cfg) : FpCache → Option Bytes
  | .hit vers suite ticket =>
    let cipherSuiteOk := cfg.suites.contains suite
    let versOk := decide (vers ≥ minSupported cfg.vers) && decide (vers ≤ cfg.vers)
    if versOk && cipherSuiteOk then some ticket else none
  | _ => none

/-- the `SessionTicketExtension.Autopopulate` loop. State: session id and the unread rest of `Config.Rand`;
    `none` = short read from Rand. -/
def ticketLoop (session : Option Bytes) (forceTicket : Bool) (rsid : Nat) :
    List WExt → Bytes → Bytes → Option (List WExt × Bytes × Bytes)
  | [], sid, rand => some ([], sid, rand)
  | w :: rest, sid, rand =>
    if isTicket w && w.auto then
      match session with
      | none =>
        let w' : WExt := if !forceTicket then { e := .null, auto := false } else w
        match ticketLoop session forceTicket rsid rest sid rand with
        | none => none
        | some (r, sid', rand') => some (w' :: r, sid', rand')
      | some t =>
        let w' : WExt := { e := .ticket t, auto := true }
        if rsid > 0 then
          if rand.length < rsid then none
          else
            match ticketLoop session forceTicket rsid rest (rand.take rsid) (rand.drop rsid) with
            | none => none
            | some (r, sid', rand') => some (w' :: r, sid', rand')
        else
          match ticketLoop session forceTicket rsid rest sid rand with
          | none => none
          | some (r, sid', rand') => some (w' :: r, sid', rand')
    else
      match ticketLoop session forceTicket rsid rest sid rand with
      | none => none
      | some (r, sid', rand') => some (w :: r, sid', rand')

inductive WireRes where
  | err                      -- Handshake returns an error before a handshake record is written
  | panic                    -- run-time panic
  | sent (hello : Bytes)     -- payload of the first handshake record(s)
  deriving DecidableEq, Repr

/-- the configuration `marshal` is called with: extension list after both rewrites, session id, rest of Rand -/
def effectiveCfg (cfg : Cfg) (wexts : List WExt) (serverName : Bytes) (cache : FpCache) (rsid : Nat)
    (rand : Bytes) : Option (Cfg × Bytes) :=
  let exts1 := (wtcLoop wexts.length 0 wexts serverName).1
  -- `SessionTicketExtension.WriteToConfig` sets `ForceSessionTicketExt` (reset to false before the loop)
  let forceTicket := exts1.any isTicket
  match cache with
  | .noKey => none                                      -- "must specify CacheKey …"
  | _ =>
    match ticketLoop (pickSession cfg cache) forceTicket rsid exts1 cfg.sessionId rand with
    | none => none
    | some (exts2, sid, rand') => some ({ cfg with sessionId := sid, exts := exts2.map (·.e) }, rand')

/-- `configCache` = `Config.ClientSessionCache != nil && !Config.SessionTicketsDisabled`: `loadSession` then goes
    past its first guard and looks at `hello.supportedVersions` — of the hello PARSED BACK from the fingerprint's bytes;
    no built-in extension type produces supported_versions, so the list is empty unless a user-defined extension does.
    `guard` = the `len(hello.supportedVersions) > 0 &&` in front of `hello.supportedVersions[0] == VersionTLS13`
    (commit 87b3ec4). With it and an empty list: no psk_modes; `Get(cacheKey)`; for a cached session
    `versOk` stays false (the loop over the empty list finds nothing) and loadSession returns without touching the
    hello's ticket / PSK fields — only `hello.ticketSupported = true` is set on the struct, which `marshal()` = `raw`
    does not re-encode. Without the guard (the code before the fix): index out of range. -/
def wireHelloWith (guard : Bool) (cfg : Cfg) (wexts : List WExt) (serverName : Bytes) (cache : FpCache) (rsid : Nat)
    (configCache : Bool) (force : Bool) (rand : Bytes) (time : Nat) : WireRes :=
  match effectiveCfg cfg wexts serverName cache rsid rand with
  | none => .err
  | some (cfg', rand') =>
    match marshal cfg' force rand' time with
    | none => .err
    | some helloBytes =>
      match parseClientHello helloBytes with
      | none => .err                                    -- "incompatible ClientFingerprintConfiguration"
      | some hello =>
        if !guard && configCache && hello.supportedVersions.isEmpty then .panic
        else .sent helloBytes                           -- hello.marshal() = hello.raw = helloBytes

/-- the code as it is (with the guard) -/
def wireHello (cfg : Cfg) (wexts : List WExt) (serverName : Bytes) (cache : FpCache) (rsid : Nat)
    (configCache : Bool) (force : Bool) (rand : Bytes) (time : Nat) : WireRes :=
  wireHelloWith true cfg wexts serverName cache rsid configCache force rand time

/-! ## Accounting of the built-in extension types (T1, go/ast)

  `goType e` = the Go type (`file:Type`) a constructor of `Ext` models, with the struct fields the model
  represents (`Autopopulate` is the `auto` flag of `WExt`). `builtinTypes` lists one entry per constructor, in
  source order; `extension_types_accounted` (Props) states that this is exactly the go/ast-extracted list of the
  types of package tls implementing `ClientExtension`. -/
def goType : Ext → String × List String
  | .null => ("handshake_extensions.go:NullExtension", [])
  | .sni _ => ("handshake_extensions.go:SNIExtension", ["Domains []string", "Autopopulate bool"])
  | .alpn _ => ("handshake_extensions.go:ALPNExtension", ["Protocols []string"])
  | .reneg => ("handshake_extensions.go:SecureRenegotiationExtension", [])
  | .ems => ("handshake_extensions.go:ExtendedMasterSecretExtension", [])
  | .status => ("handshake_extensions.go:StatusRequestExtension", [])
  | .sct => ("handshake_extensions.go:SCTExtension", [])
  | .curves _ => ("handshake_extensions.go:SupportedCurvesExtension", ["Curves []CurveID"])
  | .points _ => ("handshake_extensions.go:PointFormatExtension", ["Formats []uint8"])
  | .ticket _ => ("handshake_extensions.go:SessionTicketExtension", ["Ticket []byte", "Autopopulate bool"])
  | .sigalgs _ => ("handshake_extensions.go:SignatureAlgorithmExtension", ["SignatureAndHashes []uint16"])

/-- one representative per constructor of `Ext`, in source order of the Go types -/
def extKinds : List Ext :=
  [.null, .sni [], .alpn [], .reneg, .ems, .status, .sct, .curves [], .points [], .ticket [], .sigalgs []]

def builtinTypes : List (String × List String) := extKinds.map goType

/-- `(*ClientFingerprintConfiguration).CheckImplementedExtensions() == nil`: the first failing extension
    returns its error, i.e. all must pass -/
def checkExts (l : List Ext) : Bool := l.all checkExt

/-! ## `WriteToConfig`: what the fingerprint writes into the `Config` (`c29 wtc`)

  Model of `(*ClientFingerprintConfiguration).WriteToConfig` together with the `WriteToConfig` methods of all
  built-in extension types: the resets in front of the loop and the per-type effect. `SignatureAndHashes`
  is NOT reset (only overwritten by a SignatureAlgorithmExtension), so its previous value is an input. -/
structure WCfg where
  serverName : Bytes                     -- Config.ServerName
  nextProtos : List Bytes                -- Config.NextProtos
  cipherSuites : List UInt16             -- Config.CipherSuites
  maxVersion : UInt16                    -- Config.MaxVersion
  clientRandom : Bytes                   -- Config.ClientRandom
  curvePrefs : List UInt16               -- Config.CurvePreferences
  heartbeat : Bool                       -- Config.HeartbeatEnabled
  extendedRandom : Bool                  -- Config.ExtendedRandom
  forceTicket : Bool                     -- Config.ForceSessionTicketExt
  ems : Bool                             -- Config.ExtendedMasterSecret
  sct : Bool                             -- Config.SignedCertificateTimestampExt
  sigHashes : List (UInt8 × UInt8)       -- Config.SignatureAndHashes as (Hash, Signature)
  deriving DecidableEq, Repr

/-- the assignments in front of the loop -/
def wtcInit (cfg : Cfg) (serverName : Bytes) (sigHashes0 : List (UInt8 × UInt8)) : WCfg :=
  { serverName := serverName, nextProtos := [], cipherSuites := cfg.suites, maxVersion := cfg.vers,
    clientRandom := cfg.random, curvePrefs := [], heartbeat := false, extendedRandom := false,
    forceTicket := false, ems := false, sct := false, sigHashes := sigHashes0 }

/-- `getStructuredAlgorithms`: `Hash = uint8(alg >> 8)`, `Signature = uint8(alg)` -/
def structured (l : List UInt16) : List (UInt8 × UInt8) :=
  l.map (fun a => (UInt8.ofNat (a.toNat / 256), UInt8.ofNat a.toNat))

/-- the effect of `ext.WriteToConfig(config)` on the `Config` fields (the rewrite of the extension list by an
    `Autopopulate` SNI is `replaceSni`, in the loop) -/
def wtcExt (e : Ext) (c : WCfg) : WCfg :=
  match e with
  | .sni domains =>
    -- `if c.ServerName == "" && len(e.Domains) > 0 { c.ServerName = e.Domains[0] }`
    { c with serverName := if c.serverName.isEmpty then (match domains with | d :: _ => d | [] => c.serverName)
                           else c.serverName }
  | .alpn ps => { c with nextProtos := ps }
  | .ems => { c with ems := true }
  | .sct => { c with sct := true }
  | .curves l => { c with curvePrefs := l }
  | .ticket _ => { c with forceTicket := true }
  | .sigalgs l => { c with sigHashes := structured l }
  | .null => c
  | .reneg => c
  | .status => c
  | .points _ => c

/-- the loop of `WriteToConfig` with the whole `Config` as state (cf. `wtcLoop`, which keeps `ServerName` only) -/
def wtcFullLoop : Nat → Nat → List WExt → WCfg → List WExt × WCfg
  | 0, _, exts, c => (exts, c)
  | fuel + 1, i, exts, c =>
    match exts[i]? with
    | none => (exts, c)
    | some w =>
      let exts' := match w.e with
        | .sni _ => if w.auto then replaceSni exts c.serverName else exts
        | _ => exts
      wtcFullLoop fuel (i + 1) exts' (wtcExt w.e c)

/-- `(*ClientFingerprintConfiguration).WriteToConfig(config)`: extension list afterwards and the `Config` -/
def writeToConfig (cfg : Cfg) (wexts : List WExt) (serverName : Bytes) (sigHashes0 : List (UInt8 × UInt8)) :
    List WExt × WCfg :=
  wtcFullLoop wexts.length 0 wexts (wtcInit cfg serverName sigHashes0)

/-- `c29 rt`: `marshal` followed by `(*clientHelloMsg).unmarshal` of the produced bytes -/
inductive RtRes where
  | errMarshal
  | errParse
  | ok (m : ClientHello)

def roundTrip (cfg : Cfg) (force : Bool) (rand : Bytes) (time : Nat) : RtRes :=
  match marshal cfg force rand time with
  | none => .errMarshal
  | some b =>
    match parseClientHello b with
    | none => .errParse
    | some m => .ok m

end ZV.C29
