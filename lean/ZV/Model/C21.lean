import ZV.Model.Der0
import ZV.Model.Time
/-!
  Model of `cryptobyte.Builder` (builder.go, the Builder half of asn1.go) and of the matching
  `cryptobyte.String` readers (string.go, the String half of asn1.go) as write/read PROGRAMS.

  * `Prog` — a sequence of API calls in continuation style (one plain inductive, no nested lists).
    The same program is interpreted by the writer (`build`, `ser`) and, mirrored, by the reader
    (`readProg`): `lp n body k` is `AddUintNLengthPrefixed(body)` ↔ `ReadUintNLengthPrefixed(&child)`
    followed by reading `body` from `child` and `child.Empty()`.
  * `Builder`, `add`, `addLengthPrefixed`, `flushChild`, `build` — the LOW-LEVEL model: shared result
    buffer, `offset`, `pendingLenLen`, `pendingIsASN1`, length back-patching and the DER long-form
    widening by `copy`, as in builder.go.
  * `ser` — the specification-level serializer (length prefix computed up front, ASN.1 elements via
    `ZV.Der0.CB.element`).  `buildBytes p = ser p` is proved for all programs (`builder_refines_ser`,
    ZV/Props/C21.lean); the driver still prints `SPEC-MISMATCH` if the two ever differ at run time.
  * `readProg` and the optional readers (`readOptionalASN1`, `readOptionalInt`, `readOptionalOctets`,
    `readOptionalBool` = the version after the fix for D1).
  ASN.1 leaf values reuse the content functions and readers of `ZV.Model.Der0` (namespace `CB`);
  GENERALIZEDTIME (`AddASN1GeneralizedTime` ↔ `ReadASN1GeneralizedTime`) those of `ZV.Model.Time`.
-/
namespace ZV.C21
open ZV ZV.Der0

inductive Val where
  | nat (n : Nat) | int (v : Int) | bytes (b : Bytes) | bool (b : Bool) | oid (o : List Nat)
  | bits (len : Int) (b : Bytes) | null | present | absent | presentBytes (b : Bytes)
  | time (t : ZV.Time.GoTime)
  | skipped                                  -- Skip / SkipASN1: bytes consumed, nothing returned
  | tagged (tag : UInt8) (b : Bytes)         -- ReadAnyASN1 / ReadAnyASN1Element: (outTag, out)
  deriving Repr, DecidableEq

/-- ALTERNATIVE READERS of what existing Builder calls write (leaf payloads): the write side is
    `AddBytes` / `AddASN1(tag){AddBytes}` / `AddASN1BitString` / nothing, the read side is the String method
    named in the comment. -/
inductive Alt where
  | skip (b : Bytes)                         -- AddBytes ↔ Skip(len)
  | copy (b : Bytes)                         -- AddBytes ↔ CopyBytes(out) with len(out) = len
  | elem (tag : UInt8) (b : Bytes)           -- AddASN1(tag){AddBytes} ↔ ReadASN1Element(&out, tag)
  | any (tag : UInt8) (b : Bytes)            -- … ↔ ReadAnyASN1(&out, &outTag)
  | anyElem (tag : UInt8) (b : Bytes)        -- … ↔ ReadAnyASN1Element(&out, &outTag)
  | skipAsn1 (tag : UInt8) (b : Bytes)       -- … ↔ SkipASN1(tag)
  | skipOpt (tag : UInt8) (b : Bytes)        -- … ↔ SkipOptionalASN1(tag)   (element present)
  | noSkipOpt (tag : UInt8)                  -- nothing ↔ SkipOptionalASN1(tag)   (element absent)
  | bitsBytes (b : Bytes)                    -- AddASN1BitString ↔ ReadASN1BitStringAsBytes
  deriving Repr, DecidableEq

inductive Prog where
  | done
  | uN (w : Nat) (v : Nat) (k : Prog)            -- AddUint8/16/24/32 (w = 1..4)
  | raw (b : Bytes) (k : Prog)                   -- AddBytes ↔ ReadBytes(len b)
  | lp (n : Nat) (body k : Prog)                 -- AddUint8/16/24/32LengthPrefixed (n = 1..4)
  | asn1 (tag : UInt8) (body k : Prog)           -- AddASN1 ↔ ReadASN1
  | int64 (tag : UInt8) (v : Int) (k : Prog)     -- AddASN1Int64 (tag 2) / …WithTag / AddASN1Enum (tag 10)
  | uint64 (v : Nat) (k : Prog)
  | big (v : Int) (k : Prog)
  | bool (v : Bool) (k : Prog)
  | oid (o : List Nat) (k : Prog)
  | octets (b : Bytes) (k : Prog)
  | bitstr (b : Bytes) (k : Prog)                -- AddASN1BitString (whole bytes)
  | null (k : Prog)
  | optAsn1 (tag : UInt8) (body k : Prog)        -- element written ↔ ReadOptionalASN1
  | noAsn1 (tag : UInt8) (k : Prog)              -- nothing written ↔ ReadOptionalASN1
  | optInt (tag : UInt8) (v dflt : Int) (k : Prog)
  | noInt (tag : UInt8) (dflt : Int) (k : Prog)
  | optOctets (tag : UInt8) (b : Bytes) (k : Prog)
  | noOctets (tag : UInt8) (k : Prog)
  | optBool (v dflt : Bool) (k : Prog)
  | noBool (dflt : Bool) (k : Prog)
  | gtime (t : ZV.Time.GoTime) (k : Prog)        -- AddASN1GeneralizedTime ↔ ReadASN1GeneralizedTime
  | alt (a : Alt) (k : Prog)                     -- an existing write call read back by another reader (see `Alt`)
  | setErr (k : Prog)                            -- SetError(non-nil): nothing written, nothing read
  | value (body : Prog) (fail : Bool) (k : Prog) -- AddValue(v): v.Marshal(b) runs `body` on b itself and returns an
                                                 -- error iff `fail`; read back inline (no framing)
  deriving Repr

/-- `p.seq q`: the calls of `p`, then the calls of `q`, on the same Builder / String. -/
def Prog.seq : Prog → Prog → Prog
  | .done, q => q
  | .uN w v k, q => .uN w v (k.seq q)
  | .raw b k, q => .raw b (k.seq q)
  | .lp n body k, q => .lp n body (k.seq q)
  | .asn1 tag body k, q => .asn1 tag body (k.seq q)
  | .int64 tag v k, q => .int64 tag v (k.seq q)
  | .uint64 v k, q => .uint64 v (k.seq q)
  | .big v k, q => .big v (k.seq q)
  | .bool v k, q => .bool v (k.seq q)
  | .oid o k, q => .oid o (k.seq q)
  | .octets b k, q => .octets b (k.seq q)
  | .bitstr b k, q => .bitstr b (k.seq q)
  | .null k, q => .null (k.seq q)
  | .optAsn1 tag body k, q => .optAsn1 tag body (k.seq q)
  | .noAsn1 tag k, q => .noAsn1 tag (k.seq q)
  | .optInt tag v d k, q => .optInt tag v d (k.seq q)
  | .noInt tag d k, q => .noInt tag d (k.seq q)
  | .optOctets tag b k, q => .optOctets tag b (k.seq q)
  | .noOctets tag k, q => .noOctets tag (k.seq q)
  | .optBool v d k, q => .optBool v d (k.seq q)
  | .noBool d k, q => .noBool d (k.seq q)
  | .gtime t k, q => .gtime t (k.seq q)
  | .alt a k, q => .alt a (k.seq q)
  | .setErr k, q => .setErr (k.seq q)
  | .value body fail k, q => .value body fail (k.seq q)

/-! ## low-level Builder -/

structure Builder where
  err : Bool := false
  panicked : Bool := false       -- a Go `panic("cryptobyte: internal error")` / index out of range
  result : Bytes := []
  offset : Nat := 0
  pendingLenLen : Nat := 0
  pendingIsASN1 : Bool := false
  deriving Repr, DecidableEq

def zeros (n : Nat) : Bytes := List.replicate n 0

/-- `(*Builder).add` (growable builder; `child != nil` cannot happen inside a program). -/
def add (b : Builder) (bytes : Bytes) : Builder :=
  if b.err then b else { b with result := b.result ++ bytes }

/-- overlapping `copy(r[dst:], r[src:])` with `src ≤ dst` (memmove): `len r - dst` bytes move up. -/
def copyWithin (r : Bytes) (dst src : Nat) : Bytes :=
  r.take dst ++ (r.drop src).take (r.length - dst)

/-- `for i := k-1; i >= 0; i-- { r[off+i] = uint8(l); l >>= 8 }`; returns the buffer and the final `l`. -/
def writeBE (r : Bytes) (off : Nat) : Nat → Nat → Bytes × Nat
  | 0, l => (r, l)
  | i + 1, l => writeBE (r.set (off + i) (UInt8.ofNat (l % 256))) off i (l / 256)

/-- `(*Builder).flushChild` for a child that has no pending child of its own. -/
def flushChild (b child : Builder) : Builder :=
  if child.panicked then { b with err := true, panicked := true }
  else if child.err then { b with err := true }
  else if child.result.length < child.pendingLenLen + child.offset then
    { b with err := true, panicked := true }                          -- result unexpectedly shrunk
  else
    let length := child.result.length - child.pendingLenLen - child.offset
    if child.pendingIsASN1 then
      if child.pendingLenLen ≠ 1 then { b with err := true, panicked := true }
      else if length > 0xfffffffe then { b with err := true }         -- pending ASN.1 child too long
      else
        let (lenLen, lenByte, l) : Nat × UInt8 × Nat :=
          if length > 0xffffff then (5, 0x84, length)
          else if length > 0xffff then (4, 0x83, length)
          else if length > 0xff then (3, 0x82, length)
          else if length > 0x7f then (2, 0x81, length)
          else (1, UInt8.ofNat length, 0)
        if child.offset ≥ child.result.length then { b with err := true, panicked := true }
        else
          let r1 := child.result.set child.offset lenByte
          let extraBytes := lenLen - 1
          let childStart := child.offset + child.pendingLenLen
          let r2 := if extraBytes ≠ 0 then copyWithin (r1 ++ zeros extraBytes) (childStart + extraBytes) childStart else r1
          let (r3, rem) := writeBE r2 (child.offset + 1) extraBytes l
          if rem ≠ 0 then { b with err := true } else { b with result := r3 }
    else
      let (r3, rem) := writeBE child.result child.offset child.pendingLenLen length
      if rem ≠ 0 then { b with err := true }                          -- exceeds the length prefix
      else { b with result := r3 }

/-- `(*Builder).addLengthPrefixed(lenLen, isASN1, f)` -/
def addLengthPrefixed (b : Builder) (lenLen : Nat) (isASN1 : Bool) (f : Builder → Builder) : Builder :=
  if b.err then b
  else
    let offset := b.result.length
    let b1 := add b (zeros lenLen)
    let child : Builder :=
      { result := b1.result, offset := offset, pendingLenLen := lenLen, pendingIsASN1 := isASN1 }
    flushChild b1 (f child)

/-- `(*Builder).AddASN1(tag, f)` -/
def addASN1 (b : Builder) (tag : UInt8) (f : Builder → Builder) : Builder :=
  if b.err then b
  else if tag.toNat % 32 = 31 then { b with err := true }             -- high-tag-number form
  else addLengthPrefixed (add b [tag]) 1 true f

/-- write side of the alternative-reader ops -/
def altBuild (a : Alt) (b : Builder) : Builder :=
  match a with
  | .skip bs => add b bs
  | .copy bs => add b bs
  | .elem tag bs => addASN1 b tag (fun c => add c bs)
  | .any tag bs => addASN1 b tag (fun c => add c bs)
  | .anyElem tag bs => addASN1 b tag (fun c => add c bs)
  | .skipAsn1 tag bs => addASN1 b tag (fun c => add c bs)
  | .skipOpt tag bs => addASN1 b tag (fun c => add c bs)
  | .noSkipOpt _ => b
  | .bitsBytes bs => addASN1 b 3 (fun c => add (add c [0]) bs)

/-- `(*Builder).SetError(err)` with a non-nil error: `b.err = err`. -/
def setError (b : Builder) : Builder := { b with err := true }

/-- `(*Builder).AddValue(v)`: `err := v.Marshal(b); if err != nil { b.err = err }` — `marshal` is what
    `v.Marshal` does to the Builder, `fail` whether it returns a non-nil error. -/
def addValue (b : Builder) (marshal : Builder → Builder) (fail : Bool) : Builder :=
  let b1 := marshal b
  if fail then { b1 with err := true } else b1

/-- run the write side of a program on a Builder -/
def build : Prog → Builder → Builder
  | .done, b => b
  | .uN w v k, b => build k (add b (beBytes w v))
  | .raw bs k, b => build k (add b bs)
  | .lp n body k, b => build k (addLengthPrefixed b n false (build body))
  | .asn1 tag body k, b => build k (addASN1 b tag (build body))
  | .int64 tag v k, b => build k (addASN1 b tag (fun c => add c (CB.signedContent v)))
  | .uint64 v k, b => build k (addASN1 b 2 (fun c => add c (CB.unsignedContent v)))
  | .big v k, b => build k (addASN1 b 2 (fun c => add c (bigIntBytes v)))
  | .bool v k, b => build k (addASN1 b 1 (fun c => add c (boolContent v)))
  | .oid o k, b =>
    build k (addASN1 b 6 (fun c => if !CB.isValidOID o then { c with err := true } else add c (oidBody o)))
  | .octets bs k, b => build k (addASN1 b 4 (fun c => add c bs))
  | .bitstr bs k, b => build k (addASN1 b 3 (fun c => add (add c [0]) bs))
  | .null k, b => build k (add b [5, 0])
  | .optAsn1 tag body k, b => build k (addASN1 b tag (build body))
  | .noAsn1 _ k, b => build k b
  | .optInt tag v _ k, b =>
    build k (addASN1 b tag (fun c => addASN1 c 2 (fun d => add d (CB.signedContent v))))
  | .noInt _ _ k, b => build k b
  | .optOctets tag bs k, b => build k (addASN1 b tag (fun c => addASN1 c 4 (fun d => add d bs)))
  | .noOctets _ k, b => build k b
  | .optBool v _ k, b => build k (addASN1 b 1 (fun c => add c (boolContent v)))
  | .noBool _ k, b => build k b
  | .gtime t k, b =>
    build k (if t.year < 0 ∨ t.year > 9999 then { b with err := true }   -- `b.err = fmt.Errorf(…); return`
             else addASN1 b 0x18 (fun c => add c (ZV.Time.format ZV.Time.layoutGen t)))
  | .alt a k, b => build k (altBuild a b)
  | .setErr k, b => build k (setError b)
  | .value body fail k, b => build k (addValue b (build body) fail)

/-- `var b Builder; …; b.Bytes()` -/
def buildBytes (p : Prog) : Res Bytes :=
  let b := build p {}
  if b.panicked then .panic else if b.err then .err else .ok b.result

/-! ## specification-level serializer -/

def Res.append (a : Res Bytes) (b : Res Bytes) : Res Bytes :=
  match a, b with
  | .ok x, .ok y => .ok (x ++ y)
  | .panic, _ => .panic
  | _, .panic => .panic
  | _, _ => .err

/-- length-prefixed block -/
def lpBytes (n : Nat) (body : Res Bytes) : Res Bytes :=
  match body with
  | .ok c => if c.length ≥ 256 ^ n then .err else .ok (beBytes n c.length ++ c)
  | .err => .err
  | .panic => .panic

def elementR (tag : UInt8) (body : Res Bytes) : Res Bytes :=
  match body with
  | .ok c => CB.element tag c
  | .err => .err
  | .panic => .panic

def altSer (a : Alt) : Res Bytes :=
  match a with
  | .skip bs => .ok bs
  | .copy bs => .ok bs
  | .elem tag bs => CB.element tag bs
  | .any tag bs => CB.element tag bs
  | .anyElem tag bs => CB.element tag bs
  | .skipAsn1 tag bs => CB.element tag bs
  | .skipOpt tag bs => CB.element tag bs
  | .noSkipOpt _ => .ok []
  | .bitsBytes bs => CB.addASN1BitString 0 bs

def ser : Prog → Res Bytes
  | .done => .ok []
  | .uN w v k => Res.append (.ok (beBytes w v)) (ser k)
  | .raw bs k => Res.append (.ok bs) (ser k)
  | .lp n body k => Res.append (lpBytes n (ser body)) (ser k)
  | .asn1 tag body k => Res.append (elementR tag (ser body)) (ser k)
  | .int64 tag v k => Res.append (CB.addASN1Int64Tag tag v) (ser k)
  | .uint64 v k => Res.append (CB.addASN1Uint64 v) (ser k)
  | .big v k => Res.append (CB.addASN1BigInt v) (ser k)
  | .bool v k => Res.append (CB.addASN1Boolean v) (ser k)
  | .oid o k => Res.append (CB.addASN1OID o) (ser k)
  | .octets bs k => Res.append (CB.element 4 bs) (ser k)
  | .bitstr bs k => Res.append (CB.addASN1BitString 0 bs) (ser k)
  | .null k => Res.append (.ok [5, 0]) (ser k)
  | .optAsn1 tag body k => Res.append (elementR tag (ser body)) (ser k)
  | .noAsn1 _ k => ser k
  | .optInt tag v _ k => Res.append (elementR tag (CB.addASN1Int64 v)) (ser k)
  | .noInt _ _ k => ser k
  | .optOctets tag bs k => Res.append (elementR tag (CB.element 4 bs)) (ser k)
  | .noOctets _ k => ser k
  | .optBool v _ k => Res.append (CB.addASN1Boolean v) (ser k)
  | .noBool _ k => ser k
  | .gtime t k => Res.append (ZV.Time.CB.addGeneralizedTime t) (ser k)
  | .alt a k => Res.append (altSer a) (ser k)
  | .setErr k => Res.append .err (ser k)
  | .value body fail k => Res.append (Res.append (ser body) (if fail then .err else .ok [])) (ser k)

/-! ## builder-only programs: `Unwrite`, `SetError` and blocks (no mirrored reader) -/

inductive BProg where
  | done
  | add (bs : Bytes) (k : BProg)                 -- AddBytes
  | unwrite (n : Nat) (k : BProg)                -- Unwrite(n), n ≥ 0
  | setErr (k : BProg)                           -- SetError(non-nil)
  | lp (n : Nat) (body k : BProg)                -- AddUint8/16/24/32LengthPrefixed
  | asn1 (tag : UInt8) (body k : BProg)          -- AddASN1
  deriving Repr

/-- `(*Builder).Unwrite(n)` for `n ≥ 0` (the `child != nil` panic cannot happen inside a program). -/
def unwrite (b : Builder) (n : Nat) : Builder :=
  if b.err then b
  else if b.result.length < b.pendingLenLen + b.offset then { b with err := true, panicked := true }
  else if n > b.result.length - b.pendingLenLen - b.offset then
    { b with err := true, panicked := true }        -- attempted to unwrite more than was written
  else { b with result := b.result.take (b.result.length - n) }

/-- low level; a panic leaves `err` set as well, so everything after it is a no-op. -/
def bbuild : BProg → Builder → Builder
  | .done, b => b
  | .add bs k, b => bbuild k (add b bs)
  | .unwrite n k, b => bbuild k (unwrite b n)
  | .setErr k, b => bbuild k (setError b)
  | .lp n body k, b => bbuild k (addLengthPrefixed b n false (bbuild body))
  | .asn1 tag body k, b => bbuild k (addASN1 b tag (bbuild body))

def bbuildBytes (p : BProg) : Res Bytes :=
  let b := bbuild p {}
  if b.panicked then .panic else if b.err then .err else .ok b.result

/-- specification: `acc` = the bytes written so far INTO THE CURRENT BLOCK (after its length prefix); the result
    is the block's final content.  `Unwrite(n)` drops the last `n` bytes of the block and panics when the
    block holds fewer — it can never reach the block's own length prefix or the parent's bytes. -/
def bspec : BProg → Bytes → Res Bytes
  | .done, acc => .ok acc
  | .add bs k, acc => bspec k (acc ++ bs)
  | .unwrite n k, acc => if n > acc.length then .panic else bspec k (acc.take (acc.length - n))
  | .setErr _, _ => .err
  | .lp n body k, acc =>
    (match bspec body [] with
     | .ok c => (match lpBytes n (.ok c) with
        | .ok x => bspec k (acc ++ x)
        | .err => .err
        | .panic => .panic)
     | .err => .err
     | .panic => .panic)
  | .asn1 tag body k, acc =>
    if tag.toNat % 32 = 31 then .err
    else
      (match bspec body [] with
       | .ok c => (match CB.element tag c with
          | .ok x => bspec k (acc ++ x)
          | .err => .err
          | .panic => .panic)
       | .err => .err
       | .panic => .panic)

/-! ## String readers -/

/-- `ReadUint8/16/24/32`, `readUnsigned`: `w` bytes big-endian. -/
def readU (w : Nat) (s : Bytes) : Res (Nat × Bytes) :=
  if s.length < w then .err else .ok (natOfBytes (s.take w), s.drop w)

/-- `ReadBytes(&out, n)` -/
def readBytes (n : Nat) (s : Bytes) : Res (Bytes × Bytes) :=
  if s.length < n then .err else .ok (s.take n, s.drop n)

/-- `readLengthPrefixed(lenLen, &child)` -/
def readLengthPrefixed (n : Nat) (s : Bytes) : Res (Bytes × Bytes) :=
  match readU n s with
  | .ok (len, s1) => readBytes len s1
  | .err => .err
  | .panic => .panic

/-- `PeekASN1Tag` -/
def peekTag (s : Bytes) (tag : UInt8) : Bool :=
  match s with
  | [] => false
  | b :: _ => b == tag

/-- `ReadOptionalASN1(&out, &present, tag)`: `none` = not present (input untouched). -/
def readOptionalASN1 (s : Bytes) (tag : UInt8) : Res (Option Bytes × Bytes) :=
  if peekTag s tag then
    match CB.readASN1Tag s tag with
    | .ok (body, rest) => .ok (some body, rest)
    | .err => .err
    | .panic => .panic
  else .ok (none, s)

/-- `ReadOptionalASN1Integer(&int64out, tag, default)` -/
def readOptionalInt (s : Bytes) (tag : UInt8) (dflt : Int) : Res (Int × Bytes) :=
  match readOptionalASN1 s tag with
  | .ok (none, rest) => .ok (dflt, rest)
  | .ok (some i, rest) =>
    (match CB.readInt64 i with
     | .ok (v, r) => if r.isEmpty then .ok (v, rest) else .err
     | .err => .err
     | .panic => .panic)
  | .err => .err
  | .panic => .panic

/-- `ReadOptionalASN1OctetString(&out, &present, tag)` -/
def readOptionalOctets (s : Bytes) (tag : UInt8) : Res (Option Bytes × Bytes) :=
  match readOptionalASN1 s tag with
  | .ok (none, rest) => .ok (none, rest)
  | .ok (some child, rest) =>
    (match CB.readASN1Tag child 4 with
     | .ok (oct, r) => if r.isEmpty then .ok (some oct, rest) else .err
     | .err => .err
     | .panic => .panic)
  | .err => .err
  | .panic => .panic

/-- `ReadOptionalASN1Boolean(&out, default)` after the fix for D1:
    `if !s.PeekASN1Tag(BOOLEAN) { *out = default; return true }; return s.ReadASN1Boolean(out)`. -/
def readOptionalBool (s : Bytes) (dflt : Bool) : Res (Bool × Bytes) :=
  if !peekTag s 1 then .ok (dflt, s) else CB.readBool s

/-- the bytes a successful element read consumed: `out` of `readASN1(…, skipHeader = false)` is
    `(*s)[:length]`, the String is left at `(*s)[length:]`. -/
def consumed (s rest : Bytes) : Bytes := s.take (s.length - rest.length)

/-- the String side of the alternative-reader ops (`Skip`, `CopyBytes`, `ReadASN1Element`, `ReadAnyASN1`,
    `ReadAnyASN1Element`, `SkipASN1`, `SkipOptionalASN1`, `ReadASN1BitStringAsBytes`). -/
def altRead (a : Alt) (s : Bytes) : Res (Val × Bytes) :=
  match a with
  | .skip bs =>
    (match readBytes bs.length s with
     | .ok (_, r) => .ok (.skipped, r)
     | .err => .err
     | .panic => .panic)
  | .copy bs =>
    (match readBytes bs.length s with
     | .ok (v, r) => .ok (.bytes v, r)
     | .err => .err
     | .panic => .panic)
  | .elem tag _ =>
    (match CB.readASN1 s with
     | .ok e => if e.tag ≠ tag then .err else .ok (.bytes (consumed s e.rest), e.rest)
     | .err => .err
     | .panic => .panic)
  | .any _ _ =>
    (match CB.readASN1 s with
     | .ok e => .ok (.tagged e.tag e.body, e.rest)
     | .err => .err
     | .panic => .panic)
  | .anyElem _ _ =>
    (match CB.readASN1 s with
     | .ok e => .ok (.tagged e.tag (consumed s e.rest), e.rest)
     | .err => .err
     | .panic => .panic)
  | .skipAsn1 tag _ =>
    (match CB.readASN1Tag s tag with
     | .ok (_, r) => .ok (.skipped, r)
     | .err => .err
     | .panic => .panic)
  | .skipOpt tag _ =>
    if !peekTag s tag then .ok (.absent, s)
    else (match CB.readASN1Tag s tag with
     | .ok (_, r) => .ok (.present, r)
     | .err => .err
     | .panic => .panic)
  | .noSkipOpt tag =>
    if !peekTag s tag then .ok (.absent, s)
    else (match CB.readASN1Tag s tag with
     | .ok (_, r) => .ok (.present, r)
     | .err => .err
     | .panic => .panic)
  | .bitsBytes _ =>
    (match CB.readASN1Tag s 3 with
     | .ok (body, r) =>
       (match body with
        | [] => .err
        | pad :: data => if pad ≠ 0 then .err else .ok (.bytes data, r))
     | .err => .err
     | .panic => .panic)

/-- the bytes of a whole element (`[]` where the Builder refuses it; such programs are never read). -/
def elemBytes (tag : UInt8) (bs : Bytes) : Bytes :=
  match CB.element tag bs with
  | .ok x => x
  | _ => []

/-- what the alternative reader must return for what was written -/
def altVal (a : Alt) : Val :=
  match a with
  | .skip _ => .skipped
  | .copy bs => .bytes bs
  | .elem tag bs => .bytes (elemBytes tag bs)
  | .any tag bs => .tagged tag bs
  | .anyElem tag bs => .tagged tag (elemBytes tag bs)
  | .skipAsn1 _ _ => .skipped
  | .skipOpt _ _ => .present
  | .noSkipOpt _ => .absent
  | .bitsBytes bs => .bytes bs

/-- read `body` inline (no framing), then `k` from what is left (`AddValue` has no reader of its own). -/
def inline (rb : Bytes → Res (List Val × Bytes)) (rk : Bytes → Res (List Val × Bytes))
    (s : Bytes) : Res (List Val × Bytes) :=
  match rb s with
  | .ok (vs, r) =>
    (match rk r with
     | .ok (ws, r2) => .ok (vs ++ ws, r2)
     | .err => .err
     | .panic => .panic)
  | .err => .err
  | .panic => .panic

def cons {α} (v : Val) (r : Res (List Val × α)) : Res (List Val × α) :=
  match r with
  | .ok (vs, x) => .ok (v :: vs, x)
  | .err => .err
  | .panic => .panic

/-- read `body` from `child` (must be consumed completely), then `k` from `rest`. -/
def nested (rb : Bytes → Res (List Val × Bytes)) (rk : Bytes → Res (List Val × Bytes))
    (child rest : Bytes) : Res (List Val × Bytes) :=
  match rb child with
  | .ok (vs, left) =>
    if left.isEmpty then
      (match rk rest with
       | .ok (ws, r) => .ok (vs ++ ws, r)
       | .err => .err
       | .panic => .panic)
    else .err
  | .err => .err
  | .panic => .panic

/-- the mirrored read program -/
def readProg : Prog → Bytes → Res (List Val × Bytes)
  | .done, s => .ok ([], s)
  | .uN w _ k, s =>
    (match readU w s with
     | .ok (v, r) => cons (.nat v) (readProg k r)
     | .err => .err
     | .panic => .panic)
  | .raw bs k, s =>
    (match readBytes bs.length s with
     | .ok (v, r) => cons (.bytes v) (readProg k r)
     | .err => .err
     | .panic => .panic)
  | .lp n body k, s =>
    (match readLengthPrefixed n s with
     | .ok (child, r) => nested (readProg body) (readProg k) child r
     | .err => .err
     | .panic => .panic)
  | .asn1 tag body k, s =>
    (match CB.readASN1Tag s tag with
     | .ok (child, r) => nested (readProg body) (readProg k) child r
     | .err => .err
     | .panic => .panic)
  | .int64 tag _ k, s =>
    (match CB.readInt64Tag s tag with
     | .ok (v, r) => cons (.int v) (readProg k r)
     | .err => .err
     | .panic => .panic)
  | .uint64 _ k, s =>
    (match CB.readUint64 s with
     | .ok (v, r) => cons (.nat v) (readProg k r)
     | .err => .err
     | .panic => .panic)
  | .big _ k, s =>
    (match CB.readBigInt s with
     | .ok (v, r) => cons (.int v) (readProg k r)
     | .err => .err
     | .panic => .panic)
  | .bool _ k, s =>
    (match CB.readBool s with
     | .ok (v, r) => cons (.bool v) (readProg k r)
     | .err => .err
     | .panic => .panic)
  | .oid _ k, s =>
    (match CB.readOID s with
     | .ok (v, r) => cons (.oid v) (readProg k r)
     | .err => .err
     | .panic => .panic)
  | .octets _ k, s =>
    (match CB.readASN1Tag s 4 with
     | .ok (v, r) => cons (.bytes v) (readProg k r)
     | .err => .err
     | .panic => .panic)
  | .bitstr _ k, s =>
    (match CB.readBitString s with
     | .ok (v, r) => cons (.bits v.bitLength v.bytes) (readProg k r)
     | .err => .err
     | .panic => .panic)
  | .null k, s =>
    (match CB.readASN1Tag s 5 with
     | .ok (_, r) => cons .null (readProg k r)
     | .err => .err
     | .panic => .panic)
  | .optAsn1 tag body k, s =>
    (match readOptionalASN1 s tag with
     | .ok (some child, r) => cons .present (nested (readProg body) (readProg k) child r)
     | .ok (none, r) => cons .absent (readProg k r)
     | .err => .err
     | .panic => .panic)
  | .noAsn1 tag k, s =>
    (match readOptionalASN1 s tag with
     | .ok (some _, r) => cons .present (readProg k r)
     | .ok (none, r) => cons .absent (readProg k r)
     | .err => .err
     | .panic => .panic)
  | .optInt tag _ dflt k, s =>
    (match readOptionalInt s tag dflt with
     | .ok (v, r) => cons (.int v) (readProg k r)
     | .err => .err
     | .panic => .panic)
  | .noInt tag dflt k, s =>
    (match readOptionalInt s tag dflt with
     | .ok (v, r) => cons (.int v) (readProg k r)
     | .err => .err
     | .panic => .panic)
  | .optOctets tag _ k, s =>
    (match readOptionalOctets s tag with
     | .ok (some v, r) => cons (.presentBytes v) (readProg k r)
     | .ok (none, r) => cons .absent (readProg k r)
     | .err => .err
     | .panic => .panic)
  | .noOctets tag k, s =>
    (match readOptionalOctets s tag with
     | .ok (some v, r) => cons (.presentBytes v) (readProg k r)
     | .ok (none, r) => cons .absent (readProg k r)
     | .err => .err
     | .panic => .panic)
  | .optBool _ dflt k, s =>
    (match readOptionalBool s dflt with
     | .ok (v, r) => cons (.bool v) (readProg k r)
     | .err => .err
     | .panic => .panic)
  | .noBool dflt k, s =>
    (match readOptionalBool s dflt with
     | .ok (v, r) => cons (.bool v) (readProg k r)
     | .err => .err
     | .panic => .panic)
  | .gtime _ k, s =>
    (match ZV.Time.CB.readGeneralizedTime s with
     | .ok (v, r) => cons (.time v) (readProg k r)
     | .err => .err
     | .panic => .panic)
  | .alt a k, s =>
    (match altRead a s with
     | .ok (v, r) => cons v (readProg k r)
     | .err => .err
     | .panic => .panic)
  | .setErr k, s => readProg k s
  | .value body _ k, s => inline (readProg body) (readProg k) s

/-- the values a program writes (what the mirrored read must return) -/
def values : Prog → List Val
  | .done => []
  | .uN _ v k => .nat v :: values k
  | .raw bs k => .bytes bs :: values k
  | .lp _ body k => values body ++ values k
  | .asn1 _ body k => values body ++ values k
  | .int64 _ v k => .int v :: values k
  | .uint64 v k => .nat v :: values k
  | .big v k => .int v :: values k
  | .bool v k => .bool v :: values k
  | .oid o k => .oid o :: values k
  | .octets bs k => .bytes bs :: values k
  | .bitstr bs k => .bits (bs.length * 8) bs :: values k
  | .null k => .null :: values k
  | .optAsn1 _ body k => .present :: (values body ++ values k)
  | .noAsn1 _ k => .absent :: values k
  | .optInt _ v _ k => .int v :: values k
  | .noInt _ d k => .int d :: values k
  | .optOctets _ bs k => .presentBytes bs :: values k
  | .noOctets _ k => .absent :: values k
  | .optBool v _ k => .bool v :: values k
  | .noBool d k => .bool d :: values k
  | .gtime t k => .time (ZV.Time.readBack t) :: values k
  | .alt a k => altVal a :: values k
  | .setErr k => values k
  | .value body _ k => values body ++ values k

end ZV.C21
