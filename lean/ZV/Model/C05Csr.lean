import ZV.Model.C05List
/-!
  `x509.CreateCertificateRequest` → `x509.ParseCertificateRequest` (x509/x509.go).

  * create side (`csrExts`, `encAttrs`, `createCSRInfo`, DER builder on the shared writer): the extension list
    `[subjectAltName, if there are SANs and ExtraExtensions has no subjectAltName] ++ ExtraExtensions`, written as ONE
    extensionRequest attribute (1.2.840.113549.1.9.14) `SEQUENCE { OID, SET { SEQUENCE OF SEQUENCE { OID, OCTET STRING } } }`
    — an `AttributeTypeAndValue{Type, Value}` per extension, so the Critical flag has no place (finding D34) — inside
    `[0] IMPLICIT` attributes (present and empty when there is no extension); version 0; subject = `RawSubject` verbatim;
    the SubjectPublicKeyInfo and the signature AlgorithmIdentifier are opaque parameters (results of `marshalPublicKey` /
    `signingParamsForPublicKey`).  Domain: `template.Attributes` empty, `RawSubject` non-empty.
  * parse side (`parseCSR`), at the level the Go code works: `asn1.Unmarshal` is `ZV.C18.unmarshal` (strict mode) on the
    schemas of the Go types (`csrSchema`, `rdnSchema`, `attrSchema`, `extsSchema`; tied to reflection by `c05 xsch`),
    then `parseCertificateRequest`: subject re-parsed as an RDNSequence (ANY values checked by `anyOk`),
    `parseCSRExtensions` (attributes that do not parse, have no value or another type are skipped; a bad extension list is an
    error), `parseSANExtension` for every subjectAltName extension (the last one wins).  `parsePublicKey` is opaque (T2 keeps
    the SubjectPublicKeyInfo of the malformed stream intact).
-/
namespace ZV.C05.Csr
open ZV ZV.Der ZV.C04 ZV.C05 ZV.C18

/-! ### schemas -/

def aiSchema : Schema := .struct (.fcons {} .oid (.fcons { optional := true } .raw .fnil))
/-- publicKeyInfo (`Raw asn1.RawContent` is not a field of the encoding) -/
def spkiSchema : Schema := .struct (.fcons {} aiSchema (.fcons {} .bits .fnil))
def tbsCsrSchema : Schema :=
  .struct (.fcons {} .int64 (.fcons {} .raw (.fcons {} spkiSchema (.fcons { tag := some 0 } (.seqOf false .raw) .fnil))))
def csrSchema : Schema := .struct (.fcons {} tbsCsrSchema (.fcons {} aiSchema (.fcons {} .bits .fnil)))
/-- `pkcs10Attribute` (a type local to `parseCSRExtensions`) -/
def attrSchema : Schema := .struct (.fcons {} .oid (.fcons { set := true } (.seqOf false .raw) .fnil))
/-- `[]pkix.Extension` -/
def extsSchema : Schema := .seqOf false (.struct (.fcons {} .oid (.fcons { optional := true } .bool (.fcons {} .octets .fnil))))
/-- pkix.RDNSequence with ANY read as a RawValue -/
def rdnSchema : Schema := .seqOf false (.seqOf true (.struct (.fcons {} .oid (.fcons {} .raw .fnil))))

/-! ### ANY (`interface{}`) values of a Name: the primitive parser selected by the universal tag must succeed -/

def anyPrim (tag : Nat) (inner : Bytes) : Bool :=
  if tag = 19 then (parsePrintableString false inner).isOk
  else if tag = 18 then (parseNumericString false inner).isOk
  else if tag = 22 then (parseIA5String false inner).isOk
  else if tag = 20 then true
  else if tag = 12 then (parseUTF8String false inner).isOk
  else if tag = 2 then (C18.parseInt64 false inner).isOk
  else if tag = 3 then (C18.parseBitString inner).isOk
  else if tag = 6 then (parseOID inner).isOk
  else if tag = 23 then (ZV.Time.EA.parseUTCTime false inner).isOk
  else if tag = 24 then (ZV.Time.EA.parseGeneralizedTime false inner).isOk
  else if tag = 4 then true
  else if tag = 30 then (parseBMPString inner).isOk
  else true

def anyOk : Val → Bool
  | .raw cls tag compound inner _ => if !compound && cls == 0 then anyPrim tag inner else true
  | _ => true

def atvOk : Val → Bool
  | .vcons _ (.vcons r .vnil) => anyOk r
  | _ => true

def allChain (f : Val → Bool) : Val → Bool
  | .vcons v rest => f v && allChain f rest
  | _ => true

def chainList : Val → List Val
  | .vcons v r => v :: chainList r
  | _ => []

/-- `asn1.Unmarshal(bs, &v)` with "trailing data" as an error -/
def unAll (s : Schema) (bs : Bytes) : Res Val :=
  match unmarshal false s {} bs with
  | .ok (v, rest) => if rest.isEmpty then .ok v else .err
  | .err => .err
  | .panic => .err

/-! ### parse side -/

structure PX where
  oid : List Int
  critical : Bool
  value : Bytes
  deriving Repr, DecidableEq

def extOfVal : Val → Option PX
  | .vcons (.oid a) (.vcons (.bool c) (.vcons (.bytes v) .vnil)) => some ⟨a, c, v⟩
  | .vcons (.oid a) (.vcons (.bool c) (.vcons .null .vnil)) => some ⟨a, c, []⟩
  | _ => none

def oidExtReqI : List Int := [1, 2, 840, 113549, 1, 9, 14]
def oidSANI : List Int := [2, 5, 29, 17]

/-- one iteration of the loop of `parseCSRExtensions`: `none` = `continue`, `some .err` = the function returns the error -/
def attrExts (raw : Val) : Option (Res (List PX)) :=
  match raw with
  | .raw _ _ _ _ full =>
    (match unmarshal false attrSchema {} full with
     | .ok (.vcons (.oid id) (.vcons vals .vnil), rest) =>
       if !rest.isEmpty then none
       else match vals with
         | .vcons (.raw _ _ _ _ vfull) _ =>
           if id ≠ oidExtReqI then none
           else (match unmarshal false extsSchema {} vfull with
                 | .ok (xs, _) => some (.ok ((chainList xs).filterMap extOfVal))
                 | _ => some .err)
         | _ => none
     | _ => none)
  | _ => none

def csrExtensionsOf : List Val → Res (List PX)
  | [] => .ok []
  | a :: as =>
    match attrExts a with
    | none => csrExtensionsOf as
    | some (.ok xs) => (csrExtensionsOf as).bind fun r => .ok (xs ++ r)
    | some _ => .err

structure SANs where
  dns : List Bytes := []
  email : List Bytes := []
  ips : List Bytes := []
  deriving Repr, DecidableEq

/-- the loop of `parseSANExtension` (fuel = remaining length) -/
def sanLoop : Nat → Bytes → SANs → Res SANs
  | 0, bs, acc => if bs.isEmpty then .ok acc else .err
  | f + 1, bs, acc =>
    if bs.isEmpty then .ok acc
    else match unmarshal false .raw {} bs with
      | .ok (.raw _ tag _ inner _, rest) =>
        if tag = 1 then sanLoop f rest { acc with email := acc.email ++ [inner] }
        else if tag = 2 then sanLoop f rest { acc with dns := acc.dns ++ [inner] }
        else if tag = 7 then
          (if inner.length = 4 ∨ inner.length = 16 then sanLoop f rest { acc with ips := acc.ips ++ [inner] } else .err)
        else sanLoop f rest acc
      | _ => .err

def parseSANExt (value : Bytes) : Res SANs :=
  match unmarshal false .raw {} value with
  | .ok (.raw cls tag comp inner _, rest) =>
    if !rest.isEmpty then .err
    else if !comp ∨ tag ≠ 16 ∨ cls ≠ 0 then .err
    else sanLoop inner.length inner {}
  | _ => .err

/-- `for _, extension := range out.Extensions { if SAN { parseSANExtension } }` -/
def sansOf : List PX → SANs → Res SANs
  | [], acc => .ok acc
  | x :: xs, acc =>
    if x.oid = oidSANI then (parseSANExt x.value).bind fun s => sansOf xs s
    else sansOf xs acc

structure PCSR where
  version : Int
  rawSubject : Bytes
  sigBits : Bytes × Int
  exts : List PX
  sans : SANs
  deriving Repr, DecidableEq

def parseCSR (der : Bytes) : Res PCSR :=
  match unAll csrSchema der with
  | .ok (.vcons (.vcons (.int ver) (.vcons (.raw _ _ _ _ subj) (.vcons _spki (.vcons attrs .vnil))))
          (.vcons _alg (.vcons (.bits sb sn) .vnil))) =>
    (match unAll rdnSchema subj with
     | .ok rdn =>
       if !allChain (allChain atvOk) rdn then .err
       else
         (csrExtensionsOf (chainList attrs)).bind fun xs =>
         (sansOf xs {}).bind fun s => .ok ⟨ver, subj, (sb, sn), xs, s⟩
     | _ => .err)
  | .ok _ => .err
  | .err => .err
  | .panic => .err

/-! ### create side -/

structure CsrTmpl where
  subject : Bytes
  dns : List Bytes
  email : List Bytes
  ips : List Bytes
  extras : List EExt
  deriving Repr, DecidableEq

def oidExtReq : List Nat := [1, 2, 840, 113549, 1, 9, 14]

def hasSANs (t : CsrTmpl) : Bool := !t.dns.isEmpty || !t.email.isEmpty || !t.ips.isEmpty

/-- the extension list of the request -/
def csrExts (t : CsrTmpl) : List EExt :=
  (if hasSANs t && !inExtra oidSAN (t.extras.map fun x => ⟨x.oid, x.critical, x.value⟩)
   then [⟨oidSAN, false, buildSAN t.dns t.email t.ips⟩] else []) ++ t.extras

/-- `pkix.AttributeTypeAndValue{Type: e.Id, Value: e.Value}` — "There is no place for the critical flag in a CSR." -/
def encAtv (x : EExt) : Option Bytes :=
  match encOID x.oid with
  | some o => some (tlv 0x30 (tlv 0x06 o ++ tlv 0x04 x.value))
  | none => none

def encAttrs (xs : List EExt) : Option Bytes :=
  if xs.isEmpty then some []
  else
    match xs.mapM encAtv, encOID oidExtReq with
    | some as, some o => some (tlv 0x30 (tlv 0x06 o ++ tlv 0x31 (tlv 0x30 as.flatten)))
    | _, _ => none

/-- `asn1.Marshal(tbsCSR)` -/
def createCSRInfo (spki : Bytes) (t : CsrTmpl) : Res Bytes :=
  match encAttrs (csrExts t) with
  | some a => .ok (tlv 0x30 ([2, 1, 0] ++ (t.subject ++ (spki ++ tlv 0xA0 a))))
  | none => .err

def createCSR (sigAI spki : Bytes) (t : CsrTmpl) (sig : Bytes) : Res Bytes :=
  (createCSRInfo spki t).bind fun tbs => .ok (wrapSigned tbs sigAI sig)

end ZV.C05.Csr

/-! ### legacy `(*Certificate).CreateCRL` (create side)

  `asn1.Marshal(pkix.TBSCertificateList{Version: 1, Signature, Issuer: c.Subject.ToRDNSequence(), ThisUpdate: now.UTC(),
  NextUpdate: expiry.UTC(), RevokedCertificates: revokedCertsUTC, Extensions: [AKI] if the certificate has a subject key id})`.
  The issuer Name encoding and the signature AlgorithmIdentifier are opaque parameters; entry extensions are written verbatim
  (no reason-code synthesis); `revokedCertificates` is ALWAYS written (the slice is `make(…, len)`: empty but non-nil, so the
  OPTIONAL rule does not drop it — unlike the v2 path); `nextUpdate` is dropped for the zero time; no cRLNumber. -/
namespace ZV.C05.Legacy
open ZV ZV.Der ZV.C04 ZV.C05

structure CRLEntry where
  serial : Int
  time : GoTime
  exts : List EExt
  deriving Repr, DecidableEq

def encCRLEntry (e : CRLEntry) : Res Bytes :=
  match e.exts.mapM encExtension with
  | none => .err
  | some xs =>
    match encTimeG (utc e.time) with
    | .ok tb => .ok (tlv 0x30 (tlv 0x02 (encBigInt e.serial) ++ (tb ++ encExtsField xs)))
    | .err => .err
    | .panic => .panic

def createLegacyTBS (sigAI issuerName ski : Bytes) (es : List CRLEntry) (now expiry : GoTime) : Res Bytes :=
  (mapRes encCRLEntry es).bind fun revoked =>
  (encTimeG (utc now)).bind fun tu =>
  (encNextUpdate expiry).bind fun nu =>
  match (if ski.isEmpty then some [] else (encExtension ⟨oidAKI, false, buildAKI ski⟩).map fun x => tlv 0xA0 (tlv 0x30 x)) with
  | none => .err
  | some xs =>
    .ok (tlv 0x30 (tlv 0x02 [1] ++ (sigAI ++ (issuerName ++ (tu ++ (nu ++ (tlv 0x30 revoked.flatten ++ xs)))))))

end ZV.C05.Legacy
