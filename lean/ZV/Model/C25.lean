import ZV.Base
import ZV.Hash.HMAC
/-!
  C25 — executable model of the TLS record protection code of zcrypto

    tls/conn.go           extractPadding, roundUp, (*halfConn).incSeq / explicitNonceLen / decrypt / encrypt,
                          (*Conn).maxPayloadSizeForWrite, writeRecordLocked, readRecordOrCCS
    tls/cipher_suites.go  prefixNonceAEAD, xorNonceAEAD, tls10MAC

  One Lean function per Go function, same order of checks.  The cryptographic primitives are
  PARAMETERS: a stream cipher is a function `σ → Bytes → Bytes × σ` (XORKeyStream on a state), a CBC
  mode is a `Cbc σ` (BlockSize / SetIV / CryptBlocks), an AEAD is an `Aead` (Seal / Open / Overhead /
  explicitNonceLen), a MAC is a `Mac` (Size, and the keyed hash of the bytes written between Reset and
  Sum).  Their laws are hypotheses of the theorems in `ZV.Props.C25`, never of the model.

  The last section defines toy primitives (XOR keystream, reverse/xor block cipher in CBC mode, additive
  tag AEAD); the Go harness defines the same toys and runs the REAL halfConn code over them, so that
  every framing / nonce / additional-data / padding / MAC-placement byte is compared (T2).
-/
namespace ZV.C25

/-! ### constants (tls/common.go) -/
def maxPlaintext : Nat := 16384
def maxCiphertext : Nat := 16384 + 2048
def maxCiphertextTLS13 : Nat := 16384 + 256
def recordHeaderLen : Nat := 5
def maxUselessRecords : Nat := 16
def VersionTLS10 : Nat := 0x0301
def VersionTLS11 : Nat := 0x0302
def VersionTLS12 : Nat := 0x0303
def VersionTLS13 : Nat := 0x0304
def recordTypeChangeCipherSpec : UInt8 := 20
def recordTypeAlert : UInt8 := 21
def recordTypeHandshake : UInt8 := 22
def recordTypeApplicationData : UInt8 := 23
def tcpMSSEstimate : Int := 1208
def recordSizeBoostThreshold : Int := 128 * 1024

/-! ### extractPadding (bit-exact) -/

/-- Go `byte(int32(^t) >> 31)` for `t : uint` (64 bit): complement, truncate to the low 32 bits, read
    them as signed, arithmetic shift by 31, truncate to a byte. -/
def msbMask (t : UInt64) : UInt8 := ((~~~t).toUInt32.toInt32 >>> 31).toInt8.toUInt8

/-- iterations `i, i+1, …` of the checking loop; the list holds `payload[len-1-i], payload[len-2-i], …`
    (already cut to the `toCheck` bytes the loop visits). `good &^= mask&paddingLen ^ mask&b`. -/
def padLoop (paddingLen : UInt8) : Nat → List UInt8 → UInt8 → UInt8
  | _, [], good => good
  | i, b :: rest, good =>
    let t : UInt64 := paddingLen.toUInt64 - UInt64.ofNat i
    let mask := msbMask t
    padLoop paddingLen (i + 1) rest (good &&& ~~~((mask &&& paddingLen) ^^^ (mask &&& b)))

/-- `good &= good << 4; good &= good << 2; good &= good << 1; good = uint8(int8(good) >> 7)` -/
def foldGood (g : UInt8) : UInt8 :=
  let g1 := g &&& (g <<< 4)
  let g2 := g1 &&& (g1 <<< 2)
  let g3 := g2 &&& (g2 <<< 1)
  (g3.toInt8 >>> 7).toUInt8

def extractPadding (payload : Bytes) : Nat × UInt8 :=
  match payload.reverse with
  | [] => (0, 0)
  | paddingLen :: restRev =>
    let t : UInt64 := UInt64.ofNat (payload.length - 1) - paddingLen.toUInt64
    let good0 := msbMask t
    let toCheck := if 256 > payload.length then payload.length else 256
    let good1 := padLoop paddingLen 0 ((paddingLen :: restRev).take toCheck) good0
    let good := foldGood good1
    ((paddingLen &&& good).toNat + 1, good)

/-- `a + (b-a%b)%b` (Go panics on `b = 0`; callers pass a block size) -/
def roundUp (a b : Nat) : Nat := a + (b - a % b) % b

/-! ### the primitives as parameters -/

/-- `hash.Hash` as used by `tls10MAC`: `Size()` and the result of `Reset; Write…; Sum`. -/
structure Mac where
  size : Nat
  sum : Bytes → Bytes

/-- the unexported `aead` interface: `Seal(nonce, plaintext, ad)`, `Open(nonce, ciphertext, ad)`,
    `Overhead()`, `explicitNonceLen()`. -/
structure Aead where
  sealFn : Bytes → Bytes → Bytes → Bytes
  openFn : Bytes → Bytes → Bytes → Option Bytes
  overhead : Nat
  explicitNonceLen : Nat

/-- `cbcMode`: `BlockSize`, `SetIV`, `CryptBlocks` (in place, returns the new chaining state). -/
structure Cbc (σ : Type) where
  blockSize : Nat
  setIV : σ → Bytes → σ
  cryptBlocks : σ → Bytes → Bytes × σ

/-- `halfConn.cipher` / `halfConn.mac` — the four shapes built by cipher_suites.go (`mac == nil` exactly
    for AEAD suites and before the first ChangeCipherSpec). -/
inductive Cipher (σ : Type) where
  | null
  | stream (xorKeyStream : σ → Bytes → Bytes × σ) (mac : Mac)
  | aead (a : Aead)
  | cbc (c : Cbc σ) (mac : Mac)

structure HalfConn (σ : Type) where
  version : Nat
  cipher : Cipher σ
  /-- mutable state of the cipher object (stream position / CBC chaining value) -/
  st : σ
  /-- `seq [8]byte` -/
  seq : Bytes

/-! ### cipher_suites.go: nonce wrappers and the MAC input -/

/-- `cipher.AEAD` (the inner AES-GCM / ChaCha20-Poly1305 object) -/
structure InnerAead where
  sealFn : Bytes → Bytes → Bytes → Bytes
  openFn : Bytes → Bytes → Bytes → Option Bytes
  overhead : Nat

/-- Go `copy(dst, src)` where `dst` is a fixed array tail: overwrite a prefix, keep the length. -/
def copyInto : Bytes → Bytes → Bytes
  | _ :: ds, s :: ss => s :: copyInto ds ss
  | ds, [] => ds
  | [], _ :: _ => []

/-- `for i, b := range nonce { f.nonceMask[4+i] ^= b }` on the tail `nonceMask[4:]`
    (an out-of-range index cannot occur: `nonce` is the 8-byte sequence number, the tail has 8 bytes). -/
def xorInto : Bytes → Bytes → Bytes
  | d :: ds, s :: ss => (d ^^^ s) :: xorInto ds ss
  | ds, [] => ds
  | [], _ :: _ => []

/-- `prefixNonceAEAD`: `copy(f.nonce[4:], nonce)`, then the inner AEAD on all 12 bytes.
    `fixed` is the 12-byte array `f.nonce` (prefix in the first four bytes). The call always passes
    eight bytes, so the array tail is fully overwritten and the wrapper is stateless. -/
def prefixNonce (fixed nonce : Bytes) : Bytes := fixed.take 4 ++ copyInto (fixed.drop 4) nonce

def prefixNonceAEAD (inner : InnerAead) (fixed : Bytes) : Aead :=
  { sealFn := fun nonce pt ad => inner.sealFn (prefixNonce fixed nonce) pt ad
    openFn := fun nonce ct ad => inner.openFn (prefixNonce fixed nonce) ct ad
    overhead := inner.overhead
    explicitNonceLen := 8 }

/-- `xorNonceAEAD`: `nonceMask[4+i] ^= nonce[i]` around the call (restored afterwards). -/
def xorNonce (mask nonce : Bytes) : Bytes := mask.take 4 ++ xorInto (mask.drop 4) nonce

def xorNonceAEAD (inner : InnerAead) (mask : Bytes) : Aead :=
  { sealFn := fun nonce pt ad => inner.sealFn (xorNonce mask nonce) pt ad
    openFn := fun nonce ct ad => inner.openFn (xorNonce mask nonce) ct ad
    overhead := inner.overhead
    explicitNonceLen := 0 }

/-- `tls10MAC(h, out, seq, header, data, extra)`: `extra` is written after `Sum` and does not
    influence the result. -/
def tls10MAC (m : Mac) (seq header data : Bytes) : Bytes := m.sum (seq ++ header ++ data)

/-! ### halfConn -/

/-- loop of `incSeq` from index 7 downwards on the reversed array; `none` = fell out of the loop. -/
def incSeqRev : List UInt8 → Option (List UInt8)
  | [] => none
  | b :: rest =>
    if b + 1 != 0 then some ((b + 1) :: rest)
    else match incSeqRev rest with
      | none => none
      | some r => some (0 :: r)

/-- `incSeq`: panics on wrap-around. -/
def incSeq (seq : Bytes) : Res Bytes :=
  match incSeqRev seq.reverse with
  | none => .panic
  | some r => .ok r.reverse

def explicitNonceLen {σ} (hc : HalfConn σ) : Nat :=
  match hc.cipher with
  | .null => 0
  | .stream _ _ => 0
  | .aead a => a.explicitNonceLen
  | .cbc c _ => if hc.version ≥ VersionTLS11 then c.blockSize else 0

/-- `byte(n)` of a Go `int` -/
def byteOf (n : Int) : UInt8 := UInt8.ofNat (Int.emod n 256).toNat
/-- `byte(n >> 8), byte(n)` -/
def be16 (n : Int) : Bytes := [byteOf (Int.ediv n 256), byteOf n]

/-- TLS 1.3 inner plaintext scan `for i := len-1; i >= 0; i--` on the reversed plaintext:
    first non-zero byte = content type; `none` = reached `i == 0` on a zero byte. -/
def strip13Rev : List UInt8 → Option (UInt8 × List UInt8)
  | [] => none
  | b :: rest => if b != 0 then some (b, rest) else strip13Rev rest

/-- the `if hc.version == VersionTLS13` block of decrypt (runs for every non-nil cipher). -/
def decrypt13 (version : Nat) (typ : UInt8) (plaintext : Bytes) : Res (UInt8 × Bytes) :=
  if version == VersionTLS13 then
    if typ != recordTypeApplicationData then .err
    else if plaintext.length > maxPlaintext + 1 then .err
    else match plaintext with
      | [] => .ok (typ, plaintext)
      | _ :: _ =>
        match strip13Rev plaintext.reverse with
        | none => .err
        | some (t, rest) => .ok (t, rest.reverse)
  else .ok (typ, plaintext)

/-- the `if hc.mac != nil` block of decrypt; `hdr3` = `record[:3]`. Returns the plaintext. -/
def decryptMac (mac : Mac) (seq hdr3 payload : Bytes) (paddingLen : Nat) (paddingGood : UInt8) : Res Bytes :=
  let macSize := mac.size
  if payload.length < macSize then .err
  else
    let n0 : Int := (payload.length : Int) - macSize - paddingLen
    let n : Nat := if n0 < 0 then 0 else n0.toNat
    let remoteMAC := (payload.drop n).take macSize
    let localMAC := tls10MAC mac seq (hdr3 ++ be16 n) (payload.take n)
    let cmp : Nat := if localMAC == remoteMAC then 1 else 0
    if cmp &&& paddingGood.toNat != 1 then .err
    else .ok (payload.take n)

/-- `decrypt`: result = (plaintext, content type, halfConn afterwards). `panic` for a record shorter
    than a header (slice out of range) and on sequence-number wrap-around. -/
def decrypt {σ} (hc : HalfConn σ) (record : Bytes) : Res (Bytes × UInt8 × HalfConn σ) :=
  match record with
  | typ :: v1 :: v2 :: _ :: _ :: payload =>
    if hc.version == VersionTLS13 && typ == recordTypeChangeCipherSpec then .ok (payload, typ, hc)
    else
      let eNL := explicitNonceLen hc
      match hc.cipher with
      | .null =>
        match incSeq hc.seq with
        | .ok s => .ok (payload, typ, { hc with seq := s })
        | _ => .panic
      | .stream xorKeyStream mac =>
        match xorKeyStream hc.st payload with
        | (payload, st) =>
          match decrypt13 hc.version typ [] with
          | .ok (typ, _) =>
            match decryptMac mac hc.seq [typ, v1, v2] payload 0 255 with
            | .ok plaintext =>
              match incSeq hc.seq with
              | .ok s => .ok (plaintext, typ, { hc with seq := s, st := st })
              | _ => .panic
            | .err => .err
            | .panic => .panic
          | .err => .err
          | .panic => .panic
      | .aead a =>
        if payload.length < eNL then .err
        else
          let nonce0 := payload.take eNL
          let nonce := if nonce0.length == 0 then hc.seq else nonce0
          let payload := payload.drop eNL
          let additionalData :=
            if hc.version == VersionTLS13 then record.take recordHeaderLen
            else hc.seq ++ [typ, v1, v2] ++ be16 ((payload.length : Int) - a.overhead)
          match a.openFn nonce payload additionalData with
          | none => .err
          | some plaintext =>
            match decrypt13 hc.version typ plaintext with
            | .ok (typ, plaintext) =>
              match incSeq hc.seq with
              | .ok s => .ok (plaintext, typ, { hc with seq := s })
              | _ => .panic
            | .err => .err
            | .panic => .panic
      | .cbc c mac =>
        let blockSize := c.blockSize
        let minPayload := eNL + roundUp (mac.size + 1) blockSize
        if payload.length % blockSize != 0 || payload.length < minPayload then .err
        else
          let st1 := if eNL > 0 then c.setIV hc.st (payload.take eNL) else hc.st
          let payload := if eNL > 0 then payload.drop eNL else payload
          match c.cryptBlocks st1 payload with
          | (payload, st) =>
            match extractPadding payload with
            | (paddingLen, paddingGood) =>
              match decrypt13 hc.version typ [] with
              | .ok (typ, _) =>
                match decryptMac mac hc.seq [typ, v1, v2] payload paddingLen paddingGood with
                | .ok plaintext =>
                  match incSeq hc.seq with
                  | .ok s => .ok (plaintext, typ, { hc with seq := s, st := st })
                  | _ => .panic
                | .err => .err
                | .panic => .panic
              | .err => .err
              | .panic => .panic
  | _ => .panic

/-- final part of encrypt: `n := len(record) - recordHeaderLen; record[3], record[4] = n; incSeq`. -/
def finishEncrypt {σ} (hc : HalfConn σ) (st : σ) (typ v1 v2 : UInt8) (body rand : Bytes) :
    Res (Bytes × HalfConn σ × Bytes) :=
  match incSeq hc.seq with
  | .ok s => .ok ([typ, v1, v2] ++ be16 body.length ++ body, { hc with seq := s, st := st }, rand)
  | _ => .panic

/-- `encrypt(record, payload, rand)` with `record` = the 5-byte header written by writeRecordLocked
    (any other length: `panic`, outside the modelled domain). `rand` = the bytes the reader will
    deliver; result = (record, halfConn afterwards, unread rand bytes); `err` = rand ran dry. -/
def encrypt {σ} (hc : HalfConn σ) (record payload rand : Bytes) : Res (Bytes × HalfConn σ × Bytes) :=
  match record with
  | [typ, v1, v2, l1, l2] =>
    match hc.cipher with
    | .null => .ok (record ++ payload, hc, rand)
    | .stream xorKeyStream mac =>
      let m := tls10MAC mac hc.seq record payload
      match xorKeyStream hc.st payload with
      | (c1, st1) =>
        match xorKeyStream st1 m with
        | (c2, st2) => finishEncrypt hc st2 typ v1 v2 (c1 ++ c2) rand
    | .aead a =>
      let eNL := a.explicitNonceLen
      -- explicit nonce: the sequence number (AEAD with an explicit nonce shorter than 16) or random
      let fromRand := eNL > 0 && !(eNL < 16)
      if fromRand && rand.length < eNL then .err
      else
        let explicitNonce :=
          if eNL > 0 then (if eNL < 16 then copyInto (List.replicate eNL 0) hc.seq else rand.take eNL) else []
        let rand := if fromRand then rand.drop eNL else rand
        let nonce := if explicitNonce.length == 0 then hc.seq else explicitNonce
        if hc.version == VersionTLS13 then
          let inner := explicitNonce ++ payload ++ [typ]
          let hdr := [recordTypeApplicationData, v1, v2] ++ be16 ((payload.length : Int) + 1 + a.overhead)
          finishEncrypt hc hc.st recordTypeApplicationData v1 v2 (a.sealFn nonce inner hdr) rand
        else
          let additionalData := hc.seq ++ [typ, v1, v2, l1, l2]
          finishEncrypt hc hc.st typ v1 v2 (explicitNonce ++ a.sealFn nonce payload additionalData) rand
    | .cbc c mac =>
      let eNL := explicitNonceLen hc
      if eNL > 0 && rand.length < eNL then .err
      else
        let explicitNonce := if eNL > 0 then rand.take eNL else []
        let rand := if eNL > 0 then rand.drop eNL else rand
        let m := tls10MAC mac hc.seq record payload
        let blockSize := c.blockSize
        let plaintextLen := payload.length + m.length
        let paddingLen := blockSize - plaintextLen % blockSize
        let dst := payload ++ m ++ List.replicate paddingLen (UInt8.ofNat (paddingLen - 1))
        let st1 := if explicitNonce.length > 0 then c.setIV hc.st explicitNonce else hc.st
        match c.cryptBlocks st1 dst with
        | (ct, st2) => finishEncrypt hc st2 typ v1 v2 (explicitNonce ++ ct) rand
  | _ => .panic

/-! ### Conn: record sizing, fragmentation, record-length checks -/

structure Conn (σ : Type) where
  vers : Nat
  haveVers : Bool
  handshakeComplete : Bool
  dynamicRecordSizingDisabled : Bool
  buffering : Bool
  bytesSent : Int
  packetsSent : Int
  retryCount : Nat
  hc : HalfConn σ      -- `c.out` for the write functions, `c.in` for readRecord
  hand : Bytes

/-- Go `payloadBytes & ^(blockSize - 1)` on 64-bit ints -/
def andNotMask (payloadBytes blockSize : Int) : Int :=
  (Int64.ofInt payloadBytes &&& ~~~(Int64.ofInt (blockSize - 1))).toInt

/-- tail of `maxPayloadSizeForWrite` ("allow packet growth in arithmetic progression up to max"):
    `pkt := c.packetsSent; c.packetsSent++; …` -/
def growPayload (payloadBytes pkt : Int) : Int × Int :=
  if pkt > 1000 then (maxPlaintext, pkt + 1)
  else
    let n := payloadBytes * (pkt + 1)
    if n > maxPlaintext then (maxPlaintext, pkt + 1) else (n, pkt + 1)

/-- `maxPayloadSizeForWrite`: result and the new `packetsSent`. -/
def maxPayloadSizeForWrite {σ} (c : Conn σ) (typ : UInt8) : Int × Int :=
  if c.dynamicRecordSizingDisabled || typ != recordTypeApplicationData then (maxPlaintext, c.packetsSent)
  else if c.bytesSent ≥ recordSizeBoostThreshold then (maxPlaintext, c.packetsSent)
  else
    let payloadBytes0 : Int := tcpMSSEstimate - recordHeaderLen - explicitNonceLen c.hc
    let payloadBytes1 : Int :=
      match c.hc.cipher with
      | .null => payloadBytes0
      | .stream _ mac => payloadBytes0 - mac.size
      | .aead a => payloadBytes0 - a.overhead
      | .cbc cb mac => (andNotMask payloadBytes0 cb.blockSize - 1) - mac.size
    let payloadBytes : Int := if c.vers == VersionTLS13 then payloadBytes1 - 1 else payloadBytes1
    growPayload payloadBytes c.packetsSent

/-- the record-layer version written by writeRecordLocked -/
def recordVersion (vers : Nat) : Nat :=
  if vers == 0 then VersionTLS10 else if vers == VersionTLS13 then VersionTLS12 else vers

structure WriteOut (σ : Type) where
  n : Nat
  records : List Bytes
  /-- ghost: the plaintext fragments `data[:m]` handed to `encrypt`, in order -/
  frags : List Bytes
  conn : Conn σ
  rand : Bytes

/-- the `for len(data) > 0` loop of writeRecordLocked. `m ≤ 0` (possible only with absurd overheads,
    see `maxPayload_pos`) is a slice-bounds panic for `m < 0` and a non-terminating loop for `m = 0`
    in Go; the model reports `panic` for both. -/
def writeLoop {σ} (c : Conn σ) (typ : UInt8) (data rand : Bytes) (n : Nat) (acc facc : List Bytes) :
    Res (WriteOut σ) :=
  match _hd : data with
  | [] => .ok ⟨n, acc.reverse, facc.reverse, c, rand⟩
  | _ :: _ =>
    match maxPayloadSizeForWrite c typ with
    | (maxPayload, pkts) =>
      if _hm : maxPayload ≤ 0 then .panic
      else
        let m : Nat := if data.length > maxPayload.toNat then maxPayload.toNat else data.length
        let vers := recordVersion c.vers
        let hdr : Bytes := [typ, UInt8.ofNat (vers / 256), UInt8.ofNat vers] ++ be16 m
        match encrypt c.hc hdr (data.take m) rand with
        | .ok (rec, hc', rand') =>
          let sent : Int := if c.buffering then c.bytesSent else c.bytesSent + rec.length
          writeLoop { c with hc := hc', packetsSent := pkts, bytesSent := sent } typ (data.drop m) rand'
            (n + m) (rec :: acc) (data.take m :: facc)
        | .err => .err
        | .panic => .panic
termination_by data.length
decreasing_by
  subst _hd
  simp only [List.length_drop, List.length_cons]
  split <;> omega

/-- `writeRecordLocked(typ, data)`. A ChangeCipherSpec record below TLS 1.3 ends in
    `c.out.changeCipherSpec()`, which fails with `nextCipher == nil` — the only state this model has. -/
def writeRecordLocked {σ} (c : Conn σ) (typ : UInt8) (data rand : Bytes) : Res (WriteOut σ) :=
  match writeLoop c typ data rand 0 [] [] with
  | .ok w => if typ == recordTypeChangeCipherSpec && c.vers != VersionTLS13 then .err else .ok w
  | .err => .err
  | .panic => .panic

inductive ReadOut (σ : Type) where
  | data (input : Bytes) (c : Conn σ) (rest : Bytes)
  | hand (c : Conn σ) (rest : Bytes)
  | err (retryCount : Nat)
  | panic

/-- `readRecordOrCCS(false)` on the bytes `raw` available from the transport (header and payload
    checks, decrypt, maxPlaintext check, content-type switch, bounded retry). -/
def readRecord {σ} (c : Conn σ) (raw : Bytes) : ReadOut σ :=
  match _hraw : raw with
  | typ :: v1 :: v2 :: l1 :: l2 :: body =>
    if !c.handshakeComplete && typ == 0x80 then .err c.retryCount
    else
      let vers := v1.toNat * 256 + v2.toNat
      let n := l1.toNat * 256 + l2.toNat
      if c.haveVers && c.vers != VersionTLS13 && vers != c.vers then .err c.retryCount
      else if !c.haveVers && ((typ != recordTypeAlert && typ != recordTypeHandshake) || vers ≥ 0x1000) then
        .err c.retryCount
      else if (c.vers == VersionTLS13 && n > maxCiphertextTLS13) || n > maxCiphertext then .err c.retryCount
      else if body.length < n then .err c.retryCount
      else
        let rest := body.drop n
        match decrypt c.hc (typ :: v1 :: v2 :: l1 :: l2 :: body.take n) with
        | .err => .err c.retryCount
        | .panic => .panic
        | .ok (data, typ, hc') =>
          if data.length > maxPlaintext then .err c.retryCount
          else
            let isNull := match c.hc.cipher with | .null => true | _ => false
            if isNull && typ == recordTypeApplicationData then .err c.retryCount
            else
              let rc := if typ != recordTypeAlert && typ != recordTypeChangeCipherSpec && data.length > 0 then 0
                        else c.retryCount
              let c1 : Conn σ := { c with hc := hc', retryCount := rc }
              if c.vers == VersionTLS13 && typ != recordTypeHandshake && c.hand.length > 0 then .err rc
              else
                let retry : Unit → ReadOut σ := fun _ =>
                  if rc + 1 > maxUselessRecords then .err (rc + 1)
                  else readRecord { c1 with retryCount := rc + 1 } rest
                if typ == recordTypeAlert then
                  match data with
                  | [level, desc] =>
                    if desc == 0 then .err rc
                    else if c.vers == VersionTLS13 then .err rc
                    else if level == 1 then retry ()
                    else .err rc
                  | _ => .err rc
                else if typ == recordTypeChangeCipherSpec then
                  if data != [1] then .err rc
                  else if c.hand.length > 0 then .err rc
                  else if c.vers == VersionTLS13 then retry ()
                  else .err rc
                else if typ == recordTypeApplicationData then
                  if !c.handshakeComplete then .err rc
                  else if data.length == 0 then retry ()
                  else .data data c1 rest
                else if typ == recordTypeHandshake then
                  if data.length == 0 then .err rc
                  else .hand { c1 with hand := c.hand ++ data } rest
                else .err rc
  | _ => .err c.retryCount
termination_by raw.length
decreasing_by
  all_goals
    subst _hraw
    simp only [List.length_drop, List.length_cons]
    omega

/-! ### transport segmentation: readFromUntil / atLeastReader / bytes.Buffer.ReadFrom -/

inductive IoErr where
  | eof            -- io.EOF
  | unexpectedEOF  -- io.ErrUnexpectedEOF
  deriving DecidableEq, Repr

/-- `c.rawInput.ReadFrom(&atLeastReader{r, need})` for `need > 0`. The transport is the list of byte
    chunks its successive `Read` calls return (a chunk may be empty: `(0, nil)`); after the last chunk it
    returns `(0, io.EOF)` (or returns the last chunk together with `io.EOF` — `atLeastReader` maps both to
    the same results). `atLeastReader` stops the loop as soon as `need` bytes have arrived, and turns an
    early EOF into `io.ErrUnexpectedEOF`. Result: rawInput, remaining transport, error. -/
def readAtLeast (raw : Bytes) (need : Nat) : List Bytes → Bytes × List Bytes × Option IoErr
  | [] => (raw, [], some .unexpectedEOF)
  | b :: rest =>
    if need ≤ b.length then (raw ++ b, rest, none)
    else readAtLeast (raw ++ b) (need - b.length) rest

/-- `readFromUntil(c.conn, n)` -/
def readFromUntil (raw : Bytes) (n : Nat) (chunks : List Bytes) : Bytes × List Bytes × Option IoErr :=
  if raw.length ≥ n then (raw, chunks, none) else readAtLeast raw (n - raw.length) chunks

/-! ### readRecordOrCCS in full: both values of expectChangeCipherSpec, alerts, sticky error, cipher change -/

def alertCloseNotify : Nat := 0
def alertUnexpectedMessage : Nat := 10
def alertBadRecordMAC : Nat := 20
def alertRecordOverflow : Nat := 22
def alertDecodeError : Nat := 50
def alertProtocolVersion : Nat := 70
def alertInternalError : Nat := 80
def alertLevelWarning : UInt8 := 1
def alertLevelError : UInt8 := 2

/-- alert returned by the `if hc.version == VersionTLS13` block of decrypt when it fails -/
def decrypt13Alert (typ : UInt8) (plaintext : Bytes) : Nat :=
  if typ != recordTypeApplicationData then alertUnexpectedMessage
  else if plaintext.length > maxPlaintext + 1 then alertRecordOverflow
  else alertUnexpectedMessage

/-- which `Alert` a failing `decrypt` returns (same case split as `decrypt`; every failure outside the
    TLS 1.3 inner-plaintext block is bad_record_mac — length, padding and MAC failures alike). -/
def decryptAlert {σ} (hc : HalfConn σ) (record : Bytes) : Nat :=
  match record with
  | typ :: v1 :: v2 :: _ :: _ :: payload =>
    match hc.cipher with
    | .null => alertBadRecordMAC
    | .stream _ _ =>
      match decrypt13 hc.version typ [] with
      | .ok _ => alertBadRecordMAC
      | _ => decrypt13Alert typ []
    | .aead a =>
      let eNL := explicitNonceLen hc
      if payload.length < eNL then alertBadRecordMAC
      else
        let nonce0 := payload.take eNL
        let nonce := if nonce0.length == 0 then hc.seq else nonce0
        let payload := payload.drop eNL
        let additionalData :=
          if hc.version == VersionTLS13 then record.take recordHeaderLen
          else hc.seq ++ [typ, v1, v2] ++ be16 ((payload.length : Int) - a.overhead)
        match a.openFn nonce payload additionalData with
        | none => alertBadRecordMAC
        | some plaintext =>
          match decrypt13 hc.version typ plaintext with
          | .ok _ => alertBadRecordMAC
          | _ => decrypt13Alert typ plaintext
    | .cbc c mac =>
      let eNL := explicitNonceLen hc
      let minPayload := eNL + roundUp (mac.size + 1) c.blockSize
      if payload.length % c.blockSize != 0 || payload.length < minPayload then alertBadRecordMAC
      else
        match decrypt13 hc.version typ [] with
        | .ok _ => alertBadRecordMAC
        | _ => decrypt13Alert typ []
  | _ => alertBadRecordMAC

/-- the error `readRecordOrCCS` returns and stores in `c.in.err` -/
inductive ErrK where
  | io (e : IoErr)               -- transport ended (io.EOF at a record boundary / close_notify, io.ErrUnexpectedEOF inside a record)
  | localAlert (a : Nat)         -- `c.sendAlert(a)`: alert record written, error = "local error: a"
  | remoteAlert (a : Nat)        -- "remote error: a" (fatal alert received, or any alert in TLS 1.3)
  | header (alert : Option Nat)  -- RecordHeaderError, after sending `alert` (if any)
  | tooManyIgnored               -- "too many ignored records", after sending unexpected_message
  | pendingInput                 -- "attempted to read record with pending application data"
  deriving DecidableEq, Repr

/-- the alert description written to the peer for an error -/
def ErrK.alertSent : ErrK → Option Nat
  | .localAlert a => some a
  | .header a => a
  | .tooManyIgnored => some alertUnexpectedMessage
  | _ => none

/-- `halfConn.changeCipherSpec` (`next` = nextCipher/nextMac with the new cipher's initial state; a nil
    nextCipher is `none` or the null cipher): install it, zero the sequence number. `none` = AlertInternalError. -/
def changeCipherSpec {σ} (hc : HalfConn σ) (next : Option (Cipher σ × σ)) : Option (HalfConn σ) :=
  match next with
  | none => none
  | some (.null, _) => none
  | some (ci, st) =>
    if hc.version == VersionTLS13 then none
    else some { hc with cipher := ci, st := st, seq := hc.seq.map (fun _ => 0) }

/-- reading side of a Conn without the transport: `c.hc` = `c.in`, `next` = `c.in.nextCipher`,
    `inErr` = `c.in.err`, `input` = unread part of `c.input`. -/
structure RCore (σ : Type) where
  c : Conn σ
  next : Option (Cipher σ × σ)
  inErr : Option ErrK
  input : Bytes

/-- … with `raw` = `c.rawInput` and `chunks` = what the transport will return. -/
structure RState (σ : Type) where
  core : RCore σ
  raw : Bytes
  chunks : List Bytes

inductive ROut where
  | data (d : Bytes)   -- c.input set
  | hand               -- c.hand grew
  | ccs                -- c.in.changeCipherSpec called
  | err (e : ErrK)
  deriving DecidableEq, Repr

/-- the checks on the five header bytes -/
def headerCheck {σ} (c : Conn σ) (typ v1 v2 l1 l2 : UInt8) : Option ErrK :=
  if !c.handshakeComplete && typ == 0x80 then some (.header (some alertProtocolVersion))
  else
    let vers := v1.toNat * 256 + v2.toNat
    let n := l1.toNat * 256 + l2.toNat
    if c.haveVers && c.vers != VersionTLS13 && vers != c.vers then some (.header (some alertProtocolVersion))
    else if !c.haveVers && ((typ != recordTypeAlert && typ != recordTypeHandshake) || vers ≥ 0x1000) then
      some (.header none)
    else if (c.vers == VersionTLS13 && n > maxCiphertextTLS13) || n > maxCiphertext then
      some (.header (some alertRecordOverflow))
    else none

inductive Fetched where
  | fail (raw : Bytes) (chunks : List Bytes) (e : ErrK)
  | record (record rest : Bytes) (chunks : List Bytes)

/-- first half of readRecordOrCCS: read the header, check it, read the body, cut the record off rawInput. -/
def fetch {σ} (c : Conn σ) (raw : Bytes) (chunks : List Bytes) : Fetched :=
  match readFromUntil raw recordHeaderLen chunks with
  | (raw, chunks, some e) =>
    .fail raw chunks (.io (if e == .unexpectedEOF && raw.length == 0 then .eof else e))
  | (raw, chunks, none) =>
    match raw with
    | typ :: v1 :: v2 :: l1 :: l2 :: _ =>
      match headerCheck c typ v1 v2 l1 l2 with
      | some e => .fail raw chunks e
      | none =>
        let n := l1.toNat * 256 + l2.toNat
        match readFromUntil raw (recordHeaderLen + n) chunks with
        | (raw, chunks, some e) => .fail raw chunks (.io e)
        | (raw, chunks, none) => .record (raw.take (recordHeaderLen + n)) (raw.drop (recordHeaderLen + n)) chunks
    | _ => .fail raw chunks (.io .unexpectedEOF)   -- unreachable: readFromUntil returned at least 5 bytes

inductive Step (σ : Type) where
  | done (k : RCore σ) (o : ROut)
  | retry (k : RCore σ)
  | panic

def failStep {σ} (k : RCore σ) (e : ErrK) : Step σ := .done { k with inErr := some e } (.err e)

/-- `retryReadRecord` up to the recursive call -/
def retryStep {σ} (k : RCore σ) : Step σ :=
  let rc := k.c.retryCount + 1
  let k1 := { k with c := { k.c with retryCount := rc } }
  if rc > maxUselessRecords then failStep k1 .tooManyIgnored else .retry k1

/-- second half of readRecordOrCCS: decrypt and the content-type switch, on the record cut off by `fetch`. -/
def process {σ} (s : RCore σ) (expectCCS : Bool) (record : Bytes) : Step σ :=
  let c := s.c
  match decrypt c.hc record with
  | .panic => .panic
  | .err => failStep s (.localAlert (decryptAlert c.hc record))
  | .ok (data, typ, hc') =>
    let s := { s with c := { c with hc := hc' } }
    if data.length > maxPlaintext then failStep s (.localAlert alertRecordOverflow)
    else
      let isNull := match c.hc.cipher with | .null => true | _ => false
      if isNull && typ == recordTypeApplicationData then failStep s (.localAlert alertUnexpectedMessage)
      else
        let rc := if typ != recordTypeAlert && typ != recordTypeChangeCipherSpec && data.length > 0 then 0
                  else c.retryCount
        let s := { s with c := { s.c with retryCount := rc } }
        if c.vers == VersionTLS13 && typ != recordTypeHandshake && c.hand.length > 0 then
          failStep s (.localAlert alertUnexpectedMessage)
        else if typ == recordTypeAlert then
          match data with
          | [level, desc] =>
            if desc.toNat == alertCloseNotify then failStep s (.io .eof)
            else if c.vers == VersionTLS13 then failStep s (.remoteAlert desc.toNat)
            else if level == alertLevelWarning then retryStep s
            else if level == alertLevelError then failStep s (.remoteAlert desc.toNat)
            else failStep s (.localAlert alertUnexpectedMessage)
          | _ => failStep s (.localAlert alertUnexpectedMessage)
        else if typ == recordTypeChangeCipherSpec then
          if data != [1] then failStep s (.localAlert alertDecodeError)
          else if c.hand.length > 0 then failStep s (.localAlert alertUnexpectedMessage)
          else if c.vers == VersionTLS13 then retryStep s
          else if !expectCCS then failStep s (.localAlert alertUnexpectedMessage)
          else
            match changeCipherSpec s.c.hc s.next with
            | none => failStep s (.localAlert alertInternalError)
            | some hc2 => .done { s with c := { s.c with hc := hc2 }, next := none } .ccs
        else if typ == recordTypeApplicationData then
          if !c.handshakeComplete || expectCCS then failStep s (.localAlert alertUnexpectedMessage)
          else if data.length == 0 then retryStep s
          else .done { s with input := data } (.data data)
        else if typ == recordTypeHandshake then
          if data.length == 0 || expectCCS then failStep s (.localAlert alertUnexpectedMessage)
          else .done { s with c := { s.c with hand := c.hand ++ data } } .hand
        else failStep s (.localAlert alertUnexpectedMessage)

inductive RStep (σ : Type) where
  | done (s : RState σ) (o : ROut)
  | retry (s : RState σ)
  | panic

/-- one pass through the body of readRecordOrCCS (up to a `retryReadRecord` recursion) -/
def readStep {σ} (s : RState σ) (expectCCS : Bool) : RStep σ :=
  match s.core.inErr with
  | some e => .done s (.err e)
  | none =>
    if s.core.input.length != 0 then
      .done { s with core := { s.core with inErr := some .pendingInput } } (.err .pendingInput)
    else
      match fetch s.core.c s.raw s.chunks with
      | .fail raw chunks e => .done ⟨{ s.core with inErr := some e }, raw, chunks⟩ (.err e)
      | .record record rest chunks =>
        match process s.core expectCCS record with
        | .done k o => .done ⟨k, rest, chunks⟩ o
        | .retry k => .retry ⟨k, rest, chunks⟩
        | .panic => .panic

/-- the recursion through `retryReadRecord`: bounded by `maxUselessRecords` in the Go code (each retry
    increments `retryCount` and fails above the bound), hence the fuel; `none` = a decrypt panic (or
    fuel exhausted, which cannot happen from `readRecordOrCCS`: `ZV.C25.readLoop_fuel`). -/
def readLoop {σ} (expectCCS : Bool) : Nat → RState σ → Option (RState σ × ROut)
  | 0, _ => none
  | fuel + 1, s =>
    match readStep s expectCCS with
    | .done s' o => some (s', o)
    | .retry s' => readLoop expectCCS fuel s'
    | .panic => none

/-- `readRecordOrCCS(expectChangeCipherSpec)` -/
def readRecordOrCCS {σ} (s : RState σ) (expectCCS : Bool) : Option (RState σ × ROut) :=
  readLoop expectCCS (maxUselessRecords + 1) s

def RState.drained {σ} (s : RState σ) : RState σ := { s with core := { s.core with input := [] } }

/-- the loop of `Conn.Read` seen from the record layer: up to `n` calls of `readRecord()`, the caller
    consuming `c.input` completely in between; delivered application data in order, and the error that
    ended it (if any). Handshake records (post-handshake messages) are taken out of `c.hand` and the loop
    goes on, as `Read` does after `handlePostHandshakeMessage` (outside this model) consumed them. -/
def readAll {σ} : Nat → RState σ → List Bytes × Option ErrK
  | 0, _ => ([], none)
  | n + 1, s =>
    match readRecordOrCCS s false with
    | none => ([], none)
    | some (s', .data d) =>
      match readAll n s'.drained with
      | (ds, e) => (d :: ds, e)
    | some (s', .hand) => readAll n { s' with core := { s'.core with c := { s'.core.c with hand := [] } } }
    | some (s', .ccs) => readAll n s'
    | some (_, .err e) => ([], some e)

/-! ### write side: ChangeCipherSpec epilogue with a pending cipher, Conn.Write's 1/n-1 split -/

inductive WriteEnd (σ : Type) where
  | plain (w : WriteOut σ)
  /-- a ChangeCipherSpec record was written and `c.out.changeCipherSpec()` installed the pending cipher
      (in `w.conn.hc`, sequence number zero) -/
  | switched (w : WriteOut σ)
  /-- `changeCipherSpec` failed: `sendAlertLocked(AlertInternalError)` wrote `alert` (ok) or failed too -/
  | ccsFailed (w : WriteOut σ) (alert : Res (WriteOut σ))

/-- `writeRecordLocked(typ, data)` with the ChangeCipherSpec epilogue for any `nextCipher`. -/
def writeRecordLockedN {σ} (c : Conn σ) (next : Option (Cipher σ × σ)) (typ : UInt8) (data rand : Bytes) :
    Res (WriteEnd σ) :=
  match writeLoop c typ data rand 0 [] [] with
  | .ok w =>
    if typ == recordTypeChangeCipherSpec && c.vers != VersionTLS13 then
      match changeCipherSpec w.conn.hc next with
      | some hc2 => .ok (.switched { w with conn := { w.conn with hc := hc2 } })
      | none =>
        .ok (.ccsFailed w (writeLoop w.conn recordTypeAlert [alertLevelError, UInt8.ofNat alertInternalError] w.rand 0 [] []))
    else .ok (.plain w)
  | .err => .err
  | .panic => .panic

def isCbc {σ} : Cipher σ → Bool
  | .cbc _ _ => true
  | _ => false

/-- the record-writing part of `Conn.Write(b)` (after the handshake / error / shutdown checks): TLS 1.0
    with a block cipher splits off the first byte into its own record unless
    `Config.DisableTLS10BEASTMitigation`. Result: (n, first call, second call). -/
def connWrite {σ} (c : Conn σ) (disableBEAST : Bool) (b rand : Bytes) :
    Res (Nat × Option (WriteOut σ) × WriteOut σ) :=
  if b.length > 1 && c.vers == VersionTLS10 && !disableBEAST && isCbc c.hc.cipher then
    match writeRecordLocked c recordTypeApplicationData (b.take 1) rand with
    | .ok w1 =>
      match writeRecordLocked w1.conn recordTypeApplicationData (b.drop 1) w1.rand with
      | .ok w2 => .ok (w2.n + 1, some w1, w2)
      | .err => .err
      | .panic => .panic
    | .err => .err
    | .panic => .panic
  else
    match writeRecordLocked c recordTypeApplicationData b rand with
    | .ok w => .ok (w.n, none, w)
    | .err => .err
    | .panic => .panic

/-! ### toy primitives (identical definitions in go/props/c25/record.go) -/
namespace Toy

/-- cipher state of the toys: stream position and CBC chaining value -/
structure St where
  ctr : Nat
  iv : Bytes

def keyAt (key : Bytes) (i : Nat) : UInt8 :=
  match key[i % key.length]? with
  | some b => b
  | none => 0

/-- keystream byte `j`: `key[j mod |key|] + byte(j) + byte(j>>8)` -/
def ks (key : Bytes) (j : Nat) : UInt8 := keyAt key j + UInt8.ofNat j + UInt8.ofNat (j / 256)

def xorKS (key : Bytes) : Nat → Bytes → Bytes
  | _, [] => []
  | j, b :: bs => (b ^^^ ks key j) :: xorKS key (j + 1) bs

def streamXor (key : Bytes) (s : St) (src : Bytes) : Bytes × St :=
  (xorKS key s.ctr src, { s with ctr := s.ctr + src.length })

/-- toy block cipher: `E(b) = reverse(map (+1) (b xor key))`, block size `|key|` -/
def blockE (key b : Bytes) : Bytes := (List.zipWith (fun x k => (x ^^^ k) + 1) b key).reverse
def blockD (key c : Bytes) : Bytes := List.zipWith (fun y k => (y - 1) ^^^ k) c.reverse key

def xorBytes (a b : Bytes) : Bytes := List.zipWith (· ^^^ ·) a b

def chunkN (bs : Nat) : Nat → Bytes → List Bytes
  | 0, _ => []
  | n + 1, d => d.take bs :: chunkN bs n (d.drop bs)

/-- full blocks of `d` (`CryptBlocks` panics on a partial block; callers pass whole blocks) -/
def chunks (bs : Nat) (d : Bytes) : List Bytes := if bs = 0 then [] else chunkN bs (d.length / bs) d

/-- CBC encryption with block function `E`: `c_i = E(p_i xor c_{i-1})`; returns the last block as new IV -/
def cbcEnc (E : Bytes → Bytes) : Bytes → List Bytes → Bytes × Bytes
  | iv, [] => ([], iv)
  | iv, b :: bs =>
    let c := E (xorBytes b iv)
    match cbcEnc E c bs with
    | (cs, iv') => (c ++ cs, iv')

/-- CBC decryption with block function `D`: `p_i = D(c_i) xor c_{i-1}` -/
def cbcDec (D : Bytes → Bytes) : Bytes → List Bytes → Bytes × Bytes
  | iv, [] => ([], iv)
  | iv, c :: cs =>
    match cbcDec D c cs with
    | (ps, iv') => (xorBytes (D c) iv ++ ps, iv')

/-- a `cbcMode` from a block function pair, state = chaining value in `St.iv` -/
def cbcOf (bs : Nat) (E : Bytes → Bytes) (dec : Bool) : Cbc St :=
  { blockSize := bs
    setIV := fun s iv => { s with iv := iv }
    cryptBlocks := fun s d =>
      match (if dec then cbcDec E s.iv (chunks bs d) else cbcEnc E s.iv (chunks bs d)) with
      | (out, iv') => (out, { s with iv := iv' }) }

def toyCbc (key : Bytes) (dec : Bool) : Cbc St :=
  cbcOf key.length (if dec then blockD key else blockE key) dec

/-- toy AEAD pad byte `i`: `(key[i mod |key|] xor nonce[i mod |nonce|]) + byte(i)` -/
def pad (key nonce : Bytes) (i : Nat) : UInt8 := (keyAt key i ^^^ keyAt nonce i) + UInt8.ofNat i

def xorPad (key nonce : Bytes) : Nat → Bytes → Bytes
  | _, [] => []
  | i, b :: bs => (b ^^^ pad key nonce i) :: xorPad key nonce (i + 1) bs

/-- `S += (x+1) * idx` over the bytes, idx counting from `i+1` -/
def tagSum : UInt32 → UInt32 → Bytes → UInt32 × UInt32
  | s, i, [] => (s, i)
  | s, i, x :: xs => tagSum (s + (x.toUInt32 + 1) * (i + 1)) (i + 1) xs

def tagBytes (s : UInt32) : Nat → Nat → Bytes
  | _, 0 => []
  | j, n + 1 => ((s >>> (8 * (UInt32.ofNat (j % 4)))).toUInt8 + UInt8.ofNat j) :: tagBytes s (j + 1) n

/-- tag over `nonce ‖ ad ‖ body` where `body` is the encrypted payload -/
def tag (key : Bytes) (tagLen : Nat) (nonce ad pt : Bytes) : Bytes :=
  let s0 : UInt32 := key.foldl (fun a k => a + k.toUInt32) 0
  match tagSum s0 0 nonce with
  | (s1, i1) =>
    match tagSum s1 i1 ad with
    | (s2, i2) =>
      match tagSum s2 i2 pt with
      | (s3, _) => tagBytes s3 0 tagLen

def toyAead (key : Bytes) (tagLen : Nat) : InnerAead :=
  { sealFn := fun nonce pt ad => xorPad key nonce 0 pt ++ tag key tagLen nonce ad (xorPad key nonce 0 pt)
    openFn := fun nonce ct ad =>
      if ct.length < tagLen then none
      else
        let n := ct.length - tagLen
        if tag key tagLen nonce ad (ct.take n) == ct.drop n then some (xorPad key nonce 0 (ct.take n)) else none
    overhead := tagLen }

def hmacMac (alg : ZV.Hash.HashAlg) (key : Bytes) : Mac :=
  { size := alg.outSize, sum := fun msg => ZV.Hash.hmac alg key msg }

end Toy
end ZV.C25
