import ZV.Model.C18
/-!
  C20 uses the `encoding/asn1` model of `ZV.Model.C18` with both values of `perm`
  (`perm` = the process-global `asn1.AllowPermissiveParsing`).

  `accountedSites` is the list of syntactic uses of `AllowPermissiveParsing` that the verification accounts for,
  in the vocabulary of the T1 extractor `go/extract/c20` (file, enclosing function, ordinal in the function, polarity):
  * `modelledSites` — the uses inside `asn1.go` that are branches of the Lean model (each of the form
    `if !perm && <strict-only rejection> then err else …`), hence covered by `perm_extends`;
  * `timeSites` — `parseUTCTime` / `parseGeneralizedTime` (same shape `if !flag { reject }`; modelled in
    `ZV.Model.Time` with the flag as the `perm` parameter: `perm_extends_utctime`, `perm_extends_gentime`,
    `perm_extends_time_field` in ZV/Props/C20.lean, T2 stream `c20 tpc` / `c20 tu`; `time.Time` is not a leaf of
    the deep embedding, so time FIELDS of structs are covered by the certificate-level oracle T3 only);
  * `x509Sites` — the uses in `x509/x509.go` (`parsePublicKey`, `parseGeneralNames`, `parseCertificate`);
    modelled in `ZV.Model.C20X` (one Lean function per enclosing decision, the flag as `perm`), proved conservative in
    ZV/Props/C20.lean (`perm_extends_parsePublicKey`, `_parseGeneralNames`, `_extStep`, … ; `siteModels` links every
    site to its model and theorem, `x509_sites_modelled` links `siteModels` to the generated inventory), T2 streams
    `c20 xpk / xgn / xpc / xsch`.
-/
namespace ZV.C20

abbrev Site := String × String × Nat × String

def modelledSites : List Site := [
  ("asn1.go", "checkInteger", 0, "strict-guard"),
  ("asn1.go", "parseNumericString", 0, "strict-guard"),
  ("asn1.go", "parsePrintableString", 0, "strict-guard"),
  ("asn1.go", "parseIA5String", 0, "strict-guard"),
  ("asn1.go", "parseUTF8String", 0, "strict-guard"),
  ("asn1.go", "parseTagAndLength", 0, "strict-guard")]

def timeSites : List Site := [
  ("asn1.go", "parseUTCTime", 0, "strict-guard"),
  ("asn1.go", "parseGeneralizedTime", 0, "strict-guard")]

def x509Sites : List Site := [
  ("x509.go", "parsePublicKey", 0, "strict-guard"),
  ("x509.go", "parseGeneralNames", 0, "perm-guard/on-error"),
  ("x509.go", "parseGeneralNames", 1, "perm-guard/on-error"),
  ("x509.go", "parseGeneralNames", 2, "perm-guard/on-error"),
  ("x509.go", "parseGeneralNames", 3, "other:if-else/perm-then/else-rejects"),
  ("x509.go", "parseGeneralNames", 4, "perm-guard/on-error"),
  ("x509.go", "parseCertificate", 0, "perm-guard/on-error"),
  ("x509.go", "parseCertificate", 1, "perm-guard/on-error"),
  ("x509.go", "parseCertificate", 2, "perm-guard/on-error"),
  ("x509.go", "parseCertificate", 3, "perm-guard/on-error"),
  ("x509.go", "parseCertificate", 4, "perm-guard/on-error"),
  ("x509.go", "parseCertificate", 5, "strict-guard"),
  ("x509.go", "parseCertificate", 6, "perm-guard/on-error"),
  ("x509.go", "parseCertificate", 7, "perm-guard/on-error"),
  ("x509.go", "parseCertificate", 8, "perm-guard/on-error"),
  ("x509.go", "parseCertificate", 9, "strict-guard"),
  ("x509.go", "parseCertificate", 10, "perm-guard/on-error"),
  ("x509.go", "parseCertificate", 11, "perm-guard/on-error"),
  ("x509.go", "parseCertificate", 12, "perm-guard/on-error"),
  ("x509.go", "parseCertificate", 13, "perm-guard/on-error"),
  ("x509.go", "parseCertificate", 14, "strict-guard"),
  ("x509.go", "parseCertificate", 15, "perm-guard/on-error"),
  ("x509.go", "parseCertificate", 16, "perm-guard/on-error"),
  ("x509.go", "parseCertificate", 17, "strict-guard"),
  ("x509.go", "parseCertificate", 18, "strict-guard"),
  ("x509.go", "parseCertificate", 19, "perm-guard/on-error"),
  ("x509.go", "parseCertificate", 20, "perm-guard/on-error"),
  ("x509.go", "parseCertificate", 21, "strict-guard"),
  ("x509.go", "parseCertificate", 22, "perm-guard/on-error"),
  ("x509.go", "parseCertificate", 23, "perm-guard/on-error"),
  ("x509.go", "parseCertificate", 24, "perm-guard/on-error"),
  ("x509.go", "parseCertificate", 25, "perm-guard/on-error")]

/-- source order of the extractor: asn1.go (function order of the file), then x509.go -/
def accountedSites : List Site := [
  ("asn1.go", "checkInteger", 0, "strict-guard"),
  ("asn1.go", "parseUTCTime", 0, "strict-guard"),
  ("asn1.go", "parseGeneralizedTime", 0, "strict-guard"),
  ("asn1.go", "parseNumericString", 0, "strict-guard"),
  ("asn1.go", "parsePrintableString", 0, "strict-guard"),
  ("asn1.go", "parseIA5String", 0, "strict-guard"),
  ("asn1.go", "parseUTF8String", 0, "strict-guard"),
  ("asn1.go", "parseTagAndLength", 0, "strict-guard")] ++ x509Sites

end ZV.C20
