import ZV.Model.C10
import ZV.Generated.C11
/-!
  Model of `verifier/walk.go`: `WalkChains` / `walkFromEdgeToRoot` / `continueWalking` /
  `canAddToChain`, over the graph state of `ZV.Model.C10`.

  * a chain (`x509.CertificateChain`) is a `List Cert`, leaf first;
  * the recursion of `continueWalking` is bounded in the Go code by
    `len(soFar) >= maxIntermediateCount`; the model recurses on `fuel = 9 - len(soFar)`
    (`walkChains` starts with `soFar = [c]`, `fuel = 8`), so `fuel = 0` is exactly that test;
  * the `range` over `current.parentsBySubjectAndKey` (a Go map) and over `edgeSet.edges` is the
    list order of the model's association lists: an arbitrary order.  The theorems of
    `ZV.Props.C11` characterise the result as a set that does not mention this order;
  * the channel is abstracted to the list of chains sent, in sending order (the asynchronous
    delivery is the subject of the small producer/consumer model in `ZV.Proofs.C11Async`).
-/
namespace ZV.C11
open ZV.C10

def maxIntermediateCount : Nat := 9

/-- `CertificateChain.SubjectAndKeyInChain` -/
def skInChain (k : NodeKey) (chain : List Cert) : Bool :=
  chain.any (fun c => c.subj == k.1 && c.key == k.2)

/-- `canAddToChain(c, certType, currentChain) == nil`
    (`isRoot` ⇔ `certType == CertificateTypeRoot`, otherwise Intermediate) -/
def canAddToChain (c : Cert) (isRoot : Bool) (chain : List Cert) : Bool :=
  if !isRoot && (!c.bcValid || !c.isCA) then false
  else if c.bcValid && decide (c.maxPathLen ≥ 0) && decide ((chain.length : Int) - 1 > c.maxPathLen) then false
  else true

/-- `continueWalking(found, start, last.issuer, soFar, last)`; returns the chains sent, in order. -/
def walk (g : Graph) : Nat → List Cert → Edge → List (List Cert)
  | fuel, soFar, last =>
    if last.root then [soFar]
    else
      match last.issuer with
      | none => []
      | some cur =>
        match fuel with
        | 0 => []                                   -- len(soFar) >= maxIntermediateCount
        | fuel' + 1 =>
          match findNode g.nodes cur with
          | none => []                              -- not reachable: `current` is a node pointer
          | some n =>
            n.parents.flatMap (fun grp =>
              -- targetNode := g.nodesBySubjectAndKey[skfp]
              if hasNode g.nodes grp.1 && skInChain grp.1 soFar then []
              else
                grp.2.flatMap (fun fp =>
                  match findEdge g.edges fp with
                  | none => []                      -- not reachable: sets hold edge pointers
                  | some e =>
                    if canAddToChain e.cert e.root soFar then walk g fuel' (soFar ++ [e.cert]) e
                    else []))

/-- start edge: `g.FindEdge(c)`, or a synthesized edge whose issuer is the first node with the
    issuer name that verifies `c` -/
def startEdge (V : Ver) (g : Graph) (c : Cert) : Edge :=
  match findEdge g.edges c.fp with
  | some e => e
  | none => { cert := c, issuer := (searchIssuer V g.nodes c.iss c.fp).map (·.key), child := c.sk, root := false }

/-- `(*Graph).WalkChains` -/
def walkChains (V : Ver) (g : Graph) (c : Cert) : List (List Cert) :=
  let s := startEdge V g c
  walk g (maxIntermediateCount - 1) [s.cert] s


/-! ### small deterministic logic around the walk (each tied to the real function by its own T2 op)

    * `canAddReason` — `canAddToChain` with the KIND of its error (`c11 can`, real function through the hook
      `verifier.ZVCanAddToChain`);
    * `chanCap` — the capacity of the channel `WalkChainsAsync` returns (`cap(out)`, observable): the
      `opt.ChannelSize <= 0` default (`c11 async`);
    * `validSigAfter` — the side effect on `c.ValidSignature`: set (never cleared) when the certificate is in the
      graph or some candidate issuer node verifies it (`c11 async`). -/

/-- `canAddToChain(c, certType, chain)`: 0 = nil, 1 = NotAuthorizedToSign, 2 = TooManyIntermediates;
    only `len(chain)` is read -/
def canAddReason (c : Cert) (isRoot : Bool) (chainLen : Nat) : Nat :=
  if !isRoot && (!c.bcValid || !c.isCA) then 1
  else if c.bcValid && decide (c.maxPathLen ≥ 0) && decide ((chainLen : Int) - 1 > c.maxPathLen) then 2
  else 0

/-- `if opt.ChannelSize <= 0 { opt.ChannelSize = 4 }; out := make(chan …, opt.ChannelSize)`: `cap(out)` -/
def chanCap (n : Int) : Nat := if n ≤ 0 then 4 else n.toNat

/-- `c.ValidSignature` after `WalkChainsAsync(c, …)` has returned, `before` being its value at the call -/
def validSigAfter (V : Ver) (g : Graph) (c : Cert) (before : Bool) : Bool :=
  match findEdge g.edges c.fp with
  | some _ => true                                  -- "We already trust the signatures in the graph."
  | none =>
    match searchIssuer V g.nodes c.iss c.fp with
    | some _ => true
    | none => before

/-- what a caller of `WalkChainsAsync(c, WalkOptions{ChannelSize: n})` can observe: the capacity of the channel,
    the flag on `c`, and (draining the channel) the chains in sending order -/
structure AsyncOut where
  cap : Nat
  validSig : Bool
  chains : List (List Cert)
  deriving Repr, DecidableEq

/-- `(*Graph).WalkChainsAsync` -/
def walkChainsAsync (V : Ver) (g : Graph) (c : Cert) (n : Int) (before : Bool) : AsyncOut :=
  { cap := chanCap n, validSig := validSigAfter V g c before, chains := walkChains V g c }

/-! ### histories on one graph: insertions and walks interleaved

    `WalkChains` / `WalkChainsAsync` only READ the graph (the start edge synthesized for a certificate
    that is not in the graph is a local value, never stored): a walk event leaves the state as it is. -/

inductive Ev where
  | ins (op : Op)      -- AddCert / AddRoot
  | walk (c : Cert)    -- WalkChains(c) or WalkChainsAsync(c, _) drained
  deriving Repr, DecidableEq

/-- one event: the new graph and, for a walk, the chains returned -/
def evStep (V : Ver) (g : Graph) : Ev → Res (Graph × Option (List (List Cert)))
  | .ins op =>
    match step V g op with
    | .ok g1 => .ok (g1, none)
    | _ => .panic
  | .walk c => .ok (g, some (walkChains V g c))

/-- the observations of a history: after every event the graph and the chains (if it was a walk) -/
def history (V : Ver) : Graph → List Ev → Res (List (Graph × Option (List (List Cert))))
  | _, [] => .ok []
  | g, e :: es =>
    match evStep V g e with
    | .ok (g1, o) =>
      match history V g1 es with
      | .ok rest => .ok ((g1, o) :: rest)
      | _ => .panic
    | _ => .panic

end ZV.C11
