import ZV.Model.C06
/-!
  C06, bundle entry point: model of `x509.ParseCertificates` (one or more certificates concatenated with no padding).
  Go: `for len(asn1Data) > 0 { cert := new(certificate); asn1Data, err = asn1.Unmarshal(asn1Data, cert) … }` and then
  `parseCertificate` on every element.  Every certificate is unmarshalled into a FRESH struct, so each one is
  parsed exactly as `ParseCertificate` parses it, except that the rest of the input is handed on instead of being
  an error.  (Errors of the two Go passes are both `err` here, so their order is not observable.)
-/
namespace ZV.C06
open ZV ZV.Der

/-- what `ParseCertificate` does with the outer SEQUENCE once it has been read (same steps as `parseCert`). -/
def parseCertElem (c : Elem) : Res Cert :=
  (someElem (field (.univ 16 true) false c.body)).bind fun tbsE =>
  (parseTbs tbsE.1.body).bind fun tbs =>
  (someElem (field (.univ 16 true) false tbsE.2)).bind fun sa =>
  (someElem (field (.univ 3 false) false sa.2)).bind fun sv =>
  (parseBitString sv.1.body).bind fun _ =>
  .ok ⟨c, tbsE.1, tbs, sa.1, sv.1⟩

/-- one iteration of the loop: `asn1.Unmarshal` reads ONE certificate and returns the rest of the input. -/
def parseCertHead (bs : Bytes) : Res (Cert × Bytes) :=
  (someElem (field (.univ 16 true) false bs)).bind fun c =>
  (parseCertElem c.1).bind fun x => .ok (x, c.2)

/-- the loop; the fuel is the input length (every iteration consumes at least two octets, so it never runs out:
    `parseCertsFuel_fuel`). -/
def parseCertsFuel : Nat → Bytes → Res (List Cert)
  | 0, bs => if bs.isEmpty then .ok [] else .err
  | n + 1, bs =>
    if bs.isEmpty then .ok [] else
    (parseCertHead bs).bind fun x =>
    (parseCertsFuel n x.2).bind fun cs => .ok (x.1 :: cs)

/-- `ParseCertificates`. -/
def parseCerts (bs : Bytes) : Res (List Cert) := parseCertsFuel bs.length bs

end ZV.C06
