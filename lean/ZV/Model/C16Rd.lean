import ZV.Model.C16
/-!
  C16 — the io.Reader layer of ct/serialization.go with error CLASSES (io.EOF / io.ErrUnexpectedEOF /
  "short read" / any other error), over readers that deliver their data in arbitrary chunks.

  A reader is a script of events: each `Read(p)` call consumes the head event — a data chunk (delivered
  whole if it fits `p`, else `len(p)` bytes of it and the remainder stays), or a non-EOF failure; the empty
  script answers `0, io.EOF` for ever.  `bytes.NewReader(b)` is the script `[data b]`.
  `readFull` is io.ReadFull / io.ReadAtLeast (which binary.Read uses for fixed-size values),
  `readByte` its 1-byte instance, `readUintR` / `readVarBytesR` / `readCertListR` are readUint / readVarBytes /
  readASN1CertList.  ZV.Proofs.C16Rd shows that on failure-free scripts they depend on the concatenation of the
  chunks only and agree with the `Wire` parsers used by the decoders.
-/
namespace ZV.C16
open ZV.Wire

inductive RErr where
  | eof | uexp | short | other
  deriving Repr, DecidableEq

inductive RRes (α : Type) where
  | ok (a : α)
  | fail (e : RErr)
  deriving Repr, DecidableEq

inductive Ev where
  | data (b : Bytes)
  | fail
  deriving Repr, DecidableEq

abbrev Script := List Ev

/-- all bytes the reader will still deliver -/
def flat : Script → Bytes
  | [] => []
  | .data b :: r => b ++ flat r
  | .fail :: r => flat r

def noFail : Script → Bool
  | [] => true
  | .data _ :: r => noFail r
  | .fail :: _ => false

/-- io.ReadFull(r, buf) with len(buf) = n, `acc` = bytes already in buf:
    `for got < n && err == nil { nn, err = r.Read(buf[got:]) }`; then `got >= n → nil`,
    `got > 0 && err == EOF → ErrUnexpectedEOF`. A zero-length buffer is filled without calling Read. -/
def readFull : Script → Nat → Bytes → RRes Bytes × Script
  | s, 0, acc => (.ok acc, s)
  | [], _ + 1, acc => (.fail (if acc.isEmpty then .eof else .uexp), [])
  | .fail :: r, _ + 1, _ => (.fail .other, r)
  | .data b :: r, n + 1, acc =>
    if b.length ≤ n + 1 then readFull r (n + 1 - b.length) (acc ++ b)
    else (.ok (acc ++ b.take (n + 1)), .data (b.drop (n + 1)) :: r)

/-- binary.Read(r, binary.BigEndian, &t) for a uint8 `t`: io.ReadFull of one byte -/
def readByte : Script → RRes UInt8 × Script
  | [] => (.fail .eof, [])
  | .fail :: r => (.fail .other, r)
  | .data [] :: r => readByte r
  | .data [b] :: r => (.ok b, r)
  | .data (b :: b' :: bs) :: r => (.ok b, .data (b' :: bs) :: r)

/-- the loop of readUint: k one-byte reads, first error returned -/
def readBytes1 : Script → Nat → Bytes → RRes Bytes × Script
  | s, 0, acc => (.ok acc, s)
  | s, k + 1, acc =>
    match readByte s with
    | (.ok b, s') => readBytes1 s' k (acc ++ [b])
    | (.fail e, s') => (.fail e, s')

/-- readUint(r, k): `l <<= 8; l |= uint64(t)` on a uint64 — bytes beyond the last eight shift out -/
def readUintR (s : Script) (k : Nat) : RRes Nat × Script :=
  match readBytes1 s k [] with
  | (.ok bs, s') => (.ok (beVal bs % 2 ^ 64), s')
  | (.fail e, s') => (.fail e, s')

/-- readVarBytes(r, k) (lengths up to what `make([]byte, l)` allocates; the callers use k = 2, 3) -/
def readVarBytesR (s : Script) (k : Nat) : RRes Bytes × Script :=
  if k > 8 then (.fail .other, s)                                -- numLenBytes too large
  else if k = 0 then (.fail .other, s)                           -- numLenBytes should be > 0
  else
    match readUintR s k with
    | (.ok l, s') =>
      match readFull s' l [] with
      | (.ok d, s'') => (.ok d, s'')
      | (.fail .eof, s'') => (.fail .short, s'')                 -- err == io.EOF || err == io.ErrUnexpectedEOF
      | (.fail .uexp, s'') => (.fail .short, s'')
      | (.fail e, s'') => (.fail e, s'')
    | (.fail e, s') => (.fail e, s')

/-- readVarBytes on a bytes.Reader holding `bs`: result and unread bytes -/
def readVarBytesB (k : Nat) (bs : Bytes) : RRes (Bytes × Bytes) :=
  if k > 8 then .fail .other
  else if k = 0 then .fail .other
  else if bs.length < k then .fail .eof                          -- also with 1..k-1 bytes left: each byte is its own ReadFull
  else
    let l := beVal (bs.take k)
    let rest := bs.drop k
    if rest.length < l then .fail .short else .ok (rest.take l, rest.drop l)

/-- the element loop of readASN1CertList on `listReader = bytes.NewReader(listBytes)`:
    `for err == nil { entry, err = readVarBytes(listReader, k); if err != nil { if err != io.EOF { return err } } else push }` -/
def certLoopB (k : Nat) (bs : Bytes) : RRes (List Bytes) :=
  if k > 8 then .fail .other
  else if k = 0 then .fail .other
  else if bs.length < k then .ok []                              -- io.EOF: end of the list
  else
    let l := beVal (bs.take k)
    let rest := bs.drop k
    if rest.length < l then .fail .short
    else
      match certLoopB k (rest.drop l) with
      | .ok es => .ok (rest.take l :: es)
      | .fail e => .fail e
termination_by bs.length
decreasing_by
  simp only [List.length_drop]
  omega

/-- readASN1CertList(r, totalLenBytes, elementLenBytes) -/
def readCertListR (s : Script) (tk ek : Nat) : RRes (List Bytes) × Script :=
  match readVarBytesR s tk with
  | (.ok body, s') =>
    match certLoopB ek body with
    | .ok l => (.ok l, s')
    | .fail e => (.fail e, s')
  | (.fail e, s') => (.fail e, s')

/-! ### writers -/

/-- writeUint(w, value, k) for a uint64 value (a bytes.Buffer never fails) -/
def writeUintW (v k : Nat) : Res Bytes :=
  if v / 256 ^ k != 0 then .err else .ok (beBytes k v)          -- "numBytes was insufficiently large"

/-- writeVarBytes(w, value, k) -/
def writeVarBytesW (v : Bytes) (k : Nat) : Res Bytes :=
  match writeUintW v.length k with
  | .ok l => .ok (l ++ v)
  | .err => .err
  | .panic => .panic

end ZV.C16
