import ZV.Base
import ZV.Model.C09
/-!
  Model of `x509/verify.go` chain building: `isValid`, `buildChains` (with its `cache`
  memoisation), `checkChainForKeyUsage`, `FilterByDate`, `Verify`; of the parts of
  `x509/cert_pool.go` / `chain.go` / `x509.go` it calls (`Contains`, `findVerifiedParents`,
  `CertificateInChain`, `CertificateSubjectAndKeyInChain`, `CheckSignatureFrom`).

  Byte strings that are only compared are abstracted to identities (`Nat`), times to
  `Int` (strict `Before`/`After` = `<`), the cryptographic signature check to the
  relation `sigOK child parent` (sent by the harness, computed with real signatures).
  Pools are the `certs` slices of `CertPool`s built by `AddCert` (C08 shows that the index
  maps of such a pool are exactly the index lists computed here).
-/
namespace ZV.C07

structure Cert where
  uid : Nat          -- *Certificate object identity (only printed)
  id : Nat           -- Raw / FingerprintSHA256 identity
  subject : Nat      -- RawSubject
  issuer : Nat       -- RawIssuer
  spki : Nat         -- RawSubjectPublicKeyInfo
  skid : Nat         -- SubjectKeyId, 0 = empty
  akid : Nat         -- AuthorityKeyId, 0 = empty
  version3 : Bool    -- Version == 3
  bcValid : Bool     -- BasicConstraintsValid
  isCA : Bool
  maxPathLen : Int   -- MaxPathLen (-1 when absent)
  kuPresent : Bool   -- KeyUsage != 0
  kuCertSign : Bool  -- KeyUsage & KeyUsageCertSign != 0
  selfSigned : Bool
  eku : List Int     -- ExtKeyUsage (harness numbering: 0 Any, 1 ServerAuth, 3 NetscapeSGC, 4 MicrosoftSGC, others ≥ 2)
  unknownEku : Bool  -- len(UnknownExtKeyUsage) > 0
  notBefore : Int
  notAfter : Int
  deriving Repr, DecidableEq

abbrev Chain := List Cert

inductive Err where
  | notAuthorizedToSign | tooManyIntermediates | isSelfSigned | unknownAuthority
  | incompatibleUsage | expired | neverValid | hostname | outOfFuel
  deriving Repr, DecidableEq

inductive CertType where
  | leaf | intermediate | root
  deriving Repr, DecidableEq

structure Env where
  roots : List Cert                 -- opts.Roots.certs
  inters : List Cert                -- opts.Intermediates.certs (nil pool = [])
  sigOK : Cert → Cert → Bool        -- parent.CheckSignature(child.SignatureAlgorithm, child.RawTBSCertificate, child.Signature) == nil

def maxIntermediateCount : Nat := 10

/-- `(*Certificate).isValid`; `none` = nil error. -/
def isValid (c : Cert) (certType : CertType) (currentChain : Chain) : Option Err :=
  if certType = .intermediate ∧ (!c.bcValid || !c.isCA) then some .notAuthorizedToSign
  else if c.bcValid ∧ c.maxPathLen ≥ 0 ∧ (currentChain.length : Int) - 1 > c.maxPathLen then some .tooManyIntermediates
  else if currentChain.length > maxIntermediateCount then some .tooManyIntermediates
  else none

/-- `child.CheckSignatureFrom(parent) == nil` (the Entrust SPKI exemption and the
    unknown-public-key-algorithm error are outside the generated certificates; not modelled). -/
def checkSignatureFrom (env : Env) (c parent : Cert) : Bool :=
  if (parent.version3 && !parent.bcValid) || (parent.bcValid && !parent.isCA) then false
  else if parent.kuPresent && !parent.kuCertSign then false
  else if parent.subject ≠ c.issuer then false
  else env.sigOK c parent

/-- `(*CertPool).Contains` -/
def containsFp (pool : List Cert) (c : Cert) : Bool := pool.any (fun x => x.id = c.id)

def enumFrom (n : Nat) : List Cert → List (Nat × Cert)
  | [] => []
  | c :: cs => (n, c) :: enumFrom (n + 1) cs

/-- `(*CertPool).findVerifiedParents`: the verified candidates, as (index, certs[index]). -/
def findVerifiedParents (env : Env) (pool : List Cert) (c : Cert) : List (Nat × Cert) :=
  let byKid := if c.akid ≠ 0 then (enumFrom 0 pool).filter (fun p => p.2.skid = c.akid) else []
  let candidates := if byKid.length = 0 then (enumFrom 0 pool).filter (fun p => p.2.subject = c.issuer) else byKid
  candidates.filter (fun p => checkSignatureFrom env c p.2)

/-- `CertificateInChain` (by Raw) -/
def certificateInChain (chain : Chain) (c : Cert) : Bool := chain.any (fun x => x.id = c.id)

/-- `CertificateSubjectAndKeyInChain` -/
def subjectAndKeyInChain (chain : Chain) (c : Cert) : Bool :=
  chain.any (fun x => x.subject = c.subject ∧ x.spki = c.spki)

abbrev Cache := Nat → Option (List Chain)

def setCache (m : Cache) (k : Nat) (v : List Chain) : Cache := fun x => if x = k then some v else m x

structure BState where
  chains : List Chain
  err : Option Err
  cache : Cache

/-- the `for _, rootNum := range possibleRoots` loop -/
def rootLoop (cur : Chain) : List (Nat × Cert) → List Chain × Option Err → List Chain × Option Err
  | [], st => st
  | (_, root) :: rs, (chains, _) =>
    match isValid root .root cur with
    | some e => rootLoop cur rs (chains, some e)
    | none =>
      if !certificateInChain cur root then rootLoop cur rs (chains ++ [cur ++ [root]], none)
      else rootLoop cur rs (chains, none)

/-- the `for _, intermediateNum := range possibleIntermediates` loop; `rec` is the recursive
    `intermediate.buildChains(cache, currentChain + intermediate, opts)`. -/
def interLoop (rec : Cache → Cert → Chain → List Chain × Option Err × Cache) (env : Env) (cur : Chain) :
    List (Nat × Cert) → BState → BState
  | [], st => st
  | (num, inter) :: rest, st =>
    if containsFp env.roots inter then interLoop rec env cur rest st
    else if subjectAndKeyInChain cur inter then interLoop rec env cur rest st
    else
      match isValid inter .intermediate cur with
      | some e => interLoop rec env cur rest { st with err := some e }
      | none =>
        match st.cache num with
        | some childChains => interLoop rec env cur rest { st with chains := st.chains ++ childChains, err := none }
        | none =>
          let r := rec st.cache inter (cur ++ [inter])
          interLoop rec env cur rest { chains := st.chains ++ r.1, err := r.2.1, cache := setCache r.2.2 num r.1 }

/-- `(*Certificate).buildChains`.  The recursion depth is bounded in the Go code by
    `isValid` (`len(currentChain) > maxIntermediateCount` fails), which is what the fuel stands for. -/
def buildChains : Nat → Env → Cache → Cert → Chain → List Chain × Option Err × Cache
  | 0, _, cache, _, _ => ([], some .outOfFuel, cache)
  | fuel + 1, env, cache, c, cur =>
    let chains0 : List Chain := if cur.length = 1 ∧ containsFp env.roots c then [[c]] else []
    let err0 : Option Err := if chains0.length = 0 ∧ c.selfSigned then some .isSelfSigned else none
    let r1 := rootLoop cur (findVerifiedParents env env.roots c) (chains0, err0)
    let st := interLoop (buildChains fuel env) env cur (findVerifiedParents env env.inters c)
      { chains := r1.1, err := r1.2, cache := cache }
    let err2 : Option Err := if st.chains.length > 0 then none else st.err
    let err3 : Option Err := if st.chains.length = 0 ∧ err2 = none then some .unknownAuthority else err2
    (st.chains, err3, st.cache)

/-! ### extended key usage -/

def ekuAny : Int := 0
def ekuServerAuth : Int := 1
def ekuNetscapeSGC : Int := 3
def ekuMicrosoftSGC : Int := 4
def invalidUsage : Int := -1

/-- the inner `for _, usage := range cert.ExtKeyUsage` loop: is `requestedUsage` supported? -/
def usageSupported (certEku : List Int) (requestedUsage : Int) : Bool :=
  certEku.any (fun usage => requestedUsage = usage ∨
    (requestedUsage = ekuServerAuth ∧ (usage = ekuNetscapeSGC ∨ usage = ekuMicrosoftSGC)))

/-- the `NextRequestedUsage` loop for one certificate: `none` = `return false`. -/
def crossOut (certEku : List Int) : List Int → Nat → Option (List Int × Nat)
  | [], remaining => some ([], remaining)
  | u :: us, remaining =>
    if u = invalidUsage then (crossOut certEku us remaining).map (fun r => (u :: r.1, r.2))
    else if usageSupported certEku u then (crossOut certEku us remaining).map (fun r => (u :: r.1, r.2))
    else if remaining - 1 = 0 then none
    else (crossOut certEku us (remaining - 1)).map (fun r => (invalidUsage :: r.1, r.2))

/-- the `NextCert` loop, over the chain from the root end (`i := len(chain)-1 … 0`). -/
def ekuLoop : List Cert → List Int → Nat → Bool
  | [], _, _ => true
  | cert :: rest, usages, remaining =>
    if cert.eku.length = 0 ∧ !cert.unknownEku then ekuLoop rest usages remaining
    else if cert.eku.any (fun u => u = ekuAny) then ekuLoop rest usages remaining
    else
      match crossOut cert.eku usages remaining with
      | none => false
      | some (usages', remaining') => ekuLoop rest usages' remaining'

/-- `checkChainForKeyUsage` -/
def checkChainForKeyUsage (chain : Chain) (keyUsages : List Int) : Bool :=
  if chain.length = 0 then false
  else ekuLoop chain.reverse keyUsages keyUsages.length

/-! ### FilterByDate -/

/-- `later` / `earlier` folded over `chain[1:]` -/
def lowerBound (leaf : Cert) (rest : Chain) : Int :=
  rest.foldl (fun lb c => if lb > c.notBefore then lb else c.notBefore) leaf.notBefore
def upperBound (leaf : Cert) (rest : Chain) : Int :=
  rest.foldl (fun ub c => if ub < c.notAfter then ub else c.notAfter) leaf.notAfter

structure Dated where
  current : List Chain
  expired : List Chain
  never : List Chain
  deriving Repr, DecidableEq

def filterByDate (now : Int) : List Chain → Dated → Res Dated
  | [], acc => .ok acc
  | [] :: chains, acc => filterByDate now chains acc
  | (leaf :: rest) :: chains, acc =>
    let lb := lowerBound leaf rest
    let ub := upperBound leaf rest
    let valid := decide (lb < now) && decide (now < ub)
    let wasValid := decide (lb < ub)
    if valid && !wasValid then .panic
    else if valid then filterByDate now chains { acc with current := acc.current ++ [leaf :: rest] }
    else if wasValid then filterByDate now chains { acc with expired := acc.expired ++ [leaf :: rest] }
    else filterByDate now chains { acc with never := acc.never ++ [leaf :: rest] }

/-! ### Verify -/

structure Opts where
  now : Int                  -- opts.CurrentTime
  keyUsages : List Int       -- opts.KeyUsages
  dnsName : C09.Str          -- opts.DNSName ([] = not requested)

structure Out where
  current : List Chain
  expired : List Chain
  never : List Chain
  err : Option Err
  deriving Repr, DecidableEq

def fuel0 : Nat := 13

/-- `candidateChains, err` of `Verify` -/
def candidateChains (env : Env) (c : Cert) : List Chain × Option Err :=
  if containsFp env.roots c then ([[c]], none)
  else
    let r := buildChains fuel0 env (fun _ => none) c [c]
    (r.1, r.2.1)

/-- `keyUsages` after defaulting to ServerAuth -/
def usagesOf (opts : Opts) : List Int :=
  if opts.keyUsages.length = 0 then [ekuServerAuth] else opts.keyUsages

/-- the `hasKeyUsageAny` / `checkChainForKeyUsage` filter -/
def filterUsage (cands : List Chain) (keyUsages : List Int) : List Chain :=
  if keyUsages.any (fun u => u = ekuAny) then cands
  else cands.filter (fun ch => checkChainForKeyUsage ch keyUsages)

/-- the tail of `Verify` after `FilterByDate` -/
def finish (d : Dated) (hostCert : C09.Cert) (opts : Opts) : Res Out :=
  if d.current.length = 0 then
    let err := if d.expired.length > 0 then some Err.expired
      else if d.never.length > 0 then some Err.neverValid else none
    .ok { current := d.current, expired := d.expired, never := d.never, err := err }
  else if opts.dnsName.length > 0 then
    match C09.verifyHostname hostCert opts.dnsName with
    | .ok .accept => .ok { current := d.current, expired := d.expired, never := d.never, err := none }
    | .ok (.reject _) => .ok { current := d.current, expired := d.expired, never := d.never, err := some .hostname }
    | .err => .err
    | .panic => .panic
  else .ok { current := d.current, expired := d.expired, never := d.never, err := none }

def errOut (e : Err) : Out := { current := [], expired := [], never := [], err := some e }

/-- `(*Certificate).Verify` for a parsed certificate `c` (`hostCert` = its SAN/CN data for
    `VerifyHostname`, see C09) with non-nil `opts.Roots`. -/
def verify (env : Env) (c : Cert) (hostCert : C09.Cert) (opts : Opts) : Res Out :=
  match isValid c .leaf [] with
  | some e => .ok (errOut e)
  | none =>
    match (candidateChains env c).2 with
    | some e => .ok (errOut e)
    | none =>
      let chains := filterUsage (candidateChains env c).1 (usagesOf opts)
      if chains.length = 0 then .ok (errOut .incompatibleUsage)
      else
        match filterByDate opts.now chains { current := [], expired := [], never := [] } with
        | .panic => .panic
        | .err => .err
        | .ok d => finish d hostCert opts

/-! ### ValidateWithStupidDetail (x509/validation.go) -/

/-- `Validation`; `browserError` is the KIND of the error whose text is stored in `BrowserError`
    (`none` = empty string). -/
structure Validation where
  browserTrusted : Bool
  browserError : Option Err
  matchesDomain : Bool
  domain : C09.Str

structure VsdOut where
  chains : List Chain        -- the CURRENT chains of the inner `Verify`
  validation : Validation
  err : Option Err

/-- `(*Certificate).ValidateWithStupidDetail` with a non-zero `opts.CurrentTime`: the requested key
    usages are DISCARDED (`opts.KeyUsages = nil`, so the inner `Verify` defaults to ServerAuth), the
    DNS name is taken out of the options and checked separately by `VerifyHostname`; a host-name
    mismatch becomes the returned error only when chain building succeeded. -/
def validateWithStupidDetail (env : Env) (c : Cert) (hostCert : C09.Cert) (opts : Opts) : Res VsdOut :=
  match verify env c hostCert { now := opts.now, keyUsages := [], dnsName := [] } with
  | .panic => .panic
  | .err => .err
  | .ok o =>
    let trusted : Bool := match o.err with
      | none => true
      | some _ => false
    if opts.dnsName.length = 0 then
      .ok { chains := o.current, err := o.err,
            validation := { browserTrusted := trusted, browserError := o.err, matchesDomain := false, domain := opts.dnsName } }
    else
      match C09.verifyHostname hostCert opts.dnsName with
      | .ok .accept =>
        .ok { chains := o.current, err := o.err,
              validation := { browserTrusted := trusted, browserError := o.err, matchesDomain := true, domain := opts.dnsName } }
      | .ok (.reject _) =>
        .ok { chains := o.current,
              err := (match o.err with
                | none => some Err.hostname
                | some e => some e),
              validation := { browserTrusted := trusted, browserError := o.err, matchesDomain := false, domain := opts.dnsName } }
      | .err => .err
      | .panic => .panic

/-- The constant `maxIntermediateCount` and the guards of `isValid` are re-read from
    x509/verify.go on every run (`ZV.C07.Gen`, T1); see `maxIntermediateCount_generated`. -/
def isValidGuards : List String :=
  ["certType==CertificateTypeIntermediate&&(!c.BasicConstraintsValid||!c.IsCA)",
   "c.BasicConstraintsValid&&c.MaxPathLen>=0",
   "numIntermediates>c.MaxPathLen",
   "len(currentChain)>maxIntermediateCount"]

end ZV.C07
