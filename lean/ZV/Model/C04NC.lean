import ZV.Model.C04
/-!
  Name constraints, at byte level: the `nameConstraints` block of `x509/x509.go: buildExtensions`
  (`asn1.Marshal(nameConstraints{Permitted, Excluded})`, both `optional,tag:n` slices of
  `generalSubtree{Value RawValue optional; Min int tag:0,default:0,optional; Max int tag:1,optional}`; the builder never
  sets Min/Max) and `case 30` of `parseCertificate`'s extension loop.

  A directory name enters as the DER of its RDNSequence (`asn1.Marshal(Data.ToRDNSequence())`, the C22 leg); the
  parser's `asn1.Unmarshal(Value.Bytes, &rawdn)` is the parameter `rdnOK` (instantiated in the driver with the C22
  decoder `ZV.C22.unmarshalAny`).  Tags 5 (ediPartyName) and 8 (registeredID) of the parser are NOT modelled
  (`err`; the builder never writes them and no generated case contains them).
-/
namespace ZV.C04
open ZV ZV.Der ZV.C06

/-- the `base` of one GeneralSubtree as the builder receives it -/
inductive Base where
  | email (d : Bytes)
  | dns (d : Bytes)
  | dir (der : Bytes)
  | ip (addr mask : Bytes)
  deriving Repr, DecidableEq

/-- identifier octet of the `asn1.RawValue{Class: 2, Tag: …}` the builder makes -/
def Base.tag : Base → UInt8
  | .email _ => 0x81
  | .dns _ => 0x82
  | .dir _ => 0xA4
  | .ip _ _ => 0x87

/-- its `Bytes`; an IP range is `append(append([]byte{}, IP...), Mask...)` -/
def Base.bytes : Base → Bytes
  | .email d => d
  | .dns d => d
  | .dir d => d
  | .ip a m => a ++ m

/-- one side (permitted / excluded) of the template -/
structure NCSide where
  email : List Bytes := []
  dns : List Bytes := []
  dir : List Bytes := []
  ip : List (Bytes × Bytes) := []
  deriving Repr, DecidableEq

/-- the order of the builder's loops: e-mail, DNS, directory names, IP ranges -/
def NCSide.bases (s : NCSide) : List Base :=
  s.email.map Base.email ++ s.dns.map Base.dns ++ s.dir.map Base.dir ++ s.ip.map (fun p => Base.ip p.1 p.2)

structure NCT where
  critical : Bool
  permitted : NCSide
  excluded : NCSide
  deriving Repr, DecidableEq

/-- the `len(...) > 0 || …` guard of the block -/
def NCT.present (n : NCT) : Bool := !n.permitted.bases.isEmpty || !n.excluded.bases.isEmpty

/-- `generalSubtree{Value: raw}`: Min (default 0) and Max (optional, zero) are omitted -/
def encSubtree (b : Base) : Bytes := tlv 0x30 (tlv b.tag b.bytes)

/-- an `optional,tag:n` slice: omitted when empty, else `[n] IMPLICIT SEQUENCE OF` -/
def encSubtrees (t : UInt8) (l : List Base) : Bytes :=
  if l.isEmpty then [] else tlv t (l.map encSubtree).flatten

def buildNC (n : NCT) : Bytes :=
  tlv 0x30 (encSubtrees 0xA0 n.permitted.bases ++ encSubtrees 0xA1 n.excluded.bases)

/-! ### parser (`case 30`) -/

structure Subtree where
  value : Option Elem
  min : Int
  max : Int
  deriving Repr, DecidableEq

/-- an `int` field with `tag:k,optional` -/
def optInt (w : Want) (bs : Bytes) : Res (Int × Bytes) :=
  (field w true bs).bind fun r =>
    match r.1 with
    | none => .ok (0, r.2)
    | some i => (parseInt64 i.body).bind fun v => .ok (v, r.2)

def parseSubtree (e : Elem) : Res Subtree :=
  (field .any true e.body).bind fun v =>
  (optInt (.ctx 0 false) v.2).bind fun mn =>
  (optInt (.ctx 1 false) mn.2).bind fun mx =>
  .ok ⟨v.1, mn.1, mx.1⟩

/-- `[]generalSubtree` with `optional,tag:k` -/
def parseSubtrees (w : Want) (bs : Bytes) : Res (List Subtree × Bytes) :=
  (field w true bs).bind fun r =>
    match r.1 with
    | none => .ok ([], r.2)
    | some e =>
      match readElems e.body with
      | .ok es =>
        if es.all (fun x => x.hdr.cls == 0 && x.hdr.tag == 16 && x.hdr.compound) then
          (mapRes parseSubtree es).bind fun l => .ok (l, r.2)
        else .err
      | .err => .err
      | .panic => .panic

/-- the fields of `Certificate` one side fills: (data, min, max) per entry -/
structure NCOutSide where
  email : List (Bytes × Int × Int) := []
  dns : List (Bytes × Int × Int) := []
  uri : List (Bytes × Int × Int) := []
  x400 : Nat := 0
  dir : List (Bytes × Int × Int) := []
  ip : List (Bytes × Bytes × Int × Int) := []
  deriving Repr, DecidableEq

/-- the `switch subtree.Value.Tag` (the tag NUMBER only; class and constructed bit are not looked at) -/
def addSubtree (rdnOK : Bytes → Bool) (acc : NCOutSide) (s : Subtree) : Res NCOutSide :=
  match s.value with
  | none => .ok acc
  | some e =>
    if e.hdr.tag = 1 then .ok { acc with email := acc.email ++ [(e.body, s.min, s.max)] }
    else if e.hdr.tag = 2 then .ok { acc with dns := acc.dns ++ [(e.body, s.min, s.max)] }
    else if e.hdr.tag = 3 then .ok { acc with x400 := acc.x400 + 1 }
    else if e.hdr.tag = 4 then
      (if rdnOK e.body then .ok { acc with dir := acc.dir ++ [(e.body, s.min, s.max)] } else .err)
    else if e.hdr.tag = 5 ∨ e.hdr.tag = 8 then .err
    else if e.hdr.tag = 6 then .ok { acc with uri := acc.uri ++ [(e.body, s.min, s.max)] }
    else if e.hdr.tag = 7 then
      (if e.body.length = 8 then .ok { acc with ip := acc.ip ++ [(e.body.take 4, e.body.drop 4, s.min, s.max)] }
       else if e.body.length = 32 then .ok { acc with ip := acc.ip ++ [(e.body.take 16, e.body.drop 16, s.min, s.max)] }
       else .err)
    else .ok acc

def foldSubtrees (rdnOK : Bytes → Bool) : NCOutSide → List Subtree → Res NCOutSide
  | acc, [] => .ok acc
  | acc, s :: ss =>
    match addSubtree rdnOK acc s with
    | .ok acc' => foldSubtrees rdnOK acc' ss
    | .err => .err
    | .panic => .panic

/-- `case 30`: (permitted, excluded) -/
def parseNC (rdnOK : Bytes → Bool) (value : Bytes) : Res (NCOutSide × NCOutSide) :=
  match first (.univ 16 true) value with
  | .ok e =>
    (parseSubtrees (.ctx 0 true) e.body).bind fun p =>
    (parseSubtrees (.ctx 1 true) p.2).bind fun x =>
    (foldSubtrees rdnOK {} p.1).bind fun ps =>
    (foldSubtrees rdnOK {} x.1).bind fun xs =>
    .ok (ps, xs)
  | .err => .err
  | .panic => .panic

/-- what a template side must come back as -/
def NCSide.out (s : NCSide) : NCOutSide :=
  { email := s.email.map (fun d => (d, 0, 0)), dns := s.dns.map (fun d => (d, 0, 0)),
    dir := s.dir.map (fun d => (d, 0, 0)), ip := s.ip.map (fun p => (p.1, p.2, 0, 0)) }

end ZV.C04
