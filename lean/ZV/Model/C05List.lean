import ZV.Model.C05
import ZV.Model.Time
import ZV.Model.C18
/-!
  List level of `x509.CreateRevocationList` (x509/x509.go) and `x509.ParseRevocationList` (x509/crl_parser.go).

  * `createTBS` / `createRL` — the guards of `CreateRevocationList` (crlSign bit, subject key id, `NextUpdate.Before(ThisUpdate)`,
    nil `Number`, the 20-octet CRL-number rule), the per-entry conversion (reason-code synthesis of `ZV.Model.C05`, times forced to
    UTC) and the DER that `asn1.Marshal(tbsCertificateList)` / `asn1.Marshal(certificateList)` produce: version 1, the signature
    AlgorithmIdentifier (an opaque parameter: the result of `signingParamsForPublicKey`), the issuer's subject bytes verbatim
    (`subjectBytes(issuer)`), `thisUpdate`, `nextUpdate` (OPTIONAL: omitted for the zero `time.Time`), the OPTIONAL
    `revokedCertificates`, and `[0] EXPLICIT` extensions = authorityKeyIdentifier, cRLNumber, then `ExtraExtensions`.
    Times are `ZV.Time.GoTime`; the UTCTime/GeneralizedTime choice and the text are `ZV.Time.EA.timeTag` / `makeTimeBody`
    (year outside 0..9999 ⇒ error).  The signature is a parameter (signing is real Go only).
  * `parseRL` — the cryptobyte walk of `ParseRevocationList`, check for check, on ANY input: `cbRead` is
    `(*String).ReadASN1(out, tag)` (first octet = tag, then header/length rules, which are the ones of `ZV.Der.readElem` for a
    low-tag identifier), `cbAny` is `ReadAnyASN1` (high-tag-number form refused), `peek` is `PeekASN1Tag`.  Times are read by
    `ReadASN1UTCTime` / `ReadASN1GeneralizedTime` (`time.Parse` + re-serialisation test of `ZV.Model.Time`).  `parseName` is modelled
    as its accept/reject decision (`nameOk`: RDN structure, attribute OID, string type and character set — `parseASN1String`).
    As in the Go code, data after the outer SEQUENCE, after the signature, after the extensions inside the TBS, inside an entry
    after its extensions and inside an extension after its value are NOT checked.
  Not modelled: `getSignatureAlgorithmFromAI` (the parsed algorithm OID contents are reported instead), `pkix.Name` field filling.
-/
namespace ZV.C05
open ZV ZV.Der ZV.C06 ZV.C04

abbrev GoTime := ZV.Time.GoTime

/-! ### cryptobyte readers on top of the shared element reader -/

/-- `PeekASN1Tag(t)` -/
def peek (t : UInt8) : Bytes → Bool
  | b :: _ => b == t
  | [] => false

/-- `ReadASN1(out, t)` / `ReadASN1Element(out, t)` for a low-tag identifier octet `t` -/
def cbRead (t : UInt8) (bs : Bytes) : Res (Elem × Bytes) :=
  if !peek t bs then .err else readElem bs

/-- `ReadAnyASN1` / `ReadAnyASN1Element`: high-tag-number form refused -/
def cbAny (bs : Bytes) : Res (Elem × Bytes) :=
  match bs with
  | [] => .err
  | b :: _ => if b.toNat % 32 = 31 then .err else readElem bs

/-! ### times -/

/-- `t.UTC()` -/
def utc (t : GoTime) : GoTime := { t with off := 0 }

/-- `reflect.DeepEqual(t, time.Time{})` for a time in UTC -/
def isZeroTime (t : GoTime) : Bool := t.unix == -62135596800 && t.nsec == 0

/-- `a.Before(b)` -/
def before (a b : GoTime) : Bool := decide (a.unix < b.unix ∨ (a.unix = b.unix ∧ a.nsec < b.nsec))

/-- a `time.Time` struct member without time parameters (`makeField` / `makeBody`) -/
def encTimeG (t : GoTime) : Res Bytes :=
  match Time.EA.makeTimeBody 0 t with
  | .ok body => .ok (tlv (UInt8.ofNat (Time.EA.timeTag 0 t)) body)
  | .err => .err
  | .panic => .panic

/-- `ReadASN1UTCTime` after the element was cut out -/
def cbUTCTime (body : Bytes) : Res GoTime :=
  let r : Option (List Time.Std × GoTime) :=
    match Time.parse Time.layoutUTCSec body with
    | some t => some (Time.layoutUTCSec, t)
    | none =>
      match Time.parse Time.layoutUTCMin body with
      | some t => some (Time.layoutUTCMin, t)
      | none => none
  match r with
  | none => .err
  | some (layout, res) =>
    if Time.format layout res != body then .err
    else if res.year ≥ 2050 then .ok (Time.addYears res (-100))
    else .ok res

/-- `ReadASN1GeneralizedTime` after the element was cut out -/
def cbGenTime (body : Bytes) : Res GoTime :=
  match Time.parse Time.layoutGen body with
  | none => .err
  | some res => if Time.format Time.layoutGen res != body then .err else .ok res

/-- `parseTime` of crl_parser.go -/
def parseTimeCB (bs : Bytes) : Res (GoTime × Bytes) :=
  if peek 0x17 bs then
    (cbRead 0x17 bs).bind fun e => (cbUTCTime e.1.body).bind fun t => .ok (t, e.2)
  else if peek 0x18 bs then
    (cbRead 0x18 bs).bind fun e => (cbGenTime e.1.body).bind fun t => .ok (t, e.2)
  else .err

/-! ### extensions (cryptobyte `parseExtension`) -/

abbrev PExt := Bytes × Bool × Bytes     -- OID contents, critical, value

def parseExtCB (body : Bytes) : Res PExt :=
  (cbRead 0x06 body).bind fun id =>
  if !validOID id.1.body then .err else
  (if peek 0x01 id.2 then
     (cbRead 0x01 id.2).bind fun c => (parseBool c.1.body).bind fun b => .ok (b, c.2)
   else Res.ok (false, id.2)).bind fun c =>
  (cbRead 0x04 c.2).bind fun v => .ok (id.1.body, c.1, v.1.body)

/-- `for !extensions.Empty() { ReadASN1(&extension, SEQUENCE); parseExtension }` (fuel = input length) -/
def parseExtsCB : Nat → Bytes → Res (List PExt)
  | 0, bs => if bs.isEmpty then .ok [] else .err
  | f + 1, bs =>
    if bs.isEmpty then .ok []
    else
      (cbRead 0x30 bs).bind fun e =>
      (parseExtCB e.1.body).bind fun x =>
      (parseExtsCB f e.2).bind fun xs => .ok (x :: xs)

/-- `ReadASN1Enum` on the value of a reasonCode extension -/
def parseEnumCB (value : Bytes) : Res Int :=
  (cbRead 0x0A value).bind fun e => parseInt64 e.1.body

/-- `rc.ReasonCode` after the loop: every reasonCode extension is decoded, the last one wins -/
def scanReasonCB (oidBytes : Bytes) : List PExt → Option Int → Res (Option Int)
  | [], acc => .ok acc
  | x :: xs, acc =>
    if x.1 = oidBytes then (parseEnumCB x.2.2).bind fun n => scanReasonCB oidBytes xs (some n)
    else scanReasonCB oidBytes xs acc

/-! ### entries -/

structure EntryT where
  serial : Int
  time : GoTime            -- `RevocationTime` (any zone; forced to UTC)
  reason : Option Int
  extras : List EExt
  deriving Repr, DecidableEq

structure PEntryT where
  raw : Bytes
  serial : Int
  time : GoTime
  reason : Option Int
  exts : List PExt
  deriving Repr, DecidableEq

def EntryT.synth (e : EntryT) : List EExt := synthExts ⟨e.serial, [], e.reason, e.extras⟩

def encExtsField (xs : List Bytes) : Bytes := if xs.isEmpty then [] else tlv 0x30 xs.flatten

def encEntryT (e : EntryT) : Res Bytes :=
  match e.synth.mapM encExtension with
  | none => .err
  | some xs =>
    match encTimeG (utc e.time) with
    | .ok tb => .ok (tlv 0x30 (tlv 0x02 (encBigInt e.serial) ++ (tb ++ encExtsField xs)))
    | .err => .err
    | .panic => .panic

def encEntriesT (es : List EntryT) : Res Bytes := (mapRes encEntryT es).map List.flatten

/-- bytes of the reasonCode OID 2.5.29.21 -/
def reasonOIDBytes : Bytes := [0x55, 0x1d, 0x15]

/-- one iteration of `for !revokedSeq.Empty()` -/
def parseEntryT (bs : Bytes) : Res (PEntryT × Bytes) :=
  (cbRead 0x30 bs).bind fun c =>
  (cbRead 0x02 c.1.body).bind fun s =>
  (parseBigInt s.1.body).bind fun serial =>
  (parseTimeCB s.2).bind fun t =>
  if peek 0x30 t.2 then
    (cbRead 0x30 t.2).bind fun xe =>
    (parseExtsCB xe.1.body.length xe.1.body).bind fun exts =>
    (scanReasonCB reasonOIDBytes exts none).bind fun r =>
    .ok (⟨c.1.full, serial, t.1, r, exts⟩, c.2)
  else .ok (⟨c.1.full, serial, t.1, none, []⟩, c.2)

def parseEntriesT : Nat → Bytes → Res (List PEntryT)
  | 0, bs => if bs.isEmpty then .ok [] else .err
  | f + 1, bs =>
    if bs.isEmpty then .ok []
    else
      (parseEntryT bs).bind fun e =>
      (parseEntriesT f e.2).bind fun es => .ok (e.1 :: es)

/-! ### `parseName` (accept / reject) -/

/-- `parseASN1String` succeeds -/
def strOk (e : Elem) : Bool :=
  if e.hdr.cls ≠ 0 ∨ e.hdr.compound then false
  else if e.hdr.tag = 20 then true
  else if e.hdr.tag = 19 then e.body.all (fun b => C18.isPrintable b true true)
  else if e.hdr.tag = 12 then C18.utf8Valid e.body
  else if e.hdr.tag = 30 then e.body.length % 2 == 0
  else if e.hdr.tag = 22 then e.body.all (fun b => decide (b.toNat < 128))
  else if e.hdr.tag = 18 then e.body.all (fun b => C18.isNumeric b)
  else false

def atavOk (body : Bytes) : Bool :=
  match cbRead 0x06 body with
  | .ok (o, rest) =>
    validOID o.body &&
      (match cbAny rest with
       | .ok (v, _) => strOk v
       | _ => false)
  | _ => false

def rdnSetOk : Nat → Bytes → Bool
  | 0, bs => bs.isEmpty
  | f + 1, bs =>
    if bs.isEmpty then true
    else
      match cbRead 0x30 bs with
      | .ok (a, rest) => atavOk a.body && rdnSetOk f rest
      | _ => false

def rdnSeqOk : Nat → Bytes → Bool
  | 0, bs => bs.isEmpty
  | f + 1, bs =>
    if bs.isEmpty then true
    else
      match cbRead 0x31 bs with
      | .ok (s, rest) => rdnSetOk s.body.length s.body && rdnSeqOk f rest
      | _ => false

/-- `parseName(issuerSeq)` returns no error (`issuerSeq` is one SEQUENCE element) -/
def nameOk (full : Bytes) : Bool :=
  match cbRead 0x30 full with
  | .ok (e, _) => rdnSeqOk e.body.length e.body
  | _ => false

/-! ### `parseAI` -/

/-- algorithm OID contents; the parameters are one arbitrary element (anything after it is ignored) -/
def parseAICB (body : Bytes) : Res Bytes :=
  (cbRead 0x06 body).bind fun o =>
  if !validOID o.1.body then .err
  else if o.2.isEmpty then .ok o.1.body
  else (cbAny o.2).bind fun _ => .ok o.1.body

/-- `asn1.BitString.RightAlign` -/
def shiftRight (k : Nat) : UInt8 → Bytes → Bytes
  | _, [] => []
  | prev, b :: rest => UInt8.ofNat ((prev.toNat * 2 ^ (8 - k)) % 256 + b.toNat / 2 ^ k) :: shiftRight k b rest

def rightAlign (padding : Nat) (data : Bytes) : Bytes :=
  if padding = 0 ∨ data.isEmpty then data else shiftRight padding 0 data

/-! ### creation -/

structure IssuerC where
  subject : Bytes          -- `subjectBytes(issuer)`: the certificate's RawSubject
  ski : Bytes
  crlSign : Bool
  deriving Repr, DecidableEq

structure RLTmpl where
  thisUpdate : GoTime
  nextUpdate : GoTime
  number : Option Int
  entries : List EntryT
  extras : List EExt
  deriving Repr, DecidableEq

def oidCRLNumber : List Nat := [2, 5, 29, 20]

/-- the extension list of the TBS: AKI, number, extras -/
def listExts (iss : IssuerC) (n : Int) (t : RLTmpl) : List EExt :=
  ⟨oidAKI, false, buildAKI iss.ski⟩ :: ⟨oidCRLNumber, false, tlv 0x02 (encBigInt n)⟩ :: t.extras

/-- OPTIONAL `nextUpdate`: the zero `time.Time` is left out -/
def encNextUpdate (t : GoTime) : Res Bytes := if isZeroTime (utc t) then .ok [] else encTimeG (utc t)

def createTBS (sigAI : Bytes) (iss : IssuerC) (t : RLTmpl) : Res Bytes :=
  if !iss.crlSign then .err
  else if iss.ski.isEmpty then .err
  else if before t.nextUpdate t.thisUpdate then .err
  else
    match t.number with
    | none => .err
    | some n =>
      if !crlNumberOk n then .err
      else
        (encEntriesT t.entries).bind fun revoked =>
        match (listExts iss n t).mapM encExtension with
        | none => .err
        | some xs =>
          (encTimeG (utc t.thisUpdate)).bind fun tu =>
          (encNextUpdate t.nextUpdate).bind fun nu =>
          .ok (tlv 0x30 (tlv 0x02 [1] ++ (sigAI ++ (iss.subject ++ (tu ++ (nu ++
            ((if t.entries.isEmpty then [] else tlv 0x30 revoked) ++ tlv 0xA0 (tlv 0x30 xs.flatten))))))))

/-- `asn1.Marshal(certificateList{tbs, signatureAlgorithm, BitString{signature}})` -/
def wrapSigned (tbs sigAI sig : Bytes) : Bytes := tlv 0x30 (tbs ++ (sigAI ++ tlv 0x03 (0 :: sig)))

def createRL (sigAI : Bytes) (iss : IssuerC) (t : RLTmpl) (sig : Bytes) : Res Bytes :=
  (createTBS sigAI iss t).bind fun tbs => .ok (wrapSigned tbs sigAI sig)

/-! ### parsing -/

structure PRL where
  rawTBS : Bytes
  algOID : Bytes
  signature : Bytes
  rawIssuer : Bytes
  thisUpdate : GoTime
  nextUpdate : Option GoTime
  entries : Option (List PEntryT)
  number : Option Int
  aki : Option Bytes
  exts : List PExt
  deriving Repr, DecidableEq

def oidAKIBytes : Bytes := [0x55, 0x1d, 0x23]
def oidCRLNumberBytes : Bytes := [0x55, 0x1d, 0x14]

/-- `rl.AuthorityKeyId` / `rl.Number` after the extension loop (the last occurrence wins) -/
def scanListExts : List PExt → Option Bytes → Option Int → Res (Option Bytes × Option Int)
  | [], a, n => .ok (a, n)
  | x :: xs, a, n =>
    if x.1 = oidAKIBytes then scanListExts xs (some x.2.2) n
    else if x.1 = oidCRLNumberBytes then
      (cbRead 0x02 x.2.2).bind fun e => (parseBigInt e.1.body).bind fun v => scanListExts xs a (some v)
    else scanListExts xs a n

/-- the tail of `ParseRevocationList` from `thisUpdate` on -/
def parseRLTail (tbs : Bytes) : Res (GoTime × Option GoTime × Option (List PEntryT) × Option Bytes × Option Int × List PExt) :=
  (parseTimeCB tbs).bind fun tu =>
  (if peek 0x18 tu.2 || peek 0x17 tu.2 then (parseTimeCB tu.2).bind fun nu => .ok (some nu.1, nu.2)
   else Res.ok (none, tu.2)).bind fun nu =>
  (if peek 0x30 nu.2 then
     (cbRead 0x30 nu.2).bind fun r => (parseEntriesT r.1.body.length r.1.body).bind fun es => .ok (some es, r.2)
   else Res.ok (none, nu.2)).bind fun rv =>
  if peek 0xA0 rv.2 then
    (cbRead 0xA0 rv.2).bind fun w =>
    (cbRead 0x30 w.1.body).bind fun s =>
    (parseExtsCB s.1.body.length s.1.body).bind fun exts =>
    (scanListExts exts none none).bind fun an =>
    .ok (tu.1, nu.1, rv.1, an.1, an.2, exts)
  else .ok (tu.1, nu.1, rv.1, none, none, [])

def parseRL (der : Bytes) : Res PRL :=
  (cbRead 0x30 der).bind fun outer =>
  (cbRead 0x30 outer.1.body).bind fun tbsE =>
  if !peek 0x02 tbsE.1.body then .err else
  (cbRead 0x02 tbsE.1.body).bind fun v =>
  (parseInt64 v.1.body).bind fun ver =>
  if ver ≠ 1 then .err else
  (cbRead 0x30 v.2).bind fun ai =>
  (cbRead 0x30 tbsE.2).bind fun oai =>
  if oai.1.body ≠ ai.1.body then .err else
  (parseAICB ai.1.body).bind fun alg =>
  (cbRead 0x03 oai.2).bind fun sg =>
  (parseBitString sg.1.body).bind fun bits =>
  (cbRead 0x30 ai.2).bind fun iss =>
  if !nameOk iss.1.full then .err else
  (parseRLTail iss.2).bind fun r =>
  .ok ⟨tbsE.1.full, alg, rightAlign bits.1 bits.2, iss.1.full, r.1, r.2.1, r.2.2.1, r.2.2.2.2.1, r.2.2.2.1, r.2.2.2.2.2⟩

end ZV.C05
