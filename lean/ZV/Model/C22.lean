import ZV.Base
/-!
  Model of `x509/pkix/pkix.go`: `Name`, `(*Name).FillFromRDNSequence`,
  `Name.appendRDNs`, `Name.ToRDNSequence` — as pure functions on values.

  * strings are arbitrary byte strings (`Bytes`; Go strings need not be UTF-8);
  * an attribute value (`interface{}` in Go) is either a Go `string` (`AVal.str`)
    or anything else (`AVal.other tag raw`, opaque: `FillFromRDNSequence` only asks
    `atv.Value.(string)` and skips the rest, but keeps it in `Names`);
  * a Go slice that the code tests against `nil` (`OriginalRDNS`, the result of
    `ToRDNSequence`) is an `Option`: `none` = nil, `some []` = non-nil empty.  The
    `[]string` fields are never tested against nil and are plain lists.
  * the OID dispatch of `FillFromRDNSequence` (`fillPrefix`/`fillSwitch`/`fillChain`)
    and the emission order of `ToRDNSequence` (`emitRows`) are tables; `Props/C22`
    proves they equal the tables extracted from pkix.go (T1, `ZV.Generated.C22`).
-/
namespace ZV.C22

abbrev OID := List Nat

/-- the `[]string` fields of `pkix.Name` -/
inductive Field where
  | country | organization | organizationalUnit
  | locality | province
  | streetAddress | postalCode | domainComponent
  | emailAddress
  | serialNumbers | commonNames
  | givenName | surname
  | organizationIDs
  | jurisdictionLocality | jurisdictionProvince | jurisdictionCountry
  deriving Repr, DecidableEq

/-- the scalar `string` fields of `pkix.Name` -/
inductive Scalar where
  | serialNumber | commonName
  deriving Repr, DecidableEq

/-- `interface{}` attribute value: a Go string, or something that is not a string. -/
inductive AVal where
  | str (s : Bytes)
  | other (tag : Nat) (raw : Bytes)
  deriving Repr, DecidableEq

structure ATV where
  type : OID
  value : AVal
  deriving Repr, DecidableEq

abbrev RDN := List ATV
abbrev RDNSeq := List RDN

structure Name where
  country : List Bytes := []
  organization : List Bytes := []
  organizationalUnit : List Bytes := []
  locality : List Bytes := []
  province : List Bytes := []
  streetAddress : List Bytes := []
  postalCode : List Bytes := []
  domainComponent : List Bytes := []
  emailAddress : List Bytes := []
  serialNumber : Bytes := []
  commonName : Bytes := []
  serialNumbers : List Bytes := []
  commonNames : List Bytes := []
  givenName : List Bytes := []
  surname : List Bytes := []
  organizationIDs : List Bytes := []
  jurisdictionLocality : List Bytes := []
  jurisdictionProvince : List Bytes := []
  jurisdictionCountry : List Bytes := []
  names : List ATV := []
  extraNames : List ATV := []
  originalRDNS : Option RDNSeq := none
  deriving Repr, DecidableEq

/-- the zero value `pkix.Name{}` -/
def Name.empty : Name := {}

def Name.get (n : Name) : Field → List Bytes
  | .country => n.country
  | .organization => n.organization
  | .organizationalUnit => n.organizationalUnit
  | .locality => n.locality
  | .province => n.province
  | .streetAddress => n.streetAddress
  | .postalCode => n.postalCode
  | .domainComponent => n.domainComponent
  | .emailAddress => n.emailAddress
  | .serialNumbers => n.serialNumbers
  | .commonNames => n.commonNames
  | .givenName => n.givenName
  | .surname => n.surname
  | .organizationIDs => n.organizationIDs
  | .jurisdictionLocality => n.jurisdictionLocality
  | .jurisdictionProvince => n.jurisdictionProvince
  | .jurisdictionCountry => n.jurisdictionCountry

def Name.getS (n : Name) : Scalar → Bytes
  | .serialNumber => n.serialNumber
  | .commonName => n.commonName

/-- `n.F = h(n.F)` -/
def Name.modify (n : Name) (f : Field) (h : List Bytes → List Bytes) : Name :=
  match f with
  | .country => { n with country := h n.country }
  | .organization => { n with organization := h n.organization }
  | .organizationalUnit => { n with organizationalUnit := h n.organizationalUnit }
  | .locality => { n with locality := h n.locality }
  | .province => { n with province := h n.province }
  | .streetAddress => { n with streetAddress := h n.streetAddress }
  | .postalCode => { n with postalCode := h n.postalCode }
  | .domainComponent => { n with domainComponent := h n.domainComponent }
  | .emailAddress => { n with emailAddress := h n.emailAddress }
  | .serialNumbers => { n with serialNumbers := h n.serialNumbers }
  | .commonNames => { n with commonNames := h n.commonNames }
  | .givenName => { n with givenName := h n.givenName }
  | .surname => { n with surname := h n.surname }
  | .organizationIDs => { n with organizationIDs := h n.organizationIDs }
  | .jurisdictionLocality => { n with jurisdictionLocality := h n.jurisdictionLocality }
  | .jurisdictionProvince => { n with jurisdictionProvince := h n.jurisdictionProvince }
  | .jurisdictionCountry => { n with jurisdictionCountry := h n.jurisdictionCountry }

/-- `n.S = v` -/
def Name.setS (n : Name) (s : Scalar) (v : Bytes) : Name :=
  match s with
  | .serialNumber => { n with serialNumber := v }
  | .commonName => { n with commonName := v }

/-! ### `FillFromRDNSequence` -/

/-- one statement of a switch arm / else-if body:
    `n.S = value`  or  `n.F = append(n.F, value)` -/
inductive Act where
  | set (s : Scalar)
  | app (f : Field)
  deriving Repr, DecidableEq

def applyAct (v : Bytes) (n : Name) : Act → Name
  | .set s => n.setS s v
  | .app f => n.modify f (fun l => l ++ [v])

/-- `len(t) == 4 && t[0] == 2 && t[1] == 5 && t[2] == 4` -/
def fillPrefix : List Nat := [2, 5, 4]
def fillPrefixLen : Nat := 4

/-- `switch t[3] { case k: … }` -/
def fillSwitch : List (Nat × List Act) := [
  (3, [.set .commonName, .app .commonNames]),
  (4, [.app .surname]),
  (5, [.set .serialNumber, .app .serialNumbers]),
  (6, [.app .country]),
  (7, [.app .locality]),
  (8, [.app .province]),
  (9, [.app .streetAddress]),
  (10, [.app .organization]),
  (11, [.app .organizationalUnit]),
  (17, [.app .postalCode]),
  (42, [.app .givenName]),
  (97, [.app .organizationIDs])]

def oidDomainComponent : OID := [0, 9, 2342, 19200300, 100, 1, 25]
def oidDNEmailAddress : OID := [1, 2, 840, 113549, 1, 9, 1]
def oidJurisdictionLocality : OID := [1, 3, 6, 1, 4, 1, 311, 60, 2, 1, 1]
def oidJurisdictionProvince : OID := [1, 3, 6, 1, 4, 1, 311, 60, 2, 1, 2]
def oidJurisdictionCountry : OID := [1, 3, 6, 1, 4, 1, 311, 60, 2, 1, 3]

/-- `else if t.Equal(oidX) { … }` chain, in source order -/
def fillChain : List (OID × List Act) := [
  (oidDomainComponent, [.app .domainComponent]),
  (oidDNEmailAddress, [.app .emailAddress]),
  (oidJurisdictionLocality, [.app .jurisdictionLocality]),
  (oidJurisdictionProvince, [.app .jurisdictionProvince]),
  (oidJurisdictionCountry, [.app .jurisdictionCountry])]

/-- first matching `case` (Go `switch`: no fall-through, no match ⇒ nothing) -/
def lookupSwitch (k : Nat) : List (Nat × List Act) → List Act
  | [] => []
  | (c, acts) :: rest => if k = c then acts else lookupSwitch k rest

/-- first matching `else if t.Equal(..)` -/
def lookupChain (t : OID) : List (OID × List Act) → List Act
  | [] => []
  | (o, acts) :: rest => if t = o then acts else lookupChain t rest

/-- the statements executed for a string-valued attribute of type `t` -/
def armOf (t : OID) : List Act :=
  if t.length = fillPrefixLen ∧ t.take 3 = fillPrefix then
    match t.drop 3 with
    | k :: _ => lookupSwitch k fillSwitch
    | [] => []
  else lookupChain t fillChain

/-- body of the inner loop `for _, atv := range rdn` -/
def fillATV (n : Name) (a : ATV) : Name :=
  let n1 := { n with names := n.names ++ [a] }
  match a.value with
  | .other _ _ => n1                                   -- `if !ok { continue }`
  | .str v => (armOf a.type).foldl (applyAct v) n1

/-- body of the outer loop `for _, rdn := range *rdns` -/
def fillRDN (n : Name) (rdn : RDN) : Name :=
  if rdn.length = 0 then n else rdn.foldl fillATV n

/-- `n.FillFromRDNSequence(&seq)` on an existing name (`none` = `*rdns` is a nil slice). -/
def fillInto (n : Name) (seq : Option RDNSeq) : Name :=
  let n1 := { n with originalRDNS := seq }
  match seq with
  | none => n1
  | some s => s.foldl fillRDN n1

/-- `var n Name; n.FillFromRDNSequence(&seq)` -/
def fill (seq : Option RDNSeq) : Name := fillInto Name.empty seq

/-! ### `ToRDNSequence` -/

/-- `appendRDNs(in, values, oid)` -/
def appendRDNs (inp : RDNSeq) (values : List Bytes) (oid : OID) : RDNSeq :=
  if values.length = 0 then inp
  else inp ++ [values.map (fun v => { type := oid, value := .str v })]

/-- the `values` argument of one `appendRDNs` call of `ToRDNSequence` -/
inductive Src where
  | slice (f : Field)       -- `ret = n.appendRDNs(ret, n.F, oid)`
  | guarded (s : Scalar)    -- `if len(n.S) > 0 { ret = n.appendRDNs(ret, []string{n.S}, oid) }`
  deriving Repr, DecidableEq

def oidCountry : OID := [2, 5, 4, 6]
def oidOrganization : OID := [2, 5, 4, 10]
def oidOrganizationalUnit : OID := [2, 5, 4, 11]
def oidCommonName : OID := [2, 5, 4, 3]
def oidSerialNumber : OID := [2, 5, 4, 5]
def oidLocality : OID := [2, 5, 4, 7]
def oidProvince : OID := [2, 5, 4, 8]
def oidStreetAddress : OID := [2, 5, 4, 9]
def oidPostalCode : OID := [2, 5, 4, 17]
def oidOrganizationID : OID := [2, 5, 4, 97]

/-- the `appendRDNs` calls of `ToRDNSequence`, in source order -/
def emitRows : List (Src × OID) := [
  (.guarded .commonName, oidCommonName),
  (.slice .emailAddress, oidDNEmailAddress),
  (.slice .organizationalUnit, oidOrganizationalUnit),
  (.slice .organization, oidOrganization),
  (.slice .streetAddress, oidStreetAddress),
  (.slice .locality, oidLocality),
  (.slice .province, oidProvince),
  (.slice .postalCode, oidPostalCode),
  (.slice .country, oidCountry),
  (.slice .domainComponent, oidDomainComponent),
  (.slice .jurisdictionLocality, oidJurisdictionLocality),
  (.slice .jurisdictionProvince, oidJurisdictionProvince),
  (.slice .jurisdictionCountry, oidJurisdictionCountry),
  (.slice .organizationIDs, oidOrganizationID),
  (.guarded .serialNumber, oidSerialNumber)]

/-- one statement of `ToRDNSequence` -/
def emitStep (n : Name) (ret : RDNSeq) (row : Src × OID) : RDNSeq :=
  match row.1 with
  | .slice f => appendRDNs ret (n.get f) row.2
  | .guarded s => if (n.getS s).length > 0 then appendRDNs ret [n.getS s] row.2 else ret

/-- the field part of `ToRDNSequence`: all `appendRDNs` calls, then one RDN per `ExtraNames` entry -/
def emit (n : Name) : RDNSeq :=
  n.extraNames.foldl (fun ret atv => ret ++ [[atv]]) (emitRows.foldl (emitStep n) [])

/-- a Go slice built only by `append` from `nil` is nil iff nothing was appended -/
def nilIfEmpty (s : RDNSeq) : Option RDNSeq :=
  match s with
  | [] => none
  | _ :: _ => some s

/-- `n.ToRDNSequence()`; `none` = nil result -/
def toRDN (n : Name) : Option RDNSeq :=
  match n.originalRDNS with
  | some s => some s                    -- `if n.OriginalRDNS != nil { return n.OriginalRDNS }`
  | none => nilIfEmpty (emit n)

/-! ### Go names (T1: the generated tables speak about Go identifiers) -/

def Field.all : List Field := [
  .country, .organization, .organizationalUnit, .locality, .province, .streetAddress, .postalCode,
  .domainComponent, .emailAddress, .serialNumbers, .commonNames, .givenName, .surname, .organizationIDs,
  .jurisdictionLocality, .jurisdictionProvince, .jurisdictionCountry]

def Scalar.all : List Scalar := [.serialNumber, .commonName]

def Field.goName : Field → String
  | .country => "Country"
  | .organization => "Organization"
  | .organizationalUnit => "OrganizationalUnit"
  | .locality => "Locality"
  | .province => "Province"
  | .streetAddress => "StreetAddress"
  | .postalCode => "PostalCode"
  | .domainComponent => "DomainComponent"
  | .emailAddress => "EmailAddress"
  | .serialNumbers => "SerialNumbers"
  | .commonNames => "CommonNames"
  | .givenName => "GivenName"
  | .surname => "Surname"
  | .organizationIDs => "OrganizationIDs"
  | .jurisdictionLocality => "JurisdictionLocality"
  | .jurisdictionProvince => "JurisdictionProvince"
  | .jurisdictionCountry => "JurisdictionCountry"

def Scalar.goName : Scalar → String
  | .serialNumber => "SerialNumber"
  | .commonName => "CommonName"

/-- "=X" is `n.X = value`, "+X" is `n.X = append(n.X, value)` -/
def Act.goName : Act → String
  | .set s => "=" ++ s.goName
  | .app f => "+" ++ f.goName

/-- a row of `emitRows` in the shape the extractor prints: (kind, field, oid) -/
def rowGo (row : Src × OID) : String × String × List Nat :=
  match row.1 with
  | .slice f => ("slice", f.goName, row.2)
  | .guarded s => ("guarded", s.goName, row.2)

/-- the whole statement list of `ToRDNSequence` as modelled by `toRDN`/`emit`:
    OriginalRDNS short-cut first, the `emitRows`, the ExtraNames loop, `return ret`. -/
def toRDNShape : List (String × String × List Nat) :=
  [("original", "OriginalRDNS", [])] ++ emitRows.map rowGo ++ [("extra", "ExtraNames", []), ("return", "ret", [])]

end ZV.C22
