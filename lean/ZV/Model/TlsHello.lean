import ZV.Base
/-!
  ZV.TlsHello — shared model of `tls/handshake_messages.go: (*clientHelloMsg).unmarshal`
  (zcrypto) together with the `cryptobyte.String` reader primitives it uses.

  * readers return `Option (value × rest)`; `none` = the Go method returned `false`
  * every loop over a length-prefixed list recurses on the rest of the buffer
    (`termination_by s.length`; the reader lemmas `*_len` show the rest is shorter)
  * `parseClientHello` mirrors `unmarshal` branch for branch; the value of the struct on a
    failed parse is not modelled (the Go callers discard it), so loops that append to a field
    are modelled as "parse the whole list, then append".

  Core Lean only (imported by the compiled driver).
-/
set_option linter.unusedVariables false
namespace ZV.TlsHello

/-! ### writers (big-endian, truncating like Go's `uint8(x>>8), uint8(x)`) -/

def u8 (n : Nat) : Bytes := [UInt8.ofNat n]
def u16 (n : Nat) : Bytes := [UInt8.ofNat (n / 256), UInt8.ofNat n]
def u24 (n : Nat) : Bytes := [UInt8.ofNat (n / 65536), UInt8.ofNat (n / 256), UInt8.ofNat n]
def u32 (n : Nat) : Bytes :=
  [UInt8.ofNat (n / 16777216), UInt8.ofNat (n / 65536), UInt8.ofNat (n / 256), UInt8.ofNat n]

/-! ### cryptobyte.String readers -/

/-- `s.ReadBytes(&out, n)` / `s.read(n)`: fails when fewer than `n` bytes remain. -/
def readBytes (n : Nat) (s : Bytes) : Option (Bytes × Bytes) :=
  if s.length < n then none else some (s.take n, s.drop n)

/-- `s.Skip(n)` -/
def skip (n : Nat) (s : Bytes) : Option Bytes :=
  if s.length < n then none else some (s.drop n)

def readU8 : Bytes → Option (Nat × Bytes)
  | a :: r => some (a.toNat, r)
  | _ => none

def readU16 : Bytes → Option (Nat × Bytes)
  | a :: b :: r => some (a.toNat * 256 + b.toNat, r)
  | _ => none

def readU24 : Bytes → Option (Nat × Bytes)
  | a :: b :: c :: r => some (a.toNat * 65536 + b.toNat * 256 + c.toNat, r)
  | _ => none

def readU32 : Bytes → Option (Nat × Bytes)
  | a :: b :: c :: d :: r => some (a.toNat * 16777216 + b.toNat * 65536 + c.toNat * 256 + d.toNat, r)
  | _ => none

/-- `s.ReadUint8LengthPrefixed(&out)` → `(body, rest)` -/
def readU8LP (s : Bytes) : Option (Bytes × Bytes) :=
  match readU8 s with
  | none => none
  | some (n, r) => readBytes n r

def readU16LP (s : Bytes) : Option (Bytes × Bytes) :=
  match readU16 s with
  | none => none
  | some (n, r) => readBytes n r

def readU24LP (s : Bytes) : Option (Bytes × Bytes) :=
  match readU24 s with
  | none => none
  | some (n, r) => readBytes n r

/-! ### the rest is shorter (used by `termination_by s.length`) -/

theorem readBytes_len {n : Nat} {s b r : Bytes} (h : readBytes n s = some (b, r)) :
    r.length + n = s.length ∧ b.length = n := by
  unfold readBytes at h
  split at h
  · cases h
  · cases h
    simp only [List.length_drop, List.length_take]
    omega

theorem readU8_len {s r : Bytes} {v : Nat} (h : readU8 s = some (v, r)) : r.length + 1 = s.length := by
  cases s with
  | nil => simp [readU8] at h
  | cons a t => simp only [readU8, Option.some.injEq, Prod.mk.injEq] at h; simp [h.2]

theorem readU16_len {s r : Bytes} {v : Nat} (h : readU16 s = some (v, r)) : r.length + 2 = s.length := by
  match s, h with
  | a :: b :: t, h => simp only [readU16, Option.some.injEq, Prod.mk.injEq] at h; simp [h.2]

theorem readU24_len {s r : Bytes} {v : Nat} (h : readU24 s = some (v, r)) : r.length + 3 = s.length := by
  match s, h with
  | a :: b :: c :: t, h => simp only [readU24, Option.some.injEq, Prod.mk.injEq] at h; simp [h.2]

theorem readU32_len {s r : Bytes} {v : Nat} (h : readU32 s = some (v, r)) : r.length + 4 = s.length := by
  match s, h with
  | a :: b :: c :: d :: t, h => simp only [readU32, Option.some.injEq, Prod.mk.injEq] at h; simp [h.2]

theorem readU8LP_len {s b r : Bytes} (h : readU8LP s = some (b, r)) : r.length + b.length + 1 = s.length := by
  unfold readU8LP at h
  split at h
  · cases h
  · rename_i n r1 h1
    have := readU8_len h1
    have := readBytes_len h
    omega

theorem readU16LP_len {s b r : Bytes} (h : readU16LP s = some (b, r)) : r.length + b.length + 2 = s.length := by
  unfold readU16LP at h
  split at h
  · cases h
  · rename_i n r1 h1
    have := readU16_len h1
    have := readBytes_len h
    omega

theorem readU24LP_len {s b r : Bytes} (h : readU24LP s = some (b, r)) : r.length + b.length + 3 = s.length := by
  unfold readU24LP at h
  split at h
  · cases h
  · rename_i n r1 h1
    have := readU24_len h1
    have := readBytes_len h
    omega

/-! ### the message -/

structure KeyShare where
  group : Nat
  data : Bytes
  deriving DecidableEq, Repr

structure PskIdentity where
  label : Bytes
  age : Nat
  deriving DecidableEq, Repr

/-- the fields of `clientHelloMsg` that `unmarshal` fills from the wire (Go field order;
    `raw`, `sctEnabled`, `unknownExtensions` are not wire fields). Strings are byte lists. -/
structure ClientHello where
  vers : Nat
  random : Bytes
  sessionId : Bytes
  cipherSuites : List Nat
  compressionMethods : Bytes
  serverName : Bytes
  ocspStapling : Bool
  supportedCurves : List Nat
  supportedPoints : Bytes
  ticketSupported : Bool
  sessionTicket : Bytes
  sigAlgs : List Nat
  sigAlgsCert : List Nat
  secureRenegotiationSupported : Bool
  secureRenegotiation : Bytes
  extendedRandomEnabled : Bool
  extendedRandom : Bytes
  extendedMasterSecret : Bool
  alpnProtocols : List Bytes
  scts : Bool
  supportedVersions : List Nat
  cookie : Bytes
  keyShares : List KeyShare
  earlyData : Bool
  pskModes : Bytes
  pskIdentities : List PskIdentity
  pskBinders : List Bytes
  deriving DecidableEq, Repr

/-- `clientHelloMsg{}` -/
def ClientHello.empty : ClientHello :=
  { vers := 0, random := [], sessionId := [], cipherSuites := [], compressionMethods := [],
    serverName := [], ocspStapling := false, supportedCurves := [], supportedPoints := [],
    ticketSupported := false, sessionTicket := [], sigAlgs := [], sigAlgsCert := [],
    secureRenegotiationSupported := false, secureRenegotiation := [],
    extendedRandomEnabled := false, extendedRandom := [], extendedMasterSecret := false,
    alpnProtocols := [], scts := false, supportedVersions := [], cookie := [], keyShares := [],
    earlyData := false, pskModes := [], pskIdentities := [], pskBinders := [] }

/-! ### constants of tls/common.go -/
def extensionServerName : Nat := 0
def extensionStatusRequest : Nat := 5
def extensionSupportedCurves : Nat := 10
def extensionSupportedPoints : Nat := 11
def extensionSignatureAlgorithms : Nat := 13
def extensionALPN : Nat := 16
def extensionSCT : Nat := 18
def extensionExtendedMasterSecret : Nat := 23
def extensionSessionTicket : Nat := 35
def extensionExtendedRandom : Nat := 40
def extensionPreSharedKey : Nat := 41
def extensionEarlyData : Nat := 42
def extensionSupportedVersions : Nat := 43
def extensionCookie : Nat := 44
def extensionPSKModes : Nat := 45
def extensionSignatureAlgorithmsCert : Nat := 50
def extensionKeyShare : Nat := 51
def extensionRenegotiationInfo : Nat := 65281
def scsvRenegotiation : Nat := 255
def statusTypeOCSP : Nat := 1

/-! ### inner loops -/

/-- `for !l.Empty() { l.ReadUint16(&x) … append }` : an odd number of bytes fails. -/
def readU16s : Bytes → Option (List Nat)
  | [] => some []
  | [_] => none
  | a :: b :: r =>
    match readU16s r with
    | none => none
    | some l => some ((a.toNat * 256 + b.toNat) :: l)

/-- the `server_name` list loop; `cur` is `m.serverName` so far (a second host_name entry —
    also one in a second server_name extension — is rejected; entries of another name type are
    skipped after their syntax has been checked). -/
def parseNameList (s : Bytes) (cur : Bytes) : Option Bytes :=
  if s.isEmpty then some cur
  else
    match h1 : readU8 s with
    | none => none
    | some (nameType, r1) =>
      match h2 : readU16LP r1 with
      | none => none
      | some (name, r2) =>
        if name.isEmpty then none
        else if nameType != 0 then parseNameList r2 cur
        else if !cur.isEmpty then none
        else if name.getLast? == some 46 then none      -- strings.HasSuffix(m.serverName, ".")
        else parseNameList r2 name
termination_by s.length
decreasing_by
  all_goals
    have := readU8_len h1
    have := readU16LP_len h2
    omega

/-- ALPN protocol list loop -/
def parseProtoList (s : Bytes) : Option (List Bytes) :=
  if s.isEmpty then some []
  else
    match h : readU8LP s with
    | none => none
    | some (proto, r) =>
      if proto.isEmpty then none
      else
        match parseProtoList r with
        | none => none
        | some l => some (proto :: l)
termination_by s.length
decreasing_by
  have := readU8LP_len h
  omega

/-- key_share client shares loop -/
def parseKeyShares (s : Bytes) : Option (List KeyShare) :=
  if s.isEmpty then some []
  else
    match h1 : readU16 s with
    | none => none
    | some (group, r1) =>
      match h2 : readU16LP r1 with
      | none => none
      | some (data, r2) =>
        if data.isEmpty then none
        else
          match parseKeyShares r2 with
          | none => none
          | some l => some ({ group := group, data := data } :: l)
termination_by s.length
decreasing_by
  have := readU16_len h1
  have := readU16LP_len h2
  omega

/-- pre_shared_key identities loop -/
def parsePskIdentities (s : Bytes) : Option (List PskIdentity) :=
  if s.isEmpty then some []
  else
    match h1 : readU16LP s with
    | none => none
    | some (label, r1) =>
      match h2 : readU32 r1 with
      | none => none
      | some (age, r2) =>
        if label.isEmpty then none
        else
          match parsePskIdentities r2 with
          | none => none
          | some l => some ({ label := label, age := age } :: l)
termination_by s.length
decreasing_by
  have := readU16LP_len h1
  have := readU32_len h2
  omega

/-- pre_shared_key binders loop -/
def parsePskBinders (s : Bytes) : Option (List Bytes) :=
  if s.isEmpty then some []
  else
    match h : readU8LP s with
    | none => none
    | some (binder, r) =>
      if binder.isEmpty then none
      else
        match parsePskBinders r with
        | none => none
        | some l => some (binder :: l)
termination_by s.length
decreasing_by
  have := readU8LP_len h
  omega

/-! ### one arm of the extension switch: `(message, what is left of extData)` -/

def armServerName (extData : Bytes) (m : ClientHello) : Option (ClientHello × Bytes) :=
  match readU16LP extData with
  | none => none
  | some (nameList, rest) =>
    if nameList.isEmpty then none
    else
      match parseNameList nameList m.serverName with
      | none => none
      | some name => some ({ m with serverName := name }, rest)

def armStatusRequest (extData : Bytes) (m : ClientHello) : Option (ClientHello × Bytes) :=
  match readU8 extData with
  | none => none
  | some (statusType, r1) =>
    match readU16LP r1 with
    | none => none
    | some (_, r2) =>
      match readU16LP r2 with
      | none => none
      | some (_, r3) => some ({ m with ocspStapling := statusType == statusTypeOCSP }, r3)

def armSupportedCurves (extData : Bytes) (m : ClientHello) : Option (ClientHello × Bytes) :=
  match readU16LP extData with
  | none => none
  | some (curves, rest) =>
    if curves.isEmpty then none
    else
      match readU16s curves with
      | none => none
      | some l => some ({ m with supportedCurves := m.supportedCurves ++ l }, rest)

def armSupportedPoints (extData : Bytes) (m : ClientHello) : Option (ClientHello × Bytes) :=
  match readU8LP extData with
  | none => none
  | some (pts, rest) =>
    if pts.isEmpty then none else some ({ m with supportedPoints := pts }, rest)

/-- `m.ticketSupported = true; extData.ReadBytes(&m.sessionTicket, len(extData))` (result ignored) -/
def armSessionTicket (extData : Bytes) (m : ClientHello) : Option (ClientHello × Bytes) :=
  match readBytes extData.length extData with
  | none => some ({ m with ticketSupported := true }, extData)
  | some (t, rest) => some ({ m with ticketSupported := true, sessionTicket := t }, rest)

def armSignatureAlgorithms (extData : Bytes) (m : ClientHello) : Option (ClientHello × Bytes) :=
  match readU16LP extData with
  | none => none
  | some (algs, rest) =>
    if algs.isEmpty then none
    else
      match readU16s algs with
      | none => none
      | some l => some ({ m with sigAlgs := m.sigAlgs ++ l }, rest)

def armSignatureAlgorithmsCert (extData : Bytes) (m : ClientHello) : Option (ClientHello × Bytes) :=
  match readU16LP extData with
  | none => none
  | some (algs, rest) =>
    if algs.isEmpty then none
    else
      match readU16s algs with
      | none => none
      | some l => some ({ m with sigAlgsCert := m.sigAlgsCert ++ l }, rest)

def armRenegotiationInfo (extData : Bytes) (m : ClientHello) : Option (ClientHello × Bytes) :=
  match readU8LP extData with
  | none => none
  | some (ri, rest) =>
    some ({ m with secureRenegotiation := ri, secureRenegotiationSupported := true }, rest)

def armALPN (extData : Bytes) (m : ClientHello) : Option (ClientHello × Bytes) :=
  match readU16LP extData with
  | none => none
  | some (protoList, rest) =>
    if protoList.isEmpty then none
    else
      match parseProtoList protoList with
      | none => none
      | some l => some ({ m with alpnProtocols := m.alpnProtocols ++ l }, rest)

def armSupportedVersions (extData : Bytes) (m : ClientHello) : Option (ClientHello × Bytes) :=
  match readU8LP extData with
  | none => none
  | some (versList, rest) =>
    if versList.isEmpty then none
    else
      match readU16s versList with
      | none => none
      | some l => some ({ m with supportedVersions := m.supportedVersions ++ l }, rest)

def armCookie (extData : Bytes) (m : ClientHello) : Option (ClientHello × Bytes) :=
  match readU16LP extData with
  | none => none
  | some (c, rest) => if c.isEmpty then none else some ({ m with cookie := c }, rest)

def armKeyShare (extData : Bytes) (m : ClientHello) : Option (ClientHello × Bytes) :=
  match readU16LP extData with
  | none => none
  | some (shares, rest) =>
    match parseKeyShares shares with
    | none => none
    | some l => some ({ m with keyShares := m.keyShares ++ l }, rest)

def armPSKModes (extData : Bytes) (m : ClientHello) : Option (ClientHello × Bytes) :=
  match readU8LP extData with
  | none => none
  | some (modes, rest) => some ({ m with pskModes := modes }, rest)

/-- pre_shared_key: must be the last extension (`isLast` = `extensions.Empty()` after reading it). -/
def armPreSharedKey (extData : Bytes) (isLast : Bool) (m : ClientHello) : Option (ClientHello × Bytes) :=
  if !isLast then none
  else
    match readU16LP extData with
    | none => none
    | some (identities, r1) =>
      if identities.isEmpty then none
      else
        match parsePskIdentities identities with
        | none => none
        | some ids =>
          match readU16LP r1 with
          | none => none
          | some (binders, r2) =>
            if binders.isEmpty then none
            else
              match parsePskBinders binders with
              | none => none
              | some bs =>
                some ({ m with pskIdentities := m.pskIdentities ++ ids, pskBinders := m.pskBinders ++ bs }, r2)

def armExtendedRandom (extData : Bytes) (m : ClientHello) : Option (ClientHello × Bytes) :=
  match readU16LP extData with
  | none => none
  | some (er, rest) =>
    if er.isEmpty then none
    else some ({ m with extendedRandomEnabled := true, extendedRandom := er }, rest)

/-- the check after the switch: `if !extData.Empty() { return false }` -/
def finish (r : Option (ClientHello × Bytes)) : Option ClientHello :=
  match r with
  | none => none
  | some (m, rest) => if rest.isEmpty then some m else none

/-- One iteration of the extension loop after `extension` and `extData` have been read:
    the `switch` (unknown types: `continue`, nothing checked) and the trailing-data check. -/
def parseExt (ext : Nat) (extData : Bytes) (isLast : Bool) (m : ClientHello) : Option ClientHello :=
  if ext = extensionServerName then finish (armServerName extData m)
  else if ext = extensionStatusRequest then finish (armStatusRequest extData m)
  else if ext = extensionSupportedCurves then finish (armSupportedCurves extData m)
  else if ext = extensionSupportedPoints then finish (armSupportedPoints extData m)
  else if ext = extensionSessionTicket then finish (armSessionTicket extData m)
  else if ext = extensionSignatureAlgorithms then finish (armSignatureAlgorithms extData m)
  else if ext = extensionSignatureAlgorithmsCert then finish (armSignatureAlgorithmsCert extData m)
  else if ext = extensionRenegotiationInfo then finish (armRenegotiationInfo extData m)
  else if ext = extensionALPN then finish (armALPN extData m)
  else if ext = extensionSCT then finish (some ({ m with scts := true }, extData))
  else if ext = extensionSupportedVersions then finish (armSupportedVersions extData m)
  else if ext = extensionCookie then finish (armCookie extData m)
  else if ext = extensionKeyShare then finish (armKeyShare extData m)
  else if ext = extensionEarlyData then finish (some ({ m with earlyData := true }, extData))
  else if ext = extensionPSKModes then finish (armPSKModes extData m)
  else if ext = extensionPreSharedKey then finish (armPreSharedKey extData isLast m)
  else if ext = extensionExtendedRandom then finish (armExtendedRandom extData m)
  else if ext = extensionExtendedMasterSecret then finish (some ({ m with extendedMasterSecret := true }, extData))
  else some m

/-- `for !extensions.Empty() { … }` -/
def parseExts (s : Bytes) (m : ClientHello) : Option ClientHello :=
  if s.isEmpty then some m
  else
    match h1 : readU16 s with
    | none => none
    | some (ext, r1) =>
      match h2 : readU16LP r1 with
      | none => none
      | some (extData, r2) =>
        match parseExt ext extData r2.isEmpty m with
        | none => none
        | some m' => parseExts r2 m'
termination_by s.length
decreasing_by
  have := readU16_len h1
  have := readU16LP_len h2
  omega

/-- `(*clientHelloMsg).unmarshal`; `none` = `false`. -/
def parseClientHello (data : Bytes) : Option ClientHello :=
  match skip 4 data with                       -- message type and uint24 length: not looked at
  | none => none
  | some s1 =>
    match readU16 s1 with
    | none => none
    | some (vers, s2) =>
      match readBytes 32 s2 with
      | none => none
      | some (random, s3) =>
        match readU8LP s3 with
        | none => none
        | some (sessionId, s4) =>
          match readU16LP s4 with
          | none => none
          | some (suiteBytes, s5) =>
            match readU16s suiteBytes with
            | none => none
            | some suites =>
              match readU8LP s5 with
              | none => none
              | some (comp, s6) =>
                let m : ClientHello :=
                  { ClientHello.empty with
                    vers := vers, random := random, sessionId := sessionId, cipherSuites := suites,
                    secureRenegotiationSupported := suites.any (fun x => x == scsvRenegotiation),
                    compressionMethods := comp }
                if s6.isEmpty then some m
                else
                  match readU16LP s6 with
                  | none => none
                  | some (extensions, s7) =>
                    if !s7.isEmpty then none else parseExts extensions m

/-! ### canonical dump (identical to the Go hook `ZVClientHelloUnmarshal`) -/

def showBool (b : Bool) : String := if b then "1" else "0"

def showList (l : List String) : String := if l.isEmpty then "-" else ",".intercalate l

def showNats (l : List Nat) : String := showList (l.map toString)

def showClientHello (m : ClientHello) : String :=
  ";".intercalate [
    "vers=" ++ toString m.vers,
    "random=" ++ toHex m.random,
    "sessionId=" ++ toHex m.sessionId,
    "cipherSuites=" ++ showNats m.cipherSuites,
    "compressionMethods=" ++ toHex m.compressionMethods,
    "serverName=" ++ toHex m.serverName,
    "ocspStapling=" ++ showBool m.ocspStapling,
    "supportedCurves=" ++ showNats m.supportedCurves,
    "supportedPoints=" ++ toHex m.supportedPoints,
    "ticketSupported=" ++ showBool m.ticketSupported,
    "sessionTicket=" ++ toHex m.sessionTicket,
    "supportedSignatureAlgorithms=" ++ showNats m.sigAlgs,
    "supportedSignatureAlgorithmsCert=" ++ showNats m.sigAlgsCert,
    "secureRenegotiationSupported=" ++ showBool m.secureRenegotiationSupported,
    "secureRenegotiation=" ++ toHex m.secureRenegotiation,
    "extendedRandomEnabled=" ++ showBool m.extendedRandomEnabled,
    "extendedRandom=" ++ toHex m.extendedRandom,
    "extendedMasterSecret=" ++ showBool m.extendedMasterSecret,
    "alpnProtocols=" ++ showList (m.alpnProtocols.map toHex),
    "scts=" ++ showBool m.scts,
    "supportedVersions=" ++ showNats m.supportedVersions,
    "cookie=" ++ toHex m.cookie,
    "keyShares=" ++ showList (m.keyShares.map (fun k => toString k.group ++ ":" ++ toHex k.data)),
    "earlyData=" ++ showBool m.earlyData,
    "pskModes=" ++ toHex m.pskModes,
    "pskIdentities=" ++ showList (m.pskIdentities.map (fun p => toHex p.label ++ ":" ++ toString p.age)),
    "pskBinders=" ++ showList (m.pskBinders.map toHex)]

end ZV.TlsHello
