import ZV.Model.Der0
/-!
  ZV.Model.C19 — additions to the shared layer-0 model `ZV.Model.Der0` that only C19 needs
  (strict mode, `AllowPermissiveParsing = false`):

  * the restricted string types of `encoding/asn1`: `isNumeric`, `isPrintable` (with its two flags),
    `parseNumericString`, `parsePrintableString`, `parseIA5String`, `parseT61String` (asn1.go) and
    `makeNumericString`, `makePrintableString`, `makeIA5String` (marshal.go; `stringEncoder` copies the bytes);
  * cryptobyte `ReadASN1Enum` / `AddASN1Enum`, `ReadASN1Bytes(OCTET STRING)` / `AddASN1OctetString`, `AddASN1NULL`.
-/
namespace ZV.Der0

/-- `isNumeric`: `'0' <= b && b <= '9' || b == ' '` -/
def isNumeric (b : UInt8) : Bool := (48 ≤ b.toNat && b.toNat ≤ 57) || b.toNat == 32

/-- `isPrintable(b, asterisk, ampersand)` — the ten disjuncts in source order -/
def isPrintable (b : UInt8) (asterisk ampersand : Bool) : Bool :=
  (97 ≤ b.toNat && b.toNat ≤ 122) ||
  (65 ≤ b.toNat && b.toNat ≤ 90) ||
  (48 ≤ b.toNat && b.toNat ≤ 57) ||
  (39 ≤ b.toNat && b.toNat ≤ 41) ||
  (43 ≤ b.toNat && b.toNat ≤ 47) ||
  b.toNat == 32 || b.toNat == 58 || b.toNat == 61 || b.toNat == 63 ||
  (asterisk && b.toNat == 42) ||
  (ampersand && b.toNat == 38)

namespace EA

/-- `parseNumericString` (strict) -/
def parseNumericString (bs : Bytes) : Res Bytes := if bs.all isNumeric then .ok bs else .err
/-- `parsePrintableString` (strict): `isPrintable(b, allowAsterisk, allowAmpersand)` -/
def parsePrintableString (bs : Bytes) : Res Bytes :=
  if bs.all (fun b => isPrintable b true true) then .ok bs else .err
/-- `parseIA5String` (strict): `b >= utf8.RuneSelf` rejects -/
def parseIA5String (bs : Bytes) : Res Bytes := if bs.all (fun b => b.toNat < 128) then .ok bs else .err
/-- `parseT61String`: 8-bit clean -/
def parseT61String (bs : Bytes) : Res Bytes := .ok bs

/-- `makeNumericString` + `stringEncoder.Encode` -/
def makeNumericString (s : Bytes) : Res Bytes := if s.all isNumeric then .ok s else .err
/-- `makePrintableString`: `isPrintable(s[i], allowAsterisk, rejectAmpersand)` -/
def makePrintableString (s : Bytes) : Res Bytes :=
  if s.all (fun b => isPrintable b true false) then .ok s else .err
/-- `makeIA5String`: `s[i] > 127` rejects -/
def makeIA5String (s : Bytes) : Res Bytes := if s.all (fun b => !(b.toNat > 127)) then .ok s else .err

end EA

namespace CB

/-- `ReadASN1Enum`: ENUMERATED is read exactly like an int64 INTEGER under tag 10; the extra test
    `int64(int(i)) != i` never fires where `int` is 64 bits (the harness platform). -/
def readEnum (s : Bytes) : Res (Int × Bytes) := readInt64Tag s 10
/-- `AddASN1Enum` -/
def addASN1Enum (v : Int) : Res Bytes := addASN1Int64Tag 10 v

/-- `ReadASN1Bytes(out, OCTET_STRING)` -/
def readOctetString (s : Bytes) : Res (Bytes × Bytes) := readASN1Tag s 4
/-- `AddASN1OctetString` -/
def addASN1OctetString (b : Bytes) : Res Bytes := element 4 b

/-- `AddASN1NULL`: `b.add(uint8(asn1.NULL), 0)` -/
def addASN1NULL : Bytes := [5, 0]
end CB
end ZV.Der0
