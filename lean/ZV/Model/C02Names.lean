import ZV.Model.C02
/-!
  Model of the names part of the certificate JSON view (x509/json.go):

  * `isValidName` — strips any number of leading `?.` / `*.` labels with `name[2:]` (a Go slice expression,
    which panics when the string is shorter than 2) and asks `util.IsURL`;
  * `(*Certificate).CollectAllNames` — common name, DNS SANs (valid, or without any dot = "just a TLD"),
    URI SANs and the text of the IP SANs that `util.IsURL` accepts, through `purgeNameDuplicates`;
  * the `Redacted` flag of `(*Certificate).MarshalJSON` (`strings.HasPrefix(name, "?")` for some name).

  A Go `string` is a byte sequence: `Str = List UInt8`; Go's string `<` (sort.Strings) is the bytewise
  lexicographic order = core `List` `<` over `UInt8`.
  `util.IsURL` (regular expression + `url.Parse`) and `net.IP.String` are NOT modelled: the model takes the
  predicate `isURL` as a parameter (every theorem holds for every predicate) and the IP SANs as their texts.
-/
namespace ZV.C02

abbrev Str := List UInt8

/-- `strings.HasPrefix(name, string([]byte{a, b}))` -/
def hasPrefix2 (a b : UInt8) : Str → Bool
  | x :: y :: _ => x == a && y == b
  | _ => false

/-- `isValidName`; the recursive call is on `name[2:]`, which panics if `len(name) < 2`. -/
def isValidName (isURL : Str → Bool) (name : Str) : Res Bool :=
  if hasPrefix2 63 46 name || hasPrefix2 42 46 name then      -- "?." or "*."
    match name with
    | _ :: _ :: rest => isValidName isURL rest                -- name[2:]
    | _ => .panic                                             -- slice bounds out of range
  else .ok (isURL name)
termination_by name.length

/-- the name fields of a parsed certificate that `CollectAllNames` reads -/
structure NameCert where
  commonName : Str
  dnsNames : List Str
  uris : List Str
  ipTexts : List Str          -- `name.String()` for every entry of `c.IPAddresses`
  deriving Repr, DecidableEq

/-- `strings.Contains(name, ".")` -/
def containsDot (s : Str) : Bool := s.contains 46

/-- the `for _, name := range c.DNSNames` loop (appending to `names`) -/
def dnsLoop (isURL : Str → Bool) (names : List Str) : List Str → Res (List Str)
  | [] => .ok names
  | n :: rest =>
    match isValidName isURL n with
    | .ok true => dnsLoop isURL (names ++ [n]) rest
    | .ok false => if !containsDot n then dnsLoop isURL (names ++ [n]) rest else dnsLoop isURL names rest
    | .err => .err
    | .panic => .panic

/-- the list handed to `purgeNameDuplicates` -/
def collectCandidates (isURL : Str → Bool) (c : NameCert) : Res (List Str) :=
  match isValidName isURL c.commonName with
  | .ok b =>
    match dnsLoop isURL (if b then [c.commonName] else []) c.dnsNames with
    | .ok names => .ok (names ++ c.uris.filter isURL ++ c.ipTexts.filter isURL)
    | .err => .err
    | .panic => .panic
  | .err => .err
  | .panic => .panic

/-- `(*Certificate).CollectAllNames` -/
def collectAllNames (isURL : Str → Bool) (c : NameCert) : Res (List Str) :=
  match collectCandidates isURL c with
  | .ok names => .ok (purge names)
  | .err => .err
  | .panic => .panic

/-- `strings.HasPrefix(name, "?")` -/
def hasPrefixQ : Str → Bool
  | x :: _ => x == 63
  | [] => false

/-- the `Redacted` flag of the JSON view: the loop over `jc.Names` -/
def redacted (names : List Str) : Bool := names.any hasPrefixQ

/-- names + redacted flag, as `(*Certificate).MarshalJSON` fills them -/
def namesView (isURL : Str → Bool) (c : NameCert) : Res (List Str × Bool) :=
  match collectAllNames isURL c with
  | .ok names => .ok (names, redacted names)
  | .err => .err
  | .panic => .panic

end ZV.C02
