import ZV.Base
import ZV.Hash.HMAC
import ZV.Generated.C23
/-!
  Model of zcrypto's RSA fork: `rsa/rsa.go` (`checkPub`, `encrypt`, `decrypt`, `Precompute`,
  `EncryptOAEP`, `decryptOAEP`, `mgf1XOR`), `rsa/pkcs1v15.go` (`EncryptPKCS1v15`,
  `DecryptPKCS1v15`, `nonZeroRandomBytes`, `pkcs1v15ConstructEM`, `SignPKCS1v15`,
  `VerifyPKCS1v15`) and `rsa/pss.go` (`emsaPSSEncode`, `emsaPSSVerify`, `signPSSWithSalt`,
  `SignPSS`, `VerifyPSS`), branch for branch.

  `*big.Int` values of a PUBLIC key are `Option Int` (`none` = nil pointer), because the property
  talks about missing / zero / negative values.  After `checkPub` succeeded they are positive and the
  arithmetic is done in `Nat`.  Components of a PRIVATE key (`D`, `Primes`, `Precomputed`) are `Nat`:
  the harness only builds private keys with non-negative exponents and primes ≥ 2 (the domain of
  `PrivateKey.Validate`); outside of it `math/big.Exp` has other behaviour that is not modelled.
  Randomness (`io.Reader`) is an explicit byte list; running out of bytes is the `err` of `io.ReadFull`.
-/
namespace ZV.C23
open ZV ZV.Hash

/-! ### arithmetic -/

/-- `new(big.Int).Exp(a, e, n)` for `e ≥ 0`, `n > 0`: square-and-multiply on the bits of `e`. -/
def modPow (a e n : Nat) : Nat :=
  if h : e = 0 then 1 % n
  else
    let r := modPow a (e / 2) n
    let r2 := r * r % n
    if e % 2 = 1 then r2 * a % n else r2
termination_by e
decreasing_by omega

/-- `new(big.Int).SetBytes(b)`: big-endian bytes to integer. -/
def os2ip (bs : Bytes) : Nat := bs.foldl (fun acc b => acc * 256 + b.toNat) 0

/-- `em := make([]byte, k); b := v.Bytes(); copy(em[k-len(b):], b)`: the slice expression panics
    when `v` needs more than `k` bytes. -/
def i2osp (k v : Nat) : Res Bytes :=
  if v < 256 ^ k then .ok (natToBytesBE k v) else .panic

/-- `(*big.Int).BitLen` -/
def bitLen (n : Nat) : Nat := if n = 0 then 0 else n.log2 + 1

/-- `(*PublicKey).Size` -/
def sizeBytes (n : Nat) : Nat := (bitLen n + 7) / 8

/-! ### keys -/

structure Pub where
  n : Option Int
  e : Option Int
  deriving Repr, DecidableEq

/-- `checkPub` (after the D8 fix): returns the validated `(N, E)`. -/
def checkPub (p : Pub) : Res (Nat × Nat) :=
  match p.n with
  | none => .err
  | some n =>
    if n ≤ 0 then .err
    else match p.e with
      | none => .err
      | some e => if e < 2 then .err else .ok (n.toNat, e.toNat)

structure Priv where
  n : Nat
  e : Nat
  d : Nat
  primes : List Nat
  /-- `Precomputed.Dp, Dq, Qinv` when `Precomputed.Dp != nil` -/
  pre : Option (Nat × Nat × Nat)
  deriving Repr, DecidableEq

def Priv.pub (k : Priv) : Pub := ⟨some (Int.ofNat k.n), some (Int.ofNat k.e)⟩

/-- `Precompute` (the values `decrypt` uses): `Dp = D mod (P-1)`, `Dq = D mod (Q-1)`; `Qinv` is
    supplied by the caller of the model (it is `ModInverse(Q, P)`; its defining property
    `Qinv·Q ≡ 1 (mod P)` is a hypothesis of `crt_eq_plain`). -/
def precompute (d p q qinv : Nat) : Nat × Nat × Nat := (d % (p - 1), d % (q - 1), qinv)

/-! ### the RSA primitives -/

/-- `encrypt(pub, plaintext)` on a key that passed `checkPub`. -/
def encrypt (n e : Nat) (plaintext : Bytes) : Res Bytes :=
  let m := os2ip plaintext
  if m ≥ n then .err
  else i2osp (sizeBytes n) (modPow m e n)

/-- the CRT branch of `decrypt` (Garner recombination with the sign fix-up; `h.Mod` is Euclidean). -/
def decryptCRT (p q dp dq qinv : Nat) (c : Nat) : Nat :=
  let m1 := modPow c dp p
  let m2 := modPow c dq q
  let h0 : Int := (m1 : Int) - (m2 : Int)
  let h1 : Int := if h0 < 0 then h0 + (p : Int) else h0
  let h : Int := Int.emod (h1 * (qinv : Int)) (p : Int)
  (h * (q : Int) + (m2 : Int)).toNat

/-- the value `m` computed by `decrypt` before the optional check. -/
def decryptCore (k : Priv) (c : Nat) : Nat :=
  match k.primes, k.pre with
  | [p, q], some (dp, dq, qinv) => decryptCRT p q dp dq qinv c
  | _, _ => modPow c k.d k.n

/-- `decrypt(priv, ciphertext, check)` -/
def decrypt (k : Priv) (ciphertext : Bytes) (check : Bool) : Res Bytes :=
  let c := os2ip ciphertext
  if c ≥ k.n then .err
  else
    let m := decryptCore k c
    if check && modPow m k.e k.n != c then .err
    else i2osp (sizeBytes k.n) m

/-! ### hashes -/

/-- `crypto.Hash.Size()`; `none` = it panics (unknown id). -/
def hashSize (h : Nat) : Option Nat := (Gen.C23.hashSizes.find? (fun r => r.1 == h)).map (·.2)

def hashPrefix (h : Nat) : Option Bytes := (Gen.C23.hashPrefixes.find? (fun r => r.1 == h)).map (·.2)

/-- `crypto.Hash.New()` for the ids the Lean hash library implements (`none`: not modelled). -/
def hashAlg (h : Nat) : Option HashAlg :=
  match h with
  | 2 => some .md5
  | 3 => some .sha1
  | 4 => some .sha224
  | 5 => some .sha256
  | 6 => some .sha384
  | 7 => some .sha512
  | _ => none

/-! ### PKCS #1 v1.5 signatures -/

/-- the hash-dependent first part of `pkcs1v15ConstructEM`: the DigestInfo prefix (`hash = 0`: none);
    `crypto.Hash.Size()` panics on unknown ids. -/
def emPrefix (hash : Nat) (hashedLen : Nat) : Res Bytes :=
  if hash = 0 then .ok []
  else match hashSize hash with
    | none => .panic
    | some sz =>
      if hashedLen ≠ sz then .err
      else match hashPrefix hash with
        | none => .err
        | some p => .ok p

/-- `pkcs1v15ConstructEM` with `k = pub.Size()` -/
def constructEM (k : Nat) (hash : Nat) (hashed : Bytes) : Res Bytes :=
  match emPrefix hash hashed.length with
  | .err => .err
  | .panic => .panic
  | .ok p =>
    if k < p.length + hashed.length + 2 + 8 + 1 then .err
    else .ok (0 :: 1 :: (List.replicate (k - p.length - hashed.length - 3) 0xff ++ (0 :: (p ++ hashed))))

/-- `SignPKCS1v15` -/
def signPKCS1v15 (k : Priv) (hash : Nat) (hashed : Bytes) : Res Bytes :=
  match constructEM (sizeBytes k.n) hash hashed with
  | .err => .err
  | .panic => .panic
  | .ok em => decrypt k em true

/-- `VerifyPKCS1v15` -/
def verifyPKCS1v15 (pub : Pub) (hash : Nat) (hashed sig : Bytes) : Res Unit :=
  match checkPub pub with
  | .err => .err
  | .panic => .panic
  | .ok (n, e) =>
    if sizeBytes n ≠ sig.length then .err
    else match encrypt n e sig with
      | .err => .err
      | .panic => .panic
      | .ok em =>
        match constructEM (sizeBytes n) hash hashed with
        | .err => .err
        | .panic => .panic
        | .ok expected => if em = expected then .ok () else .err

/-! ### PKCS #1 v1.5 encryption -/

/-- the re-draw loop of `nonZeroRandomBytes` for one position: while the byte is zero read one
    byte and XOR it with 0x42.  Returns the byte and the remaining stream. -/
def redraw : Bytes → Option (UInt8 × Bytes)
  | [] => none
  | r :: rest => if r ^^^ 0x42 = 0 then redraw rest else some (r ^^^ 0x42, rest)

/-- the fix-up loop of `nonZeroRandomBytes` over the already filled buffer. -/
def fixZeros : Bytes → Bytes → Option Bytes
  | [], _ => some []
  | b :: bs, rnd =>
    if b = 0 then
      match redraw rnd with
      | none => none
      | some (b', rnd') => (fixZeros bs rnd').map (b' :: ·)
    else (fixZeros bs rnd).map (b :: ·)

/-- `nonZeroRandomBytes(s, random)` with `len(s) = n` -/
def nonZeroRandomBytes (n : Nat) (rnd : Bytes) : Option Bytes :=
  if rnd.length < n then none else fixZeros (rnd.take n) (rnd.drop n)

/-- `EncryptPKCS1v15` -/
def encryptPKCS1v15 (pub : Pub) (rnd msg : Bytes) : Res Bytes :=
  match checkPub pub with
  | .err => .err
  | .panic => .panic
  | .ok (n, e) =>
    let k := sizeBytes n
    if (msg.length : Int) > (k : Int) - 11 then .err
    else match nonZeroRandomBytes (k - msg.length - 3) rnd with
      | none => .err
      | some ps => encrypt n e (0 :: 2 :: (ps ++ (0 :: msg)))

/-- index of the first zero byte at position ≥ 2 (`lookingForIndex` loop), if any. -/
def firstZeroFrom2 (em : Bytes) : Option Nat :=
  match (em.drop 2).findIdx? (· == 0) with
  | none => none
  | some i => some (i + 2)

/-- `DecryptPKCS1v15` -/
def decryptPKCS1v15 (k : Priv) (ciphertext : Bytes) : Res Bytes :=
  match checkPub k.pub with
  | .err => .err
  | .panic => .panic
  | .ok _ =>
    if sizeBytes k.n < 11 then .err
    else match decrypt k ciphertext false with
      | .err => .err
      | .panic => .panic
      | .ok em =>
        match em with
        | b0 :: b1 :: _ =>
          (match firstZeroFrom2 em with
           | none => .err
           | some idx =>
             if b0 = 0 ∧ b1 = 2 ∧ 10 ≤ idx then .ok (em.drop (idx + 1)) else .err)
        | _ => .panic

/-! ### MGF1 / PSS -/

def xorBytes (a b : Bytes) : Bytes := List.zipWith (· ^^^ ·) a b

/-- `mgf1XOR(out, hash, seed)` (the 32-bit counter wrap-around is out of reach: < 2^32 blocks). -/
def mgf1XOR (h : HashAlg) (out seed : Bytes) : Bytes := xorBytes out (mgf1 h seed out.length)

/-- `x[0] &= m` -/
def maskHead (m : UInt8) : Bytes → Bytes
  | [] => []
  | b :: rest => (b &&& m) :: rest

/-- `0xff >> (8*emLen - emBits)` -/
def topMask (emLen emBits : Nat) : UInt8 := (0xff : UInt8) >>> UInt8.ofNat (8 * emLen - emBits)

def zeros8 : Bytes := List.replicate 8 0

/-- `emsaPSSEncode(mHash, emBits, salt, hash)` -/
def emsaPSSEncode (h : HashAlg) (mHash : Bytes) (emBits : Nat) (salt : Bytes) : Res Bytes :=
  let hLen := h.outSize
  let sLen := salt.length
  let emLen := (emBits + 7) / 8
  if mHash.length ≠ hLen then .err
  else if emLen < hLen + sLen + 2 then .err
  else
    let psLen := emLen - sLen - hLen - 2
    let hh := h.hash (zeros8 ++ mHash ++ salt)
    let db := List.replicate psLen 0 ++ (1 :: salt)
    let masked := maskHead (topMask emLen emBits) (mgf1XOR h db hh)
    .ok (masked ++ hh ++ [0xbc])

/-- `emsaPSSVerify(mHash, em, emBits, sLen, hash)`; `sLen = 0` is `PSSSaltLengthAuto`,
    `sLen = -1` is `PSSSaltLengthEqualsHash`. -/
def emsaPSSVerify (h : HashAlg) (mHash em : Bytes) (emBits : Nat) (sLen0 : Int) : Res Unit :=
  let hLen := h.outSize
  let sLen : Int := if sLen0 = -1 then (hLen : Int) else sLen0
  let emLen := (emBits + 7) / 8
  if emLen ≠ em.length then .err
  else if hLen ≠ mHash.length then .err
  else if (emLen : Int) < (hLen : Int) + sLen + 2 then .err
  else if emLen < hLen + 2 then .panic       -- only reachable with sLen < -1 (VerifyPSS rejects it): em[emLen-1] / db[0] out of range
  else if em.getLast? ≠ some 0xbc then .err
  else
    let db := em.take (emLen - hLen - 1)
    let hh := (em.drop (emLen - hLen - 1)).take hLen
    let bitMask := topMask emLen emBits
    if (match em with | [] => false | e0 :: _ => e0 &&& ~~~bitMask != 0) then .err
    else
      let db := maskHead bitMask (mgf1XOR h db hh)
      let sLenR : Res Nat :=
        if sLen = 0 then
          match db.findIdx? (· == 1) with
          | none => .err
          | some psLen => .ok (db.length - psLen - 1)
        else if sLen < 0 then .panic     -- unreachable after the range check above for sLen ≥ -1
        else .ok sLen.toNat
      match sLenR with
      | .err => .err
      | .panic => .panic
      | .ok sLen =>
        let psLen := emLen - hLen - sLen - 2
        if (db.take psLen).any (· != 0) then .err
        else if (db.drop psLen).head? ≠ some 1 then .err
        else
          let salt := db.drop (db.length - sLen)
          if h.hash (zeros8 ++ mHash ++ salt) = hh then .ok () else .err

/-- `signPSSWithSalt` -/
def signPSSWithSalt (k : Priv) (h : HashAlg) (hashed salt : Bytes) : Res Bytes :=
  let emBits := bitLen k.n - 1
  match emsaPSSEncode h hashed emBits salt with
  | .err => .err
  | .panic => .panic
  | .ok em =>
    let kk := sizeBytes k.n
    let em := if em.length < kk then List.replicate (kk - em.length) 0 ++ em else em
    decrypt k em true

/-- `SignPSS`: `saltLength` is `opts.saltLength()`; `rnd` the reader's bytes.
    (`bitLen n = 0` would make `N.BitLen()-1` negative: private keys in the model have `n ≥ 1`.) -/
def signPSS (k : Priv) (h : HashAlg) (digest : Bytes) (saltLength : Int) (rnd : Bytes) : Res Bytes :=
  let sl : Res Nat :=
    if saltLength = 0 then
      let v : Int := (((bitLen k.n - 1 + 7) / 8 : Nat) : Int) - 2 - (h.outSize : Int)
      if v < 0 then .err else .ok v.toNat
    else if saltLength = -1 then .ok h.outSize
    else if saltLength ≤ 0 then .err
    else .ok saltLength.toNat
  match sl with
  | .err => .err
  | .panic => .panic
  | .ok sl =>
    if rnd.length < sl then .err
    else signPSSWithSalt k h digest (rnd.take sl)

/-- the leading-zero stripping loop of `VerifyPSS` -/
def stripTo (emLen : Nat) : Bytes → Option Bytes
  | [] => some []
  | b :: rest =>
    if (b :: rest).length > emLen then
      (if b ≠ 0 then none else stripTo emLen rest)
    else some (b :: rest)

/-- `VerifyPSS`; `saltLength = opts.saltLength()` -/
def verifyPSS (pub : Pub) (h : HashAlg) (digest sig : Bytes) (saltLength : Int) : Res Unit :=
  match checkPub pub with
  | .err => .err
  | .panic => .panic
  | .ok (n, e) =>
    if sig.length ≠ sizeBytes n then .err
    else if saltLength < -1 then .err
    else
      let emBits := bitLen n - 1
      let emLen := (emBits + 7) / 8
      match encrypt n e sig with
      | .err => .err
      | .panic => .panic
      | .ok em =>
        match stripTo emLen em with
        | none => .err
        | some em => emsaPSSVerify h digest em emBits saltLength

/-! ### OAEP -/

/-- `EncryptOAEP(hash, random, pub, msg, label)` -/
def encryptOAEP (h : HashAlg) (pub : Pub) (rnd msg label : Bytes) : Res Bytes :=
  match checkPub pub with
  | .err => .err
  | .panic => .panic
  | .ok (n, e) =>
    let k := sizeBytes n
    let hLen := h.outSize
    if (msg.length : Int) > (k : Int) - 2 * (hLen : Int) - 2 then .err
    else
      let lHash := h.hash label
      let db := lHash ++ List.replicate (k - 2 * hLen - 2 - msg.length) 0 ++ (1 :: msg)
      if rnd.length < hLen then .err
      else
        let seed := rnd.take hLen
        let db' := mgf1XOR h db seed
        let seed' := mgf1XOR h seed db'
        encrypt n e (0 :: (seed' ++ db'))

/-- `decryptOAEP(hash, mgfHash, random, priv, ciphertext, label)` -/
def decryptOAEP (h mgf : HashAlg) (k : Priv) (ciphertext label : Bytes) : Res Bytes :=
  match checkPub k.pub with
  | .err => .err
  | .panic => .panic
  | .ok _ =>
    let kk := sizeBytes k.n
    let hLen := h.outSize
    if ciphertext.length > kk ∨ kk < hLen * 2 + 2 then .err
    else match decrypt k ciphertext false with
      | .err => .err
      | .panic => .panic
      | .ok em =>
        let lHash := h.hash label
        match em with
        | [] => .panic
        | b0 :: body =>
          let seed := body.take hLen
          let db := body.drop hLen
          let seed' := mgf1XOR mgf seed db
          let db' := mgf1XOR mgf db seed'
          let lHash2 := db'.take hLen
          let rest := db'.drop hLen
          -- first 0x01; every byte before it must be 0x00
          match rest.findIdx? (· == 1) with
          | none => .err
          | some idx =>
            if b0 = 0 ∧ lHash = lHash2 ∧ (rest.take idx).all (· == 0) then .ok (rest.drop (idx + 1))
            else .err


/-! ### options structs (`PSSOptions`, `OAEPOptions`, `PKCS1v15DecryptOptions`) and the `crypto.Signer` /
    `crypto.Decrypter` methods

  Functions that need `crypto.Hash.New()` for a hash id return `Option`: `none` = the id has no implementation in
  `ZV.Hash` (not modelled; the harness keeps such lines away from the model). -/

/-- `*PSSOptions`; a nil pointer is `none : Option PSSOpts`. -/
structure PSSOpts where
  saltLength : Int
  /-- `crypto.Hash` id, 0 = field not set -/
  hash : Nat
  deriving Repr, DecidableEq

/-- `opts.saltLength()` (nil receiver: `PSSSaltLengthAuto`) -/
def pssSaltLength : Option PSSOpts → Int
  | none => 0
  | some o => o.saltLength

/-- the hash `SignPSS` works with: `if opts != nil && opts.Hash != 0 { hash = opts.Hash }` -/
def signPSSHash (hash : Nat) : Option PSSOpts → Nat
  | none => hash
  | some o => if o.hash ≠ 0 then o.hash else hash

/-- `SignPSS(rand, priv, hash, digest, opts)` -/
def signPSSOpts (k : Priv) (hash : Nat) (digest : Bytes) (opts : Option PSSOpts) (rnd : Bytes) : Option (Res Bytes) :=
  match hashAlg (signPSSHash hash opts) with
  | none => none
  | some h => some (signPSS k h digest (pssSaltLength opts) rnd)

/-- `VerifyPSS(pub, hash, digest, sig, opts)`: only `opts.saltLength()` is read; `opts.Hash` is ignored (as crypto/rsa
    documents), the hash is the positional argument. -/
def verifyPSSOpts (pub : Pub) (hash : Nat) (digest sig : Bytes) (opts : Option PSSOpts) : Option (Res Unit) :=
  match hashAlg hash with
  | none => none
  | some h => some (verifyPSS pub h digest sig (pssSaltLength opts))

/-- the `crypto.SignerOpts` handed to `PrivateKey.Sign`: a `*PSSOptions` or a bare `crypto.Hash` -/
inductive SignerOpts where
  | pss (o : PSSOpts)
  | hash (h : Nat)
  deriving Repr, DecidableEq

/-- `(*PrivateKey).Sign(rand, digest, opts)` -/
def privSign (k : Priv) (digest : Bytes) (opts : SignerOpts) (rnd : Bytes) : Option (Res Bytes) :=
  match opts with
  | .pss o => signPSSOpts k o.hash digest (some o) rnd
  | .hash h => some (signPKCS1v15 k h digest)

/-- the unexported `decryptPKCS1v15`: `(valid, em, index)` -/
def decryptPKCS1v15Core (k : Priv) (ciphertext : Bytes) : Res (Bool × Bytes × Nat) :=
  if sizeBytes k.n < 11 then .err
  else match decrypt k ciphertext false with
    | .err => .err
    | .panic => .panic
    | .ok em =>
      match em with
      | b0 :: b1 :: _ =>
        (match firstZeroFrom2 em with
         | none => .ok (false, em, 0)
         | some idx => if b0 = 0 ∧ b1 = 2 ∧ 10 ≤ idx then .ok (true, em, idx + 1) else .ok (false, em, 0))
      | _ => .panic

/-- `DecryptPKCS1v15SessionKey(random, priv, ciphertext, key)`: the contents of `key` afterwards -/
def decryptSessionKey (k : Priv) (ciphertext key : Bytes) : Res Bytes :=
  match checkPub k.pub with
  | .err => .err
  | .panic => .panic
  | .ok _ =>
    let kk := sizeBytes k.n
    if (kk : Int) - ((key.length : Int) + 3 + 8) < 0 then .err
    else match decryptPKCS1v15Core k ciphertext with
      | .err => .err
      | .panic => .panic
      | .ok (valid, em, index) =>
        if em.length ≠ kk then .err
        else if valid ∧ em.length - index = key.length then .ok (em.drop (em.length - key.length))
        else .ok key

/-- `io.ReadFull(r, buf)` with `len(buf) = n` on a reader that still holds `rnd`: the bytes (`none` = error) and what
    the reader holds afterwards (a short read drains it). -/
def readFull (n : Nat) (rnd : Bytes) : Option Bytes × Bytes :=
  if rnd.length < n then (none, []) else (some (rnd.take n), rnd.drop n)

/-- the `crypto.DecrypterOpts` handed to `PrivateKey.Decrypt` -/
inductive DecOpts where
  | nil
  | oaep (hash mgfHash : Nat) (label : Bytes)
  | v15 (sessionKeyLen : Int)
  | other
  deriving Repr, DecidableEq

/-- `(*PrivateKey).Decrypt(rand, ciphertext, opts)`: result and what the reader holds afterwards -/
def privDecrypt (k : Priv) (rnd ciphertext : Bytes) (opts : DecOpts) : Option (Res Bytes × Bytes) :=
  match opts with
  | .nil => some (decryptPKCS1v15 k ciphertext, rnd)
  | .oaep hash mgfHash label =>
    (match hashAlg hash, hashAlg (if mgfHash = 0 then hash else mgfHash) with
     | some h, some mgf => some (decryptOAEP h mgf k ciphertext label, rnd)
     | _, _ => none)
  | .v15 l =>
    if l > 0 then
      (match readFull l.toNat rnd with
       | (none, rnd') => some (.err, rnd')
       | (some key, rnd') =>
         (match decryptSessionKey k ciphertext key with
          | .err => some (.err, rnd')
          | .panic => some (.panic, rnd')
          | .ok key' => some (.ok key', rnd')))
    else some (decryptPKCS1v15 k ciphertext, rnd)
  | .other => some (.err, rnd)

/-! ### stateful arguments: one `hash.Hash`, one `io.Reader`, one key object through a sequence of calls

  The caller-owned `hash.Hash` handed to the OAEP functions is modelled by the bytes written to it since its last
  `Reset` (`pend`); the reader by the bytes it still holds. -/

/-- `nonZeroRandomBytes` with the reader's remaining bytes -/
def fixZerosR : Bytes → Bytes → Option Bytes × Bytes
  | [], rnd => (some [], rnd)
  | b :: bs, rnd =>
    if b = 0 then
      match redraw rnd with
      | none => (none, [])
      | some (b', rnd') => let r := fixZerosR bs rnd'; (r.1.map (b' :: ·), r.2)
    else let r := fixZerosR bs rnd; (r.1.map (b :: ·), r.2)

def nonZeroRandomBytesR (n : Nat) (rnd : Bytes) : Option Bytes × Bytes :=
  if rnd.length < n then (none, []) else fixZerosR (rnd.take n) (rnd.drop n)

/-- `EncryptPKCS1v15` with the reader's remaining bytes -/
def encryptPKCS1v15R (pub : Pub) (rnd msg : Bytes) : Res Bytes × Bytes :=
  match checkPub pub with
  | .err => (.err, rnd)
  | .panic => (.panic, rnd)
  | .ok (n, e) =>
    let k := sizeBytes n
    if (msg.length : Int) > (k : Int) - 11 then (.err, rnd)
    else match nonZeroRandomBytesR (k - msg.length - 3) rnd with
      | (none, rnd') => (.err, rnd')
      | (some ps, rnd') => (encrypt n e (0 :: 2 :: (ps ++ (0 :: msg))), rnd')

/-- `SignPSS` with the reader's remaining bytes -/
def signPSSR (k : Priv) (h : HashAlg) (digest : Bytes) (saltLength : Int) (rnd : Bytes) : Res Bytes × Bytes :=
  let sl : Res Nat :=
    if saltLength = 0 then
      let v : Int := (((bitLen k.n - 1 + 7) / 8 : Nat) : Int) - 2 - (h.outSize : Int)
      if v < 0 then .err else .ok v.toNat
    else if saltLength = -1 then .ok h.outSize
    else if saltLength ≤ 0 then .err
    else .ok saltLength.toNat
  match sl with
  | .err => (.err, rnd)
  | .panic => (.panic, rnd)
  | .ok sl =>
    match readFull sl rnd with
    | (none, rnd') => (.err, rnd')
    | (some salt, rnd') => (signPSSWithSalt k h digest salt, rnd')

/-- `EncryptOAEP(hash, random, pub, msg, label)` on a caller-owned hash with `pend` written to it:
    (result, hash state afterwards, reader afterwards).  The function starts with `hash.Reset()` (after `checkPub`)
    and every path after that leaves the hash reset: the length check comes BEFORE `hash.Write(label)`, `Sum` is
    followed by `Reset`, and `mgf1XOR` resets after every block. -/
def encryptOAEPSt (h : HashAlg) (pend : Bytes) (pub : Pub) (rnd msg label : Bytes) : Res Bytes × Bytes × Bytes :=
  match checkPub pub with
  | .err => (.err, pend, rnd)
  | .panic => (.panic, pend, rnd)
  | .ok (n, e) =>
    let k := sizeBytes n
    let hLen := h.outSize
    if (msg.length : Int) > (k : Int) - 2 * (hLen : Int) - 2 then (.err, [], rnd)
    else
      let lHash := h.hash label
      let db := lHash ++ List.replicate (k - 2 * hLen - 2 - msg.length) 0 ++ (1 :: msg)
      match readFull hLen rnd with
      | (none, rnd') => (.err, [], rnd')
      | (some seed, rnd') =>
        let db' := mgf1XOR h db seed
        let seed' := mgf1XOR h seed db'
        (encrypt n e (0 :: (seed' ++ db')), [], rnd')

/-- `DecryptOAEP(hash, random, priv, ciphertext, label)` on a caller-owned hash with `pend` written to it.
    There is NO `Reset` before `hash.Write(label)`: the label hash is taken over `pend ++ label` (crypto/rsa of
    Go 1.25 resets first), so the function relies on every earlier call having left the hash reset.  The three
    early returns leave the hash untouched; after `Sum` it is reset. -/
def decryptOAEPSt (h : HashAlg) (pend : Bytes) (k : Priv) (ciphertext label : Bytes) : Res Bytes × Bytes :=
  match checkPub k.pub with
  | .err => (.err, pend)
  | .panic => (.panic, pend)
  | .ok _ =>
    let kk := sizeBytes k.n
    let hLen := h.outSize
    if ciphertext.length > kk ∨ kk < hLen * 2 + 2 then (.err, pend)
    else match decrypt k ciphertext false with
      | .err => (.err, pend)
      | .panic => (.panic, pend)
      | .ok em =>
        let lHash := h.hash (pend ++ label)
        match em with
        | [] => (.panic, [])
        | b0 :: body =>
          let seed := body.take hLen
          let db := body.drop hLen
          let seed' := mgf1XOR h seed db
          let db' := mgf1XOR h db seed'
          let lHash2 := db'.take hLen
          let rest := db'.drop hLen
          match rest.findIdx? (· == 1) with
          | none => (.err, [])
          | some idx =>
            if b0 = 0 ∧ lHash = lHash2 ∧ (rest.take idx).all (· == 0) then (.ok (rest.drop (idx + 1)), [])
            else (.err, [])

/-- one call of a sequence -/
inductive Step where
  | encOAEP (msg label : Bytes)                        -- EncryptOAEP(H, R, &key.PublicKey, msg, label)
  | decOAEP (ct label : Bytes)                         -- DecryptOAEP(H, nil, key, ct, label)
  | encV15 (msg : Bytes)                               -- EncryptPKCS1v15(R, &key.PublicKey, msg)
  | decV15 (ct : Bytes)                                -- DecryptPKCS1v15(nil, key, ct)
  | sessKey (ct key : Bytes)                           -- DecryptPKCS1v15SessionKey(nil, key, ct, keybuf)
  | keyDecrypt (ct : Bytes) (opts : DecOpts)           -- key.Decrypt(R, ct, opts)
  | signPSS (hash : Nat) (digest : Bytes) (opts : Option PSSOpts)        -- SignPSS(R, key, hash, digest, opts)
  | verifyPSS (hash : Nat) (digest sig : Bytes) (opts : Option PSSOpts)  -- VerifyPSS(&key.PublicKey, …)
  | signV15 (hash : Nat) (digest : Bytes)              -- SignPKCS1v15(nil, key, hash, digest)
  | verifyV15 (hash : Nat) (digest sig : Bytes)        -- VerifyPKCS1v15(&key.PublicKey, …)
  | keySign (digest : Bytes) (opts : SignerOpts)       -- key.Sign(R, digest, opts)
  | precompute (qinv : Nat)                            -- key.Precompute(); qinv = ModInverse(Primes[1], Primes[0])
  | hashWrite (b : Bytes)                              -- the CALLER writes to H between two calls
  deriving Repr

/-- the three stateful arguments -/
structure SeqState where
  key : Priv
  pend : Bytes
  rnd : Bytes

def unitBytes : Res Unit → Res Bytes
  | .ok _ => .ok []
  | .err => .err
  | .panic => .panic

/-- `Precompute` on the key object: fills `Dp, Dq, Qinv` unless they are already there (`decrypt` takes its CRT
    branch only for two primes). -/
def precomputeKey (k : Priv) (qinv : Nat) : Priv :=
  match k.pre, k.primes with
  | none, p :: q :: _ => { k with pre := some (precompute k.d p q qinv) }
  | _, _ => k

/-- one call: its result and the state it leaves (`none`: a hash id without implementation in `ZV.Hash`) -/
def step (h : HashAlg) (st : SeqState) : Step → Option (Res Bytes × SeqState)
  | .encOAEP msg label =>
    let r := encryptOAEPSt h st.pend st.key.pub st.rnd msg label
    some (r.1, { st with pend := r.2.1, rnd := r.2.2 })
  | .decOAEP ct label =>
    let r := decryptOAEPSt h st.pend st.key ct label
    some (r.1, { st with pend := r.2 })
  | .encV15 msg =>
    let r := encryptPKCS1v15R st.key.pub st.rnd msg
    some (r.1, { st with rnd := r.2 })
  | .decV15 ct => some (decryptPKCS1v15 st.key ct, st)
  | .sessKey ct key => some (decryptSessionKey st.key ct key, st)
  | .keyDecrypt ct opts =>
    (match privDecrypt st.key st.rnd ct opts with
     | none => none
     | some (r, rnd') => some (r, { st with rnd := rnd' }))
  | .signPSS hash digest opts =>
    (match hashAlg (signPSSHash hash opts) with
     | none => none
     | some ha =>
       let r := signPSSR st.key ha digest (pssSaltLength opts) st.rnd
       some (r.1, { st with rnd := r.2 }))
  | .verifyPSS hash digest sig opts =>
    (match verifyPSSOpts st.key.pub hash digest sig opts with
     | none => none
     | some r => some (unitBytes r, st))
  | .signV15 hash digest => some (signPKCS1v15 st.key hash digest, st)
  | .verifyV15 hash digest sig => some (unitBytes (verifyPKCS1v15 st.key.pub hash digest sig), st)
  | .keySign digest opts =>
    (match opts with
     | .hash hid => some (signPKCS1v15 st.key hid digest, st)
     | .pss o =>
       (match hashAlg (signPSSHash o.hash (some o)) with
        | none => none
        | some ha =>
          let r := signPSSR st.key ha digest o.saltLength st.rnd
          some (r.1, { st with rnd := r.2 })))
  | .precompute qinv => some (.ok [], { st with key := precomputeKey st.key qinv })
  | .hashWrite b => some (.ok [], { st with pend := st.pend ++ b })

/-- the whole sequence: the results of the calls in order -/
def runSeq (h : HashAlg) : SeqState → List Step → Option (List (Res Bytes))
  | _, [] => some []
  | st, s :: rest =>
    match step h st s with
    | none => none
    | some (r, st') => (runSeq h st' rest).map (r :: ·)

end ZV.C23
