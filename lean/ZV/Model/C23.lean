import ZV.Base
import ZV.Hash.HMAC
import ZV.Generated.C23
/-!
  Model of zcrypto's RSA fork: `rsa/rsa.go` (`checkPub`, `encrypt`, `decrypt`, `Precompute`,
  `EncryptOAEP`, `decryptOAEP`, `mgf1XOR`), `rsa/pkcs1v15.go` (`EncryptPKCS1v15`,
  `DecryptPKCS1v15`, `nonZeroRandomBytes`, `pkcs1v15ConstructEM`, `SignPKCS1v15`,
  `VerifyPKCS1v15`) and `rsa/pss.go` (`emsaPSSEncode`, `emsaPSSVerify`, `signPSSWithSalt`,
  `SignPSS`, `VerifyPSS`), branch for branch.

  `*big.Int` values of a PUBLIC key are `Option Int` (`none` = nil pointer), because the property
  talks about missing / zero / negative values.  After `checkPub` succeeded they are positive and the
  arithmetic is done in `Nat`.  Components of a PRIVATE key (`D`, `Primes`, `Precomputed`) are `Nat`:
  the harness only builds private keys with non-negative exponents and primes ≥ 2 (the domain of
  `PrivateKey.Validate`); outside of it `math/big.Exp` has other behaviour that is not modelled.
  Randomness (`io.Reader`) is an explicit byte list; running out of bytes is the `err` of `io.ReadFull`.
-/
namespace ZV.C23
open ZV ZV.Hash

/-! ### arithmetic -/

/-- `new(big.Int).Exp(a, e, n)` for `e ≥ 0`, `n > 0`: square-and-multiply on the bits of `e`. -/
def modPow (a e n : Nat) : Nat :=
  if h : e = 0 then 1 % n
  else
    let r := modPow a (e / 2) n
    let r2 := r * r % n
    if e % 2 = 1 then r2 * a % n else r2
termination_by e
decreasing_by omega

/-- `new(big.Int).SetBytes(b)`: big-endian bytes to integer. -/
def os2ip (bs : Bytes) : Nat := bs.foldl (fun acc b => acc * 256 + b.toNat) 0

/-- `em := make([]byte, k); b := v.Bytes(); copy(em[k-len(b):], b)`: the slice expression panics
    when `v` needs more than `k` bytes. -/
def i2osp (k v : Nat) : Res Bytes :=
  if v < 256 ^ k then .ok (natToBytesBE k v) else .panic

/-- `(*big.Int).BitLen` -/
def bitLen (n : Nat) : Nat := if n = 0 then 0 else n.log2 + 1

/-- `(*PublicKey).Size` -/
def sizeBytes (n : Nat) : Nat := (bitLen n + 7) / 8

/-! ### keys -/

structure Pub where
  n : Option Int
  e : Option Int
  deriving Repr, DecidableEq

/-- `checkPub` (after the D8 fix): returns the validated `(N, E)`. -/
def checkPub (p : Pub) : Res (Nat × Nat) :=
  match p.n with
  | none => .err
  | some n =>
    if n ≤ 0 then .err
    else match p.e with
      | none => .err
      | some e => if e < 2 then .err else .ok (n.toNat, e.toNat)

structure Priv where
  n : Nat
  e : Nat
  d : Nat
  primes : List Nat
  /-- `Precomputed.Dp, Dq, Qinv` when `Precomputed.Dp != nil` -/
  pre : Option (Nat × Nat × Nat)
  deriving Repr, DecidableEq

def Priv.pub (k : Priv) : Pub := ⟨some (Int.ofNat k.n), some (Int.ofNat k.e)⟩

/-- `Precompute` (the values `decrypt` uses): `Dp = D mod (P-1)`, `Dq = D mod (Q-1)`; `Qinv` is
    supplied by the caller of the model (it is `ModInverse(Q, P)`; its defining property
    `Qinv·Q ≡ 1 (mod P)` is a hypothesis of `crt_eq_plain`). -/
def precompute (d p q qinv : Nat) : Nat × Nat × Nat := (d % (p - 1), d % (q - 1), qinv)

/-! ### the RSA primitives -/

/-- `encrypt(pub, plaintext)` on a key that passed `checkPub`. -/
def encrypt (n e : Nat) (plaintext : Bytes) : Res Bytes :=
  let m := os2ip plaintext
  if m ≥ n then .err
  else i2osp (sizeBytes n) (modPow m e n)

/-- the CRT branch of `decrypt` (Garner recombination with the sign fix-up; `h.Mod` is Euclidean). -/
def decryptCRT (p q dp dq qinv : Nat) (c : Nat) : Nat :=
  let m1 := modPow c dp p
  let m2 := modPow c dq q
  let h0 : Int := (m1 : Int) - (m2 : Int)
  let h1 : Int := if h0 < 0 then h0 + (p : Int) else h0
  let h : Int := Int.emod (h1 * (qinv : Int)) (p : Int)
  (h * (q : Int) + (m2 : Int)).toNat

/-- the value `m` computed by `decrypt` before the optional check. -/
def decryptCore (k : Priv) (c : Nat) : Nat :=
  match k.primes, k.pre with
  | [p, q], some (dp, dq, qinv) => decryptCRT p q dp dq qinv c
  | _, _ => modPow c k.d k.n

/-- `decrypt(priv, ciphertext, check)` -/
def decrypt (k : Priv) (ciphertext : Bytes) (check : Bool) : Res Bytes :=
  let c := os2ip ciphertext
  if c ≥ k.n then .err
  else
    let m := decryptCore k c
    if check && modPow m k.e k.n != c then .err
    else i2osp (sizeBytes k.n) m

/-! ### hashes -/

/-- `crypto.Hash.Size()`; `none` = it panics (unknown id). -/
def hashSize (h : Nat) : Option Nat := (Gen.C23.hashSizes.find? (fun r => r.1 == h)).map (·.2)

def hashPrefix (h : Nat) : Option Bytes := (Gen.C23.hashPrefixes.find? (fun r => r.1 == h)).map (·.2)

/-- `crypto.Hash.New()` for the ids the Lean hash library implements (`none`: not modelled). -/
def hashAlg (h : Nat) : Option HashAlg :=
  match h with
  | 2 => some .md5
  | 3 => some .sha1
  | 4 => some .sha224
  | 5 => some .sha256
  | 6 => some .sha384
  | 7 => some .sha512
  | _ => none

/-! ### PKCS #1 v1.5 signatures -/

/-- the hash-dependent first part of `pkcs1v15ConstructEM`: the DigestInfo prefix (`hash = 0`: none);
    `crypto.Hash.Size()` panics on unknown ids. -/
def emPrefix (hash : Nat) (hashedLen : Nat) : Res Bytes :=
  if hash = 0 then .ok []
  else match hashSize hash with
    | none => .panic
    | some sz =>
      if hashedLen ≠ sz then .err
      else match hashPrefix hash with
        | none => .err
        | some p => .ok p

/-- `pkcs1v15ConstructEM` with `k = pub.Size()` -/
def constructEM (k : Nat) (hash : Nat) (hashed : Bytes) : Res Bytes :=
  match emPrefix hash hashed.length with
  | .err => .err
  | .panic => .panic
  | .ok p =>
    if k < p.length + hashed.length + 2 + 8 + 1 then .err
    else .ok (0 :: 1 :: (List.replicate (k - p.length - hashed.length - 3) 0xff ++ (0 :: (p ++ hashed))))

/-- `SignPKCS1v15` -/
def signPKCS1v15 (k : Priv) (hash : Nat) (hashed : Bytes) : Res Bytes :=
  match constructEM (sizeBytes k.n) hash hashed with
  | .err => .err
  | .panic => .panic
  | .ok em => decrypt k em true

/-- `VerifyPKCS1v15` -/
def verifyPKCS1v15 (pub : Pub) (hash : Nat) (hashed sig : Bytes) : Res Unit :=
  match checkPub pub with
  | .err => .err
  | .panic => .panic
  | .ok (n, e) =>
    if sizeBytes n ≠ sig.length then .err
    else match encrypt n e sig with
      | .err => .err
      | .panic => .panic
      | .ok em =>
        match constructEM (sizeBytes n) hash hashed with
        | .err => .err
        | .panic => .panic
        | .ok expected => if em = expected then .ok () else .err

/-! ### PKCS #1 v1.5 encryption -/

/-- the re-draw loop of `nonZeroRandomBytes` for one position: while the byte is zero read one
    byte and XOR it with 0x42.  Returns the byte and the remaining stream. -/
def redraw : Bytes → Option (UInt8 × Bytes)
  | [] => none
  | r :: rest => if r ^^^ 0x42 = 0 then redraw rest else some (r ^^^ 0x42, rest)

/-- the fix-up loop of `nonZeroRandomBytes` over the already filled buffer. -/
def fixZeros : Bytes → Bytes → Option Bytes
  | [], _ => some []
  | b :: bs, rnd =>
    if b = 0 then
      match redraw rnd with
      | none => none
      | some (b', rnd') => (fixZeros bs rnd').map (b' :: ·)
    else (fixZeros bs rnd).map (b :: ·)

/-- `nonZeroRandomBytes(s, random)` with `len(s) = n` -/
def nonZeroRandomBytes (n : Nat) (rnd : Bytes) : Option Bytes :=
  if rnd.length < n then none else fixZeros (rnd.take n) (rnd.drop n)

/-- `EncryptPKCS1v15` -/
def encryptPKCS1v15 (pub : Pub) (rnd msg : Bytes) : Res Bytes :=
  match checkPub pub with
  | .err => .err
  | .panic => .panic
  | .ok (n, e) =>
    let k := sizeBytes n
    if (msg.length : Int) > (k : Int) - 11 then .err
    else match nonZeroRandomBytes (k - msg.length - 3) rnd with
      | none => .err
      | some ps => encrypt n e (0 :: 2 :: (ps ++ (0 :: msg)))

/-- index of the first zero byte at position ≥ 2 (`lookingForIndex` loop), if any. -/
def firstZeroFrom2 (em : Bytes) : Option Nat :=
  match (em.drop 2).findIdx? (· == 0) with
  | none => none
  | some i => some (i + 2)

/-- `DecryptPKCS1v15` -/
def decryptPKCS1v15 (k : Priv) (ciphertext : Bytes) : Res Bytes :=
  match checkPub k.pub with
  | .err => .err
  | .panic => .panic
  | .ok _ =>
    if sizeBytes k.n < 11 then .err
    else match decrypt k ciphertext false with
      | .err => .err
      | .panic => .panic
      | .ok em =>
        match em with
        | b0 :: b1 :: _ =>
          (match firstZeroFrom2 em with
           | none => .err
           | some idx =>
             if b0 = 0 ∧ b1 = 2 ∧ 10 ≤ idx then .ok (em.drop (idx + 1)) else .err)
        | _ => .panic

/-! ### MGF1 / PSS -/

def xorBytes (a b : Bytes) : Bytes := List.zipWith (· ^^^ ·) a b

/-- `mgf1XOR(out, hash, seed)` (the 32-bit counter wrap-around is out of reach: < 2^32 blocks). -/
def mgf1XOR (h : HashAlg) (out seed : Bytes) : Bytes := xorBytes out (mgf1 h seed out.length)

/-- `x[0] &= m` -/
def maskHead (m : UInt8) : Bytes → Bytes
  | [] => []
  | b :: rest => (b &&& m) :: rest

/-- `0xff >> (8*emLen - emBits)` -/
def topMask (emLen emBits : Nat) : UInt8 := (0xff : UInt8) >>> UInt8.ofNat (8 * emLen - emBits)

def zeros8 : Bytes := List.replicate 8 0

/-- `emsaPSSEncode(mHash, emBits, salt, hash)` -/
def emsaPSSEncode (h : HashAlg) (mHash : Bytes) (emBits : Nat) (salt : Bytes) : Res Bytes :=
  let hLen := h.outSize
  let sLen := salt.length
  let emLen := (emBits + 7) / 8
  if mHash.length ≠ hLen then .err
  else if emLen < hLen + sLen + 2 then .err
  else
    let psLen := emLen - sLen - hLen - 2
    let hh := h.hash (zeros8 ++ mHash ++ salt)
    let db := List.replicate psLen 0 ++ (1 :: salt)
    let masked := maskHead (topMask emLen emBits) (mgf1XOR h db hh)
    .ok (masked ++ hh ++ [0xbc])

/-- `emsaPSSVerify(mHash, em, emBits, sLen, hash)`; `sLen = 0` is `PSSSaltLengthAuto`,
    `sLen = -1` is `PSSSaltLengthEqualsHash`. -/
def emsaPSSVerify (h : HashAlg) (mHash em : Bytes) (emBits : Nat) (sLen0 : Int) : Res Unit :=
  let hLen := h.outSize
  let sLen : Int := if sLen0 = -1 then (hLen : Int) else sLen0
  let emLen := (emBits + 7) / 8
  if emLen ≠ em.length then .err
  else if hLen ≠ mHash.length then .err
  else if (emLen : Int) < (hLen : Int) + sLen + 2 then .err
  else if emLen < hLen + 2 then .panic       -- only reachable with sLen < -1 (VerifyPSS rejects it): em[emLen-1] / db[0] out of range
  else if em.getLast? ≠ some 0xbc then .err
  else
    let db := em.take (emLen - hLen - 1)
    let hh := (em.drop (emLen - hLen - 1)).take hLen
    let bitMask := topMask emLen emBits
    if (match em with | [] => false | e0 :: _ => e0 &&& ~~~bitMask != 0) then .err
    else
      let db := maskHead bitMask (mgf1XOR h db hh)
      let sLenR : Res Nat :=
        if sLen = 0 then
          match db.findIdx? (· == 1) with
          | none => .err
          | some psLen => .ok (db.length - psLen - 1)
        else if sLen < 0 then .panic     -- unreachable after the range check above for sLen ≥ -1
        else .ok sLen.toNat
      match sLenR with
      | .err => .err
      | .panic => .panic
      | .ok sLen =>
        let psLen := emLen - hLen - sLen - 2
        if (db.take psLen).any (· != 0) then .err
        else if (db.drop psLen).head? ≠ some 1 then .err
        else
          let salt := db.drop (db.length - sLen)
          if h.hash (zeros8 ++ mHash ++ salt) = hh then .ok () else .err

/-- `signPSSWithSalt` -/
def signPSSWithSalt (k : Priv) (h : HashAlg) (hashed salt : Bytes) : Res Bytes :=
  let emBits := bitLen k.n - 1
  match emsaPSSEncode h hashed emBits salt with
  | .err => .err
  | .panic => .panic
  | .ok em =>
    let kk := sizeBytes k.n
    let em := if em.length < kk then List.replicate (kk - em.length) 0 ++ em else em
    decrypt k em true

/-- `SignPSS`: `saltLength` is `opts.saltLength()`; `rnd` the reader's bytes.
    (`bitLen n = 0` would make `N.BitLen()-1` negative: private keys in the model have `n ≥ 1`.) -/
def signPSS (k : Priv) (h : HashAlg) (digest : Bytes) (saltLength : Int) (rnd : Bytes) : Res Bytes :=
  let sl : Res Nat :=
    if saltLength = 0 then
      let v : Int := (((bitLen k.n - 1 + 7) / 8 : Nat) : Int) - 2 - (h.outSize : Int)
      if v < 0 then .err else .ok v.toNat
    else if saltLength = -1 then .ok h.outSize
    else if saltLength ≤ 0 then .err
    else .ok saltLength.toNat
  match sl with
  | .err => .err
  | .panic => .panic
  | .ok sl =>
    if rnd.length < sl then .err
    else signPSSWithSalt k h digest (rnd.take sl)

/-- the leading-zero stripping loop of `VerifyPSS` -/
def stripTo (emLen : Nat) : Bytes → Option Bytes
  | [] => some []
  | b :: rest =>
    if (b :: rest).length > emLen then
      (if b ≠ 0 then none else stripTo emLen rest)
    else some (b :: rest)

/-- `VerifyPSS`; `saltLength = opts.saltLength()` -/
def verifyPSS (pub : Pub) (h : HashAlg) (digest sig : Bytes) (saltLength : Int) : Res Unit :=
  match checkPub pub with
  | .err => .err
  | .panic => .panic
  | .ok (n, e) =>
    if sig.length ≠ sizeBytes n then .err
    else if saltLength < -1 then .err
    else
      let emBits := bitLen n - 1
      let emLen := (emBits + 7) / 8
      match encrypt n e sig with
      | .err => .err
      | .panic => .panic
      | .ok em =>
        match stripTo emLen em with
        | none => .err
        | some em => emsaPSSVerify h digest em emBits saltLength

/-! ### OAEP -/

/-- `EncryptOAEP(hash, random, pub, msg, label)` -/
def encryptOAEP (h : HashAlg) (pub : Pub) (rnd msg label : Bytes) : Res Bytes :=
  match checkPub pub with
  | .err => .err
  | .panic => .panic
  | .ok (n, e) =>
    let k := sizeBytes n
    let hLen := h.outSize
    if (msg.length : Int) > (k : Int) - 2 * (hLen : Int) - 2 then .err
    else
      let lHash := h.hash label
      let db := lHash ++ List.replicate (k - 2 * hLen - 2 - msg.length) 0 ++ (1 :: msg)
      if rnd.length < hLen then .err
      else
        let seed := rnd.take hLen
        let db' := mgf1XOR h db seed
        let seed' := mgf1XOR h seed db'
        encrypt n e (0 :: (seed' ++ db'))

/-- `decryptOAEP(hash, mgfHash, random, priv, ciphertext, label)` -/
def decryptOAEP (h mgf : HashAlg) (k : Priv) (ciphertext label : Bytes) : Res Bytes :=
  match checkPub k.pub with
  | .err => .err
  | .panic => .panic
  | .ok _ =>
    let kk := sizeBytes k.n
    let hLen := h.outSize
    if ciphertext.length > kk ∨ kk < hLen * 2 + 2 then .err
    else match decrypt k ciphertext false with
      | .err => .err
      | .panic => .panic
      | .ok em =>
        let lHash := h.hash label
        match em with
        | [] => .panic
        | b0 :: body =>
          let seed := body.take hLen
          let db := body.drop hLen
          let seed' := mgf1XOR mgf seed db
          let db' := mgf1XOR mgf db seed'
          let lHash2 := db'.take hLen
          let rest := db'.drop hLen
          -- first 0x01; every byte before it must be 0x00
          match rest.findIdx? (· == 1) with
          | none => .err
          | some idx =>
            if b0 = 0 ∧ lHash = lHash2 ∧ (rest.take idx).all (· == 0) then .ok (rest.drop (idx + 1))
            else .err

end ZV.C23
