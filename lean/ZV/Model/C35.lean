import ZV.Base
import ZV.Generated.C35
/-!
  Model of `tls/common.go: lruSessionCache` (Put / Get), branch for branch.

  Go state: `m : map[string]*list.Element`, `q : *list.List` (front = most
  recently used), `capacity`.  The model keeps only `q` as a list of
  `(key, value)` pairs, most recent first; `m` is its index (`lookup`).
  A `*ClientSessionState` is abstracted to `Option Nat` (`none` = nil pointer,
  `some i` = the i-th distinct session object).
-/
namespace ZV.C35

abbrev Key := Nat
abbrev Val := Option Nat            -- none = nil *ClientSessionState
abbrev Q := List (Key × Val)

structure Cache where
  cap : Nat
  q   : Q
  deriving Repr, DecidableEq

/-- `NewLRUClientSessionCache`: capacity < 1 ⇒ `defaultSessionCacheCapacity` (T1: taken from the tree,
    `ZV.C35.Gen`, not copied). -/
def new (capacity : Int) : Cache :=
  { cap := if capacity < 1 then Gen.defaultSessionCacheCapacity else capacity.toNat, q := [] }

def hasKey (k : Key) (q : Q) : Bool := q.any (fun e => e.1 == k)

def erase (k : Key) (q : Q) : Q := q.filter (fun e => e.1 != k)

def find (k : Key) (q : Q) : Option Val := (q.find? (fun e => e.1 == k)).map (·.2)

/-- `(*lruSessionCache).Put`.
    1. key present: nil ⇒ remove, else overwrite and move to front;
    2. key absent, nil session ⇒ nothing (the "has no other effect" clause;
       this is the `fix:` for D12 — before it the code fell through to 3/4);
    3. room left ⇒ push front;
    4. full ⇒ reuse the back element (evict least recently used). -/
def put (c : Cache) (k : Key) (v : Val) : Cache :=
  if hasKey k c.q then
    match v with
    | none => { c with q := erase k c.q }
    | some _ => { c with q := (k, v) :: erase k c.q }
  else
    match v with
    | none => c
    | some _ =>
      if c.q.length < c.cap then { c with q := (k, v) :: c.q }
      else { c with q := (k, v) :: c.q.dropLast }

/-- `(*lruSessionCache).Get`: present ⇒ move to front, return `(state, true)`. -/
def get (c : Cache) (k : Key) : Cache × (Val × Bool) :=
  match find k c.q with
  | some v => ({ c with q := (k, v) :: erase k c.q }, (v, true))
  | none => (c, (none, false))

inductive Op where
  | put (k : Key) (v : Val)
  | get (k : Key)
  deriving Repr, DecidableEq

/-- one step; the observable output is what `Get` returns (`Put` returns nothing). -/
def step (c : Cache) : Op → Cache × Option (Val × Bool)
  | .put k v => (put c k v, none)
  | .get k => let (c', r) := get c k; (c', some r)

def run (c : Cache) : List Op → Cache × List (Option (Val × Bool))
  | [] => (c, [])
  | op :: ops =>
    let (c1, o) := step c op
    let (c2, os) := run c1 ops
    (c2, o :: os)

/-! ### sequential-history acceptance (the specification the linearizability checker of the harness
    replays candidate linearizations against): a history is a list of completed calls with the
    value each call returned. -/

/-- one completed call: the operation and what it returned (`none` for `Put`). -/
abbrev Call := Op × Option (Val × Bool)

/-- replay a sequential history on a cache state, comparing every returned value. -/
def accepts (c : Cache) : List Call → Bool
  | [] => true
  | (op, r) :: rest =>
    let (c1, o) := step c op
    if o = r then accepts c1 rest else false

/-- internal-state view compared with the dump hook `tls.ZVC35Dump`: capacity, the recency list front
    to back, and the key index `m` (sorted keys; each key must point at the list element carrying it —
    in this model `m` IS the index of `q`). -/
def mKeys (c : Cache) : List Key :=
  (c.q.map (·.1)).mergeSort (fun a b => a ≤ b)

end ZV.C35
