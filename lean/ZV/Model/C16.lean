import ZV.Model.Wire
import ZV.Hash.SHA256
import ZV.Generated.C16
/-!
  C16 — model of the CT wire structures of packages `ct` and `x509/ct`
  (ct/serialization.go, ct/signatures.go, x509/ct/serialization.go).

  Decoders are sequences of reads with the first error returned, which is exactly what the `Wire`
  combinators are, so every decoder IS a `Fmt` built from combinators in the order of the Go reads:
    DeserializeSCT            = sctFmt.par
    UnmarshalDigitallySigned  = dsFmt.par
    ReadMerkleTreeLeaf        = leafFmt.par
    UnmarshalX509ChainArray   = chainFmt.par          (readASN1CertList r 3 3)
    UnmarshalPrecertChainArray= precertChainFmt.par
  The Go serialisers write into pre-sized buffers at computed offsets; they are modelled function by
  function (`marshalDSHere`, `serializedLength`, `serializeSCTHere`), and ZV.Proofs.C16 shows they compute
  `dsFmt.ser` / `sctFmt.ser`.  The x509/ct twin has identical code for the functions it contains
  (DeserializeSCT, Unmarshal/MarshalDigitallySigned); the harness runs both packages against the same model.
-/
namespace ZV.C16
open ZV.Wire

/-! ### fixed-width fields as Go types -/

def u8 : Fmt UInt8 := iso (fun n => UInt8.ofNat n) (fun b => b.toNat) (uintBE 1)
def u16 : Fmt UInt16 := iso (fun n => UInt16.ofNat n) (fun b => b.toNat) (uintBE 2)
def u64 : Fmt UInt64 := iso (fun n => UInt64.ofNat n) (fun b => b.toNat) (uintBE 8)

/-! ### DigitallySigned -/

structure DS where
  hash : UInt8
  alg : UInt8
  sig : Bytes
  deriving Repr, DecidableEq

/-- struct { HashAlgorithm; SignatureAlgorithm; opaque signature<0..2^16-1> } -/
def dsFmt : Fmt DS :=
  iso (fun (t : UInt8 × UInt8 × Bytes) => DS.mk t.1 t.2.1 t.2.2) (fun d => (d.hash, d.alg, d.sig))
    (pair u8 (pair u8 (opaqueBE 2)))

/-- marshalDigitallySignedHere(ds, here); `here = none` is a nil slice, `some n` a buffer of length n.
    After `fix:` (D14) a signature longer than 65535 bytes is an error (before: `uint16(sigLen)` truncated
    the length prefix and the output did not deserialise to the input). -/
def marshalDSHere (ds : DS) (here : Option Nat) : Res Bytes :=
  let sigLen := ds.sig.length
  let outLen := 2 + 2 + sigLen
  if sigLen > 65535 then .err
  else
    let hereLen := match here with | none => outLen | some n => n
    if hereLen < outLen then .err                                   -- ErrNotEnoughBuffer
    else .ok ([ds.hash, ds.alg] ++ beBytes 2 sigLen ++ ds.sig)

def marshalDS (ds : DS) : Res Bytes := marshalDSHere ds none

/-! ### SignedCertificateTimestamp -/

structure SCT where
  version : UInt8
  logID : Bytes          -- Go: [32]byte
  timestamp : UInt64
  ext : Bytes
  sig : DS
  deriving Repr, DecidableEq

/-- RFC 6962 §3.2  struct { Version sct_version = v1(0); LogID id; uint64 timestamp; CtExtensions; digitally-signed } -/
def sctFmt : Fmt SCT :=
  iso (fun (t : UInt8 × Bytes × UInt64 × Bytes × DS) => SCT.mk t.1 t.2.1 t.2.2.1 t.2.2.2.1 t.2.2.2.2)
      (fun s => (s.version, s.logID, s.timestamp, s.ext, s.sig))
    (pair (guard (fun v => v == 0) u8) (pair (bytesN 32) (pair u64 (pair (opaqueBE 2) dsFmt))))

/-- SerializedLength -/
def serializedLength (s : SCT) : Res Nat :=
  if s.version == 0 then .ok (1 + 32 + 8 + 2 + s.ext.length + 2 + 2 + s.sig.sig.length) else .err

/-- SerializeSCTHere / serializeV1SCTHere -/
def serializeSCTHere (s : SCT) (here : Option Nat) : Res Bytes :=
  if s.version != 0 then .err                                        -- unknown SCT version
  else
    match serializedLength s with
    | .ok sctLen =>
      let hereLen := match here with | none => sctLen | some n => n
      if hereLen < sctLen then .err                                  -- ErrNotEnoughBuffer
      else if s.ext.length > 65535 then .err                         -- checkExtensionsFormat
      else
        -- marshalDigitallySignedHere(sct.Signature, here[n:]) : the sub-slice has exactly the needed length
        match marshalDSHere s.sig (some (4 + s.sig.sig.length)) with
        | .ok d => .ok ([s.version] ++ s.logID ++ beBytes 8 s.timestamp.toNat ++ beBytes 2 s.ext.length ++ s.ext ++ d)
        | .err => .err
        | .panic => .panic
    | .err => .err
    | .panic => .panic

def serializeSCT (s : SCT) : Res Bytes := serializeSCTHere s none

/-! ### MerkleTreeLeaf -/

inductive Entry where
  | x509 (cert : Bytes)
  | precert (issuerKeyHash : Bytes) (tbs : Bytes)
  deriving Repr, DecidableEq

def Entry.tag : Entry → UInt16
  | .x509 _ => 0
  | .precert _ _ => 1

structure Leaf where
  version : UInt8
  leafType : UInt8
  timestamp : UInt64
  entry : Entry
  ext : Bytes
  deriving Repr, DecidableEq

/-- `switch t.EntryType` of ReadTimestampedEntryInto -/
def entryBody (t : UInt16) : Fmt Entry :=
  if t == 0 then
    piso Entry.x509 (fun e => match e with | .x509 c => some c | _ => none) (opaqueBE 3)
  else if t == 1 then
    piso (fun (p : Bytes × Bytes) => Entry.precert p.1 p.2)
      (fun e => match e with | .precert h t => some (h, t) | _ => none) (pair (bytesN 32) (opaqueBE 3))
  else fail

/-- RFC 6962 §3.4 MerkleTreeLeaf { version = v1; leaf_type = timestamped_entry; TimestampedEntry } -/
def leafFmt : Fmt Leaf :=
  iso (fun (t : UInt8 × UInt8 × UInt64 × Entry × Bytes) => Leaf.mk t.1 t.2.1 t.2.2.1 t.2.2.2.1 t.2.2.2.2)
      (fun l => (l.version, l.leafType, l.timestamp, l.entry, l.ext))
    (pair (guard (fun v => v == 0) u8) (pair (guard (fun v => v == 0) u8)
      (pair u64 (pair (dep u16 Entry.tag entryBody) (opaqueBE 2)))))

/-! ### certificate chains -/

/-- the loop of readASN1CertList over the list bytes: `readVarBytes(listReader, k)` until io.EOF.
    io.EOF comes from the length field only — also when 1..k-1 bytes are left (the partial length is
    silently dropped); a short body is "short read", a real error. -/
def parseEntries (k : Nat) (bs : Bytes) : Res (List Bytes) :=
  if k = 0 then .err                                  -- "numLenBytes should be > 0"
  else if bs.length < k then .ok []
  else
    let l := beVal (bs.take k)
    let rest := bs.drop k
    if rest.length < l then .err
    else
      match parseEntries k (rest.drop l) with
      | .ok es => .ok (rest.take l :: es)
      | .err => .err
      | .panic => .panic
termination_by bs.length
decreasing_by
  simp only [List.length_drop]
  omega

def serEntries (k : Nat) : List Bytes → Res Bytes
  | [] => .ok []
  | c :: cs =>
    match (opaqueBE k).ser c, serEntries k cs with
    | .ok x, .ok y => .ok (x ++ y)
    | .panic, _ => .panic
    | _, .panic => .panic
    | _, _ => .err

/-- ASN.1Cert certificate_chain<0..2^24-1>, each ASN.1Cert = opaque<1..2^24-1> (the reader also takes empty ones) -/
def chainFmt : Fmt (List Bytes) where
  ser cs :=
    match serEntries 3 cs with
    | .ok body => (opaqueBE 3).ser body
    | .err => .err
    | .panic => .panic
  par bs :=
    match (opaqueBE 3).par bs with
    | .ok (body, rest) =>
      match parseEntries 3 body with
      | .ok es => .ok (es, rest)
      | .err => .err
      | .panic => .panic
    | .err => .err
    | .panic => .panic

/-- PrecertChainEntry { ASN.1Cert pre_certificate; ASN.1Cert precertificate_chain<0..2^24-1> } as one list -/
def precertChainFmt : Fmt (List Bytes) :=
  piso (fun (p : Bytes × List Bytes) => p.1 :: p.2)
    (fun l => match l with | c :: cs => some (c, cs) | [] => none) (pair (opaqueBE 3) chainFmt)

/-! ### the decoders by their Go names -/

/-- ct.DeserializeSCT / x509/ct.DeserializeSCT: value and unread input -/
def deserializeSCT (bs : Bytes) : Res (SCT × Bytes) := sctFmt.par bs
/-- UnmarshalDigitallySigned (both packages) -/
def unmarshalDS (bs : Bytes) : Res (DS × Bytes) := dsFmt.par bs
/-- ReadMerkleTreeLeaf -/
def readMerkleTreeLeaf (bs : Bytes) : Res (Leaf × Bytes) := leafFmt.par bs
/-- UnmarshalX509ChainArray -/
def unmarshalX509Chain (bs : Bytes) : Res (List Bytes × Bytes) := chainFmt.par bs
/-- UnmarshalPrecertChainArray -/
def unmarshalPrecertChain (bs : Bytes) : Res (List Bytes × Bytes) := precertChainFmt.par bs

/-! ### signature inputs -/

/-- writeVarBytes(&buf, value, k) -/
def writeVarBytes (k : Nat) (v : Bytes) : Res Bytes := (opaqueBE k).ser v

/-- checkCertificateFormat -/
def checkCert (c : Bytes) : Bool := !(c.length == 0) && !(c.length > 16777215)
/-- checkExtensionsFormat -/
def checkExt (e : Bytes) : Bool := !(e.length > 65535)

/-- serializeV1CertSCTSignatureInput -/
def certSCTInput (ts : UInt64) (cert ext : Bytes) : Res Bytes :=
  if !checkCert cert then .err
  else if !checkExt ext then .err
  else
    match writeVarBytes 3 cert, writeVarBytes 2 ext with
    | .ok c, .ok e => .ok ([0] ++ [0] ++ beBytes 8 ts.toNat ++ beBytes 2 0 ++ c ++ e)
    | .panic, _ => .panic
    | _, .panic => .panic
    | _, _ => .err

/-- serializeV1PrecertSCTSignatureInput -/
def precertSCTInput (ts : UInt64) (ikh tbs ext : Bytes) : Res Bytes :=
  if !checkCert tbs then .err
  else if !checkExt ext then .err
  else
    match writeVarBytes 3 tbs, writeVarBytes 2 ext with
    | .ok c, .ok e => .ok ([0] ++ [0] ++ beBytes 8 ts.toNat ++ beBytes 2 1 ++ ikh ++ c ++ e)
    | .panic, _ => .panic
    | _, .panic => .panic
    | _, _ => .err

/-- the parts of a Go `LogEntry.Leaf` that SerializeSCTSignatureInput reads (Go-shaped: both entry
    variants are present, the entry type is any uint16) -/
structure GoLeaf where
  leafType : UInt8
  entryType : UInt16
  x509 : Bytes
  ikh : Bytes            -- [32]byte
  tbs : Bytes
  ext : Bytes
  deriving Repr, DecidableEq

/-- SerializeSCTSignatureInput / serializeV1SCTSignatureInput (only version and timestamp of the SCT are read) -/
def sctSignatureInput (version : UInt8) (ts : UInt64) (e : GoLeaf) : Res Bytes :=
  if version != 0 then .err
  else if e.leafType != 0 then .err
  else if e.entryType == 0 then certSCTInput ts e.x509 e.ext
  else if e.entryType == 1 then precertSCTInput ts e.ikh e.tbs e.ext
  else .err

structure STH where
  version : UInt8
  treeSize : UInt64
  timestamp : UInt64
  rootHash : Bytes       -- [32]byte
  deriving Repr, DecidableEq

/-- SerializeSTHSignatureInput / serializeV1STHSignatureInput -/
def sthSignatureInput (s : STH) : Res Bytes :=
  if s.version != 0 then .err
  else .ok ([0] ++ [1] ++ beBytes 8 s.timestamp.toNat ++ beBytes 8 s.treeSize.toNat ++ s.rootHash)

/-! ### verifySignature -/

inductive KeyKind where
  | rsa | ecdsa
  deriving Repr, DecidableEq

/-- The primitives are parameters, applied to the DIGEST the verifier computes itself:
    `rsaVerify digest sig` = rsa.VerifyPKCS1v15(key, SHA256, digest, sig) == nil;
    `ecdsaVerify digest sig` = the signature parses as an ASN.1 SEQUENCE {r, s} (bytes after it are only logged)
    and ecdsa.Verify(key, digest, r, s). -/
structure Prims where
  kind : KeyKind
  rsaVerify : Bytes → Bytes → Bool
  ecdsaVerify : Bytes → Bytes → Bool

/-- (s SignatureVerifier) verifySignature(data, sig); `hasher.Write(data); hash := hasher.Sum(nil)` is SHA-256
    (executable model ZV.Hash.sha256).  The enum values are the generated ones (T1). -/
def verifySignature (p : Prims) (data : Bytes) (sig : DS) : Res Unit :=
  if sig.hash.toNat != Gen.hashSHA256 then .err                -- only SHA256
  else
    let hash := ZV.Hash.sha256 data
    if sig.alg.toNat == Gen.sigRSA then                        -- RSA
      match p.kind with
      | .rsa => if p.rsaVerify hash sig.sig then .ok () else .err
      | .ecdsa => .err                                         -- cannot verify RSA signature with %T key
    else if sig.alg.toNat == Gen.sigECDSA then                 -- ECDSA
      match p.kind with
      | .ecdsa => if p.ecdsaVerify hash sig.sig then .ok () else .err
      | .rsa => .err
    else .err                                                  -- unsupported signature type

/-! ### NewSignatureVerifier -/

/-- the curve of an ECDSA key as `params != *elliptic.P256().Params()` sees it: the comparison is on the
    CurveParams STRUCT, whose big.Int fields are pointers — only the standard library's P-256 singleton is
    equal to itself; `copy` (a field-for-field copy of the P-256 parameters in fresh big.Ints) is not. -/
inductive Curve where
  | p224 | p256 | p384 | p521 | copy
  deriving Repr, DecidableEq

/-- the dynamic type and the inspected fields of the `crypto.PublicKey` argument -/
inductive Key where
  | rsa (bits : Option Nat)      -- *zcrypto/rsa.PublicKey, N.BitLen(); `none`: N is a nil *big.Int
  | rsaNil                       -- (*rsa.PublicKey)(nil)
  | ecdsa (c : Option Curve)     -- *ecdsa.PublicKey; `none`: the embedded Curve interface is nil
  | ecdsaNil                     -- (*ecdsa.PublicKey)(nil)
  | other                        -- anything else: nil, *crypto/rsa.PublicKey, key values (not pointers), ed25519, …
  deriving Repr, DecidableEq

/-- NewSignatureVerifier(pk) with `allowVerificationWithNonCompliantKeys = allow`; on success the verifier holds
    the key (its kind is what verifySignature's type assertions see) -/
def newSignatureVerifier (allow : Bool) : Key → Res KeyKind
  | .rsa none => .panic                                        -- nil *big.Int: N.BitLen() dereferences it
  | .rsa (some bits) =>
    if bits < Gen.minRSABits then (if !allow then .err else .ok .rsa) else .ok .rsa
  | .rsaNil => .panic                                          -- pkType.N on a nil pointer
  | .ecdsa none => .panic                                      -- Params() on a nil interface
  | .ecdsa (some c) =>
    if c != .p256 then (if !allow then .err else .ok .ecdsa) else .ok .ecdsa
  | .ecdsaNil => .panic
  | .other => .err                                             -- Unsupported public key type

/-- VerifySCTSignature -/
def verifySCT (p : Prims) (version : UInt8) (ts : UInt64) (sig : DS) (e : GoLeaf) : Res Unit :=
  match sctSignatureInput version ts e with
  | .ok data => verifySignature p data sig
  | .err => .err
  | .panic => .panic

/-- VerifySTHSignature -/
def verifySTH (p : Prims) (s : STH) (sig : DS) : Res Unit :=
  match sthSignatureInput s with
  | .ok data => verifySignature p data sig
  | .err => .err
  | .panic => .panic

end ZV.C16
