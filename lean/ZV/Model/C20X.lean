import ZV.Model.C18
import ZV.Model.Time
import ZV.Generated.C20
/-!
  C20, x509 level: models of the functions of `x509/x509.go` that read `asn1.AllowPermissiveParsing`
  (`parsePublicKey`, `parseGeneralNames`, the extension loop of `parseCertificate`), with the flag as the `perm`
  parameter, branch for branch.  Byte-level parsing is the `encoding/asn1` model `ZV.C18.unmarshal` run on the
  schema of the real Go type (the schemas below are compared with the reflected Go types by the T2 op `c20 xsch`).

  Opaque parameters (`Sub`): sub-parsers that do not read the flag themselves and are too big to model
  (`parseTorServiceDescriptorSyntax`, `parseSignedCertificateTimestampList` / `ct.DeserializeSCT`,
  `QCStatements.Parse`; `elliptic.Unmarshal` is the predicate `ecOk` of the bytes).  The theorems quantify over them (with the hypothesis
  that the sub-parser itself is conservative where it can depend on the mode); the driver gets their outcome on the
  case line (computed by the harness through a verif hook, and re-checked in `Exec`).

  `interface{}` (ANY) inside `pkix.RDNSequence` is outside the C18 schema language: an ANY field is read with the
  schema `raw` and then checked by `anyOk` (the ANY arm of `parseField`, asn1.go 712–762: same header checks as a
  RawValue, then the primitive parser selected by the universal tag).
-/
namespace ZV.C20.X
open ZV.C18

/-- `asn1.Unmarshal(bs, &v)`: the decoded value only (`rest` is ignored by every caller modelled here unless stated).
    A model-level `panic` of the asn1 interpreter is treated as an error (no site distinguishes them). -/
def un (perm : Bool) (s : Schema) (p : Params) (bs : Bytes) : Res Val :=
  match unmarshal perm s p bs with
  | .ok (v, _) => .ok v
  | .err => .err
  | .panic => .err

/-! ## schemas of the Go types (tied to reflection by `c20 xsch`) -/

def pkcs1Schema : Schema := .struct (.fcons {} .bigint (.fcons {} .bigint .fnil))
/-- pkix.OtherName -/
def otherNameSchema : Schema := .struct (.fcons {} .oid (.fcons { explicit := true, tag := some 0 } .raw .fnil))
/-- pkix.EDIPartyName -/
def ediSchema : Schema :=
  .struct (.fcons { tag := some 0, optional := true, explicit := true } .str (.fcons { tag := some 1, explicit := true } .str .fnil))
/-- pkix.RDNSequence with ANY read as raw -/
def rdnSchema : Schema := .seqOf false (.seqOf true (.struct (.fcons {} .oid (.fcons {} .raw .fnil))))
def subtreeSchema : Schema :=
  .struct (.fcons { optional := true } .raw
          (.fcons { tag := some 0, defaultValue := some 0, optional := true } .int64
          (.fcons { tag := some 1, optional := true } .int64 .fnil)))
def ncSchema : Schema :=
  .struct (.fcons { optional := true, tag := some 0 } (.seqOf false subtreeSchema)
          (.fcons { optional := true, tag := some 1 } (.seqOf false subtreeSchema) .fnil))
def dpNameSchema : Schema :=
  .struct (.fcons { optional := true, tag := some 0 } .raw (.fcons { optional := true, tag := some 1 } rdnSchema .fnil))
def cdpSchema : Schema :=
  .seqOf false (.struct (.fcons { optional := true, tag := some 0 } dpNameSchema
                        (.fcons { optional := true, tag := some 1 } .bits
                        (.fcons { optional := true, tag := some 2 } .raw .fnil))))
def akiSchema : Schema := .struct (.fcons { optional := true, tag := some 0 } .octets .fnil)
def ekuSchema : Schema := .seqOf false .oid
def qualifierSchema : Schema := .struct (.fcons {} .oid (.fcons {} .raw .fnil))
def policiesSchema : Schema :=
  .seqOf false (.struct (.fcons {} .oid (.fcons { optional := true } (.seqOf false qualifierSchema) .fnil)))
def noticeRefSchema : Schema := .struct (.fcons {} .raw (.fcons {} (.seqOf false .int64) .fnil))
def userNoticeSchema : Schema :=
  .struct (.fcons { optional := true } noticeRefSchema (.fcons { optional := true } .raw .fnil))
def aiaSchema : Schema := .seqOf false (.struct (.fcons {} .oid (.fcons {} .raw .fnil)))
def cabfSchema : Schema :=
  .struct (.fcons { stringType := 19 } .str (.fcons { stringType := 19 } .str
          (.fcons { stringType := 19, optional := true, tag := some 0 } .str (.fcons { stringType := 12 } .str .fnil))))
def qcSchema : Schema := .seqOf false (.struct (.fcons {} .oid (.fcons { optional := true } .raw .fnil)))

/-! ## ANY (`interface{}`) -/

/-- the primitive parser the ANY arm selects for a universal primitive element: `true` = nil error -/
def anyPrim (perm : Bool) (tag : Nat) (inner : Bytes) : Bool :=
  if tag = 19 then (parsePrintableString perm inner).isOk
  else if tag = 18 then (parseNumericString perm inner).isOk
  else if tag = 22 then (parseIA5String perm inner).isOk
  else if tag = 20 then true
  else if tag = 12 then (parseUTF8String perm inner).isOk
  else if tag = 2 then (parseInt64 perm inner).isOk
  else if tag = 3 then (parseBitString inner).isOk
  else if tag = 6 then (parseOID inner).isOk
  else if tag = 23 then (ZV.Time.EA.parseUTCTime perm inner).isOk
  else if tag = 24 then (ZV.Time.EA.parseGeneralizedTime perm inner).isOk
  else if tag = 4 then true
  else if tag = 30 then (parseBMPString inner).isOk
  else true

def anyOk (perm : Bool) : Val → Bool
  | .raw cls tag compound inner _ => if !compound && cls == 0 then anyPrim perm tag inner else true
  | _ => true

/-- AttributeTypeAndValue{Type, Value interface{}} -/
def atvOk (perm : Bool) : Val → Bool
  | .vcons _ (.vcons r .vnil) => anyOk perm r
  | _ => true

def allChain (f : Val → Bool) : Val → Bool
  | .vcons v rest => f v && allChain f rest
  | _ => true

/-- `len(slice)` of a decoded slice -/
def chainLength : Val → Nat
  | .vcons _ r => chainLength r + 1
  | _ => 0

def rdnAnyOk (perm : Bool) (v : Val) : Bool := allChain (allChain (atvOk perm)) v

/-- `asn1.Unmarshal(bs, &rdn)` for `rdn pkix.RDNSequence` -/
def unRDN (perm : Bool) (bs : Bytes) : Res Val :=
  match un perm rdnSchema {} bs with
  | .ok v => if rdnAnyOk perm v then .ok v else .err
  | .err => .err
  | .panic => .err

/-! ## parsePublicKey -/

inductive Key where
  | rsa (n e : Int)
  | dsa (y p q g : Int)
  /-- `AugmentedECDSA`: the named curve (0 = P-224, 1 = P-256, 2 = P-384, 3 = P-521) and the encoded point (`X`, `Y` are a
      function of the two) -/
  | ecdsa (curve : Nat) (point : Bytes)
  | ed25519 (b : Bytes)
  | x25519 (b : Bytes)
  /-- `default: return nil, nil` -/
  | none
  deriving DecidableEq, Repr

/-- the `case RSA:` arm.  SITE parsePublicKey/0 (strict-guard): the two sign checks.
    `p.N` / `p.E` are never nil after a successful Unmarshal; a nil would panic in `Sign()`. -/
def parsePublicKeyRSA (perm : Bool) (asn1Data : Bytes) : Res Key :=
  match unmarshal perm pkcs1Schema {} asn1Data with
  | .err => .err
  | .panic => .err
  | .ok (v, rest) =>
    if rest.length != 0 then .err
    else match v with
      | .vcons (.int n) (.vcons (.int e) .vnil) =>
        if !perm && decide (n ≤ 0) then .err
        else if !perm && decide (e ≤ 0) then .err
        else .ok (.rsa n e)
      | _ => .panic

/-- dsaAlgorithmParameters{P, Q, G *big.Int} -/
def dsaParamsSchema : Schema := .struct (.fcons {} .bigint (.fcons {} .bigint (.fcons {} .bigint .fnil)))

/-- the sign test of the DSA arm (not guarded by the flag) -/
def dsaCheck (yv pv : Val) : Res Key :=
  match yv, pv with
  | .int y, .vcons (.int p) (.vcons (.int q) (.vcons (.int g) .vnil)) =>
    if y ≤ 0 ∨ p ≤ 0 ∨ q ≤ 0 ∨ g ≤ 0 then .err else .ok (.dsa y p q g)
  | _, _ => .panic

/-- the `case DSA:` arm: the flag is not read; the mode enters through the two `asn1.Unmarshal` calls only -/
def parsePublicKeyDSA (perm : Bool) (asn1Data paramsFull : Bytes) : Res Key :=
  match unmarshal perm .bigint {} asn1Data with
  | .err => .err
  | .panic => .err
  | .ok (yv, rest) =>
    if rest.length != 0 then .err
    else match unmarshal perm dsaParamsSchema {} paramsFull with
      | .err => .err
      | .panic => .err
      | .ok (pv, rest2) => if rest2.length != 0 then .err else dsaCheck yv pv

/-- `namedCurveFromOID` -/
def namedCurveFromOID (oid : List Int) : Option Nat :=
  if oid = [1, 3, 132, 0, 33] then some 0
  else if oid = [1, 2, 840, 10045, 3, 1, 7] then some 1
  else if oid = [1, 3, 132, 0, 34] then some 2
  else if oid = [1, 3, 132, 0, 35] then some 3
  else none

/-- the part of the ECDSA arm after the parameters are read; `ecOk curve data` stands for
    `elliptic.Unmarshal(curve, data) != nil` (length, format byte, on-curve test: a predicate of the bytes) -/
def ecdsaCheck (ecOk : Nat → Bytes → Bool) (ov : Val) (asn1Data : Bytes) : Res Key :=
  match ov with
  | .oid arcs =>
    (match namedCurveFromOID arcs with
     | none => .err
     | some c => if ecOk c asn1Data then .ok (.ecdsa c asn1Data) else .err)
  | _ => .panic

/-- the `case ECDSA:` arm -/
def parsePublicKeyECDSA (ecOk : Nat → Bytes → Bool) (perm : Bool) (asn1Data paramsFull : Bytes) : Res Key :=
  match unmarshal perm .oid {} paramsFull with
  | .err => .err
  | .panic => .err
  | .ok (ov, rest) => if rest.length != 0 then .err else ecdsaCheck ecOk ov asn1Data

/-- `parsePublicKey`: `algo` = 1 RSA, 2 DSA, 3 ECDSA, 4 Ed25519, 5 X25519, anything else `return nil, nil`.
    `asn1Data` = `keyData.PublicKey.RightAlign()`, `paramsFull` = `keyData.Algorithm.Parameters.FullBytes`.
    Only the RSA arm reads the flag. -/
def parsePublicKey (ecOk : Nat → Bytes → Bool) (perm : Bool) (algo : Nat) (asn1Data paramsFull : Bytes) : Res Key :=
  if algo = 1 then parsePublicKeyRSA perm asn1Data
  else if algo = 2 then parsePublicKeyDSA perm asn1Data paramsFull
  else if algo = 3 then parsePublicKeyECDSA ecOk perm asn1Data paramsFull
  else if algo = 4 then
    if asn1Data.length > 32 then .err
    else if asn1Data.length != 32 then .err
    else .ok (.ed25519 asn1Data)
  else if algo = 5 then
    if asn1Data.length > 32 then .err else .ok (.x25519 asn1Data)
  else .ok .none

/-! ## parseGeneralNames -/

structure GN where
  other : List Val := []
  email : List Bytes := []
  dns : List Bytes := []
  uri : List Bytes := []
  dir : List Val := []
  edi : List Val := []
  ip : List Bytes := []
  rid : List Val := []
  failed : List Val := []
  deriving DecidableEq, Repr

/-- the body of `switch v.Tag` for one GeneralName `v` (a RawValue with tag `tag`, content `inner`, encoding `full`).
    Result: (accumulators, `true` = next element / `false` = `return` with `err != nil`).
    SITES parseGeneralNames/0 (tag 0), /1 (tag 4), /2 (tag 5), /3 (tag 7, if-else), /4 (tag 8). -/
def gnElem (perm : Bool) (v : Val) (tag : Nat) (inner full : Bytes) (acc : GN) : GN × Bool :=
  if tag = 0 then
    match un perm otherNameSchema { tag := some 0 } full with
    | .ok o => ({ acc with other := acc.other ++ [o] }, true)
    | .err => if perm then ({ acc with failed := acc.failed ++ [v] }, true) else (acc, false)
    | .panic => (acc, false)
  else if tag = 1 then ({ acc with email := acc.email ++ [inner] }, true)
  else if tag = 2 then ({ acc with dns := acc.dns ++ [inner] }, true)
  else if tag = 4 then
    match unRDN perm inner with
    | .ok d => ({ acc with dir := acc.dir ++ [d] }, true)
    | .err => if perm then ({ acc with failed := acc.failed ++ [v] }, true) else (acc, false)
    | .panic => (acc, false)
  else if tag = 5 then
    match un perm ediSchema { tag := some 5 } full with
    | .ok o => ({ acc with edi := acc.edi ++ [o] }, true)
    | .err => if perm then ({ acc with failed := acc.failed ++ [v] }, true) else (acc, false)
    | .panic => (acc, false)
  else if tag = 6 then ({ acc with uri := acc.uri ++ [inner] }, true)
  else if tag = 7 then
    if inner.length = 4 ∨ inner.length = 16 then ({ acc with ip := acc.ip ++ [inner] }, true)
    else if perm then ({ acc with failed := acc.failed ++ [v] }, true)
    else (acc, false)
  else if tag = 8 then
    match un perm .oid { tag := some 8 } full with
    | .ok o => ({ acc with rid := acc.rid ++ [o] }, true)
    | .err => if perm then ({ acc with failed := acc.failed ++ [v] }, true) else (acc, false)
    | .panic => (acc, false)
  else (acc, true)

/-- `for len(rest) > 0 { rest, err = asn1.Unmarshal(rest, &v); … }`; `fuel` = `len(rest)` at entry (every iteration
    consumes at least two bytes). -/
def gnLoop (perm : Bool) : (fuel : Nat) → Bytes → GN → GN × Bool
  | _, [], acc => (acc, true)
  | 0, _ :: _, acc => (acc, false)
  | f + 1, b :: bs, acc =>
    match unmarshal perm .raw {} (b :: bs) with
    | .ok (.raw cls tag k inner full, rest) =>
      (match gnElem perm (.raw cls tag k inner full) tag inner full acc with
       | (acc', true) => gnLoop perm f rest acc'
       | (acc', false) => (acc', false))
    | _ => (acc, false)

/-- `parseGeneralNames`: the named results at return, and `err == nil`. -/
def parseGeneralNames (perm : Bool) (value : Bytes) : GN × Bool :=
  match unmarshal perm .raw {} value with
  | .ok (.raw cls tag k inner _, _) =>
    if !k || tag != 16 || cls != 0 then ({}, false)
    else gnLoop perm inner.length inner {}
  | _ => ({}, false)

/-! ## parseCertificate: the extension loop -/

structure NCE where
  kind : Nat
  data : Val
  min : Int
  max : Int
  deriving DecidableEq, Repr

structure Pol where
  id : Val
  qualifierIds : List Val := []
  cps : List Bytes := []
  explicitTexts : List Bytes := []
  noticeOrgs : List Bytes := []
  notices : Nat := 0
  deriving DecidableEq, Repr

/-- the result fields of `Certificate` fed by the sites of the flag -/
structure Cert where
  key : Option Key := none
  san : GN := {}
  ian : GN := {}
  failedNames : List Val := []
  ncCritical : Bool := false
  permitted : List NCE := []
  excluded : List NCE := []
  crldp : List Bytes := []
  aki : Val := .null
  ski : Val := .null
  ekuKnown : Nat := 0
  ekuUnknown : List Val := []
  policies : Option (List Pol) := none
  ocsp : List Bytes := []
  issuers : List Bytes := []
  scts : Nat := 0
  isPrecert : Bool := false
  tor : Option Nat := none
  cabf : Option Val := none
  qc : Bool := false
  deriving DecidableEq, Repr

/-- opaque sub-parsers: `some n` = nil error (n items), `none` = error -/
structure Sub where
  tor : Bool → Bytes → Option Nat
  /-- `parseSignedCertificateTimestampList`: (SCTs appended to `out` before returning, `err == nil`) -/
  sct : Bool → Bytes → Nat × Bool
  qcParse : Bool → Bytes → Option Unit

/-- the loop of `parseSignedCertificateTimestampList`; `deser i chunk` stands for `ct.DeserializeSCT(chunk)` returning a
    nil error for the `i`-th SCT (it reads TLS-encoded bytes, no ASN.1, and never consults the flag). `fuel` = `len(scts)`. -/
def sctLoop (deser : Nat → Bytes → Bool) : (fuel : Nat) → (idx : Nat) → Bytes → Nat → Nat × Bool
  | _, _, [], n => (n, true)
  | _, _, [_], n => (n, false)
  | 0, _, _ :: _ :: _, n => (n, false)
  | f + 1, i, b0 :: b1 :: rest, n =>
    if !(b1.toNat + b0.toNat * 256 + 2 ≤ rest.length + 2) then (n, false)
    else if deser i (rest.take (b1.toNat + b0.toNat * 256)) then
      sctLoop deser f (i + 1) (rest.drop (b1.toNat + b0.toNat * 256)) (n + 1)
    else (n, false)

/-- `parseSignedCertificateTimestampList`: (SCTs appended, `err == nil`).  The mode enters through the one
    `asn1.Unmarshal(ext.Value, &scts)` only. -/
def parseSCTList (deser : Nat → Bytes → Bool) (perm : Bool) (value : Bytes) : Nat × Bool :=
  match un perm .octets {} value with
  | .ok (.bytes scts) => if scts.length < 2 then (0, false) else sctLoop deser scts.length 0 (scts.drop 2) 0
  | .ok _ => (0, false)
  | .err => (0, false)
  | .panic => (0, false)

structure Ext where
  id : List Int
  critical : Bool
  value : Bytes
  deriving DecidableEq, Repr

def subtreeParts : Val → Option (Val × Nat × Bytes × Bytes × Int × Int)
  | .vcons (.raw c t k b fb) (.vcons (.int mn) (.vcons (.int mx) .vnil)) => some (.raw c t k b fb, t, b, fb, mn, mx)
  | _ => none

/-- one iteration of `for _, subtree := range constraints.Permitted`.
    SITES parseCertificate/3 (tag 4), /4 (tag 5), /5 (tag 7, strict-guard), /6 (tag 8). -/
def ncPermitted (perm : Bool) (st : Val) (acc : List NCE) : List NCE × Bool :=
  match subtreeParts st with
  | none => (acc, true)
  | some (v, tag, inner, full, mn, mx) =>
    if tag = 1 ∨ tag = 2 ∨ tag = 6 then (acc ++ [⟨tag, .bytes inner, mn, mx⟩], true)
    else if tag = 3 then (acc ++ [⟨3, v, mn, mx⟩], true)
    else if tag = 4 then
      match unRDN perm inner with
      | .ok d => (acc ++ [⟨4, d, mn, mx⟩], true)
      | .err => if perm then (acc, true) else (acc, false)
      | .panic => (acc, false)
    else if tag = 5 then
      match un perm ediSchema { tag := some 5 } full with
      | .ok d => (acc ++ [⟨5, d, mn, mx⟩], true)
      | .err => if perm then (acc, true) else (acc, false)
      | .panic => (acc, false)
    else if tag = 7 then
      if inner.length = 8 ∨ inner.length = 32 then (acc ++ [⟨7, .bytes inner, mn, mx⟩], true)
      else if !perm then (acc, false) else (acc, true)
    else if tag = 8 then
      match un perm .oid { tag := some 8 } full with
      | .ok d => (acc ++ [⟨8, d, mn, mx⟩], true)
      | .err => if perm then (acc, true) else (acc, false)
      | .panic => (acc, false)
    else (acc, true)

/-- one iteration of `for _, subtree := range constraints.Excluded` (tags 5 and 8 read `Value.Bytes` untagged).
    SITES parseCertificate/7 (tag 4), /8 (tag 5), /9 (tag 7, strict-guard), /10 (tag 8). -/
def ncExcluded (perm : Bool) (st : Val) (acc : List NCE) : List NCE × Bool :=
  match subtreeParts st with
  | none => (acc, true)
  | some (v, tag, inner, _, mn, mx) =>
    if tag = 1 ∨ tag = 2 ∨ tag = 6 then (acc ++ [⟨tag, .bytes inner, mn, mx⟩], true)
    else if tag = 3 then (acc ++ [⟨3, v, mn, mx⟩], true)
    else if tag = 4 then
      match unRDN perm inner with
      | .ok d => (acc ++ [⟨4, d, mn, mx⟩], true)
      | .err => if perm then (acc, true) else (acc, false)
      | .panic => (acc, false)
    else if tag = 5 then
      match un perm ediSchema {} inner with
      | .ok d => (acc ++ [⟨5, d, mn, mx⟩], true)
      | .err => if perm then (acc, true) else (acc, false)
      | .panic => (acc, false)
    else if tag = 7 then
      if inner.length = 8 ∨ inner.length = 32 then (acc ++ [⟨7, .bytes inner, mn, mx⟩], true)
      else if !perm then (acc, false) else (acc, true)
    else if tag = 8 then
      match un perm .oid {} inner with
      | .ok d => (acc ++ [⟨8, d, mn, mx⟩], true)
      | .err => if perm then (acc, true) else (acc, false)
      | .panic => (acc, false)
    else (acc, true)

/-- `for _, x := range slice { … }` over a decoded slice, with early `return` -/
def chainLoop {σ : Type} (f : Val → σ → σ × Bool) : Val → σ → σ × Bool
  | .vcons v rest, acc =>
    (match f v acc with
     | (acc', true) => chainLoop f rest acc'
     | (acc', false) => (acc', false))
  | _, acc => (acc, true)

/-- `case 30` after the successful Unmarshal -/
def ncApply (perm : Bool) (critical : Bool) (c : Val) (out : Cert) : Res Cert :=
  match c with
  | .vcons p (.vcons x .vnil) =>
    let out1 := if critical then { out with ncCritical := true } else out
    (match chainLoop (ncPermitted perm) p out1.permitted with
     | (_, false) => .err
     | (pl, true) =>
       match chainLoop (ncExcluded perm) x out1.excluded with
       | (_, false) => .err
       | (xl, true) => .ok { out1 with permitted := pl, excluded := xl })
  | _ => .panic

/-- the inner loop of `case 31`: `for len(dpName) > 0 { dpName, err = asn1.Unmarshal(dpName, &n) … }`.
    SITE parseCertificate/12: on error the permissive mode `continue`s with `dpName == nil`, i.e. leaves the loop. -/
def dpLoop (perm : Bool) : (fuel : Nat) → Bytes → List Bytes → List Bytes × Bool
  | _, [], acc => (acc, true)
  | 0, _ :: _, acc => (acc, false)
  | f + 1, b :: bs, acc =>
    match unmarshal perm .raw {} (b :: bs) with
    | .ok (.raw _ tag _ inner _, rest) =>
      dpLoop perm f rest (if tag = 6 then acc ++ [inner] else acc)
    | _ => if perm then (acc, true) else (acc, false)

/-- `for _, dp := range cdp` body -/
def dpElem (perm : Bool) (dp : Val) (acc : List Bytes) : List Bytes × Bool :=
  match dp with
  | .vcons (.vcons (.raw _ _ _ inner _) _) _ =>
    if inner.length = 0 then (acc, true) else dpLoop perm inner.length inner acc
  | _ => (acc, true)

/-- the ANY fields of `[]distributionPoint` (RelativeName) -/
def dpAnyOk (perm : Bool) : Val → Bool
  | .vcons (.vcons _ (.vcons rel .vnil)) _ => rdnAnyOk perm rel
  | _ => true

/-- `asn1.Unmarshal(e.Value, &cdp)` -/
def unCDP (perm : Bool) (bs : Bytes) : Res Val :=
  match un perm cdpSchema {} bs with
  | .ok v => if allChain (dpAnyOk perm) v then .ok v else .err
  | .err => .err
  | .panic => .err

def rawParts : Val → Option (Nat × Bytes × Bytes)
  | .raw _ t _ b fb => some (t, b, fb)
  | _ => none

def oidUserNotice : List Int := [1, 3, 6, 1, 5, 5, 7, 2, 2]
def oidCPS : List Int := [1, 3, 6, 1, 5, 5, 7, 2, 1]

/-- the `if err == nil { … }` block after the userNotice Unmarshal -/
def noticeApply (un : Val) (acc0 : Pol) : Pol × Bool :=
  match un with
  | .vcons (.vcons (.raw _ _ _ org orgFull) (.vcons nums .vnil)) (.vcons (.raw _ _ _ txt _) .vnil) =>
    let a1 := if txt.length != 0 then { acc0 with explicitTexts := acc0.explicitTexts ++ [txt] } else acc0
    let a2 := if !orgFull.isEmpty || nums != .null then { a1 with noticeOrgs := a1.noticeOrgs ++ [org] } else a1
    ({ a2 with notices := a2.notices + 1 }, true)
  | _ => (acc0, false)

/-- `if qualifier.PolicyQualifierId.Equal(userNoticeOID) { … }`.  SITE parseCertificate/17 (strict-guard). -/
def qualNotice (perm : Bool) (qid : List Int) (qfull : Bytes) (acc0 : Pol) : Pol × Bool :=
  if qid = oidUserNotice then
    match un perm userNoticeSchema {} qfull with
    | .ok w => noticeApply w acc0
    | .err => if !perm then (acc0, false) else (acc0, true)
    | .panic => (acc0, false)
  else (acc0, true)

def cpsApply (raw : Val) (a : Pol) : Pol × Bool :=
  match raw with
  | .raw _ _ _ b _ => ({ a with cps := a.cps ++ [b] }, true)
  | _ => (a, false)

/-- `if qualifier.PolicyQualifierId.Equal(cpsURIOID) { … }`.  SITE parseCertificate/18 (strict-guard). -/
def qualCPS (perm : Bool) (qid : List Int) (qfull : Bytes) (a : Pol) : Pol × Bool :=
  if qid = oidCPS then
    match un perm .raw {} qfull with
    | .ok w => cpsApply w a
    | .err => if !perm then (a, false) else (a, true)
    | .panic => (a, false)
  else (a, true)

/-- `for _, qualifier := range policy.Qualifiers` body -/
def qualElem (perm : Bool) (q : Val) (acc : Pol) : Pol × Bool :=
  match q with
  | .vcons (.oid qid) (.vcons (.raw _ _ _ _ qfull) .vnil) =>
    (match qualNotice perm qid qfull { acc with qualifierIds := acc.qualifierIds ++ [.oid qid] } with
     | (a, false) => (a, false)
     | (a, true) => qualCPS perm qid qfull a)
  | _ => (acc, true)

/-- `for i, policy := range policies` body -/
def polElem (perm : Bool) (pv : Val) (acc : List Pol) : List Pol × Bool :=
  match pv with
  | .vcons pid (.vcons quals .vnil) =>
    (match chainLoop (qualElem perm) quals { id := pid } with
     | (p, true) => (acc ++ [p], true)
     | (_, false) => (acc, false))
  | _ => (acc, true)

/-- `extKeyUsageFromOID`'s `ok`: membership in the key set of `ekuConstants` (T1 table `ZV.Generated.C20.ekuKnownOIDs`,
    go/ast; the map is keyed by `oid.String()`, and two OIDs have the same dotted string iff they have the same arcs) -/
def ekuIsKnown (arcs : List Int) : Bool := ZV.Generated.C20.ekuKnownOIDs.contains arcs

/-- `for _, u := range keyUsage { if _, ok := extKeyUsageFromOID(u); ok { ExtKeyUsage = append(…) } else { UnknownExtKeyUsage = append(…, u) } }`;
    the known usages are kept as their number (the `ExtKeyUsage` enum value is a table lookup outside the model) -/
def ekuSplit : Val → Nat × List Val → Nat × List Val
  | .vcons (.oid a) rest, (n, u) => if ekuIsKnown a then ekuSplit rest (n + 1, u) else ekuSplit rest (n, u ++ [.oid a])
  | .vcons _ rest, acc => ekuSplit rest acc
  | _, acc => acc

def oidAIA : List Int := [1, 3, 6, 1, 5, 5, 7, 1, 1]
def oidSCT : List Int := [1, 3, 6, 1, 4, 1, 11129, 2, 4, 2]
def oidPoison : List Int := [1, 3, 6, 1, 4, 1, 11129, 2, 4, 3]
def oidTor : List Int := [2, 23, 140, 1, 31]
def oidCABF : List Int := [2, 23, 140, 3, 1]
def oidQC : List Int := [1, 3, 6, 1, 5, 5, 7, 1, 3]
def oidOCSP : List Int := [1, 3, 6, 1, 5, 5, 7, 48, 1]
def oidIssuers : List Int := [1, 3, 6, 1, 5, 5, 7, 48, 2]

def aiaElem (v : Val) (acc : List Bytes × List Bytes) : (List Bytes × List Bytes) × Bool :=
  match v with
  | .vcons (.oid m) (.vcons (.raw _ t _ b _) .vnil) =>
    if t != 6 then (acc, true)
    else if m = oidOCSP then ((acc.1 ++ [b], acc.2), true)
    else if m = oidIssuers then ((acc.1, acc.2 ++ [b]), true)
    else (acc, true)
  | _ => (acc, true)

/-- `x, err := Unmarshal(…); if err != nil { if AllowPermissiveParsing { continue }; return nil, err }; out = use x`
    (also written `if err != nil && Allow… { continue }; if err != nil { return }` and `if err != nil { if !Allow… { return }; continue }`
    in x509.go — the same decision). -/
def guardStep {α : Type} (perm : Bool) (r : Res α) (use : α → Res Cert) (out : Cert) : Res Cert :=
  match r with
  | .ok x => use x
  | .err => if perm then .ok out else .err
  | .panic => .panic

def optRes {α : Type} : Option α → Res α
  | some a => .ok a
  | none => .err

/-- the body of `for _, e := range in.TBSCertificate.Extensions` from the `if len(e.Id) == 4 && …` on.
    `.ok out'` = the loop goes on with `out'` (by `continue` or by reaching the end of the body; nothing follows the
    if-chain, the critical-extension check is commented out), `.err` = `return nil/out, err`.
    keyUsage (15) and basicConstraints (19) do not read the flag and write fields outside `Cert` (finding D31). -/
def extStep (sub : Sub) (perm : Bool) (e : Ext) (out : Cert) : Res Cert :=
  if e.id = [2, 5, 29, 17] then                         -- SITE parseCertificate/0
    let g := parseGeneralNames perm e.value
    let out1 := { out with san := { g.1 with failed := [] }, failedNames := g.1.failed }
    if !g.2 then (if perm then .ok out1 else .err) else .ok out1
  else if e.id = [2, 5, 29, 18] then                    -- SITE parseCertificate/1
    let g := parseGeneralNames perm e.value
    let out1 := { out with ian := { g.1 with failed := [] }, failedNames := g.1.failed }
    if !g.2 then (if perm then .ok out1 else .err) else .ok out1
  else if e.id = [2, 5, 29, 30] then                    -- SITE parseCertificate/2 (+ /3 … /10 in ncApply)
    guardStep perm (un perm ncSchema {} e.value) (fun c => ncApply perm e.critical c out) out
  else if e.id = [2, 5, 29, 31] then                    -- SITE parseCertificate/11 (+ /12 in dpLoop)
    guardStep perm (unCDP perm e.value) (fun c =>
      match chainLoop (dpElem perm) c out.crldp with
      | (l, true) => .ok { out with crldp := l }
      | (_, false) => .err) out
  else if e.id = [2, 5, 29, 35] then                    -- SITE parseCertificate/13
    guardStep perm (un perm akiSchema {} e.value) (fun a =>
      match a with
      | .vcons id .vnil => .ok { out with aki := id }
      | _ => .panic) out
  else if e.id = [2, 5, 29, 37] then                    -- SITE parseCertificate/14 (strict-guard form)
    guardStep perm (un perm ekuSchema {} e.value) (fun l =>
      let r := ekuSplit l (out.ekuKnown, out.ekuUnknown)
      .ok { out with ekuKnown := r.1, ekuUnknown := r.2 }) out
  else if e.id = [2, 5, 29, 14] then                    -- SITE parseCertificate/15
    guardStep perm (un perm .octets {} e.value) (fun k => .ok { out with ski := k }) out
  else if e.id = [2, 5, 29, 32] then                    -- SITE parseCertificate/16 (+ /17, /18 in qualElem)
    guardStep perm (un perm policiesSchema {} e.value) (fun ps =>
      match chainLoop (polElem perm) ps [] with
      | (l, true) => .ok { out with policies := some l }
      | (_, false) => .err) out
  else if e.id = oidAIA then                            -- SITE parseCertificate/19
    guardStep perm (un perm aiaSchema {} e.value) (fun l =>
      match chainLoop aiaElem l (out.ocsp, out.issuers) with
      | (r, _) => .ok { out with ocsp := r.1, issuers := r.2 }) out
  else if e.id = oidSCT then                            -- SITE parseCertificate/20
    let r := sub.sct perm e.value
    let out1 := { out with scts := out.scts + r.1 }
    if !r.2 then (if perm then .ok out1 else .err) else .ok out1
  else if e.id = oidPoison then                         -- SITE parseCertificate/21 (strict-guard)
    if e.value = [5, 0] then .ok { out with isPrecert := true }
    else if !perm then .err else .ok out
  else if e.id = oidTor then                            -- SITE parseCertificate/22
    guardStep perm (optRes (sub.tor perm e.value)) (fun n => .ok { out with tor := some n }) out
  else if e.id = oidCABF then                           -- SITE parseCertificate/23
    guardStep perm (un perm cabfSchema {} e.value) (fun c => .ok { out with cabf := some c }) out
  else if e.id = oidQC then                             -- SITES parseCertificate/24, /25
    guardStep perm (un perm qcSchema {} e.value) (fun _ =>
      guardStep perm (optRes (sub.qcParse perm e.value)) (fun _ => .ok { out with qc := true }) out) out
  else .ok out

/-- `case 15` (keyUsage) of the same loop, kept apart from `Cert`: the asn1 error of the extension body is
    swallowed in BOTH modes (`if err == nil { … continue }` and nothing else) — finding D31.  `ku` is `out.KeyUsage`
    as the decoded BIT STRING.  basicConstraints (`case 19`) and the self-signature test have the same shape. -/
def kuStep (perm : Bool) (value : Bytes) (ku : Val) : Val :=
  match un perm .bits {} value with
  | .ok b => b
  | .err => ku
  | .panic => ku

/-- the extension loop -/
def parseExts (sub : Sub) (perm : Bool) : List Ext → Cert → Res Cert
  | [], out => .ok out
  | e :: es, out =>
    match extStep sub perm e out with
    | .ok out' => parseExts sub perm es out'
    | .err => .err
    | .panic => .panic

/-- `parseCertificate` restricted to the fields of `Cert`: `parsePublicKey`, then the extension loop.
    (Everything between the two — names, validity, fingerprints, the self-signature test — does not read the flag
    directly; the byte-level asn1 dependence of `ParseCertificate` as a whole is `perm_extends`.) -/
def parseCertificate (ecOk : Nat → Bytes → Bool) (sub : Sub) (perm : Bool) (algo : Nat) (keyData paramsFull : Bytes)
    (exts : List Ext) : Res Cert :=
  match parsePublicKey ecOk perm algo keyData paramsFull with
  | .ok k => parseExts sub perm exts { key := some k }
  | .err => .err
  | .panic => .panic

end ZV.C20.X
