import ZV.Base
import ZV.Model.C27
import ZV.Generated.C27
/-!
  C27 — the certificate SELECTION logic and the client-certificate policy check, function by function:

    server: `Config.getCertificate`, `Config.BuildNameToCertificate` (tls/common.go);
    client: `signatureSchemesForCertificate`, `selectSignatureScheme` (tls/auth.go),
            `certificateRequestInfoFromMsg`, `Conn.getClientCertificate` (tls/handshake_client.go),
            `CertificateRequestInfo.SupportsCertificate` (tls/common.go);
    server: `Conn.processCertsFromClient` (tls/handshake_server.go) as a function of the ClientAuthType, of what the
            client sent and of the `VerifyPeerCertificate` callback.

  Tables and constants come from the tree (`ZV.Generated.C27`).  Abstract: byte strings that are only compared
  (DER issuer names) are identities (`Nat`), `ClientHelloInfo.SupportsCertificate` is a Boolean per certificate,
  whether a chain verifies (x509, C07/C09) is a Boolean.
-/
namespace ZV.C27

/-! ## server: which certificate is presented -/

/-- `Config.GetCertificate`: not set / returns (nil, nil) / returns a certificate / returns an error -/
inductive GetCertHook | absent | retNil | retCert | retErr
  deriving Repr, DecidableEq

inductive SelRes
  | hookCert            -- what `GetCertificate` returned
  | hookErr
  | noCerts             -- `errNoCertificates`
  | cert (i : Nat)      -- `Config.Certificates[i]` (also when reached through `NameToCertificate`)
  deriving Repr, DecidableEq

/-- `strings.ToLower` on ASCII -/
def lowerChar (c : Char) : Char := if 'A' ≤ c ∧ c ≤ 'Z' then Char.ofNat (c.toNat + 32) else c

def lowerName (s : List Char) : List Char := s.map lowerChar

/-- `labels := strings.Split(name, "."); labels[0] = "*"; strings.Join(labels, ".")` -/
def wildcardName (name : List Char) : List Char := '*' :: name.dropWhile (· != '.')

/-- a Go map from names to (indices of) certificates, as an association list with unique keys -/
abbrev NameMap := List (List Char × Nat)

def NameMap.lookup (m : NameMap) (k : List Char) : Option Nat :=
  match m with
  | [] => none
  | (k', v) :: rest => if k' = k then some v else NameMap.lookup rest k

/-- `m[k] = v` -/
def NameMap.insert (m : NameMap) (k : List Char) (v : Nat) : NameMap :=
  match m with
  | [] => [(k, v)]
  | (k', v') :: rest => if k' = k then (k, v) :: rest else (k', v') :: NameMap.insert rest k v

/-- index of the first `true` -/
def firstTrue : List Bool → Option Nat
  | [] => none
  | b :: rest => if b then some 0 else
    match firstTrue rest with
    | some i => some (i + 1)
    | none => none

/-- the static part of `getCertificate`: `ncerts = len(c.Certificates)`, `n2c = c.NameToCertificate` (`none` = nil map),
    `supports[i]` = `clientHello.SupportsCertificate(&c.Certificates[i]) == nil` -/
def selectStatic (ncerts : Nat) (n2c : Option NameMap) (supports : List Bool) (serverName : List Char) : SelRes :=
  if ncerts = 0 then .noCerts
  else if ncerts = 1 then .cert 0
  else
    let name := lowerName serverName
    let byName : Option Nat :=
      match n2c with
      | none => none
      | some m =>
        match m.lookup name with
        | some i => some i
        | none => if name.length > 0 then m.lookup (wildcardName name) else none
    match byName with
    | some i => .cert i
    | none =>
      match firstTrue supports with
      | some i => .cert i
      | none => .cert 0

/-- `Config.getCertificate` -/
def getCertificate (hook : GetCertHook) (ncerts : Nat) (n2c : Option NameMap) (supports : List Bool)
    (serverName : List Char) : SelRes :=
  if hook ≠ .absent ∧ (ncerts = 0 ∨ serverName.length > 0) then
    match hook with
    | .retCert => .hookCert
    | .retErr => .hookErr
    | _ => selectStatic ncerts n2c supports serverName
  else selectStatic ncerts n2c supports serverName

/-- a leaf as `BuildNameToCertificate` reads it -/
structure LeafNames where
  parses : Bool              -- `cert.leaf()` succeeds
  cn : List Char             -- Subject.CommonName
  sans : List (List Char)    -- DNSNames
  deriving Repr, DecidableEq

def insertAll (m : NameMap) (names : List (List Char)) (i : Nat) : NameMap :=
  match names with
  | [] => m
  | n :: rest => insertAll (m.insert n i) rest i

/-- the names one certificate contributes -/
def LeafNames.keys (l : LeafNames) : List (List Char) :=
  if !l.parses then []
  else (if l.cn ≠ [] ∧ l.sans.length = 0 then [l.cn] else []) ++ l.sans

/-- the loop of `BuildNameToCertificate` from index `i` on -/
def buildFrom (m : NameMap) (i : Nat) : List LeafNames → NameMap
  | [] => m
  | l :: rest => buildFrom (insertAll m l.keys i) (i + 1) rest

def buildNameToCertificate (certs : List LeafNames) : NameMap := buildFrom [] 0 certs

/-! ## client: which certificate answers a CertificateRequest -/

/-- `cert.PrivateKey`, as far as `signatureSchemesForCertificate` looks -/
inductive Key
  | rsa (sizeBytes : Nat)    -- `pub.Size()`
  | ecdsa (curve : Nat)      -- 256 / 384 / 521; anything else: a curve the switch does not list
  | ed25519
  | otherSigner              -- a crypto.Signer with another kind of public key
  | notSigner
  deriving Repr, DecidableEq

structure ClientCert where
  key : Key
  ssa : Option (List Nat)         -- `SupportedSignatureAlgorithms` (`none` = nil)
  issuers : List (Option Nat)     -- per chain element, leaf first: its RawIssuer, `none` = does not parse
  deriving Repr, DecidableEq

/-- `isSupportedSignatureAlgorithm` -/
def isSupported (s : Nat) (l : List Nat) : Bool := l.any (· == s)

def rsaSchemes (size version : Nat) : List (Nat × Nat × Nat) → List Nat
  | [] => []
  | (scheme, minBytes, maxVers) :: rest =>
    if size ≥ minBytes ∧ version ≤ maxVers then scheme :: rsaSchemes size version rest else rsaSchemes size version rest

/-- the switch of `signatureSchemesForCertificate` (`none`: the early `return nil`) -/
def keySchemes (version : Nat) (k : Key) : Option (List Nat) :=
  match k with
  | .notSigner => none
  | .otherSigner => none
  | .ed25519 => some [Gen.ed25519]
  | .rsa size => some (rsaSchemes size version Gen.rsaSignatureSchemes)
  | .ecdsa curve =>
    if version ≠ Gen.versionTLS13 then
      some [Gen.ecdsaWithP256AndSHA256, Gen.ecdsaWithP384AndSHA384, Gen.ecdsaWithP521AndSHA512, Gen.ecdsaWithSHA1]
    else if curve = 256 then some [Gen.ecdsaWithP256AndSHA256]
    else if curve = 384 then some [Gen.ecdsaWithP384AndSHA384]
    else if curve = 521 then some [Gen.ecdsaWithP521AndSHA512]
    else none

/-- `signatureSchemesForCertificate` -/
def signatureSchemesForCertificate (version : Nat) (c : ClientCert) : List Nat :=
  match keySchemes version c.key with
  | none => []
  | some algs =>
    match c.ssa with
    | some l => algs.filter (fun s => isSupported s l)
    | none => algs

/-- `selectSignatureScheme` (`none`: an error) -/
def selectSignatureScheme (vers : Nat) (c : ClientCert) (peerAlgs : List Nat) : Option Nat :=
  let supported := signatureSchemesForCertificate vers c
  if supported.length = 0 then none
  else
    let peer := if peerAlgs.length = 0 ∧ vers = Gen.versionTLS12 then [Gen.pkcs1WithSHA1, Gen.ecdsaWithSHA1] else peerAlgs
    peer.find? (fun s => isSupported s supported)

/-- the chain loop of `CertificateRequestInfo.SupportsCertificate` -/
def chainAcceptable (cas : List Nat) : List (Option Nat) → Bool
  | [] => false
  | none :: _ => false                      -- "failed to parse certificate #j in the chain"
  | some iss :: rest => if cas.any (· == iss) then true else chainAcceptable cas rest

/-- `CertificateRequestInfo.SupportsCertificate(c) == nil` -/
def criSupports (vers : Nat) (schemes : List Nat) (cas : List Nat) (c : ClientCert) : Bool :=
  match selectSignatureScheme vers c schemes with
  | none => false
  | some _ => if cas.length = 0 then true else chainAcceptable cas c.issuers

/-- `getClientCertificate` without a `GetClientCertificate` callback: index of the chain sent; `none` = `new(Certificate)`,
    an empty Certificate message -/
def getClientCertificate (vers : Nat) (schemes : List Nat) (cas : List Nat) : List ClientCert → Option Nat
  | [] => none
  | c :: rest =>
    if criSupports vers schemes cas c then some 0
    else match getClientCertificate vers schemes cas rest with
      | some i => some (i + 1)
      | none => none

/-- `typeAndHashFromSignatureScheme`, the signature type (`none`: unsupported) -/
def sigTypeOf (s : Nat) : List (Nat × Nat × Nat) → Option Nat
  | [] => none
  | (s', t, _) :: rest => if s' = s then some t else sigTypeOf s rest

/-- the filter loop of `certificateRequestInfoFromMsg` -/
def filterSchemes (rsaAvail ecAvail : Bool) : List Nat → List Nat
  | [] => []
  | s :: rest =>
    match sigTypeOf s Gen.sigTypeTable with
    | none => filterSchemes rsaAvail ecAvail rest
    | some t =>
      if t = Gen.signatureECDSA ∨ t = Gen.signatureEd25519 then
        (if ecAvail then s :: filterSchemes rsaAvail ecAvail rest else filterSchemes rsaAvail ecAvail rest)
      else if t = Gen.signatureRSAPSS ∨ t = Gen.signaturePKCS1v15 then
        (if rsaAvail then s :: filterSchemes rsaAvail ecAvail rest else filterSchemes rsaAvail ecAvail rest)
      else filterSchemes rsaAvail ecAvail rest

/-- `certificateRequestInfoFromMsg`: the SignatureSchemes of the CertificateRequestInfo -/
def criSchemes (certTypes : List Nat) (hasSigAlg : Bool) (sigAlgs : List Nat) : List Nat :=
  let rsaAvail := certTypes.any (· == Gen.certTypeRSASign)
  let ecAvail := certTypes.any (· == Gen.certTypeECDSASign)
  if !hasSigAlg then
    if rsaAvail && ecAvail then
      [Gen.ecdsaWithP256AndSHA256, Gen.ecdsaWithP384AndSHA384, Gen.ecdsaWithP521AndSHA512,
       Gen.pkcs1WithSHA256, Gen.pkcs1WithSHA384, Gen.pkcs1WithSHA512, Gen.pkcs1WithSHA1]
    else if rsaAvail then [Gen.pkcs1WithSHA256, Gen.pkcs1WithSHA384, Gen.pkcs1WithSHA512, Gen.pkcs1WithSHA1]
    else if ecAvail then [Gen.ecdsaWithP256AndSHA256, Gen.ecdsaWithP384AndSHA384, Gen.ecdsaWithP521AndSHA512]
    else []
  else filterSchemes rsaAvail ecAvail sigAlgs

/-! ## server: `processCertsFromClient` -/

/-- what the client's Certificate message holds, as the function reads it -/
structure Presented where
  count : Nat          -- len(certificate.Certificate)
  parses : Bool        -- every element parses
  verifies : Bool      -- `certs[0].Verify` with ClientCAs, the configured time and KeyUsages = [ExtKeyUsageClientAuth] succeeds
  keyKnown : Bool      -- the leaf's public key is RSA / ECDSA / Ed25519
  deriving Repr, DecidableEq

/-- the certificate kinds of the policy table (go/props/c27/selpki KindNames, then two two-element lists) and what x509
    says about them under ClientCAs = the issuing root, KeyUsages = [ExtKeyUsageClientAuth] (trusted mapping; the EKU
    rule itself is C07's `checkChainForKeyUsage`): 0 none, 1 valid, 2 untrusted root, 3 expired, 4 EKU serverAuth only,
    5 no EKU, 6 EKU any, 7 unparseable, 8 valid + a second parseable element, 9 valid + an unparseable element -/
def presentedOfKind (k : Nat) : Option Presented :=
  if k = 0 then some ⟨0, true, false, true⟩
  else if k = 1 ∨ k = 5 ∨ k = 6 then some ⟨1, true, true, true⟩
  else if k = 2 ∨ k = 3 ∨ k = 4 then some ⟨1, true, false, true⟩
  else if k = 7 then some ⟨1, false, false, true⟩
  else if k = 8 then some ⟨2, true, true, true⟩
  else if k = 9 then some ⟨2, false, true, true⟩
  else none

/-- outcome: the alert sent (`none` = returns nil), len(c.peerCertificates), whether c.verifiedChains is set, whether
    `VerifyPeerCertificate` was invoked -/
structure PolicyRes where
  alert : Option Nat
  peers : Nat
  chains : Bool
  vpcRan : Bool
  deriving Repr, DecidableEq

/-- `requiresClientCert` on the numeric ClientAuthType -/
def requiresClientCertN (m : Nat) : Bool := m = Gen.requireAnyClientCert ∨ m = Gen.requireAndVerifyClientCert

/-- `processCertsFromClient` for `c.config.ClientAuth = m` (any integer value) -/
def processCerts (m : Nat) (p : Presented) (vpc : Hook) : PolicyRes :=
  if p.count > 0 ∧ !p.parses then ⟨some Gen.alertBadCertificate, 0, false, false⟩
  else if p.count = 0 ∧ requiresClientCertN m then ⟨some Gen.alertBadCertificate, 0, false, false⟩
  else
    let verifying := decide (m ≥ Gen.verifyClientCertIfGiven) && decide (p.count > 0)
    if verifying && !p.verifies then ⟨some Gen.alertBadCertificate, 0, false, false⟩
    else if p.count > 0 ∧ !p.keyKnown then ⟨some Gen.alertUnsupportedCertificate, p.count, verifying, false⟩
    else if vpc = .reject then ⟨some Gen.alertBadCertificate, p.count, verifying, true⟩
    else ⟨none, p.count, verifying, vpc.installed⟩

end ZV.C27
