import ZV.Model.TlsWire
/-!
  C30 — grammars of the TLS handshake messages (tls/handshake_messages.go) and of the two session-state
  encodings (tls/ticket.go), written with the combinators of `ZV.Wire`, one format per Go marshal/unmarshal
  pair.  The messages with an extension block (hellos, TLS 1.3 messages, `Certificate` entries) have two
  layers: the wire layer (a list of `(type, data)` entries — a combinator format) and the semantic layer
  (`…Exts` builds the entries the marshaller writes; `…Apply` is the `switch extension` of the parser).

  The model describes the tree WITH the fixes D20 (extended random), D21 (unknown server extensions) and
  the `newSessionTicketMsg.lifetimeHint` fix.
-/
namespace ZV.C30
open ZV.TlsWire

def nonEmpty (b : Bytes) : Bool := !b.isEmpty
def nonEmptyL {α} (l : List α) : Bool := !l.isEmpty

/-- nothing on the wire; the decoder yields the default (`hasSignatureAlgorithm = false`). -/
def nothing {α} (d : α) : Fmt α where
  ser _ := some []
  par s := some (d, s)

/-- `len(data) == 0` -/
def emptyM : MFmt Unit where
  ser _ := some []
  par s := if s.isEmpty then some () else none

/-- the three body-less messages: `[typ,0,0,0]`, decoder checks `len(data) == 4` only. -/
def fixed4 (typ : Nat) : MFmt Unit where
  ser _ := some [UInt8.ofNat typ, 0, 0, 0]
  par s := if s.length = 4 then some () else none

/-! ### simple messages -/

/-- finishedMsg: `Skip(1)`, uint24-prefixed verify data, `Empty()` -/
def finished : MFmt (Unit × Bytes) := complete (pair (skipC [20]) (opq 3))

/-- certificateMsg (hand-rolled): header skipped, uint24 list length that must cover the buffer exactly,
    entries need `len(d) >= 4` before they are read -/
def certificate : MFmt (List Bytes) := hdrSkipT 11 (complete (lp 3 (many (minLen 4 (opq 3)))))

def serverHelloDone : MFmt Unit := fixed4 14
def helloRequest : MFmt Unit := fixed4 0
def endOfEarlyData : MFmt Unit := fixed4 5

def clientKeyExchange : MFmt Bytes := hdrChecked 16 restB
/-- serverKeyExchangeMsg.unmarshal keeps `data[4:]` whatever the header says -/
def serverKeyExchange : MFmt Bytes := hdrSkipT 12 restB

def certificateStatus : MFmt (Unit × Bytes) := hdrSkip 22 (complete (pair (constC [1]) (guard nonEmpty (opq 3))))

/-- (lifetimeHint, ticket) -/
def newSessionTicket : MFmt (Nat × Bytes) := hdrChecked 4 (complete (pair (uN 4) (opq 2)))

/-- (certificateTypes, (supportedSignatureAlgorithms, certificateAuthorities)); `hasSig` is an input of the parser -/
def certificateRequest (hasSig : Bool) : MFmt (Bytes × List Nat × List Bytes) :=
  hdrChecked 13 (complete (pair (guard nonEmpty (opq 1))
    (pair (if hasSig then lp 2 (many (uN 2)) else nothing []) (lp 2 (many (opq 2))))))

/-- (signatureAlgorithm, signature) -/
def certificateVerify (hasSig : Bool) : MFmt (Nat × Bytes) :=
  hdrSkip 15 (complete (pair (if hasSig then uN 2 else nothing 0) (opq 2)))

/-- (vers, cipherSuite, createdAt, masterSecret, certificates) -/
def sessionState : MFmt (Nat × Nat × Nat × Bytes × List Bytes) :=
  complete (pair (uN 2) (pair (uN 2) (pair (uN 8) (pair (guard nonEmpty (opq 2)) (lp 3 (many (opq 3)))))))

def keyUpdate : MFmt Nat := hdrSkip 24 (complete (guard (fun n => n == 0 || n == 1) (uN 1)))

/-! ### extension blocks -/

abbrev Ext := Nat × Bytes

def extEntry : Fmt Ext := pair (uN 2) (opq 2)
def extList : MFmt (List Ext) := many extEntry
def extBlock : Fmt (List Ext) := lp 2 extList

/-- fold of the parser's `switch` over the entries; `isLast` is `extensions.Empty()` after the entry -/
def applyExts {σ} (f : Ext → Bool → σ → Option σ) : List Ext → σ → Option σ
  | [], m => some m
  | e :: l, m =>
    match f e l.isEmpty m with
    | none => none
    | some m' => applyExts f l m'

def listU16 : MFmt (List Nat) := complete (lp 2 (mguard nonEmptyL (many (uN 2))))
def alpnList : MFmt (List Bytes) := complete (lp 2 (mguard nonEmptyL (many (guard nonEmpty (opq 1)))))
def sctListF : MFmt (List Bytes) := complete (lp 2 (mguard nonEmptyL (many (guard nonEmpty (opq 2)))))
/-- a single protocol name: list with exactly one entry (`!protoList.Empty()` after the first → false) -/
def alpnOne : MFmt Bytes := complete (lp 2 (complete (guard nonEmpty (opq 1))))

def opt (c : Bool) (t : Nat) (d : Option Bytes) : Option (List Ext) :=
  if c then (match d with | some b => some [(t, b)] | none => none) else some []

def catOpts : List (Option (List Ext)) → Option (List Ext)
  | [] => some []
  | none :: _ => none
  | some a :: l => match catOpts l with | none => none | some r => some (a ++ r)

/-! ### TLS 1.3 certificate entries (marshalCertificate / unmarshalCertificate) -/

structure Cert where
  certs : List Bytes
  ocsp : Option Bytes          -- nil vs. non-nil matters to the encoder
  scts : Option (List Bytes)
  deriving DecidableEq, Repr

def ocspExt : MFmt (Unit × Bytes) := complete (pair (constC [1]) (guard nonEmpty (opq 3)))

def certEntries : Fmt (List (Bytes × List Ext)) := lp 3 (many (pair (opq 3) extBlock))

def certLeafExts (c : Cert) : Option (List Ext) :=
  catOpts [opt c.ocsp.isSome 5 (match c.ocsp with | some o => ocspExt.ser ((), o) | none => none),
           opt c.scts.isSome 18 (match c.scts with | some l => sctListF.ser l | none => none)]

def certToEntries (c : Cert) : Option (List (Bytes × List Ext)) :=
  match c.certs with
  | [] => some []
  | leaf :: rest =>
    match certLeafExts c with
    | none => none
    | some ex => some ((leaf, ex) :: rest.map (fun x => (x, [])))

def certApply (e : Ext) (_ : Bool) (c : Cert) : Option Cert :=
  if e.1 = 5 then
    match ocspExt.par e.2 with
    | none => none
    | some (_, o) => some { c with ocsp := some o }
  else if e.1 = 18 then
    match sctListF.par e.2 with
    | none => none
    | some l => some { c with scts := some ((c.scts.getD []) ++ l) }
  else some c

def certFromEntries : List (Bytes × List Ext) → Option Cert
  | [] => some ⟨[], none, none⟩
  | (leaf, ex) :: rest =>
    match applyExts certApply ex ⟨[], none, none⟩ with
    | none => none
    | some c => some { c with certs := leaf :: rest.map (·.1) }

def certF : Fmt Cert where
  ser c := match certToEntries c with | none => none | some es => certEntries.ser es
  par s :=
    match certEntries.par s with
    | none => none
    | some (es, r) => match certFromEntries es with | none => none | some c => some (c, r)

/-- (cipherSuite, createdAt, resumptionSecret, certificate) -/
def sessionStateTLS13 : MFmt (Unit × Unit × Nat × Nat × Bytes × Cert) :=
  complete (pair (constC [3, 4]) (pair (constC [0]) (pair (uN 2) (pair (uN 8) (pair (guard nonEmpty (opq 1)) certF)))))

/-- certificateMsgTLS13: value (certificate, ocspStapling, scts); the encoder strips what the flags switch off,
    the decoder derives the flags from what is present -/
def certificateTLS13 : MFmt (Cert × Bool × Bool) where
  ser x :=
    let c : Cert := { certs := x.1.certs, ocsp := if x.2.1 then x.1.ocsp else none, scts := if x.2.2 then x.1.scts else none }
    (hdrSkip 11 (complete (pair (constC [0]) certF))).ser ((), c)
  par s :=
    match (hdrSkip 11 (complete (pair (constC [0]) certF))).par s with
    | none => none
    | some (_, c) => some (c, c.ocsp.isSome, c.scts.isSome)

/-! ### encryptedExtensions, newSessionTicketTLS13, certificateRequestTLS13 -/

def encryptedExtensions : MFmt Bytes where
  ser alpn :=
    match opt (nonEmpty alpn) 16 (alpnOne.ser alpn) with
    | none => none
    | some es => (hdrSkip 8 (complete extBlock)).ser es
  par s :=
    match (hdrSkip 8 (complete extBlock)).par s with
    | none => none
    | some es =>
      applyExts (fun e _ (m : Bytes) =>
        if e.1 = 16 then alpnOne.par e.2 else some m) es []

/-- (lifetime, ageAdd, nonce, label, maxEarlyData) -/
def newSessionTicketTLS13 : MFmt (Nat × Nat × Bytes × Bytes × Nat) where
  ser x :=
    match opt (decide (0 < x.2.2.2.2)) 42 ((complete (uN 4)).ser x.2.2.2.2) with
    | none => none
    | some es => (hdrSkip 4 (complete (pair (uN 4) (pair (uN 4) (pair (opq 1) (pair (opq 2) extBlock)))))).ser
        (x.1, x.2.1, x.2.2.1, x.2.2.2.1, es)
  par s :=
    match (hdrSkip 4 (complete (pair (uN 4) (pair (uN 4) (pair (opq 1) (pair (opq 2) extBlock)))))).par s with
    | none => none
    | some (lt, age, nonce, label, es) =>
      match applyExts (fun e _ (m : Nat) => if e.1 = 42 then (complete (uN 4)).par e.2 else some m) es 0 with
      | none => none
      | some med => some (lt, age, nonce, label, med)

structure CertReq13 where
  ocspStapling : Bool
  scts : Bool
  sigAlgs : List Nat
  sigAlgsCert : List Nat
  cas : List Bytes
  deriving DecidableEq, Repr

def caList : MFmt (List Bytes) := complete (lp 2 (mguard nonEmptyL (many (guard nonEmpty (opq 2)))))

def certReq13Exts (m : CertReq13) : Option (List Ext) :=
  catOpts [opt m.ocspStapling 5 (some []), opt m.scts 18 (some []),
           opt (nonEmptyL m.sigAlgs) 13 (listU16.ser m.sigAlgs), opt (nonEmptyL m.sigAlgsCert) 50 (listU16.ser m.sigAlgsCert),
           opt (nonEmptyL m.cas) 47 (caList.ser m.cas)]

def certReq13Apply (e : Ext) (_ : Bool) (m : CertReq13) : Option CertReq13 :=
  if e.1 = 5 then (if e.2.isEmpty then some { m with ocspStapling := true } else none)
  else if e.1 = 18 then (if e.2.isEmpty then some { m with scts := true } else none)
  else if e.1 = 13 then (match listU16.par e.2 with | none => none | some l => some { m with sigAlgs := m.sigAlgs ++ l })
  else if e.1 = 50 then (match listU16.par e.2 with | none => none | some l => some { m with sigAlgsCert := m.sigAlgsCert ++ l })
  else if e.1 = 47 then (match caList.par e.2 with | none => none | some l => some { m with cas := m.cas ++ l })
  else some m

def certificateRequestTLS13 : MFmt CertReq13 where
  ser m :=
    match certReq13Exts m with
    | none => none
    | some es => (hdrSkip 13 (complete (pair (constC [0]) extBlock))).ser ((), es)
  par s :=
    match (hdrSkip 13 (complete (pair (constC [0]) extBlock))).par s with
    | none => none
    | some (_, es) => applyExts certReq13Apply es ⟨false, false, [], [], []⟩

/-! ### serverHelloMsg -/

structure ServerHello where
  vers : Nat
  random : Bytes
  sessionId : Bytes
  cipherSuite : Nat
  compressionMethod : Nat
  ocspStapling : Bool
  ticketSupported : Bool
  secureRenegotiationSupported : Bool
  secureRenegotiation : Bytes
  extendedMasterSecret : Bool
  alpnProtocol : Bytes
  scts : List Bytes
  supportedVersion : Nat
  serverShareGroup : Nat
  serverShareData : Bytes
  selectedIdentityPresent : Bool
  selectedIdentity : Nat
  supportedPoints : Bytes
  cookie : Bytes
  selectedGroup : Nat
  unknownExtensions : List Bytes
  deriving DecidableEq, Repr

def ServerHello.empty : ServerHello :=
  ⟨0, [], [], 0, 0, false, false, false, [], false, [], [], 0, 0, [], false, 0, [], [], 0, []⟩

def shFixed : Fmt (Nat × Bytes × Bytes × Nat × Nat) :=
  pair (uN 2) (pair (bytesN 32) (pair (opq 1) (pair (uN 2) (uN 1))))

def shExts (m : ServerHello) : Option (List Ext) :=
  catOpts [opt m.ocspStapling 5 (some []), opt m.ticketSupported 35 (some []),
           opt m.secureRenegotiationSupported 0xff01 ((complete (opq 1)).ser m.secureRenegotiation),
           opt (nonEmpty m.alpnProtocol) 16 (alpnOne.ser m.alpnProtocol),
           opt (nonEmptyL m.scts) 18 (sctListF.ser m.scts),
           opt (m.supportedVersion != 0) 43 ((complete (uN 2)).ser m.supportedVersion),
           opt (m.serverShareGroup != 0) 51 ((complete (pair (uN 2) (opq 2))).ser (m.serverShareGroup, m.serverShareData)),
           opt m.selectedIdentityPresent 41 ((complete (uN 2)).ser m.selectedIdentity),
           opt (nonEmpty m.cookie) 44 ((complete (opq 2)).ser m.cookie),
           opt (m.selectedGroup != 0) 51 ((complete (uN 2)).ser m.selectedGroup),
           opt (nonEmpty m.supportedPoints) 11 ((complete (opq 1)).ser m.supportedPoints),
           opt m.extendedMasterSecret 23 (some [])]

def shApply (e : Ext) (_ : Bool) (m : ServerHello) : Option ServerHello :=
  let t := e.1
  let d := e.2
  if t = 5 then (if d.isEmpty then some { m with ocspStapling := true } else none)
  else if t = 35 then (if d.isEmpty then some { m with ticketSupported := true } else none)
  else if t = 0xff01 then
    (match (complete (opq 1)).par d with
     | none => none
     | some b => some { m with secureRenegotiation := b, secureRenegotiationSupported := true })
  else if t = 16 then (match alpnOne.par d with | none => none | some b => some { m with alpnProtocol := b })
  else if t = 18 then (match sctListF.par d with | none => none | some l => some { m with scts := m.scts ++ l })
  else if t = 43 then (match (complete (uN 2)).par d with | none => none | some v => some { m with supportedVersion := v })
  else if t = 44 then (match (complete (guard nonEmpty (opq 2))).par d with | none => none | some b => some { m with cookie := b })
  else if t = 51 then
    (if d.length = 2 then
       (match (complete (uN 2)).par d with | none => none | some g => some { m with selectedGroup := g })
     else
       (match (complete (pair (uN 2) (opq 2))).par d with
        | none => none
        | some (g, b) => some { m with serverShareGroup := g, serverShareData := b }))
  else if t = 41 then
    (match (complete (uN 2)).par d with
     | none => none
     | some v => some { m with selectedIdentityPresent := true, selectedIdentity := v })
  else if t = 11 then
    (match (complete (guard nonEmpty (opq 1))).par d with | none => none | some b => some { m with supportedPoints := b })
  else if t = 23 then (if d.isEmpty then some { m with extendedMasterSecret := true } else none)
  else some { m with unknownExtensions := m.unknownExtensions ++ [natBE 2 t ++ natBE 2 d.length ++ d] }

def shWire : MFmt ((Nat × Bytes × Bytes × Nat × Nat) × Option (List Ext)) :=
  hdrSkip 2 (optTail shFixed (complete extBlock))

/-- `unknownExtensions` are appended verbatim to the extension region by the marshaller -/
def serverHello : MFmt ServerHello where
  ser m :=
    match shExts m with
    | none => none
    | some es =>
      match extList.ser es, shFixed.ser (m.vers, m.random, m.sessionId, m.cipherSuite, m.compressionMethod) with
      | some eb, some p =>
        let region := eb ++ m.unknownExtensions.flatten
        if region.isEmpty then (hdrSkip 2 restB).ser p
        else if region.length < 256 ^ 2 then (hdrSkip 2 restB).ser (p ++ natBE 2 region.length ++ region)
        else none
      | _, _ => none
  par s :=
    match shWire.par s with
    | none => none
    | some ((v, r, sid, cs, cm), tail) =>
      applyExts shApply (tail.getD [])
        { ServerHello.empty with vers := v, random := r, sessionId := sid, cipherSuite := cs, compressionMethod := cm }

/-! ### clientHelloMsg -/

structure ClientHello where
  vers : Nat
  random : Bytes
  sessionId : Bytes
  cipherSuites : List Nat
  compressionMethods : Bytes
  serverName : Bytes
  ocspStapling : Bool
  supportedCurves : List Nat
  supportedPoints : Bytes
  ticketSupported : Bool
  sessionTicket : Bytes
  sigAlgs : List Nat
  sigAlgsCert : List Nat
  secureRenegotiationSupported : Bool
  secureRenegotiation : Bytes
  extendedRandomEnabled : Bool
  extendedRandom : Bytes
  extendedMasterSecret : Bool
  alpnProtocols : List Bytes
  scts : Bool
  supportedVersions : List Nat
  cookie : Bytes
  keyShares : List (Nat × Bytes)
  earlyData : Bool
  pskModes : Bytes
  pskIdentities : List (Bytes × Nat)
  pskBinders : List Bytes
  deriving DecidableEq, Repr

def ClientHello.empty : ClientHello :=
  ⟨0, [], [], [], [], [], false, [], [], false, [], [], [], false, [], false, [], false, [], false, [], [], [], false, [], [], []⟩

def chFixed : Fmt (Nat × Bytes × Bytes × List Nat × Bytes) :=
  pair (uN 2) (pair (bytesN 32) (pair (opq 1) (pair (lp 2 (many (uN 2))) (opq 1))))

def sniF : MFmt (List (Nat × Bytes)) := complete (lp 2 (mguard nonEmptyL (many (pair (uN 1) (guard nonEmpty (opq 2))))))
def statusReqF : MFmt (Nat × Bytes × Bytes) := complete (pair (uN 1) (pair (opq 2) (opq 2)))
def versListF : MFmt (List Nat) := complete (lp 1 (mguard nonEmptyL (many (uN 2))))
def keySharesF : MFmt (List (Nat × Bytes)) := complete (lp 2 (many (pair (uN 2) (guard nonEmpty (opq 2)))))
def pskF : MFmt (List (Bytes × Nat) × List Bytes) :=
  complete (pair (lp 2 (mguard nonEmptyL (many (pair (guard nonEmpty (opq 2)) (uN 4)))))
                 (lp 2 (mguard nonEmptyL (many (guard nonEmpty (opq 1))))))

def chExts (m : ClientHello) : Option (List Ext) :=
  catOpts [opt (nonEmpty m.serverName) 0 (sniF.ser [(0, m.serverName)]),
           opt m.ocspStapling 5 (statusReqF.ser (1, [], [])),
           opt (nonEmptyL m.supportedCurves) 10 (listU16.ser m.supportedCurves),
           opt (nonEmpty m.supportedPoints) 11 ((complete (opq 1)).ser m.supportedPoints),
           opt m.ticketSupported 35 (some m.sessionTicket),
           opt (nonEmptyL m.sigAlgs) 13 (listU16.ser m.sigAlgs),
           opt (nonEmptyL m.sigAlgsCert) 50 (listU16.ser m.sigAlgsCert),
           opt m.secureRenegotiationSupported 0xff01 ((complete (opq 1)).ser m.secureRenegotiation),
           opt (nonEmptyL m.alpnProtocols) 16 (alpnList.ser m.alpnProtocols),
           opt m.extendedRandomEnabled 0x28 ((complete (opq 2)).ser m.extendedRandom),
           opt m.extendedMasterSecret 23 (some []),
           opt m.scts 18 (some []),
           opt (nonEmptyL m.supportedVersions) 43 (versListF.ser m.supportedVersions),
           opt (nonEmpty m.cookie) 44 ((complete (opq 2)).ser m.cookie),
           opt (nonEmptyL m.keyShares) 51 (keySharesF.ser m.keyShares),
           opt m.earlyData 42 (some []),
           opt (nonEmpty m.pskModes) 45 ((complete (opq 1)).ser m.pskModes),
           opt (nonEmptyL m.pskIdentities) 41 (pskF.ser (m.pskIdentities, m.pskBinders))]

/-- the `for !nameList.Empty()` loop of the server_name arm -/
def sniFold : List (Nat × Bytes) → Bytes → Option Bytes
  | [], cur => some cur
  | (ty, name) :: l, cur =>
    if ty ≠ 0 then sniFold l cur
    else if !cur.isEmpty then none
    else if name.getLast? = some 46 then none
    else sniFold l name

def chApply (e : Ext) (isLast : Bool) (m : ClientHello) : Option ClientHello :=
  let t := e.1
  let d := e.2
  if t = 0 then
    (match sniF.par d with
     | none => none
     | some names => match sniFold names m.serverName with | none => none | some n => some { m with serverName := n })
  else if t = 5 then
    (match statusReqF.par d with | none => none | some (ty, _, _) => some { m with ocspStapling := ty == 1 })
  else if t = 10 then (match listU16.par d with | none => none | some l => some { m with supportedCurves := m.supportedCurves ++ l })
  else if t = 11 then
    (match (complete (guard nonEmpty (opq 1))).par d with | none => none | some b => some { m with supportedPoints := b })
  else if t = 35 then some { m with ticketSupported := true, sessionTicket := d }
  else if t = 13 then (match listU16.par d with | none => none | some l => some { m with sigAlgs := m.sigAlgs ++ l })
  else if t = 50 then (match listU16.par d with | none => none | some l => some { m with sigAlgsCert := m.sigAlgsCert ++ l })
  else if t = 0xff01 then
    (match (complete (opq 1)).par d with
     | none => none
     | some b => some { m with secureRenegotiation := b, secureRenegotiationSupported := true })
  else if t = 16 then (match alpnList.par d with | none => none | some l => some { m with alpnProtocols := m.alpnProtocols ++ l })
  else if t = 18 then (if d.isEmpty then some { m with scts := true } else none)
  else if t = 43 then (match versListF.par d with | none => none | some l => some { m with supportedVersions := m.supportedVersions ++ l })
  else if t = 44 then
    (match (complete (guard nonEmpty (opq 2))).par d with | none => none | some b => some { m with cookie := b })
  else if t = 51 then (match keySharesF.par d with | none => none | some l => some { m with keyShares := m.keyShares ++ l })
  else if t = 42 then (if d.isEmpty then some { m with earlyData := true } else none)
  else if t = 45 then (match (complete (opq 1)).par d with | none => none | some b => some { m with pskModes := b })
  else if t = 41 then
    (if !isLast then none
     else match pskF.par d with
       | none => none
       | some (ids, binders) => some { m with pskIdentities := m.pskIdentities ++ ids, pskBinders := m.pskBinders ++ binders })
  else if t = 0x28 then
    (match (complete (guard nonEmpty (opq 2))).par d with
     | none => none
     | some b => some { m with extendedRandomEnabled := true, extendedRandom := b })
  else if t = 23 then (if d.isEmpty then some { m with extendedMasterSecret := true } else none)
  else some m

def chWire : MFmt ((Nat × Bytes × Bytes × List Nat × Bytes) × Option (List Ext)) :=
  hdrSkip 1 (optTail chFixed (complete extBlock))

def clientHello : MFmt ClientHello where
  ser m :=
    match chExts m with
    | none => none
    | some es =>
      chWire.ser ((m.vers, m.random, m.sessionId, m.cipherSuites, m.compressionMethods), if es.isEmpty then none else some es)
  par s :=
    match chWire.par s with
    | none => none
    | some ((v, r, sid, cs, cm), tail) =>
      applyExts chApply (tail.getD [])
        { ClientHello.empty with vers := v, random := r, sessionId := sid, cipherSuites := cs, compressionMethods := cm,
                                 secureRenegotiationSupported := cs.contains 0x00ff }


/-! ### decidable form of the round-trip domains (printed by the driver next to every `rt` answer and compared with
    the harness' `valid`, so the domain the T3 oracle uses is the one the theorems are stated for) -/

def validCertB (c : Cert) : Bool :=
  (!c.certs.isEmpty || (c.ocsp.isNone && c.scts.isNone)) &&
  (match c.ocsp with | none => true | some o => nonEmpty o) &&
  (match c.scts with | none => true | some l => nonEmptyL l && l.all nonEmpty)

def knownSHB (t : Nat) : Bool :=
  t == 5 || t == 35 || t == 0xff01 || t == 16 || t == 18 || t == 43 || t == 44 || t == 51 || t == 41 || t == 11 || t == 23

def validSHB (m : ServerHello) : Bool :=
  (m.secureRenegotiationSupported || m.secureRenegotiation.isEmpty) && m.scts.all nonEmpty &&
  (m.serverShareGroup != 0 || m.serverShareData.isEmpty) && (m.selectedIdentityPresent || m.selectedIdentity == 0) &&
  m.unknownExtensions.all (fun b => match (complete extEntry).par b with | some e => !knownSHB e.1 | none => false)

def validCHB (m : ClientHello) : Bool :=
  (!m.cipherSuites.contains 255 || m.secureRenegotiationSupported) &&
  (m.secureRenegotiationSupported || m.secureRenegotiation.isEmpty) &&
  (m.serverName.getLast? != some 46) &&
  (m.ticketSupported || m.sessionTicket.isEmpty) &&
  (m.extendedRandomEnabled == nonEmpty m.extendedRandom) &&
  m.alpnProtocols.all nonEmpty && m.keyShares.all (fun k => nonEmpty k.2) &&
  (if m.pskIdentities.isEmpty then m.pskBinders.isEmpty
   else m.pskIdentities.all (fun i => nonEmpty i.1) && nonEmptyL m.pskBinders && m.pskBinders.all nonEmpty)

end ZV.C30
