import ZV.Base
/-!
  Executable model of `encoding/asn1` (zcrypto fork): `Marshal` (`marshal.go: makeField / makeBody`),
  `Unmarshal` (`asn1.go: parseField / parseSequenceOf / parseTagAndLength` and the primitive parsers) and
  `common.go: parseFieldParameters / getUniversalType`.

  The Go code is an interpreter over `reflect.Type`; the model is a DEEP embedding: `Schema` is the term the
  harness derives from a real Go type by reflection, `Val` the Go value, `Params` is `fieldParameters`.
  Byte offsets `(bytes, offset)` of the Go code are modelled by the remaining suffix `bytes[offset:]`
  (the observable `rest` of `Unmarshal`); `offset == len(bytes)` is `bs = []`.

  `perm` is the process-global `AllowPermissiveParsing`.  Every use of that flag in `asn1.go` appears here in the
  shape `if !perm && <strict-only rejection> then err else …` (see `permSites`).

  Not modelled (T3 only in the harness): `time.Time`, `interface{}` (ANY), `RawContent`, int8/int16.
-/
namespace ZV.C18

/-! ## field parameters (`common.go`) -/

structure Params where
  optional : Bool := false
  explicit : Bool := false
  application : Bool := false
  priv : Bool := false
  defaultValue : Option Int := none
  tag : Option Nat := none
  stringType : Nat := 0
  timeType : Nat := 0
  set : Bool := false
  omitEmpty : Bool := false
  deriving DecidableEq, Repr, Inhabited

/-- one comma-separated part of the tag string (`parseFieldParameters` loop body). -/
def applyPart (ret : Params) (part : String) : Params :=
  if part == "optional" then { ret with optional := true }
  else if part == "explicit" then { ret with explicit := true, tag := (match ret.tag with | none => some 0 | some t => some t) }
  else if part == "generalized" then { ret with timeType := 24 }
  else if part == "utc" then { ret with timeType := 23 }
  else if part == "ia5" then { ret with stringType := 22 }
  else if part == "printable" then { ret with stringType := 19 }
  else if part == "numeric" then { ret with stringType := 18 }
  else if part == "utf8" then { ret with stringType := 12 }
  else if part.startsWith "default:" then
    match parseInt (part.drop 8).toString with
    | some i => { ret with defaultValue := some i }
    | none => ret
  else if part.startsWith "tag:" then
    match (part.drop 4).toString.toNat? with
    | some i => { ret with tag := some i }
    | none => ret
  else if part == "set" then { ret with set := true }
  else if part == "application" then { ret with application := true, tag := (match ret.tag with | none => some 0 | some t => some t) }
  else if part == "private" then { ret with priv := true, tag := (match ret.tag with | none => some 0 | some t => some t) }
  else if part == "omitempty" then { ret with omitEmpty := true }
  else ret

/-- `parseFieldParameters` -/
def parseFieldParameters (str : String) : Params :=
  if str.isEmpty then {} else (str.splitOn ",").foldl applyPart {}

/-! ## schema (Go type) and values -/

/-- The Go type.  `fnil`/`fcons` encode the field list of a struct inside the same inductive. -/
inductive Schema where
  | int64 | int32 | enum | bigint | bool | oid | bits | octets | str | raw | flag
  | struct (fields : Schema)
  | seqOf (setName : Bool) (elem : Schema)     -- `[]T`; `setName`: the slice type's name ends in "SET"
  | fnil
  | fcons (p : Params) (s : Schema) (rest : Schema)
  deriving Repr, Inhabited

inductive Val where
  | int (i : Int)                 -- int, int32, int64, Enumerated, non-nil *big.Int
  | bool (b : Bool)               -- bool, Flag
  | bytes (bs : Bytes)            -- non-nil []byte; string
  | null                          -- nil slice, nil *big.Int, nil ObjectIdentifier
  | oid (arcs : List Int)
  | bits (bs : Bytes) (bitLen : Int)
  | raw (cls tag : Nat) (compound : Bool) (bs full : Bytes)
  | vnil
  | vcons (v : Val) (rest : Val)  -- struct fields in order / slice elements in order
  deriving Repr, Inhabited, DecidableEq

structure TL where
  cls : Nat
  tag : Nat
  len : Nat
  compound : Bool
  deriving DecidableEq, Repr, Inhabited

/-- `getUniversalType`: (matchAny, tag, isCompound); `none` = `ok == false`. -/
def univ : Schema → Option (Bool × Nat × Bool)
  | .raw => some (true, 0, false)
  | .oid => some (false, 6, false)
  | .bits => some (false, 3, false)
  | .enum => some (false, 10, false)
  | .bigint => some (false, 2, false)
  | .bool => some (false, 1, false)
  | .flag => some (false, 1, false)
  | .int64 => some (false, 2, false)
  | .int32 => some (false, 2, false)
  | .struct _ => some (false, 16, true)
  | .octets => some (false, 4, false)
  | .seqOf setName _ => some (false, if setName then 17 else 16, true)
  | .str => some (false, 19, false)
  | .fnil => none
  | .fcons _ _ _ => none

def isRaw : Schema → Bool | .raw => true | _ => false
def isFlag : Schema → Bool | .flag => true | _ => false
/-- `canHaveDefaultValue(v.Kind())` -/
def isIntKind : Schema → Bool | .int64 => true | .int32 => true | .enum => true | _ => false
/-- `v.Kind() == reflect.Slice` -/
def isSliceKind : Schema → Bool | .octets => true | .oid => true | .seqOf _ _ => true | _ => false

/-- the Go zero value of the type -/
def zeroVal : Schema → Val
  | .int64 => .int 0 | .int32 => .int 0 | .enum => .int 0
  | .bigint => .null | .bool => .bool false | .flag => .bool false
  | .oid => .null | .bits => .bits [] 0 | .octets => .null | .str => .bytes []
  | .raw => .raw 0 0 false [] []
  | .struct fs => zeroVal fs
  | .seqOf _ _ => .null
  | .fnil => .vnil
  | .fcons _ s rest => .vcons (zeroVal s) (zeroVal rest)

/-! ## primitive parsers (`asn1.go`) -/

/-- `parseBase128Int` (the loop state `shifted`, `ret64` is explicit). -/
def base128 : (shifted acc : Nat) → Bytes → Res (Nat × Bytes)
  | _, _, [] => .err
  | sh, acc, b :: r =>
    if sh = 5 then .err
    else if sh = 0 ∧ b.toNat = 128 then .err
    else
      if b.toNat < 128 then
        (if acc * 128 + b.toNat % 128 > 2147483647 then .err else .ok (acc * 128 + b.toNat % 128, r))
      else base128 (sh + 1) (acc * 128 + b.toNat % 128) r

/-- the long-form length loop of `parseTagAndLength` -/
def parseLenBytes : (n acc : Nat) → Bytes → Res (Nat × Bytes)
  | 0, acc, bs => .ok (acc, bs)
  | _ + 1, _, [] => .err
  | n + 1, acc, b :: r =>
    if acc ≥ 8388608 then .err
    else if acc * 256 + b.toNat = 0 then .err
    else parseLenBytes n (acc * 256 + b.toNat) r

/-- the tag-number part of `parseTagAndLength` -/
def parseTagNum (b : UInt8) (r1 : Bytes) : Res (Nat × Bytes) :=
  if b.toNat % 32 = 31 then
    match base128 0 0 r1 with
    | .ok (t, r) => if t < 31 then .err else .ok (t, r)
    | .err => .err
    | .panic => .panic
  else .ok (b.toNat % 32, r1)

/-- `parseTagAndLength`.  PERMISSIVE SITE `parseTagAndLength/0`: non-minimal long-form length. -/
def parseTL (perm : Bool) : Bytes → Res (TL × Bytes)
  | [] => .err
  | b :: r1 =>
    match parseTagNum b r1 with
    | .err => .err
    | .panic => .panic
    | .ok (tag, r2) =>
      match r2 with
      | [] => .err
      | b2 :: r3 =>
        if b2.toNat < 128 then
          .ok ({ cls := b.toNat / 64, tag := tag, len := b2.toNat, compound := b.toNat / 32 % 2 = 1 }, r3)
        else if b2.toNat % 128 = 0 then .err
        else
          match parseLenBytes (b2.toNat % 128) 0 r3 with
          | .err => .err
          | .panic => .panic
          | .ok (len, r4) =>
            if !perm && decide (len < 128) then .err
            else .ok ({ cls := b.toNat / 64, tag := tag, len := len, compound := b.toNat / 32 % 2 = 1 }, r4)

/-- `parseBool` -/
def parseBool : Bytes → Res Val
  | [b] => if b.toNat = 0 then .ok (.bool false) else if b.toNat = 255 then .ok (.bool true) else .err
  | _ => .err

/-- `checkInteger` (true = nil error).  PERMISSIVE SITE `checkInteger/0`: minimal encoding. -/
def checkInteger (perm : Bool) : Bytes → Bool
  | [] => false
  | [_] => true
  | b0 :: b1 :: _ =>
    if !perm && ((b0.toNat = 0 ∧ b1.toNat < 128) ∨ (b0.toNat = 255 ∧ b1.toNat ≥ 128)) then false else true

/-- big-endian unsigned value -/
def beNat (bs : Bytes) : Nat := bs.foldl (fun a b => a * 256 + b.toNat) 0

/-- `parseInt64`: accumulate, then sign-extend from bit `8·len − 1`. -/
def parseInt64 (perm : Bool) (bs : Bytes) : Res Int :=
  if !checkInteger perm bs then .err
  else if bs.length > 8 then .err
  else if beNat bs ≥ 2 ^ (8 * bs.length - 1) then .ok ((beNat bs : Int) - 2 ^ (8 * bs.length))
  else .ok (beNat bs : Int)

/-- `parseInt32` -/
def parseInt32 (perm : Bool) (bs : Bytes) : Res Int :=
  if !checkInteger perm bs then .err
  else match parseInt64 perm bs with
    | .ok i => if i < -2147483648 ∨ i > 2147483647 then .err else .ok i
    | .err => .err
    | .panic => .panic

def notByte (b : UInt8) : UInt8 := UInt8.ofNat (255 - b.toNat)

/-- `parseBigInt` -/
def parseBigInt (perm : Bool) (bs : Bytes) : Res Int :=
  if !checkInteger perm bs then .err
  else match bs with
    | [] => .ok 0
    | b0 :: _ =>
      if b0.toNat ≥ 128 then .ok (- ((beNat (bs.map notByte) : Int) + 1))
      else .ok (beNat bs : Int)

/-- `parseBitString` -/
def parseBitString : Bytes → Res Val
  | [] => .err
  | pad :: data =>
    let last := match data.getLast? with | none => pad | some l => l
    if pad.toNat > 7 ∨ (data.isEmpty ∧ pad.toNat > 0) ∨ last.toNat % 2 ^ pad.toNat ≠ 0 then .err
    else .ok (.bits data ((data.length * 8 : Nat) - (pad.toNat : Int)))

/-- the loop of `parseObjectIdentifier` after the first sub-identifier; `fuel` bounds the number of
    iterations by `len(bytes)` (each iteration consumes at least one byte). -/
def parseArcs : (fuel : Nat) → Bytes → Res (List Int)
  | _, [] => .ok []
  | 0, _ :: _ => .err
  | f + 1, b :: r =>
    match base128 0 0 (b :: r) with
    | .ok (v, r') =>
      (match parseArcs f r' with
       | .ok l => .ok ((v : Int) :: l)
       | .err => .err
       | .panic => .panic)
    | .err => .err
    | .panic => .panic

/-- `parseObjectIdentifier` -/
def parseOID (bs : Bytes) : Res Val :=
  match bs with
  | [] => .err
  | _ :: _ =>
    match base128 0 0 bs with
    | .ok (v, r) =>
      (match parseArcs r.length r with
       | .ok l =>
         if v < 80 then .ok (.oid (((v / 40 : Nat) : Int) :: ((v % 40 : Nat) : Int) :: l))
         else .ok (.oid (2 :: ((v : Int) - 80) :: l))
       | .err => .err
       | .panic => .panic)
    | .err => .err
    | .panic => .panic

/-- `isPrintable` -/
def isPrintable (b : UInt8) (asterisk ampersand : Bool) : Bool :=
  let c := b.toNat
  (97 ≤ c ∧ c ≤ 122) ∨ (65 ≤ c ∧ c ≤ 90) ∨ (48 ≤ c ∧ c ≤ 57) ∨ (39 ≤ c ∧ c ≤ 41) ∨ (43 ≤ c ∧ c ≤ 47) ∨
    c = 32 ∨ c = 58 ∨ c = 61 ∨ c = 63 ∨ (asterisk ∧ c = 42) ∨ (ampersand ∧ c = 38)

/-- `isNumeric` -/
def isNumeric (b : UInt8) : Bool := (48 ≤ b.toNat ∧ b.toNat ≤ 57) ∨ b.toNat = 32

/-- `utf8.Valid` (Unicode table 3-7, well-formed UTF-8 byte sequences) -/
def utf8Valid : Bytes → Bool
  | [] => true
  | b0 :: rest =>
    let c0 := b0.toNat
    if c0 < 128 then utf8Valid rest
    else match rest with
      | [] => false
      | b1 :: rest1 =>
        let c1 := b1.toNat
        if 194 ≤ c0 ∧ c0 ≤ 223 then (if 128 ≤ c1 ∧ c1 ≤ 191 then utf8Valid rest1 else false)
        else match rest1 with
          | [] => false
          | b2 :: rest2 =>
            let c2 := b2.toNat
            if 224 ≤ c0 ∧ c0 ≤ 239 then
              let lo := if c0 = 224 then 160 else 128
              let hi := if c0 = 237 then 159 else 191
              (if lo ≤ c1 ∧ c1 ≤ hi ∧ 128 ≤ c2 ∧ c2 ≤ 191 then utf8Valid rest2 else false)
            else match rest2 with
              | [] => false
              | b3 :: rest3 =>
                let c3 := b3.toNat
                if 240 ≤ c0 ∧ c0 ≤ 244 then
                  let lo := if c0 = 240 then 144 else 128
                  let hi := if c0 = 244 then 143 else 191
                  (if lo ≤ c1 ∧ c1 ≤ hi ∧ 128 ≤ c2 ∧ c2 ≤ 191 ∧ 128 ≤ c3 ∧ c3 ≤ 191 then utf8Valid rest3 else false)
                else false

/-- PERMISSIVE SITE `parseNumericString/0` -/
def parseNumericString (perm : Bool) (bs : Bytes) : Res Val :=
  if !perm && !(bs.all isNumeric) then .err else .ok (.bytes bs)
/-- PERMISSIVE SITE `parsePrintableString/0` -/
def parsePrintableString (perm : Bool) (bs : Bytes) : Res Val :=
  if !perm && !(bs.all (fun b => isPrintable b true true)) then .err else .ok (.bytes bs)
/-- PERMISSIVE SITE `parseIA5String/0` -/
def parseIA5String (perm : Bool) (bs : Bytes) : Res Val :=
  if !perm && !(bs.all (fun b => b.toNat < 128)) then .err else .ok (.bytes bs)
def parseT61String (bs : Bytes) : Res Val := .ok (.bytes bs)
/-- PERMISSIVE SITE `parseUTF8String/0` -/
def parseUTF8String (perm : Bool) (bs : Bytes) : Res Val :=
  if !perm && !(utf8Valid bs) then .err else .ok (.bytes bs)

/-- UTF-8 encoding of one valid scalar value (`string([]rune)`) -/
def utf8Enc (r : Nat) : Bytes :=
  if r < 128 then [UInt8.ofNat r]
  else if r < 2048 then [UInt8.ofNat (192 + r / 64), UInt8.ofNat (128 + r % 64)]
  else if r < 65536 then [UInt8.ofNat (224 + r / 4096), UInt8.ofNat (128 + r / 64 % 64), UInt8.ofNat (128 + r % 64)]
  else [UInt8.ofNat (240 + r / 262144), UInt8.ofNat (128 + r / 4096 % 64), UInt8.ofNat (128 + r / 64 % 64), UInt8.ofNat (128 + r % 64)]

/-- `utf16.Decode` followed by `string(...)` -/
def utf16ToUtf8 : List Nat → Bytes
  | [] => []
  | [u] => if 55296 ≤ u ∧ u < 57344 then utf8Enc 65533 else utf8Enc u
  | u :: u2 :: rest =>
    if 55296 ≤ u ∧ u < 56320 ∧ 56320 ≤ u2 ∧ u2 < 57344 then
      utf8Enc ((u - 55296) * 1024 + (u2 - 56320) + 65536) ++ utf16ToUtf8 rest
    else if 55296 ≤ u ∧ u < 57344 then utf8Enc 65533 ++ utf16ToUtf8 (u2 :: rest)
    else utf8Enc u ++ utf16ToUtf8 (u2 :: rest)

def pairs16 : Bytes → List Nat
  | a :: b :: rest => (a.toNat * 256 + b.toNat) :: pairs16 rest
  | _ => []

/-- strip one trailing 0x0000 terminator -/
def stripTerm : List Nat → List Nat
  | [] => []
  | [u] => if u = 0 then [] else [u]
  | u :: v :: rest => u :: stripTerm (v :: rest)

/-- `parseBMPString` -/
def parseBMPString (bs : Bytes) : Res Val :=
  if bs.length % 2 ≠ 0 then .err else .ok (.bytes (utf16ToUtf8 (stripTerm (pairs16 bs))))

/-! ## `parseField` -/

/-- `setDefaultValue` + the surrounding "ok ⇒ offset = initOffset, else error". -/
def dfltOrErr (s : Schema) (p : Params) (bs : Bytes) : Res (Val × Bytes) :=
  if p.optional then
    match p.defaultValue with
    | some d => if isIntKind s then .ok (.int d, bs) else .ok (zeroVal s, bs)
    | none => .ok (zeroVal s, bs)
  else .err

/-- outcome of the EXPLICIT-tag stage (asn1.go 768–803) -/
inductive Ex where
  | err | dflt | flag (r : Bytes) | cont (t : TL) (r : Bytes)

def explicitStage (perm : Bool) (s : Schema) (p : Params) (t0 : TL) (r0 : Bytes) : Ex :=
  if p.explicit then
    if t0.cls = (if p.application then 1 else if p.priv then 3 else 2) ∧ some t0.tag = p.tag ∧ (t0.len = 0 ∨ t0.compound) then
      if isRaw s then .cont t0 r0
      else if t0.len > 0 then
        if r0.isEmpty then .err                    -- "explicit tag has no child"
        else match parseTL perm r0 with
          | .ok (t, r) => .cont t r
          | .err => .err
          | .panic => .err
      else if isFlag s then .flag r0 else .err
    else .dflt
  else .cont t0 r0

def isOtherStringTag (t : Nat) : Bool := t = 22 ∨ t = 27 ∨ t = 20 ∨ t = 12 ∨ t = 18 ∨ t = 30

/-- universal tag after the string / time / set substitutions (asn1.go 815–834) -/
def substTag (p : Params) (t : TL) (utag0 : Nat) : Nat :=
  let u1 := if utag0 = 19 then
      (if t.cls = 0 then (if isOtherStringTag t.tag then t.tag else utag0)
       else if p.stringType ≠ 0 then p.stringType else utag0)
    else utag0
  if p.set then 17 else u1

/-- expected (matchAnyClassAndTag, class, tag) (asn1.go 836–856) -/
def expected (p : Params) (matchAny : Bool) (utag : Nat) : Bool × Nat × Nat :=
  match p.explicit, p.tag with
  | false, some tg =>
    if p.priv then (false, 3, tg) else if p.application then (false, 1, tg) else (false, 2, tg)
  | _, _ => (matchAny, 0, utag)

/-- outcome of everything before the type switch -/
inductive Pre where
  | err | dflt | flag (r : Bytes) | go (t : TL) (utag : Nat) (inner rest : Bytes)

def matchStage (s : Schema) (p : Params) (t : TL) (r : Bytes) : Pre :=
  match univ s with
  | none => .err
  | some (matchAny, utag0, compoundType) =>
    let utag := substTag p t utag0
    let e := expected p matchAny utag
    if (!e.1 && (t.cls != e.2.1 || t.tag != e.2.2)) || (!matchAny && t.compound != compoundType) then .dflt
    else if t.len > r.length then .err
    else .go t utag (r.take t.len) (r.drop t.len)

def parsePre (perm : Bool) (s : Schema) (p : Params) (bs : Bytes) : Pre :=
  match parseTL perm bs with
  | .err => .err
  | .panic => .err
  | .ok (t0, r0) =>
    match explicitStage perm s p t0 r0 with
    | .err => .err
    | .dflt => .dflt
    | .flag r => .flag r
    | .cont t r => matchStage s p t r

/-- the string arm of the kind switch, by the substituted universal tag -/
def parseString (perm : Bool) (utag : Nat) (inner : Bytes) : Res Val :=
  if utag = 19 then parsePrintableString perm inner
  else if utag = 18 then parseNumericString perm inner
  else if utag = 22 then parseIA5String perm inner
  else if utag = 20 then parseT61String inner
  else if utag = 12 then parseUTF8String perm inner
  else if utag = 27 then parseT61String inner
  else if utag = 30 then parseBMPString inner
  else .err

def resInt (r : Res Int) : Res Val :=
  match r with
  | .ok i => .ok (.int i)
  | .err => .err
  | .panic => .panic

/-- the non-recursive arms of the type switch (asn1.go 878–1010); `full = bytes[initOffset:offset]`. -/
def parsePrim (perm : Bool) (s : Schema) (utag : Nat) (t : TL) (inner full : Bytes) : Res Val :=
  match s with
  | .raw => .ok (.raw t.cls t.tag t.compound inner full)
  | .oid => parseOID inner
  | .bits => parseBitString inner
  | .enum => resInt (parseInt32 perm inner)
  | .flag => .ok (.bool true)
  | .bigint => resInt (parseBigInt perm inner)
  | .bool => parseBool inner
  | .int32 => resInt (parseInt32 perm inner)
  | .int64 => resInt (parseInt64 perm inner)
  | .octets => .ok (.bytes inner)
  | .str => parseString perm utag inner
  | _ => .err

def normSeqTag (t : Nat) : Nat :=
  if isOtherStringTag t then 19 else if t = 24 ∨ t = 23 then 23 else t

/-- first pass of `parseSequenceOf`: count elements, check their headers.  `fuel` bounds the iterations by
    `len(bytes)` (every iteration consumes at least two bytes). -/
def countElems (perm : Bool) (matchAny : Bool) (expectedTag : Nat) (compoundType : Bool) : (fuel : Nat) → Bytes → Res Nat
  | _, [] => .ok 0
  | 0, _ :: _ => .err
  | f + 1, b :: bs =>
    match parseTL perm (b :: bs) with
    | .err => .err
    | .panic => .panic
    | .ok (t, r) =>
      if !matchAny && (t.cls != 0 || t.compound != compoundType || normSeqTag t.tag != expectedTag) then .err
      else if t.len > r.length then .err
      else match countElems perm matchAny expectedTag compoundType f (r.drop t.len) with
        | .ok n => .ok (n + 1)
        | .err => .err
        | .panic => .panic

/-- second pass of `parseSequenceOf` -/
def parseElems (pf : Bytes → Res (Val × Bytes)) : (n : Nat) → Bytes → Res Val
  | 0, _ => .ok .vnil
  | n + 1, bs =>
    match pf bs with
    | .ok (v, r) =>
      (match parseElems pf n r with
       | .ok vs => .ok (.vcons v vs)
       | .err => .err
       | .panic => .panic)
    | .err => .err
    | .panic => .panic

def takeFull (bs rest : Bytes) : Bytes := bs.take (bs.length - rest.length)

/-- `parseField` for the types without sub-fields (everything but struct / slice-of-T) -/
def primField (perm : Bool) (s : Schema) (p : Params) (bs : Bytes) : Res (Val × Bytes) :=
  if bs.isEmpty then dfltOrErr s p bs
  else match parsePre perm s p bs with
    | .err => .err
    | .dflt => dfltOrErr s p bs
    | .flag r => .ok (.bool true, r)
    | .go t utag inner rest =>
      match parsePrim perm s utag t inner (takeFull bs rest) with
      | .ok v => .ok (v, rest)
      | .err => .err
      | .panic => .panic

mutual
/-- `parseField` -/
def parseField (perm : Bool) : Schema → Params → Bytes → Res (Val × Bytes)
  | .struct fs, p, bs =>
    if bs.isEmpty then dfltOrErr (.struct fs) p bs
    else match parsePre perm (.struct fs) p bs with
      | .err => .err
      | .dflt => dfltOrErr (.struct fs) p bs
      | .flag r => .ok (.bool true, r)
      | .go _ _ inner rest =>
        match parseFields perm fs inner with
        | .ok (vs, _) => .ok (vs, rest)
        | .err => .err
        | .panic => .panic
  | .seqOf sn e, p, bs =>
    if bs.isEmpty then dfltOrErr (.seqOf sn e) p bs
    else match parsePre perm (.seqOf sn e) p bs with
      | .err => .err
      | .dflt => dfltOrErr (.seqOf sn e) p bs
      | .flag r => .ok (.bool true, r)
      | .go _ _ inner rest =>
        match univ e with
        | none => .err
        | some (matchAny, etag, ecomp) =>
          match countElems perm matchAny etag ecomp inner.length inner with
          | .err => .err
          | .panic => .panic
          | .ok n =>
            match parseElems (fun b => parseField perm e {} b) n inner with
            | .ok vs => .ok (vs, rest)
            | .err => .err
            | .panic => .panic
  | .fnil, _, _ => .err
  | .fcons _ _ _, _, _ => .err
  | s, p, bs => primField perm s p bs

/-- the field loop of the struct arm -/
def parseFields (perm : Bool) : Schema → Bytes → Res (Val × Bytes)
  | .fnil, bs => .ok (.vnil, bs)
  | .fcons p s rest, bs =>
    match parseField perm s p bs with
    | .ok (v, r) =>
      (match parseFields perm rest r with
       | .ok (vs, r') => .ok (.vcons v vs, r')
       | .err => .err
       | .panic => .panic)
    | .err => .err
    | .panic => .panic
  | _, _ => .err
end

/-- `UnmarshalWithParams` (value, rest) -/
def unmarshal (perm : Bool) (s : Schema) (p : Params) (bs : Bytes) : Res (Val × Bytes) := parseField perm s p bs

/-! ## encoders (`marshal.go`) -/

def byteOfInt (i : Int) : UInt8 := UInt8.ofNat (i % 256).toNat

/-- `int64Encoder`: `Len` (shift right by 8 until the value fits a signed byte) and `Encode` fused. -/
def encInt64 (i : Int) : Bytes :=
  if -128 ≤ i ∧ i ≤ 127 then [byteOfInt i] else encInt64 (i / 256) ++ [byteOfInt i]
termination_by i.natAbs
decreasing_by omega

/-- `big.Int.Bytes` -/
def natBytes (n : Nat) : Bytes :=
  if n = 0 then [] else natBytes (n / 256) ++ [UInt8.ofNat (n % 256)]
termination_by n
decreasing_by omega

/-- `makeBigInt` (for a non-nil value) -/
def makeBigInt (i : Int) : Bytes :=
  if i < 0 then
    match (natBytes (-i - 1).toNat).map notByte with
    | [] => [255]
    | b0 :: r => if b0.toNat < 128 then 255 :: b0 :: r else b0 :: r
  else if i = 0 then [0]
  else
    match natBytes i.toNat with
    | [] => []
    | b0 :: r => if b0.toNat ≥ 128 then 0 :: b0 :: r else b0 :: r

/-- the leading (continuation-bit) digits of `appendBase128Int` -/
def base128Hi (n : Nat) : Bytes :=
  if n = 0 then [] else base128Hi (n / 128) ++ [UInt8.ofNat (n % 128 + 128)]
termination_by n
decreasing_by omega

def base128Digits (n : Nat) : Bytes := base128Hi (n / 128) ++ [UInt8.ofNat (n % 128)]

/-- `appendBase128Int` (n = 0 ⇒ one zero byte; negative ⇒ `base128IntLength` is 0 ⇒ nothing) -/
def appendBase128 (n : Int) : Bytes :=
  if n < 0 then [] else base128Digits n.toNat

/-- `appendLength` + `lengthLength` -/
def lengthBytes (n : Nat) : Bytes := if n < 256 then [UInt8.ofNat n] else natBytes n

/-- `appendTagAndLength` -/
def appendTL (t : TL) : Bytes :=
  let b := (t.cls % 4) * 64 + (if t.compound then 32 else 0)
  (if t.tag ≥ 31 then UInt8.ofNat (b + 31) :: appendBase128 t.tag else [UInt8.ofNat (b + t.tag)]) ++
  (if t.len ≥ 128 then UInt8.ofNat (128 + (lengthBytes t.len).length) :: lengthBytes t.len else [UInt8.ofNat t.len])

/-- `makeObjectIdentifier` + `oidEncoder` -/
def makeOID : List Int → Res Bytes
  | a :: b :: rest =>
    if a > 2 ∨ (a < 2 ∧ b ≥ 40) then .err
    else .ok (appendBase128 (a * 40 + b) ++ (rest.map appendBase128).flatten)
  | _ => .err

/-- `bitStringEncoder` -/
def makeBits (bs : Bytes) (bitLen : Int) : Bytes :=
  UInt8.ofNat ((8 - Int.tmod bitLen 8) % 8).toNat :: bs

/-- the string arm of `makeBody` -/
def makeString (stringType : Nat) (bs : Bytes) : Res Bytes :=
  if stringType = 22 then (if bs.all (fun b => b.toNat ≤ 127) then .ok bs else .err)
  else if stringType = 19 then (if bs.all (fun b => isPrintable b true false) then .ok bs else .err)
  else if stringType = 18 then (if bs.all isNumeric then .ok bs else .err)
  else .ok bs

/-- `bytes.Compare(a, b) < 0` -/
def bytesLt : Bytes → Bytes → Bool
  | [], [] => false
  | [], _ :: _ => true
  | _ :: _, [] => false
  | a :: as, b :: bs => if a.toNat < b.toNat then true else if b.toNat < a.toNat then false else bytesLt as bs

def insertSorted (x : Bytes) : List Bytes → List Bytes
  | [] => [x]
  | y :: ys => if bytesLt x y then x :: y :: ys else y :: insertSorted x ys

/-- `setEncoder.Encode`'s sort (equal encodings are identical byte strings, so stability is irrelevant) -/
def sortEnc : List Bytes → List Bytes
  | [] => []
  | x :: xs => insertSorted x (sortEnc xs)

/-- encodings of the elements of a slice value (`makeBody`, slice arm) -/
def mapElems (f : Val → Res Bytes) : Val → Res (List Bytes)
  | .vnil => .ok []
  | .null => .ok []
  | .vcons v rest =>
    (match f v with
     | .ok b =>
       (match mapElems f rest with
        | .ok bs => .ok (b :: bs)
        | .err => .err
        | .panic => .panic)
     | .err => .err
     | .panic => .panic)
  | _ => .err

/-- `v.Len() == 0` for slice kinds -/
def lenZero : Val → Bool
  | .null => true | .vnil => true | .bytes bs => bs.isEmpty | .oid l => l.isEmpty | _ => false

/-- the string-tag choice of `makeField` (lines 637–654): `none` = "string not valid UTF-8". -/
def stringTag (p : Params) (bs : Bytes) : Option Nat :=
  if p.stringType = 0 then
    (if bs.all (fun b => decide (b.toNat < 128) && isPrintable b false false) then some 19
     else if utf8Valid bs then some 12 else none)
  else some p.stringType

/-- header(s) around a body: class / explicit / implicit (marshal.go 684–719) -/
def wrap (p : Params) (tag : Nat) (isCompound : Bool) (body : Bytes) : Bytes :=
  match p.tag with
  | some tg =>
    let cls := if p.application then 1 else if p.priv then 3 else 2
    if p.explicit then
      let inner := appendTL { cls := 0, tag := tag, len := body.length, compound := isCompound } ++ body
      appendTL { cls := cls, tag := tg, len := inner.length, compound := true } ++ inner
    else appendTL { cls := cls, tag := tg, len := body.length, compound := isCompound } ++ body
  | none => appendTL { cls := 0, tag := tag, len := body.length, compound := isCompound } ++ body

/-- the early-return tests of `makeField` (omitempty, optional+default, optional+zero) -/
def omitted (s : Schema) (p : Params) (v : Val) : Bool :=
  (isSliceKind s && lenZero v && p.omitEmpty) ||
  (p.optional && (match p.defaultValue with
     | some d => isIntKind s && v == .int d
     | none => v == zeroVal s))

/-- non-recursive bodies of `makeBody` -/
def makePrimBody (s : Schema) (p : Params) (v : Val) : Res Bytes :=
  match s, v with
  | .flag, .bool _ => .ok []
  | .bits, .bits bs n => .ok (makeBits bs n)
  | .oid, .oid l => makeOID l
  | .oid, .null => .err
  | .bigint, .null => .err
  | .bigint, .int i => .ok (makeBigInt i)
  | .bool, .bool b => .ok [if b then 255 else 0]
  | .int64, .int i => .ok (encInt64 i)
  | .int32, .int i => .ok (encInt64 i)
  | .enum, .int i => .ok (encInt64 i)
  | .octets, .bytes bs => .ok bs
  | .octets, .null => .ok []
  | .str, .bytes bs => makeString p.stringType bs
  | _, _ => .err

/-- the universal tag `makeField` writes (string kinds chosen by content / parameters) -/
def marshalTag (p : Params) (utag0 : Nat) (v : Val) : Option Nat :=
  if utag0 = 19 then (match v with | .bytes bs => stringTag p bs | _ => none) else some utag0

/-- `makeField` for the types without sub-fields (everything but RawValue / struct / slice-of-T) -/
def primMake (s : Schema) (p : Params) (v : Val) : Res Bytes :=
  if omitted s p v then .ok []
  else match univ s with
    | none => .err
    | some (_, utag0, isCompound) =>
      if p.timeType ≠ 0 ∧ utag0 ≠ 23 then .err
      else if p.stringType ≠ 0 ∧ utag0 ≠ 19 then .err
      else
        match marshalTag p utag0 v with
        | none => .err
        | some tag =>
          if p.set then .err
          else match makePrimBody s p v with
            | .ok body => .ok (wrap p tag isCompound body)
            | .err => .err
            | .panic => .panic

mutual
/-- `makeField` -/
def makeField : Schema → Params → Val → Res Bytes
  | .raw, p, v =>
    if omitted .raw p v then .ok []
    else match v with
      | .raw cls tag compound bs full =>
        if full.length ≠ 0 then .ok full
        else .ok (appendTL { cls := cls, tag := tag, len := bs.length, compound := compound } ++ bs)
      | _ => .err
  | .struct fs, p, v =>
    if omitted (.struct fs) p v then .ok []
    else if p.timeType ≠ 0 then .err
    else if p.stringType ≠ 0 then .err
    else match makeFields fs v with
      | .ok body => .ok (wrap p (if p.set then 17 else 16) true body)
      | .err => .err
      | .panic => .panic
  | .seqOf sn e, p, v =>
    if omitted (.seqOf sn e) p v then .ok []
    else if p.timeType ≠ 0 then .err
    else if p.stringType ≠ 0 then .err
    else if p.set && sn then .err            -- "non sequence tagged as set": the tag is already TagSet
    else match mapElems (fun x => makeField e {} x) v with
      | .ok encs =>
        .ok (wrap p (if p.set || sn then 17 else 16) true
              (if p.set || sn then (sortEnc encs).flatten else encs.flatten))
      | .err => .err
      | .panic => .panic
  | .fnil, _, _ => .err
  | .fcons _ _ _, _, _ => .err
  | s, p, v => primMake s p v

/-- struct arm of `makeBody`: concatenation of the fields' encodings -/
def makeFields : Schema → Val → Res Bytes
  | .fnil, .vnil => .ok []
  | .fcons p s rest, .vcons v vs =>
    (match makeField s p v with
     | .ok b =>
       (match makeFields rest vs with
        | .ok bs => .ok (b ++ bs)
        | .err => .err
        | .panic => .panic)
     | .err => .err
     | .panic => .panic)
  | _, _ => .err
end

/-- `MarshalWithParams` -/
def marshal (s : Schema) (p : Params) (v : Val) : Res Bytes := makeField s p v

end ZV.C18
