import ZV.Base
/-!
  Model of `ct/scanner/scanner.go` (`Scan`, `fetcherJob`, `matcherJob`, `processEntry`,
  `parseCertificate`) together with the log-server oracle of the property.

  * `ranges`        the partition loop of `Scan`
  * `serve`         the server oracle: the j-th request for a range is answered by the j-th token of that
                    range's script (error, or a prefix of what was asked), afterwards in full
  * `fetchRange`    the retry loop of `fetcherJob` for ONE range, run sequentially
  * `St`/`step`     the small-step interleaving model: `nf` fetchers, `nm` matchers, the two channels and the
                    atomic counter; a schedule is a list of worker ids
  * `processEntry`  which callback / counters an entry of a given kind produces

  * `Obj`/`resetCounters`/`initOn`/`scanSeq`  the counter fields of the `Scanner` VALUE, which survive from one
                    `Scan` call to the next, the prologue of `Scan` that resets them, and consecutive scans on one value

  * `BSt`/`bstep`   the BOUNDED model: the same workers plus the main goroutine of `Scan` as a thread (feeds the
                    `fetches` channel, closes it, `fetcherWG.Wait(); close(jobs)`, `matcherWG.Wait(); return`), both
                    channels with a capacity (parameters `capF`, `capJ`; the driver runs it with the capacities
                    extracted from the source, `ZV.C17.Gen.fetchesCap/jobsCap`), sends block on a full channel,
                    receives block on an empty open channel
  * `MainOp`/`mainProgram`  the order of the main goroutine's statements the bounded model implements, compared
                    with the order extracted from the source (`ZV.C17.Gen.scanOrder`) in `ZV.Props.C17`

  What is NOT here: the Go scheduler and memory model (every `step` is atomic; that the counter updates of
  the real code are atomic is checked by the race detector, not proved; that every access is THROUGH sync/atomic
  is a T1 theorem over the extracted access list), the progress ticker goroutine (it only loads
  `certsProcessed` atomically and writes to `updater`), logging.
-/
namespace ZV.C17

/-! ### 1. range partition (`Scan`)

```go
for start := s.opts.StartIndex; start < int64(stopIndex); {
    end := min(start+int64(s.opts.BatchSize), int64(stopIndex)) - 1
    ranges.PushBack(fetchRange{start, end})
    start = end + 1
}
```
For `BatchSize ≤ 0` the Go loop never terminates (it keeps appending); the model is defined for
`batch ≥ 1` and returns `[]` otherwise — the driver prints `hang` for that case instead of using it. -/
def ranges (start stop batch : Nat) : List (Nat × Nat) :=
  if _h : start < stop ∧ 0 < batch then
    (start, min (start + batch) stop - 1) :: ranges (min (start + batch) stop - 1 + 1) stop batch
  else []
termination_by stop - start
decreasing_by omega

/-- `stopIndex := opts.MaximumIndex; if 0 then latestSth.TreeSize` -/
def stopIndex (maxIndex tree : Nat) : Nat := if maxIndex = 0 then tree else maxIndex

/-! ### 2. the server oracle and the retry loop of `fetcherJob` -/

/-- one scripted server reaction -/
inductive Tok where
  | err                 -- transient error (HTTP 5xx, transport error): `GetEntries` returns `err != nil`
  | give (n : Nat)      -- answer with the first `min n requested` entries
  deriving Repr, DecidableEq

/-- Number of entries in the answer to `get-entries?start=s&end=e` (`none` = error).
    The script is consumed one token per request; when it is exhausted the server answers in full. -/
def serve (s e : Nat) : List Tok → Option Nat × List Tok
  | [] => (some (e + 1 - s), [])
  | .err :: rest => (none, rest)
  | .give n :: rest => (some (min n (e + 1 - s)), rest)

/-- `fetcherJob` for one range, sequentially: (indices handed to the matchers in order, requests sent).

```go
for !success {
    logEntries, err := s.logClient.GetEntries(r.start, r.end)
    if err != nil { …; continue }
    if len(logEntries) == 0 { …sleep…; continue }
    for _, logEntry := range logEntries { logEntry.Index = r.start; entries <- matcherJob{logEntry, r.start}; r.start++ }
    if r.start > r.end { success = true }
}
``` -/
def fetchRange (s e : Nat) : List Tok → List Nat × List (Nat × Nat)
  | [] => (List.range' s (e + 1 - s), [(s, e)])
  | .err :: rest =>
    let r := fetchRange s e rest
    (r.1, (s, e) :: r.2)
  | .give n :: rest =>
    let k := min n (e + 1 - s)
    if k = 0 then
      let r := fetchRange s e rest
      (r.1, (s, e) :: r.2)
    else if s + k > e then (List.range' s k, [(s, e)])
    else
      let r := fetchRange (s + k) e rest
      (List.range' s k ++ r.1, (s, e) :: r.2)

/-! ### 3. interleaving model -/

/-- a range waiting in the `fetches` channel, with the script the server will follow for it -/
structure Job where
  s : Nat
  e : Nat
  script : List Tok
  deriving Repr, DecidableEq

/-- control state of one `fetcherJob` goroutine -/
inductive FSt where
  | idle                                         -- at `for r := range ranges`
  | req (s e : Nat) (script : List Tok)          -- about to call `GetEntries(r.start, r.end)`
  | send (s e k : Nat) (script : List Tok)       -- inside `for _, logEntry := range logEntries`, `k` left, next index `s`
  | done                                         -- `ranges` closed and drained: `wg.Done()`
  deriving Repr, DecidableEq

structure St where
  pending   : List Job          -- ranges not yet taken by a fetcher
  fs        : List FSt          -- the fetchers
  jobs      : List Nat          -- `jobs` channel (FIFO), entry indices
  ms        : List Bool         -- matchers: `true` = returned (`jobs` closed and drained)
  processed : List Nat          -- indices for which `processEntry` ran, most recent first
  counter   : Nat               -- `certsProcessed` (atomic.AddInt64)
  reqlog    : List (Nat × Nat)  -- requests the server saw, most recent first
  deriving Repr, DecidableEq

inductive Worker where
  | f (i : Nat)
  | m (j : Nat)
  deriving Repr, DecidableEq

def allDone (fs : List FSt) : Bool := fs.all (fun f => f == .done)

/-- one atomic step of fetcher `i` -/
def stepF (i : Nat) (st : St) : St :=
  match st.fs[i]? with
  | none => st
  | some .done => st
  | some .idle =>
    match st.pending with
    | [] => { st with fs := st.fs.set i .done }
    | j :: rest => { st with pending := rest, fs := st.fs.set i (.req j.s j.e j.script) }
  | some (.req s e script) =>
    match serve s e script with
    | (none, rest) => { st with fs := st.fs.set i (.req s e rest), reqlog := (s, e) :: st.reqlog }
    | (some k, rest) =>
      if k = 0 then { st with fs := st.fs.set i (.req s e rest), reqlog := (s, e) :: st.reqlog }
      else { st with fs := st.fs.set i (.send s e k rest), reqlog := (s, e) :: st.reqlog }
  | some (.send s e k script) =>
    match k with
    | 0 => if s > e then { st with fs := st.fs.set i .idle } else { st with fs := st.fs.set i (.req s e script) }
    | k' + 1 => { st with fs := st.fs.set i (.send (s + 1) e k' script), jobs := st.jobs ++ [s] }

/-- one atomic step of matcher `j`: receive one job and process it, or return when `jobs` is closed
    (closed = every fetcher has returned, `fetcherWG.Wait(); close(jobs)`) and empty; otherwise blocked. -/
def stepM (j : Nat) (st : St) : St :=
  match st.ms[j]? with
  | none => st
  | some true => st
  | some false =>
    match st.jobs with
    | x :: rest => { st with jobs := rest, processed := x :: st.processed, counter := st.counter + 1 }
    | [] => if allDone st.fs then { st with ms := st.ms.set j true } else st

def step (w : Worker) (st : St) : St :=
  match w with
  | .f i => stepF i st
  | .m j => stepM j st

def run (st : St) : List Worker → St
  | [] => st
  | w :: ws => run (step w st) ws

/-- `Scan` can return: both wait groups are released -/
def finished (st : St) : Bool := allDone st.fs && st.ms.all (fun b => b)

/-- state after `Scan` has built the range list and started `nf` fetchers and `nm` matchers;
    `scriptOf e` is the server's script for the range whose last index is `e` -/
def init (start stop batch nf nm : Nat) (scriptOf : Nat → List Tok) : St :=
  { pending := (ranges start stop batch).map (fun r => ⟨r.1, r.2, scriptOf r.2⟩),
    fs := List.replicate nf .idle, jobs := [], ms := List.replicate nm false,
    processed := [], counter := 0, reqlog := [] }

/-- `return int64(s.opts.StartIndex) + s.certsProcessed` -/
def scanReturn (start : Nat) (st : St) : Nat := start + st.counter

/-- is worker `w` able to move in `st`? (`false` = returned, or blocked on an empty open channel) -/
def enabled (w : Worker) (st : St) : Bool :=
  match w with
  | .f i =>
    match st.fs[i]? with
    | none => false
    | some .done => false
    | some _ => true
  | .m j =>
    match st.ms[j]? with
    | some false => !st.jobs.isEmpty || allDone st.fs
    | _ => false

/-- termination measure: strictly decreases with every enabled step (see `ZV.Props.C17`) -/
def fWeight : FSt → Nat
  | .done => 0
  | .idle => 1
  | .req s e script => 4 * ((e + 1 - s) + script.length) + 2
  | .send s e k script => 4 * ((e + 1 - s) + script.length) + (if k = 0 then 3 else 1)

def jobWeight (j : Job) : Nat := 4 * ((j.e + 1 - j.s) + j.script.length) + 2

def mu (st : St) : Nat :=
  (st.pending.map jobWeight).sum + (st.fs.map fWeight).sum + st.jobs.length
    + (st.ms.filter (fun b => !b)).length

/-- first enabled worker among fetchers `0..nf-1` then matchers `0..nm-1` -/
def workers (st : St) : List Worker :=
  (List.range st.fs.length).map Worker.f ++ (List.range st.ms.length).map Worker.m

/-- Run to completion: first the given schedule (arbitrary picks; disabled picks are no-ops), then round-robin
    over all workers, `fuel` rounds. With `fuel ≥ mu st` this reaches a finished state
    (`ZV.C17.roundRobin_finishes`). -/
def roundRobin (st : St) : Nat → St
  | 0 => st
  | fuel + 1 => roundRobin (run st (workers st)) fuel

/-! ### 4. `processEntry` / `parseCertificate` on the entry kinds served by the harness -/

inductive Kind where
  | certMatch      -- a  X.509, parses, subject matches the regex
  | certOther      -- b  X.509, parses, subject does not match
  | certNonFatal   -- n  X.509, parses with NonFatalErrors, subject matches
  | certGarbage    -- u  X.509, fatal parse error, not even an ASN.1 Certificate shell
  | certShell      -- v  X.509, fatal parse error, well-formed ASN1Certificate shell
  | preMatch       -- p  precert, parses, matches
  | preOther       -- q  precert, parses, does not match
  | preGarbage     -- r  precert, fatal parse error, no ASN.1 shell
  | preShell       -- s  precert, fatal parse error, ASN.1 shell ok
  deriving Repr, DecidableEq

inductive MatcherKind where
  | all | none | subject
  deriving Repr, DecidableEq

structure Opts where
  precertOnly : Bool
  ignoreParsingErrors : Bool
  matcher : MatcherKind
  deriving Repr, DecidableEq

/-- outcome of `parseCertificate` -/
inductive Parse where
  | ok            -- (cert, nil), no counter
  | nonFatal      -- (cert, nil), entriesWithNonFatalErrors++
  | fatal         -- (nil, err), unparsableEntries++
  | ignored       -- (nil, nil), unparsableEntries++   (IgnoreParsingErrors and the ASN.1 shell parses)
  deriving Repr, DecidableEq

/-- raw facts about the kinds: (isPrecert, parse result class, subject matches regex) -/
def Kind.isPre : Kind → Bool
  | .preMatch | .preOther | .preGarbage | .preShell => true
  | _ => false

def parseCertificate (o : Opts) : Kind → Parse
  | .certMatch | .certOther | .preMatch | .preOther => .ok
  | .certNonFatal => .nonFatal
  | .certGarbage | .preGarbage => .fatal      -- `!IgnoreParsingErrors` ⇒ err; else asn1.Unmarshal fails ⇒ perr
  | .certShell | .preShell => if o.ignoreParsingErrors then .ignored else .fatal

def isMatch (o : Opts) (k : Kind) : Bool :=
  match o.matcher with
  | .all => true
  | .none => false
  | .subject =>
    match k with
    | .certMatch | .certNonFatal | .preMatch => true
    | _ => false

inductive CB where
  | none | cert | precert
  deriving Repr, DecidableEq

/-- counters bumped by one `processEntry`: (precertsSeen, unparsableEntries, entriesWithNonFatalErrors);
    `certsProcessed` is always bumped -/
structure Eff where
  cb : CB
  pre : Nat
  unparsable : Nat
  nonFatal : Nat
  deriving Repr, DecidableEq

def processEntry (o : Opts) (k : Kind) : Eff :=
  if !k.isPre then
    -- case ct.X509LogEntryType
    if o.precertOnly then ⟨.none, 0, 0, 0⟩
    else
      match parseCertificate o k with
      | .fatal => ⟨.none, 0, 1, 0⟩
      | .ignored => ⟨.cert, 0, 1, 0⟩                                   -- cert == nil ⇒ foundCert
      | .ok => ⟨if isMatch o k then .cert else .none, 0, 0, 0⟩
      | .nonFatal => ⟨if isMatch o k then .cert else .none, 0, 0, 1⟩
  else
    -- case ct.PrecertLogEntryType
    match parseCertificate o k with
    | .fatal => ⟨.none, 0, 1, 0⟩                                       -- returns before precertsSeen++
    | .ignored => ⟨.precert, 1, 1, 0⟩
    | .ok => ⟨if isMatch o k then .precert else .none, 1, 0, 0⟩
    | .nonFatal => ⟨if isMatch o k then .precert else .none, 1, 0, 1⟩

/-! ### 5. one `Scanner` value, several `Scan` calls

```go
type Scanner struct { …; certsProcessed, precertsSeen, unparsableEntries, entriesWithNonFatalErrors int64; … }

func (s *Scanner) Scan(…) (int64, error) {
    s.certsProcessed = 0
    s.precertsSeen = 0
    s.unparsableEntries = 0
    s.entriesWithNonFatalErrors = 0
    …
    return int64(s.opts.StartIndex) + s.certsProcessed, nil
```
The counters are fields of the object, not locals of `Scan`: whatever an earlier scan left there is what the
next scan starts from, unless the prologue overwrites it. -/

/-- the four counter fields of a `Scanner` value -/
structure Obj where
  certs : Nat
  precerts : Nat
  unparsable : Nat
  nonFatal : Nat
  deriving Repr, DecidableEq

/-- `NewScanner` (zero-initialised counters) -/
def Obj.new : Obj := ⟨0, 0, 0, 0⟩

/-- the prologue of `Scan` -/
def resetCounters (_ : Obj) : Obj := ⟨0, 0, 0, 0⟩

/-- `init`, for a `Scan` whose workers start counting from the object's current `certsProcessed` -/
def initOn (ob : Obj) (start stop batch nf nm : Nat) (scriptOf : Nat → List Tok) : St :=
  { init start stop batch nf nm scriptOf with counter := ob.certs }

/-- parameters of one `Scan` call (options, the server's behaviour, the schedule the runtime happens to pick) -/
structure ScanCfg where
  start : Nat
  stop : Nat
  batch : Nat
  nf : Nat
  nm : Nat
  scriptOf : Nat → List Tok
  sched : List Worker

/-- one `Scan` call on a `Scanner` value whose counters currently hold `ob`: prologue, then the interleaved run -/
def scanOn (ob : Obj) (c : ScanCfg) : St :=
  run (initOn (resetCounters ob) c.start c.stop c.batch c.nf c.nm c.scriptOf) c.sched

/-- the same `Scan` call on a fresh `Scanner` (what every theorem of sections 3 and 4 talks about) -/
def scanFresh (c : ScanCfg) : St := run (init c.start c.stop c.batch c.nf c.nm c.scriptOf) c.sched

/-- consecutive `Scan` calls on ONE value: (return value, final state) of each; the `certsProcessed` a scan
    leaves behind is what the next one finds (the other three counters do not influence the control flow or the
    return value; the driver threads them the same way) -/
def scanSeq (ob : Obj) : List ScanCfg → List (Nat × St)
  | [] => []
  | c :: cs =>
    let st := scanOn ob c
    (scanReturn c.start st, st) :: scanSeq { ob with certs := st.counter } cs

/-! ### 6. bounded channels and the main goroutine

```go
fetches := make(chan fetchRange, 1000)
jobs := make(chan matcherJob, 100000)
…start matchers, start fetchers…
for r := ranges.Front(); r != nil; r = r.Next() { fetches <- r.Value.(fetchRange) }   // MainPc.feed
close(fetches)
fetcherWG.Wait()                                                                     // MainPc.waitF
close(jobs)
matcherWG.Wait()                                                                     // MainPc.waitM
…
return int64(s.opts.StartIndex) + s.certsProcessed, nil                              // MainPc.ret
```
`BSt.st.pending` is the content of the `fetches` channel, `BSt.queue` the part of the `ranges` list the main
goroutine has not sent yet.  The worker steps are the steps of the unbounded model (`stepF`, `stepM`) guarded by
the blocking conditions of a bounded channel. -/

/-- where the main goroutine of `Scan` is -/
inductive MainPc where
  | feed      -- in the loop `fetches <- r` (or about to `close(fetches)`)
  | waitF     -- `fetches` closed; in `fetcherWG.Wait()`
  | waitM     -- `jobs` closed; in `matcherWG.Wait()`
  | ret       -- returned
  deriving Repr, DecidableEq

structure BSt where
  capF  : Nat          -- capacity of `fetches`
  capJ  : Nat          -- capacity of `jobs`
  queue : List Job     -- ranges not yet sent by the main goroutine
  pc    : MainPc
  st    : St           -- `st.pending` = content of the `fetches` channel
  deriving Repr, DecidableEq

inductive BWorker where
  | main
  | f (i : Nat)
  | m (j : Nat)
  deriving Repr, DecidableEq

/-- one atomic step of the main goroutine -/
def bstepMain (b : BSt) : BSt :=
  match b.pc with
  | .feed =>
    match b.queue with
    | j :: rest =>
      if b.st.pending.length < b.capF then { b with queue := rest, st := { b.st with pending := b.st.pending ++ [j] } }
      else b                                              -- `fetches <- r` blocks: channel full
    | [] => { b with pc := .waitF }                       -- `close(fetches)`
  | .waitF => if allDone b.st.fs then { b with pc := .waitM } else b          -- `fetcherWG.Wait(); close(jobs)`
  | .waitM => if b.st.ms.all (fun x => x) then { b with pc := .ret } else b   -- `matcherWG.Wait(); … return`
  | .ret => b

/-- one atomic step of fetcher `i`: `stepF`, except that receiving from the empty, still open `fetches` channel
    and sending to the full `jobs` channel block -/
def bstepF (i : Nat) (b : BSt) : BSt :=
  match b.st.fs[i]? with
  | some .idle =>
    match b.st.pending with
    | [] => if b.pc = .feed then b else { b with st := stepF i b.st }
    | _ :: _ => { b with st := stepF i b.st }
  | some (.send _ _ (_ + 1) _) => if b.st.jobs.length < b.capJ then { b with st := stepF i b.st } else b
  | _ => { b with st := stepF i b.st }

/-- one atomic step of matcher `j`: receive and process, or return when `jobs` is closed (the main goroutine is
    past `close(jobs)`) and empty; otherwise blocked -/
def bstepM (j : Nat) (b : BSt) : BSt :=
  match b.st.ms[j]? with
  | some false =>
    match b.st.jobs with
    | x :: rest => { b with st := { b.st with jobs := rest, processed := x :: b.st.processed, counter := b.st.counter + 1 } }
    | [] =>
      match b.pc with
      | .feed => b
      | .waitF => b
      | _ => { b with st := { b.st with ms := b.st.ms.set j true } }
  | _ => b

def bstep (w : BWorker) (b : BSt) : BSt :=
  match w with
  | .main => bstepMain b
  | .f i => bstepF i b
  | .m j => bstepM j b

def brun (b : BSt) : List BWorker → BSt
  | [] => b
  | w :: ws => brun (bstep w b) ws

/-- can `w` move? (`false` = returned, or blocked on a channel / wait group) -/
def benabled (w : BWorker) (b : BSt) : Bool :=
  match w with
  | .main =>
    match b.pc with
    | .feed => b.queue.isEmpty || b.st.pending.length < b.capF
    | .waitF => allDone b.st.fs
    | .waitM => b.st.ms.all (fun x => x)
    | .ret => false
  | .f i =>
    match b.st.fs[i]? with
    | none => false
    | some .done => false
    | some .idle => !b.st.pending.isEmpty || b.pc != .feed
    | some (.send _ _ (_ + 1) _) => b.st.jobs.length < b.capJ
    | some _ => true
  | .m j =>
    match b.st.ms[j]? with
    | some false => !b.st.jobs.isEmpty || b.pc == .waitM || b.pc == .ret
    | _ => false

/-- `Scan` has returned -/
def bfinished (b : BSt) : Bool := b.pc == .ret

/-- the state of the UNBOUNDED model a bounded state stands for: what is still in the `ranges` list counts as
    not yet taken -/
def babs (b : BSt) : St := { b.st with pending := b.st.pending ++ b.queue }

/-- state after `Scan` has built the range list and started the workers, before the first `fetches <- r` -/
def binitOn (ob : Obj) (capF capJ start stop batch nf nm : Nat) (scriptOf : Nat → List Tok) : BSt :=
  { capF := capF, capJ := capJ,
    queue := (ranges start stop batch).map (fun r => ⟨r.1, r.2, scriptOf r.2⟩),
    pc := .feed,
    st := { pending := [], fs := List.replicate nf .idle, jobs := [], ms := List.replicate nm false,
            processed := [], counter := ob.certs, reqlog := [] } }

def binit (capF capJ start stop batch nf nm : Nat) (scriptOf : Nat → List Tok) : BSt :=
  binitOn Obj.new capF capJ start stop batch nf nm scriptOf

def pcWeight : MainPc → Nat
  | .feed => 3 | .waitF => 2 | .waitM => 1 | .ret => 0

/-- termination measure of the bounded model -/
def bmu (b : BSt) : Nat := mu (babs b) + b.queue.length + pcWeight b.pc

def bworkers (b : BSt) : List BWorker :=
  BWorker.main :: ((List.range b.st.fs.length).map BWorker.f ++ (List.range b.st.ms.length).map BWorker.m)

def broundRobin (b : BSt) : Nat → BSt
  | 0 => b
  | fuel + 1 => broundRobin (brun b (bworkers b)) fuel

/-- the main goroutine's synchronisation statements, in the order the bounded model implements them:
    `binit` is the state after `startFetchers`; `bstepMain` does `feed`* `closeFetches` | `waitFetchers closeJobs` |
    `waitMatchers ret` -/
inductive MainOp where
  | resetCounter | makeFetches | makeJobs | goTicker | startMatchers | startFetchers
  | feed | closeFetches | waitFetchers | closeJobs | waitMatchers | stopTicker | ret
  deriving Repr, DecidableEq

def mainProgram : List MainOp :=
  [.resetCounter, .resetCounter, .resetCounter, .resetCounter, .makeFetches, .makeJobs, .goTicker,
   .startMatchers, .startFetchers, .feed, .closeFetches, .waitFetchers, .closeJobs, .waitMatchers, .stopTicker, .ret]

end ZV.C17
