import ZV.Base
import ZV.Generated.C33
/-!
  Model of the JSON encoders / decoders (`MarshalJSON` / `UnmarshalJSON`) of the
  enumerated zcrypto value types, branch for branch, over the name tables of
  `ZV.Generated.C33` (dumped from the tree on every check run).

  `encoding/json` itself is TRUSTED: a JSON object is modelled as the record of
  the fields the zcrypto code puts into / reads out of its `aux` struct
  (strings as `List Char`, numbers as `Int`/`Nat`; an `omitempty` string that is
  empty is the same as an absent member, exactly as for `encoding/json`).
  The integer typing of a member (`uint8`, `uint16`, `uint32`, `int`) that
  `json.Unmarshal` enforces is part of the decoders below (`inRange`).

  Strings are `List Char` everywhere so that the table theorems can be
  evaluated by `decide`.
-/
namespace ZV.C33
open ZV.C33.Gen

abbrev Str := List Char

/-! ### tables -/

/-- Go map lookup `m[k]` (`name, ok := …`). -/
def lookup (t : List (Nat × Str)) (k : Nat) : Option Str :=
  match t with
  | [] => none
  | (k', n) :: r => if k' = k then some n else lookup r k

/-- `for k, v := range m { if v == n { return k } }` — first hit in key order
    (Go's order is random; `names_injective` makes the result order-independent). -/
def rlookup (t : List (Nat × Str)) (n : Str) : Option Nat :=
  match t with
  | [] => none
  | (k, n') :: r => if n' = n then some k else rlookup r n

/-- Go map lookup with string keys. -/
def slookup (t : List (Str × Nat)) (n : Str) : Option Nat :=
  match t with
  | [] => none
  | (n', k) :: r => if n' = n then some k else slookup r n

def names (t : List (Nat × Str)) : List Str := t.map (·.2)
def keys (t : List (Nat × Str)) : List Nat := t.map (·.1)

def unknown : Str := "unknown".toList
def unknownDot : Str := "unknown.".toList

/-! ### strconv -/

def digitChar (d : Nat) : Char := Char.ofNat (48 + d)

def natToDecAux : Nat → Nat → Str → Str
  | 0, _, acc => acc
  | f + 1, n, acc =>
    if n / 10 = 0 then digitChar (n % 10) :: acc
    else natToDecAux f (n / 10) (digitChar (n % 10) :: acc)

/-- `strconv.Itoa` of a non-negative number. -/
def natToDec (n : Nat) : Str := natToDecAux (n + 1) n []

/-- `strconv.Itoa`. -/
def intToDec (i : Int) : Str :=
  if i < 0 then '-' :: natToDec (-i).toNat else natToDec i.toNat

def digitVal (c : Char) : Option Nat :=
  if 48 ≤ c.toNat ∧ c.toNat ≤ 57 then some (c.toNat - 48) else none

def parseDigitsAux : Str → Nat → Option Nat
  | [], acc => some acc
  | c :: r, acc =>
    match digitVal c with
    | some d => parseDigitsAux r (acc * 10 + d)
    | none => none

/-- one or more decimal digits (arbitrary size). -/
def parseDigits (s : Str) : Option Nat :=
  match s with
  | [] => none
  | _ :: _ => parseDigitsAux s 0

/-- `v, _ := strconv.ParseInt(s, 10, 32)`: the value the code keeps when it
    ignores the error — 0 on a syntax error, the clamped bound on a range error. -/
def parseInt32Lossy (s : Str) : Int :=
  match s with
  | [] => 0
  | c :: r =>
    let neg := c = '-'
    let body := if c = '+' ∨ c = '-' then r else s
    match parseDigits body with
    | none => 0
    | some n =>
      if neg then (if n > 2147483648 then -2147483648 else - (Int.ofNat n))
      else (if n ≥ 2147483648 then 2147483647 else Int.ofNat n)

/-- `strconv.Atoi` (64-bit int): `none` = error. -/
def atoi (s : Str) : Option Int :=
  match s with
  | [] => none
  | c :: r =>
    let neg := c = '-'
    let body := if c = '+' ∨ c = '-' then r else s
    match parseDigits body with
    | none => none
    | some n =>
      if neg then (if n > 9223372036854775808 then none else some (- (Int.ofNat n)))
      else (if n ≥ 9223372036854775808 then none else some (Int.ofNat n))

/-- Go conversion `uint8(x)` of a signed integer. -/
def toUint8 (i : Int) : Nat := (i % 256).toNat
/-- Go conversion `uint16(x)` of a signed integer. -/
def toUint16 (i : Int) : Nat := (i % 65536).toNat

/-- `strings.Split(s, ".")` (always at least one part). -/
def splitDot : Str → List Str
  | [] => [[]]
  | c :: r =>
    if c = '.' then [] :: splitDot r
    else
      match splitDot r with
      | [] => [[c]]
      | p :: ps => (c :: p) :: ps

def joinDot : List Str → Str
  | [] => []
  | [a] => a
  | a :: b :: r => a ++ '.' :: joinDot (b :: r)

def hexUpperDigit (n : Nat) : Char :=
  if n < 10 then Char.ofNat (48 + n) else Char.ofNat (55 + n)

/-- `"0x" + strings.ToUpper(hex.EncodeToString([]byte{b}))` -/
def hex8 (v : Nat) : Str := ['0', 'x', hexUpperDigit (v / 16 % 16), hexUpperDigit (v % 16)]
/-- `"0x" + strings.ToUpper(hex.EncodeToString([]byte{v>>8, v}))` -/
def hex16 (v : Nat) : Str :=
  ['0', 'x', hexUpperDigit (v / 4096 % 16), hexUpperDigit (v / 256 % 16), hexUpperDigit (v / 16 % 16), hexUpperDigit (v % 16)]

/-- the integer typing `json.Unmarshal` enforces on a number member. -/
def inRange (lo hi : Int) (i : Int) : Bool := lo ≤ i ∧ i ≤ hi

def int64Min : Int := -9223372036854775808
def int64Max : Int := 9223372036854775807

/-! ### abstract JSON records -/

/-- `{"name": …, "value": …}` (TLSVersion) and `{"hex","name","value"}` (suite, compression, curve, point format; `hex = none` for TLSVersion). -/
structure NameValue where
  hex : Option Str
  name : Str
  value : Int
  deriving Repr, DecidableEq

/-! ### tls.TLSVersion (tls_handshake.go, tls_names.go) -/

/-- `TLSVersion.String()` — a switch in the source; dumped as a table plus default. -/
def tlsVersionString (v : Nat) : Str :=
  match lookup tlsVersionNames v with
  | some n => n
  | none => tlsVersionDefault

def tlsVersionEncode (v : Nat) : NameValue :=
  { hex := none, name := tlsVersionString v, value := Int.ofNat v }

/-- `aux.Value` is an `int`; `*v = TLSVersion(aux.Value)` truncates; the name is checked afterwards. -/
def tlsVersionDecode (j : NameValue) : Res Nat :=
  if !inRange int64Min int64Max j.value then .err
  else
    let v := toUint16 j.value
    if tlsVersionString v ≠ j.name then .err else .ok v

/-! ### tls.CipherSuiteID -/

def cipherSuiteString (cs : Nat) : Str :=
  match lookup cipherSuiteNames cs with
  | some n => n
  | none => unknown

/-- `nameForSuite(cs uint16)` = `CipherSuiteID(cs).String()` -/
def nameForSuite (cs : Nat) : Str := cipherSuiteString cs

def cipherSuiteEncode (cs : Nat) : NameValue :=
  { hex := some (hex16 cs), name := cipherSuiteString cs, value := Int.ofNat cs }

def cipherSuiteDecode (j : NameValue) : Res Nat :=
  if !inRange 0 65535 j.value then .err
  else
    let v := j.value.toNat
    if nameForSuite v ≠ j.name then .err else .ok v

/-! ### tls.CompressionMethod -/

def compressionString (cm : Nat) : Str :=
  match lookup compressionNames cm with
  | some n => n
  | none => unknown

def nameForCompressionMethod (cm : Nat) : Str := compressionString cm

def compressionEncode (cm : Nat) : NameValue :=
  { hex := some (hex8 cm), name := compressionString cm, value := Int.ofNat cm }

def compressionDecode (j : NameValue) : Res Nat :=
  if !inRange 0 255 j.value then .err
  else
    let v := j.value.toNat
    if nameForCompressionMethod v ≠ j.name then .err else .ok v

/-! ### tls.CurveID -/

def curveString (c : Nat) : Str :=
  match lookup curveNames c with
  | some n => n
  | none => unknown

def nameForCurve (c : Nat) : Str := curveString c

def curveEncode (c : Nat) : NameValue :=
  { hex := some (hex16 c), name := curveString c, value := Int.ofNat c }

def curveDecode (j : NameValue) : Res Nat :=
  if !inRange 0 65535 j.value then .err
  else
    let v := j.value.toNat
    if nameForCurve v ≠ j.name then .err else .ok v

/-! ### tls.PointFormat -/

def pointFormatString (p : Nat) : Str :=
  match lookup pointFormatNames p with
  | some n => n
  | none => unknown

def nameForPointFormat (p : Nat) : Str := pointFormatString p

def pointFormatEncode (p : Nat) : NameValue :=
  { hex := some (hex8 p), name := pointFormatString p, value := Int.ofNat p }

def pointFormatDecode (j : NameValue) : Res Nat :=
  if !inRange 0 255 j.value then .err
  else
    let v := j.value.toNat
    if nameForPointFormat v ≠ j.name then .err else .ok v

/-! ### tls.SignatureAndHash (tls_ka.go, tls_names.go) — decoded BY NAME -/

def nameForSignature (s : Nat) : Str :=
  match lookup signatureNames s with
  | some n => n
  | none => unknownDot ++ natToDec s

def nameForHash (h : Nat) : Str :=
  match lookup hashNames h with
  | some n => n
  | none => unknownDot ++ natToDec h

/-- `strings.TrimPrefix(n, "unknown.")` -/
def trimUnknown (n : Str) : Str :=
  if unknownDot.isPrefixOf n then n.drop unknownDot.length else n

/-- `signatureToName` (sic): name → code, falling back to the number after `unknown.`, truncated to uint8. -/
def signatureToName (n : Str) : Nat :=
  match rlookup signatureNames n with
  | some k => k
  | none => toUint8 (parseInt32Lossy (trimUnknown n))

def hashToName (n : Str) : Nat :=
  match rlookup hashNames n with
  | some k => k
  | none => toUint8 (parseInt32Lossy (trimUnknown n))

structure SigHashJSON where
  signature_algorithm : Str
  hash_algorithm : Str
  deriving Repr, DecidableEq

def sigHashEncode (sig hash : Nat) : SigHashJSON :=
  { signature_algorithm := nameForSignature sig, hash_algorithm := nameForHash hash }

/-- never fails (apart from `encoding/json` errors). -/
def sigHashDecode (j : SigHashJSON) : Res (Nat × Nat) :=
  .ok (signatureToName j.signature_algorithm, hashToName j.hash_algorithm)

/-! ### tls.ClientAuthType (common.go, common_string.go) — a JSON string, decoded BY NAME -/

def clientAuthParen (i : Int) : Str := "ClientAuthType(".toList ++ intToDec i ++ [')']

/-- stringer-generated `String()`. -/
def clientAuthString (i : Int) : Str :=
  if i < 0 then clientAuthParen i
  else
    match lookup clientAuthStringer i.toNat with
    | some n => n
    | none => clientAuthParen i

def clientAuthEncode (i : Int) : Str := clientAuthString i

/-- after `fix:` D16 — look the name up in `clientAuthTypeNames`, error when unknown
    (before the fix: `panic("unimplemented")`). -/
def clientAuthDecode (s : Str) : Res Int :=
  match rlookup clientAuthTypeNames s with
  | some k => .ok (Int.ofNat k)
  | none => .err

/-! ### x509.KeyUsage (x509/json.go) — decoded by value -/

structure KeyUsageJSON where
  flags : List Bool      -- digital_signature … decipher_only (9 members, omitempty)
  value : Int
  deriving Repr, DecidableEq

/-- `k & (1<<i) > 0` for a Go `int` (two's complement): bit i of `k mod 2^64`, and the
    masked value must be positive as a signed int — for i ≤ 8 that is just "bit set". -/
def bitSet (k : Int) (i : Nat) : Bool := ((k % 18446744073709551616).toNat / 2 ^ i) % 2 = 1

def keyUsageEncode (k : Int) : KeyUsageJSON :=
  { flags := (List.range 9).map (bitSet k), value := k % 4294967296 }

def keyUsageDecode (j : KeyUsageJSON) : Res Int :=
  if !inRange 0 4294967295 j.value then .err else .ok j.value

/-! ### json.TLSCurveID (json/ecdhe.go) — decoded by id, name ignored -/

def tlsCurveDescription (c : Nat) : Str :=
  match lookup ecIDToName c with
  | some n => n
  | none => unknown

structure NameID where
  name : Str
  id : Int
  deriving Repr, DecidableEq

def tlsCurveIDEncode (c : Nat) : NameID := { name := tlsCurveDescription c, id := Int.ofNat c }

def tlsCurveIDDecode (j : NameID) : Res Nat :=
  if !inRange 0 65535 j.id then .err else .ok j.id.toNat

/-! ### x509.PublicKeyAlgorithm (x509/json.go, names.go) — decoded BY NAME -/

/-- `PublicKeyAlgorithm.String()`: out of range ⇒ index 0; `keyAlgorithmNames[p]` panics when the slice is too short. -/
def publicKeyAlgorithmString (p : Int) : Res Str :=
  let q : Nat := if p ≥ Int.ofNat totalKeyAlgorithms ∨ p < 0 then 0 else p.toNat
  match keyAlgorithmNames[q]? with
  | some n => .ok n
  | none => .panic

/-- `{"name": …}` (`omitempty`: "" ≙ absent; the `oid` member is never written). -/
def publicKeyAlgorithmEncode (p : Int) : Res Str := publicKeyAlgorithmString p

/-- `*p = publicKeyNameToAlgorithm[aux.Name]` (zero value when absent). -/
def publicKeyAlgorithmDecode (name : Str) : Res Int :=
  match slookup publicKeyNameToAlgorithm name with
  | some k => .ok (Int.ofNat k)
  | none => .ok 0

/-! ### x509.SignatureAlgorithm (x509/json.go) and pkix.AuxOID (pkix/oid.go) — decoded by OID, then name for RSA-PSS -/

/-- `SignatureAlgorithm.String()` -/
def signatureAlgorithmString (a : Int) : Str :=
  if 0 < a ∧ a < Int.ofNat algoName.length then
    match algoName[a.toNat]? with
    | some n => n
    | none => []          -- unreachable (bounds checked above)
  else intToDec a

/-- `asn1.ObjectIdentifier.String()` -/
def oidString (o : List Nat) : Str := joinDot (o.map natToDec)

/-- the loop in MarshalJSON has no `break`: the LAST row whose algo matches wins; none ⇒ nil OID. -/
def sigAlgOID (a : Int) : List Nat :=
  signatureAlgorithmDetails.foldl (fun acc row => if Int.ofNat row.1 = a then row.2 else acc) []

structure SigAlgJSON where
  name : Str      -- omitempty
  oid : Str       -- AuxOID in dot notation
  deriving Repr, DecidableEq

def signatureAlgorithmEncode (a : Int) : SigAlgJSON :=
  { name := signatureAlgorithmString a, oid := oidString (sigAlgOID a) }

def atoiNonNeg : List Str → Option (List Nat)
  | [] => some []
  | p :: ps =>
    match atoi p with
    | none => none
    | some n => if n < 0 then none else
      match atoiNonNeg ps with
      | none => none
      | some r => some (n.toNat :: r)

/-- `AuxOID.UnmarshalJSON`: split on ".", `strconv.Atoi` every part, reject negatives.  NOTE the empty
    string (which `AuxOID.MarshalJSON` writes for the empty OID) splits into one empty part and is REJECTED
    (finding D24; the existing test TestSignatureAlgorithmJSON pins this behaviour). -/
def auxOIDDecode (s : Str) : Option (List Nat) := atoiNonNeg (splitDot s)

def pssAlgs : List Nat := [13, 14, 15]   -- SHA256WithRSAPSS, SHA384WithRSAPSS, SHA512WithRSAPSS (literal in UnmarshalJSON)

def firstWithName (l : List Nat) (n : Str) : Option Nat :=
  match l with
  | [] => none
  | a :: r => if signatureAlgorithmString (Int.ofNat a) = n then some a else firstWithName r n

def firstWithOID (t : List (Nat × List Nat)) (o : List Nat) : Option Nat :=
  match t with
  | [] => none
  | (a, o') :: r => if o' = o then some a else firstWithOID r o

def signatureAlgorithmDecode (j : SigAlgJSON) : Res Int :=
  match auxOIDDecode j.oid with
  | none => .err
  | some oid =>
    if oid = oidSignatureRSAPSS then
      match firstWithName pssAlgs j.name with
      | some a => .ok (Int.ofNat a)
      | none => .ok 0
    else
      match firstWithOID signatureAlgorithmDetails oid with
      | some a => .ok (Int.ofNat a)
      | none => .ok 0

/-! ### json.cryptoParameter, json.ECPoint, json.DHParams (json/dhe.go, json/ecdhe.go)

  A `*big.Int` is `Option Nat` (`none` = nil pointer; the parameters are non-negative).  The `[]byte` member
  `value` is base64 text on the wire — that is `encoding/json`'s business; the record holds the bytes
  (`none` = JSON null, which is what a nil slice marshals to). -/

def natBytesAux : Nat → Nat → Bytes → Bytes
  | 0, _, acc => acc
  | f + 1, n, acc => if n = 0 then acc else natBytesAux f (n / 256) (UInt8.ofNat (n % 256) :: acc)

/-- `(*big.Int).Bytes()`: minimal big-endian, empty for 0. -/
def natBytes (n : Nat) : Bytes := natBytesAux n n []

def bytesNatFrom (a : Nat) : Bytes → Nat
  | [] => a
  | b :: r => bytesNatFrom (a * 256 + b.toNat) r

/-- `(*big.Int).SetBytes()`: big-endian, leading zeros allowed. -/
def bytesNat (b : Bytes) : Nat := bytesNatFrom 0 b

/-- a nil REQUIRED parameter is written as the zero parameter: it reads back as 0. -/
def nilAsZero : Option Nat → Nat
  | none => 0
  | some n => n

structure ParamJSON where
  value : Option Bytes
  length : Int
  deriving Repr, DecidableEq

/-- `cryptoParameter.MarshalJSON`: a nil Int leaves `aux` zero (`{"value":null,"length":0}`). -/
def cryptoParamEncode (p : Option Nat) : ParamJSON :=
  match p with
  | none => { value := none, length := 0 }
  | some n => { value := some (natBytes n), length := Int.ofNat (8 * (natBytes n).length) }

/-- `cryptoParameter.UnmarshalJSON`: always a fresh Int set from the bytes; `length` is not looked at. -/
def cryptoParamDecode (j : ParamJSON) : Nat :=
  match j.value with
  | none => bytesNat []
  | some b => bytesNat b

/-- `{"x": …, "y": …}`; `none` = member absent (or null): the `*cryptoParameter` stays nil. -/
structure PointJSON where
  x : Option ParamJSON
  y : Option ParamJSON
  deriving Repr, DecidableEq

/-- `ECPoint.MarshalJSON`: x always written (a nil X as the zero parameter), y only when non-nil (`omitempty`). -/
def ecPointEncode (x y : Option Nat) : PointJSON :=
  { x := some (cryptoParamEncode x),
    y := match y with
         | none => none
         | some n => some (cryptoParamEncode (some n)) }

/-- `ECPoint.UnmarshalJSON` into a fresh point, after `fix:` D10 (nil checks; before it a missing
    member was dereferenced: `Res.panic`). -/
def ecPointDecode (j : PointJSON) : Res (Option Nat × Option Nat) :=
  .ok (match j.x with
       | none => none
       | some p => some (cryptoParamDecode p),
       match j.y with
       | none => none
       | some p => some (cryptoParamDecode p))

/-- `DHParams`: prime and generator always written, the five others only when non-nil. -/
def dhEncode (req : List (Option Nat)) (opt : List (Option Nat)) : List (Option ParamJSON) :=
  req.map (fun p => some (cryptoParamEncode p)) ++
  opt.map (fun p => match p with
                    | none => none
                    | some n => some (cryptoParamEncode (some n)))

/-- `DHParams.UnmarshalJSON` into a fresh value: each member copied when present. -/
def dhDecode (j : List (Option ParamJSON)) : List (Option Nat) :=
  j.map (fun m => match m with
                  | none => none
                  | some p => some (cryptoParamDecode p))

end ZV.C33
