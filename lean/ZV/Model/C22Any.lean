import ZV.Model.C22Der
import ZV.Model.Time
/-!
  The PARSE direction of C22 on DER that `asn1.Marshal` did not produce (names of real certificates: IA5String e-mail
  addresses and domain components, T61String / BMPString / NumericString values, INTEGER / BIT STRING / OID / time /
  OCTET STRING values, unknown tags): `asn1.Unmarshal(der, &seq)` with `seq pkix.RDNSequence`, then
  `FillFromRDNSequence(&seq)`.

  The attribute value has Go type `interface{}`; `parseField` handles it in its "ANY" arm (asn1.go, `// Deal with the ANY
  type.`): `parseTagAndLength`, `invalidLength`, then — for a primitive element of the universal class — a `switch t.tag`
  that calls one content parser per tag and stores its result; every other element leaves the interface nil.
  `anyTable` is that switch (T1: `Gen.anyArm` is extracted from asn1.go with go/ast, `any_arm_matches_source`), `runAny` the
  content parsers (the functions of `ZV.Model.C18` / `ZV.Model.Time`, unchanged), `anyOf` the arm after the header.

  The header part of the arm (tag, length, truncation check, the content and the bytes consumed) is exactly what
  `parseField` does for a field of Go type `asn1.RawValue` (`matchAny`: no class/tag/compound expectation, same
  `invalidLength` check), so the element structure is parsed with the deep-embedded C18 model on the schema
  `rdnRawSchema` = SEQUENCE OF SET OF SEQUENCE {OID, RawValue} and `anyOf` is applied to every captured element, in document
  order.  Both steps only fail or succeed (no partial result is observable), so the order in which the two kinds of error
  are found is not observable either.  T2 stream `c22 u <der>` runs the REAL `asn1.Unmarshal` into a `pkix.RDNSequence`.

  Non-string results are kept as `AVal.other tag raw` with a canonical `raw` the harness can print from the Go value:
  int64 → 8 bytes big-endian two's complement (tag 2); BitString → padding-bit count followed by the bytes (3); []byte →
  the bytes (4); nil → tag 5, empty; ObjectIdentifier → its dotted-decimal text (6); time.Time → Unix seconds, 8 bytes (23).
-/
namespace ZV.C22

open ZV.C18 (Schema Val)

/-- the callee of one `case TagX:` of the ANY arm -/
inductive AnyP where
  | printable | numeric | ia5 | t61 | utf8 | int64 | bits | oid | utc | gen | octets | bmp
  deriving Repr, DecidableEq

/-- what the arm's statement calls (`result = innerBytes` for OCTET STRING) -/
def AnyP.goName : AnyP → String
  | .printable => "parsePrintableString" | .numeric => "parseNumericString" | .ia5 => "parseIA5String"
  | .t61 => "parseT61String" | .utf8 => "parseUTF8String" | .int64 => "parseInt64" | .bits => "parseBitString"
  | .oid => "parseObjectIdentifier" | .utc => "parseUTCTime" | .gen => "parseGeneralizedTime"
  | .octets => "innerBytes" | .bmp => "parseBMPString"

/-- `switch t.tag { case TagX: result, err = parseX(innerBytes) … default: }` in source order -/
def anyTable : List (Nat × AnyP) := [
  (19, .printable), (18, .numeric), (22, .ia5), (20, .t61), (12, .utf8), (2, .int64), (3, .bits), (6, .oid),
  (23, .utc), (24, .gen), (4, .octets), (30, .bmp)]

/-- the parsers whose result is a Go `string` -/
def AnyP.isString : AnyP → Bool
  | .printable | .numeric | .ia5 | .t61 | .utf8 | .bmp => true
  | _ => false

/-- the interface stays nil -/
def nilVal : AVal := .other 5 []

/-- 8 bytes big-endian two's complement of an int64 -/
def be8 (i : Int) : Bytes :=
  let n := (i % 18446744073709551616).toNat
  [UInt8.ofNat (n / 72057594037927936), UInt8.ofNat (n / 281474976710656 % 256), UInt8.ofNat (n / 1099511627776 % 256),
   UInt8.ofNat (n / 4294967296 % 256), UInt8.ofNat (n / 16777216 % 256), UInt8.ofNat (n / 65536 % 256),
   UInt8.ofNat (n / 256 % 256), UInt8.ofNat (n % 256)]

/-- a content parser returning a Go string -/
def strRes : Res Val → Res AVal
  | .ok (.bytes s) => .ok (.str s)
  | .ok _ => .err
  | .err => .err
  | .panic => .panic

def timeRes : Res Time.GoTime → Res AVal
  | .ok t => .ok (.other 23 (be8 t.unix))
  | .err => .err
  | .panic => .panic

/-- one `case` of the switch (strict mode: `AllowPermissiveParsing` is false) -/
def runAny (p : AnyP) (inner : Bytes) : Res AVal :=
  match p with
  | .printable => strRes (C18.parsePrintableString false inner)
  | .numeric => strRes (C18.parseNumericString false inner)
  | .ia5 => strRes (C18.parseIA5String false inner)
  | .t61 => strRes (C18.parseT61String inner)
  | .utf8 => strRes (C18.parseUTF8String false inner)
  | .bmp => strRes (C18.parseBMPString inner)
  | .int64 =>
    (match C18.parseInt64 false inner with
     | .ok i => .ok (.other 2 (be8 i))
     | .err => .err
     | .panic => .panic)
  | .bits =>
    (match C18.parseBitString inner with
     | .ok (.bits data bitLen) => .ok (.other 3 (UInt8.ofNat ((data.length * 8 : Nat) - bitLen).toNat :: data))
     | .ok _ => .err
     | .err => .err
     | .panic => .panic)
  | .oid =>
    (match C18.parseOID inner with
     | .ok (.oid arcs) => .ok (.other 6 (".".intercalate (arcs.map toString)).toUTF8.toList)
     | .ok _ => .err
     | .err => .err
     | .panic => .panic)
  | .utc => timeRes (Time.EA.parseTimeBody false 23 inner)
  | .gen => timeRes (Time.EA.parseTimeBody false 24 inner)
  | .octets => .ok (.other 4 inner)

def lookupAny (tag : Nat) : List (Nat × AnyP) → Option AnyP
  | [] => none
  | (t, p) :: rest => if tag = t then some p else lookupAny tag rest

/-- the ANY arm after the header: `if !t.isCompound && t.class == ClassUniversal { switch t.tag {…} }` -/
def anyOf (cls tag : Nat) (compound : Bool) (inner : Bytes) : Res AVal :=
  if !compound && cls == 0 then
    match lookupAny tag anyTable with
    | some p => runAny p inner
    | none => .ok nilVal
  else .ok nilVal

/-- `pkix.AttributeTypeAndValue` with the value captured as an element -/
def atvRawSchema : Schema := .struct (.fcons {} .oid (.fcons {} .raw .fnil))

/-- `pkix.RDNSequence`, element structure only -/
def rdnRawSchema : Schema := .seqOf false (.seqOf true atvRawSchema)

/-- one captured attribute → Go value -/
def atvOfRaw : Val → Res ATV
  | .vcons (.oid arcs) (.vcons (.raw cls tag comp bs _) .vnil) =>
    (match anyOf cls tag comp bs with
     | .ok v => .ok { type := arcs.map Int.toNat, value := v }
     | .err => .err
     | .panic => .panic)
  | _ => .err

/-- all elements in document order, first failure wins -/
def mapRes {α β : Type} (f : α → Res β) : List α → Res (List β)
  | [] => .ok []
  | x :: r =>
    match f x with
    | .ok y =>
      (match mapRes f r with
       | .ok ys => .ok (y :: ys)
       | .err => .err
       | .panic => .panic)
    | .err => .err
    | .panic => .panic

def valToSeqAny (v : Val) : Res RDNSeq := mapRes (fun r => mapRes atvOfRaw (velems r)) (velems v)

/-- `var seq pkix.RDNSequence; rest, err := asn1.Unmarshal(der, &seq)` for ARBITRARY bytes (strict mode) -/
def unmarshalAny (der : Bytes) : Res (RDNSeq × Bytes) :=
  match C18.unmarshal false rdnRawSchema {} der with
  | .ok (v, rest) =>
    (match valToSeqAny v with
     | .ok seq => .ok (seq, rest)
     | .err => .err
     | .panic => .panic)
  | .err => .err
  | .panic => .panic

/-- every value is a Go string -/
def allStrings (seq : RDNSeq) : Bool := seq.all (fun r => r.all (fun a => match a.value with | .str _ => true | .other _ _ => false))

end ZV.C22
