import ZV.Model.C04
/-!
  Model of the revocation-entry handling of `x509.CreateRevocationList` / `x509.ParseRevocationList`
  (x509/x509.go, x509/crl_parser.go):

  * reason-code synthesis: every user-supplied `reasonCode` (2.5.29.21) entry extension is dropped, the
    remaining extra extensions keep their order, and a `reasonCode` extension holding `ENUMERATED n` is appended
    iff `ReasonCode` is non-nil and non-zero;
  * entry encoding `SEQUENCE { serial INTEGER, revocationDate Time, crlEntryExtensions SEQUENCE OF Extension OPTIONAL }`
    (extensions omitted when the list is empty; UTCTime for years 1950..2049, GeneralizedTime otherwise);
  * entry parsing as the cryptobyte walk does it, `ReasonCode` from the (last) reasonCode extension;
  * the CRL-number rule (at most 20 octets, top bit clear when exactly 20) and its INTEGER encoding.
-/
namespace ZV.C05
open ZV ZV.Der ZV.C06 ZV.C04

structure EExt where
  oid : List Nat
  critical : Bool
  value : Bytes
  deriving Repr, DecidableEq

structure Entry where
  serial : Int
  time : Bytes            -- 14 ASCII digits YYYYMMDDHHMMSS (UTC)
  reason : Option Int
  extras : List EExt
  deriving Repr, DecidableEq

def reasonOID : List Nat := [2, 5, 29, 21]

/-- minimal two's-complement INTEGER contents of an arbitrary integer (`marshalBigInt`) -/
def encBigInt (i : Int) : Bytes :=
  let l := intLen (i.natAbs.log2 + 2) i
  beBytes l (if i < 0 then (i + (256 : Int) ^ l).toNat else i.toNat)

def reasonExt (n : Int) : EExt := ⟨reasonOID, false, tlv 0x0A (encBigInt n)⟩

/-- ReasonCode as the parser will report it: nil and 0 are not encoded. -/
def normReason : Option Int → Option Int
  | none => none
  | some n => if n = 0 then none else some n

/-- the extension list `CreateRevocationList` gives an entry -/
def synthExts (e : Entry) : List EExt :=
  e.extras.filter (fun x => x.oid != reasonOID) ++
    (match normReason e.reason with
     | none => []
     | some n => [reasonExt n])

def encExtension (x : EExt) : Option Bytes :=
  match encOID x.oid with
  | some o => some (tlv 0x30 (tlv 0x06 o ++ (if x.critical then tlv 0x01 [0xff] else []) ++ tlv 0x04 x.value))
  | none => none

def yearOf (t : Bytes) : Nat := (t.take 4).foldl (fun acc d => acc * 10 + (d.toNat - 48)) 0

/-- `time.Time` member: UTCTime for 1950..2049, else GeneralizedTime -/
def encTime (t : Bytes) : Bytes :=
  let y := yearOf t
  if 1950 ≤ y ∧ y < 2050 then tlv 0x17 (t.drop 2 ++ [0x5a]) else tlv 0x18 (t ++ [0x5a])

def encEntry (e : Entry) : Option Bytes :=
  match (synthExts e).mapM encExtension with
  | some xs =>
    some (tlv 0x30 (tlv 0x02 (encBigInt e.serial) ++ encTime e.time ++ (if xs.isEmpty then [] else tlv 0x30 xs.flatten)))
  | none => none

def encEntries (es : List Entry) : Option Bytes := (es.mapM encEntry).map List.flatten

/-! ### parsing (cryptobyte walk of `ParseRevocationList`) -/

structure PEntry where
  serial : Int
  time : Bytes
  reason : Option Int
  nexts : Nat
  deriving Repr, DecidableEq

/-- `ReadASN1Integer` / `ReadASN1Enum` contents: minimal two's complement of any length -/
def parseBigInt (bs : Bytes) : Res Int := if checkInteger bs then .ok (intOfBytes bs) else .err

/-- `parseExtension`: OID, optional BOOLEAN, OCTET STRING, nothing else -/
def parseEExt (e : Elem) : Res (Bytes × Bool × Bytes) :=
  (someElem (field (.univ 6 false) false e.body)).bind fun id =>
  if !validOID id.1.body then .err else
  (field (.univ 1 false) true id.2).bind fun c =>
  (match c.1 with | none => Res.ok false | some b => parseBool b.body).bind fun crit =>
  (someElem (field (.univ 4 false) false c.2)).bind fun v =>
  if !v.2.isEmpty then .err else .ok (id.1.body, crit, v.1.body)

/-- contents of the reasonCode extension value: one ENUMERATED, (`ReadASN1Enum`) -/
def parseEnum (value : Bytes) : Res Int :=
  (someElem (field (.univ 10 false) false value)).bind fun e => parseBigInt e.1.body

def scanReason (oidBytes : Bytes) : List (Bytes × Bool × Bytes) → Option Int → Res (Option Int)
  | [], acc => .ok acc
  | x :: xs, acc =>
    if x.1 = oidBytes then
      (match parseEnum x.2.2 with
       | .ok n => scanReason oidBytes xs (some n)
       | .err => .err
       | .panic => .panic)
    else scanReason oidBytes xs acc

def timeDigits (e : Elem) : Res Bytes :=
  if e.hdr.cls = 0 ∧ e.hdr.tag = 23 ∧ !e.hdr.compound ∧ e.body.length = 13 then
    (let yy := yearOf ([0x30, 0x30] ++ e.body.take 2)
     .ok ((if yy ≥ 50 then [0x31, 0x39] else [0x32, 0x30]) ++ e.body.take 12))
  else if e.hdr.cls = 0 ∧ e.hdr.tag = 24 ∧ !e.hdr.compound ∧ e.body.length = 15 then .ok (e.body.take 14)
  else .err

def parseEntry (e : Elem) : Res PEntry :=
  (someElem (field (.univ 2 false) false e.body)).bind fun s =>
  (parseBigInt s.1.body).bind fun serial =>
  (someElem (field .any false s.2)).bind fun t =>
  (timeDigits t.1).bind fun digits =>
  (field (.univ 16 true) true t.2).bind fun x =>
    match x.1 with
    | none => .ok ⟨serial, digits, none, 0⟩
    | some xe =>
      (readElems xe.body).bind fun els =>
      if !els.all (fun el => isSeqHdr el.hdr) then .err else
      (mapRes parseEExt els).bind fun exts =>
      match encOID reasonOID with
      | some ro => (scanReason ro exts none).bind fun r => .ok ⟨serial, digits, r, exts.length⟩
      | none => .err

def parseEntries (bs : Bytes) : Res (List PEntry) :=
  (readElems bs).bind fun els =>
  if !els.all (fun el => isSeqHdr el.hdr) then .err else mapRes parseEntry els

/-! ### CRL number -/

/-- `len(Number.Bytes())` : octets of the absolute value -/
def absOctets (n : Int) : Nat := if n = 0 then 0 else n.natAbs.log2 / 8 + 1

/-- "CRL number exceeds 20 octets" -/
def crlNumberOk (n : Int) : Bool :=
  !(absOctets n > 20 || (absOctets n == 20 && n.natAbs / 2 ^ 152 ≥ 128))

def crlNumberExt (n : Int) : Res Bytes := if crlNumberOk n then .ok (tlv 0x02 (encBigInt n)) else .err

end ZV.C05
