import ZV.Model.C11
/-!
  Model of `verifier/verifier.go: VerifyWithContext` (result assembly), `parentsFromChains`,
  `x509/verify.go: FilterByDate`, `Certificate.TimeInValidityPeriod`,
  `mozilla.OneCRL.Check` and `google.CRLSet.Check`, on top of the walk of `ZV.Model.C11`.

  * a `time.Time` is (seconds relative to the harness epoch, nanoseconds in the second); certificate
    times are whole seconds (`Cert.notBefore/notAfter : Int`, X.509 has no finer resolution);
    `Before/After` compare seconds, then nanoseconds (wall clock; no monotonic reading is involved
    because certificate times never carry one);
  * `opts.clean()`: a zero `VerifyTime` is replaced by the clock reading `opts.clock` (an input);
  * `c.VerifyHostname(name)` is abstracted to `nameMatches` on a small name language
    (hostname matching itself is property C09): a certificate has at most one SAN dNSName
    (`dns > 0`: the host `h<dns>.test`; `dns < 0`: the wildcard `*.d<-dns>.test`) or none
    (`dns = 0`, then the common name `n<subj>` is used);
  * OneCRL: `IssuerLists[cert.Issuer.String()]` is keyed by the issuer name id, `Blocked`
    entries are (subject name, SHA-256 of SPKI) = (name id, key id);
    CRLSet: `IssuerLists[hex(parent.SPKIFingerprint)]` / `BlockedSPKIs` are keyed by key id;
  * a key id stands for SubjectPublicKeyInfo BYTES (the harness key ids `100+2j` / `100+2j+1` are one RSA
    key with / without NULL algorithm parameters, i.e. two different ids): OneCRL hashes the
    certificate's own `RawSubjectPublicKeyInfo` (since the fix 8a7eec0; before it hashed the re-marshalled
    key, see `OneCRL.checkOld` in `ZV.Props.C12`), CRLSet is given the parent's `SPKIFingerprint`;
  * the revocation switches: `ShouldCheckOCSP && len(c.OCSPServer) > 0` calls `rp.CheckOCSP(ctx, c,
    Parents[0] or nil)`, `ShouldCheckCRL && len(c.CRLDistributionPoints) > 0` calls `rp.CheckCRL(ctx, c,
    nil)`; the three values a provider returns are inputs (`ProvAns`) and are copied to the result; a
    nil provider is `defaultRevocation`, modelled only where no HTTP request can succeed (`offline`).
    What `CheckOCSP` / `CheckCRL` of revocation.go do on the network is not modelled.
-/
namespace ZV.C12
open ZV.C10 ZV.C11

abbrev Chain := List Cert

/-! ### `time.Time` -/

structure Time where
  sec : Int          -- seconds relative to the harness epoch
  nsec : Nat         -- nanoseconds inside the second (`< 10^9` for every Go value)
  deriving Repr, DecidableEq

/-- `t.Before(u)` -/
def Time.before (t u : Time) : Bool :=
  decide (t.sec < u.sec) || (decide (t.sec = u.sec) && decide (t.nsec < u.nsec))
/-- `t.After(u)` -/
def Time.after (t u : Time) : Bool :=
  decide (t.sec > u.sec) || (decide (t.sec = u.sec) && decide (t.nsec > u.nsec))
/-- a certificate time (whole seconds) -/
def Time.ofSec (s : Int) : Time := { sec := s, nsec := 0 }
/-- January 1, year 1 00:00:00 UTC relative to the harness epoch 1600000000 (Unix -62135596800) -/
def zeroSec : Int := -63735596800
/-- `t.IsZero()` -/
def Time.isZero (t : Time) : Bool := decide (t.sec = zeroSec) && decide (t.nsec = 0)

/-- `later(a, b)`: `if a.After(b) { a } else { b }` -/
def later (a b : Int) : Int := if a > b then a else b
/-- `earlier(a, b)`: `if a.Before(b) { a } else { b }` -/
def earlier (a b : Int) : Int := if a < b then a else b

def lowerBound (leaf : Cert) (rest : Chain) : Int := rest.foldl (fun lb c => later lb c.notBefore) leaf.notBefore
def upperBound (leaf : Cert) (rest : Chain) : Int := rest.foldl (fun ub c => earlier ub c.notAfter) leaf.notAfter

structure Parts where
  current : List Chain
  expired : List Chain
  never : List Chain
  deriving Repr, DecidableEq

/-- `x509.FilterByDate` (including its `panic`) -/
def filterByDate : List Chain → Time → Res Parts
  | [], _ => .ok { current := [], expired := [], never := [] }
  | ch :: rest, now =>
    match ch with
    | [] => filterByDate rest now                      -- `len(chain) == 0`: continue
    | leaf :: tl =>
      let lower := lowerBound leaf tl
      let upper := upperBound leaf tl
      let valid := (Time.ofSec lower).before now && (Time.ofSec upper).after now
      let wasValid := (Time.ofSec lower).before (Time.ofSec upper)
      if valid && !wasValid then .panic
      else
        match filterByDate rest now with
        | .ok p =>
          if valid then .ok { p with current := ch :: p.current }
          else if wasValid then .ok { p with expired := ch :: p.expired }
          else .ok { p with never := ch :: p.never }
        | _ => .panic

/-- `chain[1]` when `len(chain) >= 2` -/
def second : Chain → Option Cert
  | _ :: p :: _ => some p
  | _ => none

/-- `parentsFromChains`: a map from parent fingerprint to (the certificate at index 1 of) the last
    chain that has it; the result order is a Go map order (arbitrary; printed sorted). -/
def parentsFromChains (chains : List Chain) : List Cert :=
  (chains.filterMap second).foldl
    (fun acc p => if acc.any (fun q => q.fp == p.fp) then acc.map (fun q => if q.fp == p.fp then p else q) else acc ++ [p]) []

/-! ### revocation sets -/

structure OneCRL where
  issuerSerial : List (Nat × Nat)   -- IssuerLists: (issuer name, serial)
  blocked : List (Nat × Nat)        -- Blocked: (subject name, key)
  deriving Repr, DecidableEq

/-- `OneCRL.Check(cert) != nil`; a `Blocked` entry is (subject, SHA-256 of the SPKI bytes of key id),
    compared with the SHA-256 of `cert.RawSubjectPublicKeyInfo` -/
def OneCRL.check (o : OneCRL) (c : Cert) : Bool :=
  o.blocked.any (fun b => b.1 == c.subj && b.2 == c.key) ||
  o.issuerSerial.any (fun e => e.1 == c.iss && e.2 == c.serial)

structure CRLSet where
  issuerSerial : List (Nat × Nat)   -- IssuerLists: (issuer key, serial)
  blockedSPKIs : List Nat
  deriving Repr, DecidableEq

/-- `CRLSet.Check(cert, hex(parent.SPKIFingerprint)) != nil` -/
def CRLSet.check (s : CRLSet) (c : Cert) (parentKey : Nat) : Bool :=
  s.blockedSPKIs.any (fun k => k == parentKey) ||
  s.issuerSerial.any (fun e => e.1 == parentKey && e.2 == c.serial)

/-! ### names -/

inductive Name where
  | none                    -- `len(opts.Name) == 0`
  | exact (n : Nat)         -- h<n>.test
  | oneLabel (n : Nat)      -- x.d<n>.test
  | twoLabels (n : Nat)     -- x.y.d<n>.test
  | bare (n : Nat)          -- d<n>.test
  | cn (n : Nat)            -- n<n>
  deriving Repr, DecidableEq

/-- `c.VerifyHostname(name) == nil` on the name language above -/
def nameMatches (c : Cert) : Name → Bool
  | .exact n => decide (c.dns > 0) && decide (c.dns = (n : Int))
  | .oneLabel n => decide (c.dns < 0) && decide (c.dns = -(n : Int))
  | .cn n => decide (c.dns = 0) && c.subj == n
  | _ => false

inductive CType where
  | unknown | leaf | intermediate | root
  deriving Repr, DecidableEq

/-- the three values `CheckOCSP` / `CheckCRL` return: `isRevoked`, `info` (nil or an opaque id), `err != nil` -/
structure ProvAns where
  revoked : Bool
  info : Option Nat
  err : Bool
  deriving Repr, DecidableEq

/-- the zero values the result fields keep when a check does not run -/
def ProvAns.zero : ProvAns := { revoked := false, info := none, err := false }
/-- what `defaultRevocation` answers when no HTTP request can succeed (context cancelled / no network):
    every path of `CheckOCSP` / `CheckCRL` ends in `return false, nil, err` -/
def ProvAns.offline : ProvAns := { revoked := false, info := none, err := true }

/-- a `RevocationProvider`, given by its answers to the (at most one) call of each kind -/
structure Provider where
  ocsp : ProvAns
  crl : ProvAns
  deriving Repr, DecidableEq

/-- `VerificationOptions` plus the environment of the call (clock, URL counts of the certificate) -/
structure Opts where
  time : Time                         -- VerifyTime
  name : Name
  oneCRL : Option OneCRL
  crlSet : Option CRLSet
  shouldOCSP : Bool := false
  shouldCRL : Bool := false
  provider : Option Provider := none  -- `none`: RevocationProvider == nil
  clock : Time := Time.ofSec 0        -- what `time.Now()` returns inside `clean()`
  nOCSP : Nat := 0                    -- len(c.OCSPServer)
  nCDP : Nat := 0                     -- len(c.CRLDistributionPoints)

/-- `opts.clean()`: the verification time in force -/
def Opts.now (o : Opts) : Time := if o.time.isZero then o.clock else o.time

structure Result where
  expired : Bool
  current : List Chain
  expiredChains : List Chain
  never : List Chain
  validAtExpiration : List Chain
  parents : List Cert
  nameError : Option Bool          -- `none`: not checked (NameError stays nil); `some b`: b = error
  inRevocationSet : Bool
  ctype : CType
  parentSK : Option NodeKey        -- ParentSPKISubjectFingerprint
  ocspCall : Option (Option Cert) := none   -- `some i`: CheckOCSP was called with issuer `i` (`none` = nil)
  ocsp : ProvAns := ProvAns.zero            -- OCSPRevoked, OCSPRevocationInfo, OCSPCheckError
  crlCall : Bool := false                   -- CheckCRL was called (with a nil list)
  crl : ProvAns := ProvAns.zero             -- CRLRevoked, CRLRevocationInfo, CRLCheckError
  deriving Repr, DecidableEq

/-- `c.TimeInValidityPeriod(t)` -/
def timeInValidityPeriod (c : Cert) (t : Time) : Bool :=
  (Time.ofSec c.notBefore).before t && (Time.ofSec c.notAfter).after t

/-- `g.IsRoot(c)` -/
def isRoot (g : Graph) (c : Cert) : Bool :=
  match findEdge g.edges c.fp with
  | some e => e.root
  | none => false

def revocationFlag (opts : Opts) (c : Cert) (parents : List Cert) : Bool :=
  let r1 := match opts.oneCRL with
    | some o => o.check c
    | none => false
  if r1 then true
  else match opts.crlSet with
    | some s => parents.any (fun p => s.check c p.key)
    | none => false

def certType (g : Graph) (c : Cert) (parents : List Cert) : CType :=
  if isRoot g c then .root
  else if c.isCA && decide (parents.length > 0) then .intermediate
  else if parents.length > 0 then .leaf
  else .unknown

/-- `rp`: the supplied provider, or `defaultRevocation` -/
def providerOf (opts : Opts) : Provider :=
  match opts.provider with
  | some p => p
  | none => { ocsp := ProvAns.offline, crl := ProvAns.offline }

/-- `opts.ShouldCheckOCSP && len(c.OCSPServer) > 0` -/
def ocspDue (opts : Opts) : Bool := opts.shouldOCSP && decide (opts.nOCSP > 0)
/-- `opts.ShouldCheckCRL && len(c.CRLDistributionPoints) > 0` -/
def crlDue (opts : Opts) : Bool := opts.shouldCRL && decide (opts.nCDP > 0)

/-- assembly of the result from the walked chains -/
def assemble (g : Graph) (c : Cert) (opts : Opts) (graphChains : List Chain) : Res Result :=
  let expired := !timeInValidityPeriod c opts.now
  match filterByDate graphChains opts.now with
  | .ok p =>
    let nameError := match opts.name with
      | .none => Option.none
      | n => some (!nameMatches c n)
    let allChains := p.current ++ p.expired ++ p.never
    match filterByDate allChains (Time.ofSec (c.notAfter - 1)) with
    | .ok q =>
      let parents := if expired then parentsFromChains q.current else parentsFromChains p.current
      .ok { expired := expired, current := p.current, expiredChains := p.expired, never := p.never,
            validAtExpiration := q.current, parents := parents, nameError := nameError,
            inRevocationSet := revocationFlag opts c parents, ctype := certType g c parents,
            parentSK := parents.head?.map (·.sk),
            ocspCall := if ocspDue opts then some parents.head? else none,
            ocsp := if ocspDue opts then (providerOf opts).ocsp else ProvAns.zero,
            crlCall := crlDue opts,
            crl := if crlDue opts then (providerOf opts).crl else ProvAns.zero }
    | _ => .panic
  | _ => .panic

/-- `(*Verifier).VerifyWithContext` -/
def verify (V : Ver) (g : Graph) (c : Cert) (opts : Opts) : Res Result :=
  assemble g c opts (walkChains V g c)

end ZV.C12
