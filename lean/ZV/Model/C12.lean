import ZV.Model.C11
/-!
  Model of `verifier/verifier.go: VerifyWithContext` (result assembly), `parentsFromChains`,
  `x509/verify.go: FilterByDate`, `Certificate.TimeInValidityPeriod`,
  `mozilla.OneCRL.Check` and `google.CRLSet.Check`, on top of the walk of `ZV.Model.C11`.

  * times are whole seconds (`Int`); `time.Before/After` are strict comparisons;
  * `c.VerifyHostname(name)` is abstracted to `nameMatches` on a small name language
    (hostname matching itself is property C09): a certificate has at most one SAN dNSName
    (`dns > 0`: the host `h<dns>.test`; `dns < 0`: the wildcard `*.d<-dns>.test`) or none
    (`dns = 0`, then the common name `n<subj>` is used);
  * OneCRL: `IssuerLists[cert.Issuer.String()]` is keyed by the issuer name id, `Blocked`
    entries are (subject name, SHA-256 of SPKI) = (name id, key id);
    CRLSet: `IssuerLists[hex(parent.SPKIFingerprint)]` / `BlockedSPKIs` are keyed by key id;
  * OCSP / CRL fetching (`ShouldCheckOCSP`, `ShouldCheckCRL`) is off and not modelled.
-/
namespace ZV.C12
open ZV.C10 ZV.C11

abbrev Chain := List Cert

/-- `later(a, b)`: `if a.After(b) { a } else { b }` -/
def later (a b : Int) : Int := if a > b then a else b
/-- `earlier(a, b)`: `if a.Before(b) { a } else { b }` -/
def earlier (a b : Int) : Int := if a < b then a else b

def lowerBound (leaf : Cert) (rest : Chain) : Int := rest.foldl (fun lb c => later lb c.notBefore) leaf.notBefore
def upperBound (leaf : Cert) (rest : Chain) : Int := rest.foldl (fun ub c => earlier ub c.notAfter) leaf.notAfter

structure Parts where
  current : List Chain
  expired : List Chain
  never : List Chain
  deriving Repr, DecidableEq

/-- `x509.FilterByDate` (including its `panic`) -/
def filterByDate : List Chain → Int → Res Parts
  | [], _ => .ok { current := [], expired := [], never := [] }
  | ch :: rest, now =>
    match ch with
    | [] => filterByDate rest now                      -- `len(chain) == 0`: continue
    | leaf :: tl =>
      let lower := lowerBound leaf tl
      let upper := upperBound leaf tl
      let valid := decide (lower < now) && decide (upper > now)
      let wasValid := decide (lower < upper)
      if valid && !wasValid then .panic
      else
        match filterByDate rest now with
        | .ok p =>
          if valid then .ok { p with current := ch :: p.current }
          else if wasValid then .ok { p with expired := ch :: p.expired }
          else .ok { p with never := ch :: p.never }
        | _ => .panic

/-- `chain[1]` when `len(chain) >= 2` -/
def second : Chain → Option Cert
  | _ :: p :: _ => some p
  | _ => none

/-- `parentsFromChains`: a map from parent fingerprint to (the certificate at index 1 of) the last
    chain that has it; the result order is a Go map order (arbitrary; printed sorted). -/
def parentsFromChains (chains : List Chain) : List Cert :=
  (chains.filterMap second).foldl
    (fun acc p => if acc.any (fun q => q.fp == p.fp) then acc.map (fun q => if q.fp == p.fp then p else q) else acc ++ [p]) []

/-! ### revocation sets -/

structure OneCRL where
  issuerSerial : List (Nat × Nat)   -- IssuerLists: (issuer name, serial)
  blocked : List (Nat × Nat)        -- Blocked: (subject name, key)
  deriving Repr, DecidableEq

/-- `OneCRL.Check(cert) != nil` -/
def OneCRL.check (o : OneCRL) (c : Cert) : Bool :=
  o.blocked.any (fun b => b.1 == c.subj && b.2 == c.key) ||
  o.issuerSerial.any (fun e => e.1 == c.iss && e.2 == c.serial)

structure CRLSet where
  issuerSerial : List (Nat × Nat)   -- IssuerLists: (issuer key, serial)
  blockedSPKIs : List Nat
  deriving Repr, DecidableEq

/-- `CRLSet.Check(cert, hex(parent.SPKIFingerprint)) != nil` -/
def CRLSet.check (s : CRLSet) (c : Cert) (parentKey : Nat) : Bool :=
  s.blockedSPKIs.any (fun k => k == parentKey) ||
  s.issuerSerial.any (fun e => e.1 == parentKey && e.2 == c.serial)

/-! ### names -/

inductive Name where
  | none                    -- `len(opts.Name) == 0`
  | exact (n : Nat)         -- h<n>.test
  | oneLabel (n : Nat)      -- x.d<n>.test
  | twoLabels (n : Nat)     -- x.y.d<n>.test
  | bare (n : Nat)          -- d<n>.test
  | cn (n : Nat)            -- n<n>
  deriving Repr, DecidableEq

/-- `c.VerifyHostname(name) == nil` on the name language above -/
def nameMatches (c : Cert) : Name → Bool
  | .exact n => decide (c.dns > 0) && decide (c.dns = (n : Int))
  | .oneLabel n => decide (c.dns < 0) && decide (c.dns = -(n : Int))
  | .cn n => decide (c.dns = 0) && c.subj == n
  | _ => false

inductive CType where
  | unknown | leaf | intermediate | root
  deriving Repr, DecidableEq

structure Opts where
  time : Int
  name : Name
  oneCRL : Option OneCRL
  crlSet : Option CRLSet

structure Result where
  expired : Bool
  current : List Chain
  expiredChains : List Chain
  never : List Chain
  validAtExpiration : List Chain
  parents : List Cert
  nameError : Option Bool          -- `none`: not checked (NameError stays nil); `some b`: b = error
  inRevocationSet : Bool
  ctype : CType
  parentSK : Option NodeKey        -- ParentSPKISubjectFingerprint
  deriving Repr, DecidableEq

/-- `c.TimeInValidityPeriod(t)` -/
def timeInValidityPeriod (c : Cert) (t : Int) : Bool := decide (c.notBefore < t) && decide (c.notAfter > t)

/-- `g.IsRoot(c)` -/
def isRoot (g : Graph) (c : Cert) : Bool :=
  match findEdge g.edges c.fp with
  | some e => e.root
  | none => false

def revocationFlag (opts : Opts) (c : Cert) (parents : List Cert) : Bool :=
  let r1 := match opts.oneCRL with
    | some o => o.check c
    | none => false
  if r1 then true
  else match opts.crlSet with
    | some s => parents.any (fun p => s.check c p.key)
    | none => false

def certType (g : Graph) (c : Cert) (parents : List Cert) : CType :=
  if isRoot g c then .root
  else if c.isCA && decide (parents.length > 0) then .intermediate
  else if parents.length > 0 then .leaf
  else .unknown

/-- assembly of the result from the walked chains -/
def assemble (g : Graph) (c : Cert) (opts : Opts) (graphChains : List Chain) : Res Result :=
  let expired := !timeInValidityPeriod c opts.time
  match filterByDate graphChains opts.time with
  | .ok p =>
    let nameError := match opts.name with
      | .none => Option.none
      | n => some (!nameMatches c n)
    let allChains := p.current ++ p.expired ++ p.never
    match filterByDate allChains (c.notAfter - 1) with
    | .ok q =>
      let parents := if expired then parentsFromChains q.current else parentsFromChains p.current
      .ok { expired := expired, current := p.current, expiredChains := p.expired, never := p.never,
            validAtExpiration := q.current, parents := parents, nameError := nameError,
            inRevocationSet := revocationFlag opts c parents, ctype := certType g c parents,
            parentSK := parents.head?.map (·.sk) }
    | _ => .panic
  | _ => .panic

/-- `(*Verifier).VerifyWithContext` -/
def verify (V : Ver) (g : Graph) (c : Cert) (opts : Opts) : Res Result :=
  assemble g c opts (walkChains V g c)

end ZV.C12
