import ZV.Model.C01
import ZV.Model.TlsWire
import ZV.Generated.C01
/-!
  C01 — the post-processing `x509.parseECPrivateKey` (x509/sec1.go) runs AFTER `asn1.Unmarshal` succeeded:
  version check, named-curve lookup, `k >= N` check, the leading-zero stripping loop
  `for len(pk) > len(privateKey) { if pk[0] != 0 {return err}; pk = pk[1:] }` and the right-aligned copy
  `copy(privateKey[len(privateKey)-len(pk):], pk)`. Every index / slice is explicit (`idx`, and the two slice
  expressions are guarded `if`s whose else-branch is `Res.panic`, exactly Go's run-time check).
  Tied to the Go code by the T2 stream `c01 ecpriv` (public API `x509.ParseECPrivateKey`).
-/
namespace ZV.C01
open ZV.TlsWire (beNat)

/-- the loop `for len(pk) > size { if pk[0] != 0 { return err }; pk = pk[1:] }` -/
def ecStrip (size : Nat) (pk : Bytes) : Res Bytes :=
  if size < pk.length then
    match idx pk 0 with
    | .ok b =>
      if b ≠ 0 then .err
      else if _h1 : 1 ≤ pk.length then ecStrip size (pk.drop 1)   -- pk[1:]  (panics iff 1 > len(pk))
      else .panic
    | .err => .err
    | .panic => .panic
  else .ok pk
termination_by pk.length
decreasing_by simp; omega

/-- from `k := new(big.Int).SetBytes(pk)` to the buffer handed to `curve.ScalarBaseMult`:
    returns (D, privateKey buffer). `size = (N.BitLen()+7)/8`. -/
def ecPrivPost (order size : Nat) (pk : Bytes) : Res (Nat × Bytes) :=
  let k := beNat pk
  if k ≥ order then .err                       -- k.Cmp(curveOrder) >= 0
  else
    match ecStrip size pk with
    | .ok p =>
      -- privateKey[len(privateKey)-len(p):]  (panics iff the low index is negative)
      if p.length ≤ size then .ok (k, List.replicate (size - p.length) 0 ++ p) else .panic
    | .err => .err
    | .panic => .panic

/-- the named curve by index in the generated table (`none` = an OID namedCurveFromOID does not know) -/
def ecCurve (i : Nat) : Option (Nat × Nat) :=
  match Gen.curves[i]? with
  | some (_, bits, n) => some (n, (bits + 7) / 8)
  | none => none

/-- `parseECPrivateKey` after a successful Unmarshal: version, curve, then the post-processing -/
def ecPrivParse (version curve : Nat) (pk : Bytes) : Res (Nat × Bytes) :=
  if version ≠ Gen.ecPrivKeyVersion then .err
  else
    match ecCurve curve with
    | none => .err
    | some (n, size) => ecPrivPost n size pk

end ZV.C01
