import ZV.Model.C18
/-!
  The DOMAIN of the C18 round-trip theorem as executable, core-only definitions (no Mathlib): `InDomain` (decidable) and the
  sub-domain `Exact` on which the value comes back identically.  They live beside the model so that the driver can evaluate
  them (`c18 d …`): the harness sends every value for which it CLAIMS the property (its own documented-domain predicate,
  go/props/c18/domain.go) and the check fails if one of them is outside the domain of the Lean theorem.
  The theorems about these definitions are in ZV.Proofs.C18* and ZV.Props.C18.
-/
namespace ZV.C18

/-- string-value validity beyond what Marshal itself checks: an IMPLICIT-tagged string without a string kind is decoded as a
    PrintableString; `utf8` does not make Marshal validate -/
def strOK (p : Params) (bs : Bytes) : Bool :=
  (if p.stringType = 12 then utf8Valid bs else true) &&
  (if p.stringType = 0 ∧ p.tag ≠ none ∧ p.explicit = false then bs.all (fun b => isPrintable b true true) else true)


/-- well-formed OBJECT IDENTIFIER value: at least two arcs, first arc 0..2, second arc < 40 unless the first is 2,
    first sub-identifier and every further arc in [0, 2^31) -/
def oidOK : List Int → Bool
  | a :: b :: rest =>
    decide (0 ≤ a) && decide (a ≤ 2) && decide (0 ≤ b) && (decide (a = 2) || decide (b < 40)) &&
    decide (a * 40 + b ≤ 2147483647) && rest.all (fun x => decide (0 ≤ x) && decide (x ≤ 2147483647))
  | _ => false


/-- well-formed BitString value: `len(Bytes) = ⌈BitLength/8⌉` and the padding bits of the last byte are zero -/
def bitsOK (bs : Bytes) (n : Int) : Bool :=
  decide (0 ≤ n) && decide ((bs.length : Int) = (n + 7) / 8) &&
  (match bs.getLast? with
   | none => true
   | some l => decide (l.toNat % 2 ^ ((8 - n % 8) % 8).toNat = 0))


/-- well-formed RawValue: `FullBytes` is the canonical TLV of `Class`/`Tag`/`IsCompound`/`Bytes` -/
def rawOK (cls tag : Nat) (comp : Bool) (bs full : Bytes) : Bool :=
  decide (cls < 4) && decide (tag ≤ 2147483647) &&
  decide (full = appendTL { cls := cls, tag := tag, len := bs.length, compound := comp } ++ bs)


/-- class of a tagged field -/
def pcls (p : Params) : Nat := if p.application then 1 else if p.priv then 3 else 2

/-- what an absent OPTIONAL field decodes to (`setDefaultValue`, else the zero value) -/
def dfltVal (s : Schema) (p : Params) : Val :=
  match p.defaultValue with
  | some d => if isIntKind s then .int d else zeroVal s
  | none => zeroVal s


/-- the decoder's own "the next element is not this field" test (asn1.go 768–803 and 836–860), as a function of the class,
    tag number and constructed bit of the next element.  (For an EXPLICIT field the additional length condition of the
    code is ignored: conservative.) -/
def skipsH (s : Schema) (p : Params) (cls tag : Nat) (comp : Bool) : Bool :=
  if p.explicit then !(decide (cls = pcls p) && decide (some tag = p.tag))
  else match univ s with
    | none => false
    | some (ma, utag0, ct) =>
      (!(expected p ma (substTag p { cls := cls, tag := tag, len := 0, compound := comp } utag0)).1 &&
        (cls != (expected p ma (substTag p { cls := cls, tag := tag, len := 0, compound := comp } utag0)).2.1 ||
         tag != (expected p ma (substTag p { cls := cls, tag := tag, len := 0, compound := comp } utag0)).2.2)) ||
      (!ma && comp != ct)


/-- (class, tag number, constructed) of the first identifier octets Marshal writes for a PRESENT field -/
def fieldHdr (s : Schema) (p : Params) (v : Val) : Option (Nat × Nat × Bool) :=
  match s, v with
  | .raw, .raw cls tag comp _ _ => some (cls, tag, comp)
  | .raw, _ => none
  | _, _ =>
    match univ s with
    | none => none
    | some (_, utag0, comp) =>
      match p.tag with
      | some tg => some (pcls p, tg, p.explicit || comp)
      | none =>
        (match (if utag0 = 19 then marshalTag p utag0 v else some (if p.set then 17 else utag0)) with
         | some t => some (0, t, comp)
         | none => none)


/-- a slice value built with `vcons` and ending in `vnil` (non-nil slice) -/
def properChain : Val → Bool
  | .vnil => true
  | .vcons _ r => properChain r
  | _ => false


/-- decidable form of `Good` -/
def goodB (p : Params) : Bool :=
  !(p.application && p.priv) &&
  (match p.tag with | some tg => decide (tg ≤ 2147483647) | none => !p.explicit) &&
  (p.stringType == 0 || p.stringType == 12 || p.stringType == 18 || p.stringType == 19 || p.stringType == 22)


/-- value conditions of a leaf that is PRESENT in the encoding:
    integers fit their Go type, a Flag that is written is `true`, strings are valid for their kind (`strOK`), OIDs, BitStrings
    and RawValues are well formed (`oidOK`, `bitsOK`, `rawOK`), a RawValue field carries no tag parameter -/
def leafOK : Schema → Params → Val → Bool
  | .bool, _, .bool _ => true
  | .flag, _, .bool b => b
  | .octets, _, .bytes _ => true
  | .octets, _, .null => true
  | .str, p, .bytes bs => strOK p bs
  | .int64, _, .int i => decide (-9223372036854775808 ≤ i) && decide (i < 9223372036854775808)
  | .int32, _, .int i => decide (-2147483648 ≤ i) && decide (i ≤ 2147483647)
  | .enum, _, .int i => decide (-2147483648 ≤ i) && decide (i ≤ 2147483647)
  | .bigint, _, .int _ => true
  | .oid, _, .oid l => oidOK l
  | .bits, _, .bits bs n => bitsOK bs n
  | .raw, p, .raw cls tag comp bs full => p.tag.isNone && rawOK cls tag comp bs full
  | _, _, _ => false

/-- every element of a slice value satisfies `f` (the slice may be nil) -/
def allChain (f : Val → Bool) : Val → Bool
  | .vnil => true
  | .null => true
  | .vcons x r => f x && allChain f r
  | _ => false

/-- identifier (class, tag, constructed) of the first PRESENT field of a field list; `none` if every field is left out -/
def firstHdr : Schema → Val → Option (Nat × Nat × Bool)
  | .fcons p s rest, .vcons v vs => if omitted s p v then firstHdr rest vs else fieldHdr s p v
  | _, _ => none

/-- the decoder recognises "absent" in front of what follows -/
def skipsNext (s : Schema) (p : Params) : Option (Nat × Nat × Bool) → Bool
  | none => true
  | some (c, t, k) => skipsH s p c t k

/-- an integer value fits its Go type (a `default:` beyond int32 on an int32 / Enumerated field is not a value of the type) -/
def valFits : Schema → Val → Bool
  | .int64, .int i => decide (-9223372036854775808 ≤ i) && decide (i < 9223372036854775808)
  | .int32, .int i => decide (-2147483648 ≤ i) && decide (i ≤ 2147483647)
  | .enum, .int i => decide (-2147483648 ≤ i) && decide (i ≤ 2147483647)
  | _, _ => true

/-- a field that Marshal leaves out (`omitted`: OPTIONAL holding the default / zero value, or omitempty holding an empty
    slice) must be OPTIONAL — otherwise the decoder rejects its absence — and must hold exactly the value the decoder
    reconstructs (`dfltVal`: nil, not an empty non-nil slice), which must fit the Go type -/
def absentOK (s : Schema) (p : Params) (v : Val) : Bool := p.optional && v == dfltVal s p && valFits s v

/-- **the domain of the round-trip theorem** (decidable).
    * parameters: `goodB` (not APPLICATION and PRIVATE together, tag < 2^31, `explicit` only with a tag, known string kind);
    * a left-out field: `absentOK`; and inside a struct the decoder must be able to see that it is absent: the next present
      field's identifier is one the left-out field does not accept (`skipsNext … (firstHdr …)` — this is what excludes the
      ambiguous grammars such as an OPTIONAL field followed by a field with the same tag), or nothing follows;
    * a present leaf: `leafOK`; structs field by field; slices element by element (element type not a bare field list). -/
def InDomain : Schema → Params → Val → Bool
  | .struct fs, p, v =>
    goodB p && (if omitted (.struct fs) p v then absentOK (.struct fs) p v else InDomain fs {} v)
  | .seqOf sn e, p, v =>
    goodB p && (univ e).isSome &&
      (if omitted (.seqOf sn e) p v then absentOK (.seqOf sn e) p v else allChain (fun x => InDomain e {} x) v)
  | .fnil, _, v => v == .vnil
  | .fcons p s rest, _, v =>
    (match v with
     | .vcons x xs => InDomain s p x && InDomain rest {} xs && (!omitted s p x || skipsNext s p (firstHdr rest xs))
     | _ => false)
  | .int64, p, v => goodB p && (if omitted .int64 p v then absentOK .int64 p v else leafOK .int64 p v)
  | .int32, p, v => goodB p && (if omitted .int32 p v then absentOK .int32 p v else leafOK .int32 p v)
  | .enum, p, v => goodB p && (if omitted .enum p v then absentOK .enum p v else leafOK .enum p v)
  | .bigint, p, v => goodB p && (if omitted .bigint p v then absentOK .bigint p v else leafOK .bigint p v)
  | .bool, p, v => goodB p && (if omitted .bool p v then absentOK .bool p v else leafOK .bool p v)
  | .oid, p, v => goodB p && (if omitted .oid p v then absentOK .oid p v else leafOK .oid p v)
  | .bits, p, v => goodB p && (if omitted .bits p v then absentOK .bits p v else leafOK .bits p v)
  | .octets, p, v => goodB p && (if omitted .octets p v then absentOK .octets p v else leafOK .octets p v)
  | .str, p, v => goodB p && (if omitted .str p v then absentOK .str p v else leafOK .str p v)
  | .raw, p, v => goodB p && (if omitted .raw p v then absentOK .raw p v else leafOK .raw p v)
  | .flag, p, v => goodB p && (if omitted .flag p v then absentOK .flag p v else leafOK .flag p v)


/-- **the sub-domain on which the value comes back IDENTICALLY**: no SET OF, slices non-nil (`vnil`-terminated), `[]byte`
    non-nil — wherever the field is present (a left-out field always comes back identically, see `absentOK`) -/
def Exact : Schema → Params → Val → Bool
  | .struct fs, p, v => omitted (.struct fs) p v || Exact fs {} v
  | .seqOf sn e, p, v =>
    omitted (.seqOf sn e) p v || (!(p.set || sn) && properChain v && allChain (fun x => Exact e {} x) v)
  | .fcons p s rest, _, v =>
    (match v with
     | .vcons x xs => Exact s p x && Exact rest {} xs
     | _ => true)
  | .octets, p, v => omitted .octets p v || !(v == .null)
  | _, _, _ => true


end ZV.C18
