import ZV.Base
import ZV.Model.C23
import ZV.Generated.C03
/-!
  Model of `x509.CheckSignatureFromKey` (x509/x509.go): algorithm → hash (generated switch), key-type
  dispatch, the DER layer of DSA / ECDSA signatures (`asn1.Unmarshal` into `struct{R, S *big.Int}` of
  zcrypto's encoding/asn1 with `AllowPermissiveParsing = false`, and the per-arm trailing-data rule, generated),
  `dsa.Verify` (dsa/dsa.go).  RSA verification is the C23 model.  The ECDSA / Ed25519 primitives are an
  oracle bit (trusted: crypto/ecdsa.Verify on the parsed (r,s), ed25519.Verify).
-/
namespace ZV.C03
open ZV ZV.Hash

/-! ### DER (encoding/asn1 `parseTagAndLength`, `parseField` for SEQUENCE / INTEGER) -/

/-- long-form length bytes: `numBytes` more bytes; `length >= 1<<23` before a shift is "length too large";
    a zero after a shift is "superfluous leading zeros". -/
def readLong : Nat → Bytes → Nat → Option (Nat × Bytes)
  | 0, bs, acc => some (acc, bs)
  | _ + 1, [], _ => none
  | n + 1, b :: bs, acc =>
    if acc ≥ 2 ^ 23 then none
    else
      let acc' := acc * 256 + b.toNat
      if acc' = 0 then none else readLong n bs acc'

/-- the length octets after the tag -/
def parseLen : Bytes → Option (Nat × Bytes)
  | [] => none
  | b :: rest =>
    if b &&& 0x80 = 0 then some (b.toNat, rest)
    else
      let nb := (b &&& 0x7f).toNat
      if nb = 0 then none                                   -- indefinite length
      else match readLong nb rest 0 with
        | none => none
        | some (l, rest') => if l < 0x80 then none else some (l, rest')   -- non-minimal length

/-- one element whose identifier octet must be exactly `tag` (universal class, low tag number):
    returns (content, bytes after the element). -/
def parseTLV (tag : UInt8) : Bytes → Option (Bytes × Bytes)
  | [] => none
  | t :: rest =>
    match parseLen rest with
    | none => none
    | some (l, r) =>
      if t ≠ tag then none
      else if l > r.length then none                        -- data truncated
      else some (r.take l, r.drop l)

/-- `parseBigInt`: minimal two's complement -/
def parseBigInt (c : Bytes) : Option Int :=
  match c with
  | [] => none
  | [b] => if b &&& 0x80 = 0x80 then some ((b.toNat : Int) - 256) else some b.toNat
  | b0 :: b1 :: _ =>
    if (b0 = 0 ∧ b1 &&& 0x80 = 0) ∨ (b0 = 0xff ∧ b1 &&& 0x80 = 0x80) then none
    else if b0 &&& 0x80 = 0x80 then some ((C23.os2ip c : Int) - (256 ^ c.length : Nat))
    else some (C23.os2ip c)

/-- `asn1.Unmarshal(signature, &struct{R, S *big.Int})`: (R, S, rest).  Elements after S INSIDE the
    SEQUENCE used to be ignored by encoding/asn1 (D19); since fix 138469b they are rejected. -/
def parseSig (sig : Bytes) : Option (Int × Int × Bytes) :=
  match parseTLV 0x30 sig with
  | none => none
  | some (inner, rest) =>
    match parseTLV 0x02 inner with
    | none => none
    | some (rc, in2) =>
      match parseBigInt rc with
      | none => none
      | some r =>
        match parseTLV 0x02 in2 with
        | none => none
        | some (sc, in3) =>
          match parseBigInt sc with
          | none => none
          | some s =>
            -- after fix 138469b: an optional RawValue field follows S; any byte left inside the
            -- SEQUENCE either fails to parse as an element or is reported as "trailing data inside"
            if in3.length != 0 then none else some (r, s, rest)

/-! ### DSA -/

/-- extended Euclid: `(g, x)` with `a·x ≡ g (mod b)` -/
def egcd (a b : Nat) : Nat × Int × Int :=
  if h : b = 0 then (a, 1, 0)
  else
    let r := egcd b (a % b)
    (r.1, r.2.2, r.2.1 - (a / b : Nat) * r.2.2)
termination_by b
decreasing_by exact Nat.mod_lt _ (Nat.pos_of_ne_zero h)

/-- `new(big.Int).ModInverse(a, m)`; `none` = nil (not invertible) -/
def modInverse (a m : Nat) : Option Nat :=
  let r := egcd a m
  if r.1 = 1 then some (Int.emod r.2.1 (m : Int)).toNat else none

/-- `dsa.Verify(pub, hash, r, s)` -/
def dsaVerify (p q g y : Nat) (hash : Bytes) (r s : Int) : Bool :=
  if p = 0 then false
  else if r < 1 ∨ r ≥ (q : Int) then false
  else if s < 1 ∨ s ≥ (q : Int) then false
  else match modInverse s.toNat q with
    | none => false
    | some w =>
      if C23.bitLen q % 8 ≠ 0 then false
      else
        let z := C23.os2ip hash
        let u1 := z * w % q
        let u2 := r.toNat * w % q
        let v := (C23.modPow g u1 p * C23.modPow y u2 p) % p % q
        v == r.toNat

/-- the inner loop of `dsa.Sign`: `io.ReadFull(rand, buf)` with `len(buf) = n` until `0 < k < q`;
    `none` = the reader ran dry.  (`n = 0` cannot happen: `Q.BitLen()` is a positive multiple of 8 when the loop is
    entered; Go would spin forever on it.) -/
def readK (n q : Nat) (rnd : Bytes) : Option (Nat × Bytes) :=
  if _hn : n = 0 then none
  else if _hl : rnd.length < n then none
  else
    let k := C23.os2ip (rnd.take n)
    if 0 < k ∧ k < q then some (k, rnd.drop n) else readK n q (rnd.drop n)
termination_by rnd.length
decreasing_by simp only [List.length_drop]; omega

/-- the `attempts` loop of `dsa.Sign` (10 rounds): `r = (g^k mod p) mod q`, `s = k⁻¹(z + x·r) mod q` with
    `k⁻¹ = k^(q-2) mod q` (`fermatInverse`) and `z` the WHOLE digest as an integer (no truncation to the length of
    `q`, exactly as `Verify`); a zero `r` or `s` starts the next round; no round left = `ErrInvalidPublicKey`. -/
def signLoop (p q g x : Nat) (hash : Bytes) (n : Nat) : Nat → Bytes → Res (Nat × Nat)
  | 0, _ => .err
  | a + 1, rnd =>
    match readK n q rnd with
    | none => .err
    | some (k, rnd') =>
      let kInv := C23.modPow k (q - 2) q
      let r := C23.modPow g k p % q
      if r = 0 then signLoop p q g x hash n a rnd'
      else
        let z := C23.os2ip hash
        let s := (x * r + z) % q * kInv % q
        if s = 0 then signLoop p q g x hash n a rnd' else .ok (r, s)

/-- `dsa.Sign(rand, priv, hash)`; `rnd` = the bytes the reader delivers to reads of more than one byte
    (`randutil.MaybeReadByte` is neutralised by the harness). -/
def dsaSign (p q g x : Nat) (hash rnd : Bytes) : Res (Nat × Nat) :=
  if q = 0 ∨ p = 0 ∨ g = 0 ∨ x = 0 ∨ C23.bitLen q % 8 ≠ 0 then .err
  else signLoop p q g x hash (C23.bitLen q / 8) 10 rnd

/-! ### CheckSignatureFromKey -/

inductive Key where
  | rsa (pub : C23.Pub)
  | dsa (p q g y : Nat)
  | ecdsa            -- *ecdsa.PublicKey
  | augEcdsa         -- *x509.AugmentedECDSA
  | ed25519
  | other            -- any other Go type
  deriving Repr

/-- first switch: `none` = ErrUnsupportedAlgorithm, `some none` = InsecureAlgorithmError, `some (some h)` -/
def algoHash (a : Nat) : Option (Option Nat) := (Gen.C03.verifyHash.find? (fun r => r.1 == a)).map (·.2)

def isPSS (a : Nat) : Bool := Gen.C03.pssAlgos.contains a

/-- does the arm for this Go type reject bytes after the DER signature? -/
def rejectsTrailing (arm : String) : Bool :=
  match Gen.C03.keyCases.find? (fun r => r.1 == arm) with
  | some r => r.2
  | none => false

/-- the DER arms: parse, trailing-data rule, sign check, then the primitive -/
def derArm (arm : String) (sig : Bytes) (prim : Int → Int → Bool) : Res Unit :=
  match parseSig sig with
  | none => .err
  | some (r, s, rest) =>
    if rejectsTrailing arm && rest.length != 0 then .err
    else if r ≤ 0 ∨ s ≤ 0 then .err
    else if prim r s then .ok () else .err

/-- `hash(hashType, signed)`; `none` = `!hashType.Available()` (hash not linked in / not modelled) -/
def digestOf (h : Nat) (signed : Bytes) : Option Bytes :=
  if h = 0 then some signed
  else match C23.hashAlg h with
    | some ha => some (ha.hash signed)
    | none => none

/-- the type switch on the public key -/
def dispatchKey (key : Key) (algo h : Nat) (digest sig : Bytes) (oracle : Bool) : Res Unit :=
  match key with
  | .rsa pub =>
    if isPSS algo then
      (match C23.hashAlg h with
       | some ha => C23.verifyPSS pub ha digest sig (-1)
       | none => .panic)
    else C23.verifyPKCS1v15 pub h digest sig
  | .dsa p q g y => derArm "*dsa.PublicKey" sig (fun r s => dsaVerify p q g y digest r s)
  | .ecdsa => derArm "*ecdsa.PublicKey" sig (fun _ _ => oracle)
  | .augEcdsa => derArm "*AugmentedECDSA" sig (fun _ _ => oracle)
  | .ed25519 => if oracle then .ok () else .err
  | .other => .err

/-- `oracle`: the verdict of the bare ECDSA / Ed25519 primitive (see the module comment) -/
def checkSignatureFromKey (key : Key) (algo : Nat) (signed sig : Bytes) (oracle : Bool) : Res Unit :=
  match algoHash algo with
  | none => .err
  | some none => .err
  | some (some h) =>
    match digestOf h signed with
    | none => .err
    | some digest => dispatchKey key algo h digest sig oracle

/-! ### the signer side: `signingParamsForPublicKey` (x509 and ocsp), `GetSignatureAlgorithmFromAI`, signer options -/

/-- `pkix.AlgorithmIdentifier.Parameters` as the signer side produces it: the zero `RawValue`, `asn1.NullRawValue`
    (`RawValue{Tag: 5}`), or `rsaPSSParameters(h)`. -/
inductive Params where
  | absent
  | null
  | pss (h : Nat)
  deriving Repr, DecidableEq

/-- what `signingParamsForPublicKey` returns: `hashFunc`, `sigAlgo.Algorithm`, `sigAlgo.Parameters` -/
structure SignParams where
  hash : Nat
  oid : List Nat
  params : Params
  deriving Repr, DecidableEq

/-- the two copies of the function (x509/x509.go, x509/revocation/ocsp/ocsp.go) differ in their tables (generated) and in
    that only x509 knows RSA-PSS (`requestedSigAlgo.isRSAPSS()`). -/
structure SignPkg where
  details : List (Nat × List Nat × String × Nat)
  defaults : List (String × String × Nat × List Nat × Bool × Bool)
  pssAware : Bool

def x509Pkg : SignPkg := ⟨Gen.C03.x509DetailsOid, Gen.C03.x509SignDefaults, true⟩
def ocspPkg : SignPkg := ⟨Gen.C03.ocspDetailsOid, Gen.C03.ocspSignDefaults, false⟩

/-- `rsaPSSParameters(h)`: `none` = the function panics (no OID for the hash: `asn1.Marshal` fails) -/
def pssParamsOf (h : Nat) : Option (List Nat × Nat) := (Gen.C03.pssParams.find? (fun r => r.1 == h)).map (·.2)

/-- `signingParamsForPublicKey(pub, requestedSigAlgo)`.  `label` = the arm of the type switch (and of the nested curve
    switch) the key falls into, as the generated table names it; a key of any other type / curve is an error.
    Order of the code: defaults per key type; `requested == 0` returns them; otherwise the FIRST details row of the
    requested algorithm: key-algorithm mismatch → error; hash 0 (MD2) while the key type hashes → error; RSA-PSS →
    parameters from `rsaPSSParameters`; no row → error. -/
def signingParams (pkg : SignPkg) (label : String) (req : Nat) : Res SignParams :=
  match pkg.defaults.find? (fun r => r.1 == label) with
  | none => .err
  | some (_, fam, h, oid, nullP, shouldHash) =>
    let par : Params := if nullP then .null else .absent
    if req = 0 then .ok ⟨h, oid, par⟩
    else match pkg.details.find? (fun r => r.1 == req) with
      | none => .err
      | some (_, oid', fam', h') =>
        if fam' != fam then .err
        else if h' = 0 && shouldHash then .err
        else if pkg.pssAware && isPSS req then
          (match pssParamsOf h' with
           | some _ => .ok ⟨h', oid', .pss h'⟩
           | none => .panic)
        else .ok ⟨h', oid', par⟩

/-- `x509.GetSignatureAlgorithmFromAI` on an identifier whose parameters are one of the three shapes the signer side
    produces: any OID but `oidSignatureRSAPSS` → the first details row with that OID (parameters are not looked at);
    `oidSignatureRSAPSS` → the parameters are parsed (zero / NULL `RawValue` have no `FullBytes`: Unknown). -/
def algoFromAI (oid : List Nat) (par : Params) : Nat :=
  if oid != Gen.C03.pssOid then
    match Gen.C03.x509DetailsOid.find? (fun r => r.2.1 == oid) with
    | some r => r.1
    | none => 0
  else match par with
    | .pss h => (match pssParamsOf h with
                 | some r => r.2
                 | none => 0)
    | _ => 0

/-- ocsp `getSignatureAlgorithmFromOID` -/
def algoFromOID (oid : List Nat) : Nat :=
  match Gen.C03.ocspDetailsOid.find? (fun r => r.2.1 == oid) with
  | some r => r.1
  | none => 0

/-- the `crypto.SignerOpts` CreateCertificate / CreateCertificateRequest / CreateRevocationList hand to the signer:
    (`*rsa.PSSOptions` with salt length = hash length?, hash).  CreateCRL always requests 0. -/
def signerOpts (req h : Nat) : Bool × Nat := (req != 0 && isPSS req, h)

/-- `ocsp.CreateResponse` passes the bare hash -/
def signerOptsOcsp (h : Nat) : Bool × Nat := (false, h)

end ZV.C03
