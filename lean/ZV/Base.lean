/-
  ZV.Base — shared, core-only utilities for every model and for the driver.
  No Mathlib import here or in any ZV.Model / ZV.Drv module (the driver is a
  compiled `lean_exe`, which cannot link Mathlib on this image).
-/
namespace ZV

/-- Result type used by every model that mirrors Go code which can fail or
    panic.  A Go `panic` (index out of range, nil dereference, explicit panic)
    is an explicit constructor, so "never panics" is a theorem, not an
    artefact of totalisation. -/
inductive Res (α : Type) where
  | ok (a : α)
  | err
  | panic
  deriving Repr, DecidableEq, Inhabited

namespace Res
def isOk {α} : Res α → Bool
  | ok _ => true
  | _ => false
def map {α β} (f : α → β) : Res α → Res β
  | ok a => ok (f a)
  | err => err
  | panic => panic
def bind {α β} (r : Res α) (f : α → Res β) : Res β :=
  match r with
  | ok a => f a
  | err => err
  | panic => panic
end Res

abbrev Bytes := List UInt8

/-! ### hex I/O for the line protocol -/

def hexDigit (n : Nat) : Char :=
  if n < 10 then Char.ofNat (48 + n) else Char.ofNat (87 + n)

def hexOfByte (b : UInt8) : String :=
  String.ofList [hexDigit (b.toNat / 16), hexDigit (b.toNat % 16)]

/-- lower-case hex; the empty string is written `-` (a trailing blank would be trimmed). -/
def toHex (bs : Bytes) : String :=
  if bs.isEmpty then "-" else String.join (bs.map hexOfByte)

def hexVal (c : Char) : Option Nat :=
  if '0' ≤ c ∧ c ≤ '9' then some (c.toNat - 48)
  else if 'a' ≤ c ∧ c ≤ 'f' then some (c.toNat - 87)
  else if 'A' ≤ c ∧ c ≤ 'F' then some (c.toNat - 55)
  else none

def ofHexChars : List Char → Option Bytes
  | [] => some []
  | [_] => none
  | a :: b :: rest =>
    match hexVal a, hexVal b, ofHexChars rest with
    | some x, some y, some r => some (UInt8.ofNat (x * 16 + y) :: r)
    | _, _, _ => none

def ofHex (s : String) : Option Bytes :=
  if s == "-" then some [] else ofHexChars s.toList

/-- decimal integer, optional leading '-' -/
def parseInt (s : String) : Option Int :=
  match s.toList with
  | '-' :: rest => (String.ofList rest).toNat?.map (fun n => - (Int.ofNat n))
  | _ => s.toNat?.map Int.ofNat

def showRes {α} (f : α → String) : Res α → String
  | .ok a => "ok " ++ f a
  | .err => "err"
  | .panic => "panic"

def joinWith (sep : String) (l : List String) : String := sep.intercalate l

end ZV
