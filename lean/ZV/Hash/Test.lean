import ZV.Hash.Common
import ZV.Hash.MD5
import ZV.Hash.SHA1
import ZV.Hash.SHA256
import ZV.Hash.SHA512
import ZV.Hash.HMAC

/-!
# Test vectors

Standard vectors (FIPS 180-4 examples, RFC 1321, RFC 2202, RFC 4231, RFC 5869), evaluated
with `#guard`.  Expected values were additionally cross-checked against Python's `hashlib`.
-/

namespace ZV.Hash.Test

/-- 448-bit message of FIPS 180 (two blocks after padding for the 64-byte-block hashes). -/
def m448 : Bytes := strBytes "abcdbcdecdefdefgefghfghighijhijkijkljklmklmnlmnomnopnopq"
/-- 896-bit message of FIPS 180 (two blocks after padding for SHA-384/512). -/
def m896 : Bytes := strBytes "abcdefghbcdefghicdefghijdefghijkefghijklfghijklmghijklmnhijklmnoijklmnopjklmnopqklmnopqrlmnopqrsmnopqrstnopqrstu"
/-- 80-byte message of the RFC 1321 test suite. -/
def d80 : Bytes := strBytes "12345678901234567890123456789012345678901234567890123456789012345678901234567890"
/-- 1000 × 'a' (16 blocks of 64 bytes, 8 of 128 bytes). -/
def a1000 : Bytes := List.replicate 1000 0x61

/-! ## MD5 -/

#guard toHex (md5 []) = "d41d8cd98f00b204e9800998ecf8427e"
#guard toHex (md5 (strBytes "abc")) = "900150983cd24fb0d6963f7d28e17f72"
#guard toHex (md5 m448) = "8215ef0796a20bcaaae116d3876c664a"
#guard toHex (md5 m896) = "03dd8807a93175fb062dfb55dc7d359c"
#guard toHex (md5 d80) = "57edf4a22be3c955ac49da2e2107b67a"
#guard toHex (md5 a1000) = "cabe45dcc9ae5b66ba86600cca6b8ba8"
#guard (md5 a1000).length = HashAlg.md5.outSize

/-! ## SHA1 -/

#guard toHex (sha1 []) = "da39a3ee5e6b4b0d3255bfef95601890afd80709"
#guard toHex (sha1 (strBytes "abc")) = "a9993e364706816aba3e25717850c26c9cd0d89d"
#guard toHex (sha1 m448) = "84983e441c3bd26ebaae4aa1f95129e5e54670f1"
#guard toHex (sha1 m896) = "a49b2446a02c645bf419f995b67091253a04a259"
#guard toHex (sha1 d80) = "50abf5706a150990a08b2c5ea40fa0e585554732"
#guard toHex (sha1 a1000) = "291e9a6c66994949b57ba5e650361e98fc36b1ba"
#guard (sha1 a1000).length = HashAlg.sha1.outSize

/-! ## SHA224 -/

#guard toHex (sha224 []) = "d14a028c2a3a2bc9476102bb288234c415a2b01f828ea62ac5b3e42f"
#guard toHex (sha224 (strBytes "abc")) = "23097d223405d8228642a477bda255b32aadbce4bda0b3f7e36c9da7"
#guard toHex (sha224 m448) = "75388b16512776cc5dba5da1fd890150b0c6455cb4f58b1952522525"
#guard toHex (sha224 m896) = "c97ca9a559850ce97a04a96def6d99a9e0e0e2ab14e6b8df265fc0b3"
#guard toHex (sha224 d80) = "b50aecbe4e9bb0b57bc5f3ae760a8e01db24f203fb3cdcd13148046e"
#guard toHex (sha224 a1000) = "4e8f0ce90b64661a2b5e84be6d93a7d9b76871062f1814433d04a03d"
#guard (sha224 a1000).length = HashAlg.sha224.outSize

/-! ## SHA256 -/

#guard toHex (sha256 []) = "e3b0c44298fc1c149afbf4c8996fb92427ae41e4649b934ca495991b7852b855"
#guard toHex (sha256 (strBytes "abc")) = "ba7816bf8f01cfea414140de5dae2223b00361a396177a9cb410ff61f20015ad"
#guard toHex (sha256 m448) = "248d6a61d20638b8e5c026930c3e6039a33ce45964ff2167f6ecedd419db06c1"
#guard toHex (sha256 m896) = "cf5b16a778af8380036ce59e7b0492370b249b11e8f07a51afac45037afee9d1"
#guard toHex (sha256 d80) = "f371bc4a311f2b009eef952dd83ca80e2b60026c8e935592d0f9c308453c813e"
#guard toHex (sha256 a1000) = "41edece42d63e8d9bf515a9ba6932e1c20cbc9f5a5d134645adb5db1b9737ea3"
#guard (sha256 a1000).length = HashAlg.sha256.outSize

/-! ## SHA384 -/

#guard toHex (sha384 []) = "38b060a751ac96384cd9327eb1b1e36a21fdb71114be07434c0cc7bf63f6e1da274edebfe76f65fbd51ad2f14898b95b"
#guard toHex (sha384 (strBytes "abc")) = "cb00753f45a35e8bb5a03d699ac65007272c32ab0eded1631a8b605a43ff5bed8086072ba1e7cc2358baeca134c825a7"
#guard toHex (sha384 m448) = "3391fdddfc8dc7393707a65b1b4709397cf8b1d162af05abfe8f450de5f36bc6b0455a8520bc4e6f5fe95b1fe3c8452b"
#guard toHex (sha384 m896) = "09330c33f71147e83d192fc782cd1b4753111b173b3b05d22fa08086e3b0f712fcc7c71a557e2db966c3e9fa91746039"
#guard toHex (sha384 d80) = "b12932b0627d1c060942f5447764155655bd4da0c9afa6dd9b9ef53129af1b8fb0195996d2de9ca0df9d821ffee67026"
#guard toHex (sha384 a1000) = "f54480689c6b0b11d0303285d9a81b21a93bca6ba5a1b4472765dca4da45ee328082d469c650cd3b61b16d3266ab8ced"
#guard (sha384 a1000).length = HashAlg.sha384.outSize

/-! ## SHA512 -/

#guard toHex (sha512 []) = "cf83e1357eefb8bdf1542850d66d8007d620e4050b5715dc83f4a921d36ce9ce47d0d13c5d85f2b0ff8318d2877eec2f63b931bd47417a81a538327af927da3e"
#guard toHex (sha512 (strBytes "abc")) = "ddaf35a193617abacc417349ae20413112e6fa4e89a97ea20a9eeee64b55d39a2192992a274fc1a836ba3c23a3feebbd454d4423643ce80e2a9ac94fa54ca49f"
#guard toHex (sha512 m448) = "204a8fc6dda82f0a0ced7beb8e08a41657c16ef468b228a8279be331a703c33596fd15c13b1b07f9aa1d3bea57789ca031ad85c7a71dd70354ec631238ca3445"
#guard toHex (sha512 m896) = "8e959b75dae313da8cf4f72814fc143f8f7779c6eb9f7fa17299aeadb6889018501d289e4900f7e4331b99dec4b5433ac7d329eeb6dd26545e96e55b874be909"
#guard toHex (sha512 d80) = "72ec1ef1124a45b047e8b7c75a932195135bb61de24ec0d1914042246e0aec3a2354e093d76f3048b456764346900cb130d2a4fd5dd16abb5e30bcb850dee843"
#guard toHex (sha512 a1000) = "67ba5535a46e3f86dbfbed8cbbaf0125c76ed549ff8b0b9e03e0c88cf90fa634fa7b12b47d77b694de488ace8d9a65967dc96df599727d3292a8d9d447709c97"
#guard (sha512 a1000).length = HashAlg.sha512.outSize

/-! ## Padding boundaries (55, 56, 63, 64, 65 / 111, 112, 127, 128, 129 bytes) -/

#guard toHex (md5 (List.replicate 55 0x5a)) = "20917b2e6cdbb175c6108fa89594943b"
#guard toHex (md5 (List.replicate 56 0x5a)) = "c2fc41ad4ba11395c51fc2b02023108c"
#guard toHex (md5 (List.replicate 63 0x5a)) = "397f74f8f0b695d13a0f1911390fa677"
#guard toHex (md5 (List.replicate 64 0x5a)) = "ce7b785b1be7ad4f72773217db8c5d3e"
#guard toHex (md5 (List.replicate 65 0x5a)) = "c878211428b719b9ce802a0359044247"
#guard toHex (sha1 (List.replicate 55 0x5a)) = "55b80d96c523566d3c8a3b8de03a5549fd04915c"
#guard toHex (sha1 (List.replicate 56 0x5a)) = "bfe3466cd0dcd5e29b11e7885010fa7c61b737a6"
#guard toHex (sha1 (List.replicate 63 0x5a)) = "7db05d8e931f0a6731328e4923fbda65ced2f5db"
#guard toHex (sha1 (List.replicate 64 0x5a)) = "eece723b8a411e8c53e7bf49514234da5d394236"
#guard toHex (sha1 (List.replicate 65 0x5a)) = "f9619e0496c7fbeff2f2b4f3f93ed379329fe7d6"
#guard toHex (sha256 (List.replicate 55 0x5a)) = "5f25f149aa92e3e13093aed8216072fae623f35e26ca605b6cce17e04b7ccf44"
#guard toHex (sha256 (List.replicate 56 0x5a)) = "301c69927f1603720c9f847b7e5e3bef77a7b9f75344490fe9039f13c36b842a"
#guard toHex (sha256 (List.replicate 63 0x5a)) = "939765b120205cbedae2ed31256b1967c38b6bdd9b0220535224cbc0b906d333"
#guard toHex (sha256 (List.replicate 64 0x5a)) = "cc7321cce5e4409bd8077d58422e1214969059bbd40b4eeb0de0a642f40f7282"
#guard toHex (sha256 (List.replicate 65 0x5a)) = "b8de0db62b6c87db61345504a8038bf973d987e8d2111abd8beb407c0bf3d9db"
#guard toHex (sha512 (List.replicate 111 0x5a)) = "421318daeb8461d426c4e5a8be95e8d3594116cafb9c28db68e22591c5af0b68962b99dcf2accc1ce4b2f4421287282924c0867d47b542a8923751a0e8cba847"
#guard toHex (sha512 (List.replicate 112 0x5a)) = "efa85a2ad32eee7cd93fe9ef92a7f260e5e703f98cd0c02bfe9a0d4d12dfd0c411f46ef550e6dc55833cbf65f1129765c8073acc6c6255e5c74d703604bb1d0e"
#guard toHex (sha512 (List.replicate 127 0x5a)) = "84d778b759460c828546471b242a4d4ec9ab273684c46c9e3d0513b35e0105e17a344b3ec559dab4c2e6fdc57c70e8fc10d4f688e44be16959a5128be52fabb1"
#guard toHex (sha512 (List.replicate 128 0x5a)) = "ed24df3079846053b9f164968155d8c75c09048e7369477a8ed289aabc79abb00ebbc550b108a2d116743862c0f334cc067ac8baa9b7fde6bfb393e2de92057e"
#guard toHex (sha512 (List.replicate 129 0x5a)) = "76fe07b95acb0e5327f9b4b4f9e0031aa55735b29d4138a797b6209705d0678c247e598f5ec1f82c7659a1e0d3d5d26687f9c2e3def69eb871d0a99d4c769e14"
#guard toHex (sha384 (List.replicate 111 0x5a)) = "46a3e3edbe264f3074b9c7015254e9cda8dfc6cab794c3bbdf738dfeaa904ae45261c99fbb75a5257149fd7c6088dab4"
#guard toHex (sha384 (List.replicate 112 0x5a)) = "295b13a7e4eda2a778382dd34ab76e1e5fd7feeefc2b0366ef545d13e4c1545bfc35dd16cf5411ac03f23712f48aa78c"
#guard toHex (sha384 (List.replicate 127 0x5a)) = "fd5365a41369db812364b14892489623afd7b0c870f5c7df6293c1c5f5ce8c445ffa9c0121bc237dc29827b350b62767"
#guard toHex (sha384 (List.replicate 128 0x5a)) = "9eb42225f15267e988e725191119ecfedec06f9a3891e72d8d205d9b9dded32c2d2b181790d1bb1a04cac18901be9f86"
#guard toHex (sha384 (List.replicate 129 0x5a)) = "c4ccb4d1549a531daf17a150ac1c84e26950de2319eff86783f2baeebdf1e08a6b91e7d179c97e318943e657017fadd6"

/-! ## HMAC -/

-- RFC 4231 test case 1
#guard toHex (hmac .sha256 (List.replicate 20 0x0b) (strBytes "Hi There")) =
  "b0344c61d8db38535ca8afceaf0bf12b881dc200c9833da726e9376c2e32cff7"
#guard toHex (hmac .sha224 (List.replicate 20 0x0b) (strBytes "Hi There")) =
  "896fb1128abbdf196832107cd49df33f47b4b1169912ba4f53684b22"
#guard toHex (hmac .sha384 (List.replicate 20 0x0b) (strBytes "Hi There")) =
  "afd03944d84895626b0825f4ab46907f15f9dadbe4101ec682aa034c7cebc59cfaea9ea9076ede7f4af152e8b2fa9cb6"
#guard toHex (hmac .sha512 (List.replicate 20 0x0b) (strBytes "Hi There")) =
  "87aa7cdea5ef619d4ff0b4241a1d6cb02379f4e2ce4ec2787ad0b30545e17cdedaa833b7d6b8a702038b274eaea3f4e4be9d914eeb61f1702e696c203a126854"
-- RFC 4231 test case 2
#guard toHex (hmac .sha256 (strBytes "Jefe") (strBytes "what do ya want for nothing?")) =
  "5bdcc146bf60754e6a042426089575c75a003f089d2739839dec58b964ec3843"
#guard toHex (hmac .sha512 (strBytes "Jefe") (strBytes "what do ya want for nothing?")) =
  "164b7a7bfcf819e2e395fbe73b56e0a387bd64222e831fd610270cd7ea2505549758bf75c05a994a6d034f65f8f0e6fdcaeab1a34d4a6b4b636e070a38bce737"
-- RFC 4231 test case 6 (key longer than the block size: 131 bytes)
#guard toHex (hmac .sha256 (List.replicate 131 0xaa)
    (strBytes "Test Using Larger Than Block-Size Key - Hash Key First")) =
  "60e431591ee0b67f0d8a26aacbf5b77f8e0bc6213728c5140546040f0ee37f54"
#guard toHex (hmac .sha384 (List.replicate 131 0xaa)
    (strBytes "Test Using Larger Than Block-Size Key - Hash Key First")) =
  "4ece084485813e9088d2c63a041bc5b44f9ef1012a2b588f3cd11f05033ac4c60c2ef6ab4030fe8296248df163f44952"
-- RFC 2202 test case 1 (HMAC-SHA1, HMAC-MD5)
#guard toHex (hmac .sha1 (List.replicate 20 0x0b) (strBytes "Hi There")) =
  "b617318655057264e28bc0b6fb378c8ef146be00"
#guard toHex (hmac .md5 (List.replicate 16 0x0b) (strBytes "Hi There")) =
  "9294727a3638bb1c13f48ef8158bfc9d"
-- RFC 2202 test case 2
#guard toHex (hmac .sha1 (strBytes "Jefe") (strBytes "what do ya want for nothing?")) =
  "effcdf6ae5eb2fa2d27416d5f184df9c259a7c79"
#guard toHex (hmac .md5 (strBytes "Jefe") (strBytes "what do ya want for nothing?")) =
  "750c783e6ab0b503eaa86e310a5db738"

/-! ## HKDF (RFC 5869) -/

-- Test case 1
def hkdf1IKM : Bytes := List.replicate 22 0x0b
def hkdf1Salt : Bytes := ofHex "000102030405060708090a0b0c"
def hkdf1Info : Bytes := ofHex "f0f1f2f3f4f5f6f7f8f9"
def hkdf1PRK : Bytes := ofHex "077709362c2e32df0ddc3f0dc47bba6390b6c73bb50f9c3122ec844ad7c2b3e5"
#guard hkdfExtract .sha256 hkdf1Salt hkdf1IKM = hkdf1PRK
#guard toHex (hkdfExpand .sha256 hkdf1PRK hkdf1Info 42) =
  "3cb25f25faacd57a90434f64d0362f2a2d2d0a90cf1a5a4c5db02d56ecc4c5bf34007208d5b887185865"
-- Test case 3 (empty salt and info)
#guard toHex (hkdfExtract .sha256 [] hkdf1IKM) =
  "19ef24a32c717b167f33a91d6f648bdf96596776afdb6377ac434c1c293ccb04"
#guard toHex (hkdfExpand .sha256 (hkdfExtract .sha256 [] hkdf1IKM) [] 42) =
  "8da4e775a563c18f715f802a063c5a31b8a11f5c5ee1879ec3454e5f3c738d2d9d201395faa4b61a96c8"
-- Test case 4 (SHA-1)
#guard toHex (hkdfExtract .sha1 hkdf1Salt (List.replicate 11 0x0b)) =
  "9b6c18c432a7bf8f0e71c8eb88f4b30baa2ba243"
#guard toHex (hkdfExpand .sha1 (hkdfExtract .sha1 hkdf1Salt (List.replicate 11 0x0b)) hkdf1Info 42) =
  "085a01ea1b10f36933068b56efa5ad81a4f14b822f5b091568a9cdd4f155fda2c22e422478d305f3f896"
-- Length handling
#guard hkdfExpand .sha256 hkdf1PRK hkdf1Info 0 = []
#guard (hkdfExpand .sha256 hkdf1PRK hkdf1Info 32).length = 32
#guard (hkdfExpand .sha256 hkdf1PRK hkdf1Info 33).length = 33
#guard toHex (hkdfExpand .sha256 hkdf1PRK hkdf1Info 100) =
  "3cb25f25faacd57a90434f64d0362f2a2d2d0a90cf1a5a4c5db02d56ecc4c5bf34007208d5b887185865b4b0a85a993b89b9b65683d60f0106d28fff039d0b6f3408900c0f2a9d4463de83622056be50a881bebf2b983ab43e069912f0a57582fcb18ca7"
#guard (hkdfExpand .sha256 hkdf1PRK hkdf1Info (255 * 32)).length = 255 * 32
#guard (hkdfExpand .sha256 hkdf1PRK hkdf1Info (255 * 32 + 1)).length = 255 * 32

/-! ## MGF1 (values from a reference Python implementation of RFC 8017 B.2.1) -/

#guard toHex (mgf1 .sha1 (strBytes "foo") 3) =
  "1ac907"
#guard toHex (mgf1 .sha1 (strBytes "foo") 5) =
  "1ac9075cd4"
#guard toHex (mgf1 .sha1 (strBytes "bar") 50) =
  "bc0c655e016bc2931d85a2e675181adcef7f581f76df2739da74faac41627be2f7f415c89e983fd0ce80ced9878641cb4876"
#guard toHex (mgf1 .sha256 (strBytes "bar") 50) =
  "382576a7841021cc28fc4c0948753fb8312090cea942ea4c4e735d10dc724b155f9f6069f289d61daca0cb814502ef04eae1"
#guard toHex (mgf1 .sha256 (strBytes "") 32) =
  "df3f619804a92fdb4057192dc43dd748ea778adc52bc498ce80524c014b81119"
#guard toHex (mgf1 .sha256 (strBytes "seed") 33) =
  "336f28a022193939585a1b4edc989f870917f3a5f6ddd16e4fb357084a6bdfc273"
#guard toHex (mgf1 .sha512 (strBytes "seed") 130) =
  "b76f0d507aafecd10f1a1f9893059f9d691de22082c56b9057c38ea555a506148fda313e51515d18522c4e70066f8adfc773cde314d480b9521773495e3069ad24cb16e3eebfe8444aca93a80cfd96b16a5f0ab3d71fb4c3956089cbb89d9288f2f11ca8949f04b485ff315c2df2f24b46595f5fd9f4f22b847f665c64cb20b80fb1"
#guard toHex (mgf1 .sha384 (strBytes "seed") 48) =
  "e721d6bbe0d42240bced67392f8a8edb1f79e25ed92a70a4b1521722f1cb81772d8539173cc5055fabed6ce533157115"
#guard mgf1 .sha256 (strBytes "seed") 0 = []

/-! ## Helpers -/

#guard chunks 3 [1, 2, 3, 4, 5, 6, 7] = [[1, 2, 3], [4, 5, 6], [7]]
#guard chunks 3 ([] : List Nat) = []
#guard chunks 0 [1, 2] = [[], []]
#guard (padBE 64 8 (List.replicate 55 0)).length = 64
#guard (padBE 64 8 (List.replicate 56 0)).length = 128
#guard (padBE 128 16 (List.replicate 111 0)).length = 128
#guard (padBE 128 16 (List.replicate 112 0)).length = 256
#guard natToBytesBE 4 0x01020304 = [1, 2, 3, 4]
#guard natToBytesLE 4 0x01020304 = [4, 3, 2, 1]
#guard ofHex? "00ffA5" = some [0, 255, 0xa5]
#guard ofHex? "0" = none
#guard ofHex? "zz" = none

/-! ## Kernel-checked examples

The definitions also reduce in the kernel (plain `decide`, no compiler involved). -/

set_option maxRecDepth 100000 in
example : md5 [] = ofHex "d41d8cd98f00b204e9800998ecf8427e" := by decide

set_option maxRecDepth 100000 in
example : sha256 [] = ofHex "e3b0c44298fc1c149afbf4c8996fb92427ae41e4649b934ca495991b7852b855" := by decide

end ZV.Hash.Test
