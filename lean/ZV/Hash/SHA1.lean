import ZV.Hash.Common

/-! # SHA-1 (FIPS 180-4) -/

namespace ZV.Hash.SHA1

structure State where
  a : UInt32
  b : UInt32
  c : UInt32
  d : UInt32
  e : UInt32
  deriving Repr, DecidableEq

def init : State := ⟨0x67452301, 0xefcdab89, 0x98badcfe, 0x10325476, 0xc3d2e1f0⟩

/-- One step of the message-schedule extension: append `W[t]` where `t = w.size`. -/
def scheduleStep (w : Array UInt32) (t : Nat) : Array UInt32 :=
  w.push (rotl32 (w.getD (t - 3) 0 ^^^ w.getD (t - 8) 0
                  ^^^ w.getD (t - 14) 0 ^^^ w.getD (t - 16) 0) 1)

/-- The 80-word message schedule of a 16-word block. -/
def schedule (block : List UInt32) : Array UInt32 :=
  (List.range' 16 64).foldl scheduleStep block.toArray

/-- Round function `f_t`. -/
@[inline] def f (t : Nat) (b c d : UInt32) : UInt32 :=
  if t < 20 then (b &&& c) ||| (~~~b &&& d)
  else if t < 40 then b ^^^ c ^^^ d
  else if t < 60 then (b &&& c) ||| (b &&& d) ||| (c &&& d)
  else b ^^^ c ^^^ d

/-- Round constant `K_t`. -/
@[inline] def k (t : Nat) : UInt32 :=
  if t < 20 then 0x5a827999
  else if t < 40 then 0x6ed9eba1
  else if t < 60 then 0x8f1bbcdc
  else 0xca62c1d6

/-- Round `t` with schedule word `w`. -/
def round (s : State) (t : Nat) (w : UInt32) : State :=
  let tmp := rotl32 s.a 5 + f t s.b s.c s.d + s.e + k t + w
  ⟨tmp, s.a, rotl32 s.b 30, s.c, s.d⟩

def State.add (x y : State) : State :=
  ⟨x.a + y.a, x.b + y.b, x.c + y.c, x.d + y.d, x.e + y.e⟩

/-- The compression function on one 16-word block. -/
def compress (hv : State) (block : List UInt32) : State :=
  let w := schedule block
  hv.add ((List.range 80).foldl (fun s t => round s t (w.getD t 0)) hv)

def State.words (s : State) : List UInt32 := [s.a, s.b, s.c, s.d, s.e]

def digestState (msg : Bytes) : State :=
  (chunks 16 (wordsBE32 (padBE 64 8 msg))).foldl compress init

end SHA1

/-- SHA-1 (20-byte digest). -/
def sha1 (msg : Bytes) : Bytes :=
  flatMapTR be32Bytes (SHA1.digestState msg).words

end ZV.Hash
