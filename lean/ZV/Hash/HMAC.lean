import ZV.Hash.Common
import ZV.Hash.MD5
import ZV.Hash.SHA1
import ZV.Hash.SHA256
import ZV.Hash.SHA512

/-! # HMAC (RFC 2104), HKDF (RFC 5869) and MGF1 (RFC 8017, B.2.1) -/

namespace ZV.Hash

/-- A hash algorithm packaged with its block and output sizes (in bytes). -/
structure HashAlg where
  hash : Bytes → Bytes
  blockSize : Nat
  outSize : Nat

namespace HashAlg
def md5 : HashAlg := ⟨ZV.Hash.md5, 64, 16⟩
def sha1 : HashAlg := ⟨ZV.Hash.sha1, 64, 20⟩
def sha224 : HashAlg := ⟨ZV.Hash.sha224, 64, 28⟩
def sha256 : HashAlg := ⟨ZV.Hash.sha256, 64, 32⟩
def sha384 : HashAlg := ⟨ZV.Hash.sha384, 128, 48⟩
def sha512 : HashAlg := ⟨ZV.Hash.sha512, 128, 64⟩
end HashAlg

/-- The HMAC key block: keys longer than a block are hashed, then the key is
zero-padded to exactly `blockSize` bytes. -/
def hmacKeyBlock (h : HashAlg) (key : Bytes) : Bytes :=
  let k := if key.length > h.blockSize then h.hash key else key
  k ++ List.replicate (h.blockSize - k.length) 0

/-- HMAC (RFC 2104): `H((K ⊕ opad) ‖ H((K ⊕ ipad) ‖ msg))`. -/
def hmac (h : HashAlg) (key msg : Bytes) : Bytes :=
  let k := hmacKeyBlock h key
  let inner := h.hash (k.map (· ^^^ 0x36) ++ msg)
  h.hash (k.map (· ^^^ 0x5c) ++ inner)

/-- HKDF-Extract (RFC 5869 §2.2): `PRK = HMAC(salt, IKM)`; an empty salt means
`outSize` zero bytes. -/
def hkdfExtract (h : HashAlg) (salt ikm : Bytes) : Bytes :=
  hmac h (if salt.isEmpty then List.replicate h.outSize 0 else salt) ikm

/-- Loop of `hkdfExpand`: `n` more blocks, the next one has index `i`, the previous
block is `prev`, and `acc` is the reversed list of blocks produced so far. -/
def hkdfExpandAux (h : HashAlg) (prk info : Bytes) :
    (n : Nat) → (i : Nat) → (prev : Bytes) → (acc : List Bytes) → List Bytes
  | 0, _, _, acc => acc.reverse
  | n + 1, i, prev, acc =>
    let t := hmac h prk (prev ++ info ++ [UInt8.ofNat i])
    hkdfExpandAux h prk info n (i + 1) t (t :: acc)

/-- HKDF-Expand (RFC 5869 §2.3). At most 255 blocks are produced, so if
`len > 255 * outSize` (an error in the RFC) the result is only `255 * outSize` bytes. -/
def hkdfExpand (h : HashAlg) (prk info : Bytes) (len : Nat) : Bytes :=
  let n := min 255 ((len + h.outSize - 1) / h.outSize)
  (hkdfExpandAux h prk info n 1 [] []).flatten.take len

/-- Loop of `mgf1`: `n` more blocks, the next one has counter `i`. -/
def mgf1Aux (h : HashAlg) (seed : Bytes) :
    (n : Nat) → (i : Nat) → (acc : List Bytes) → List Bytes
  | 0, _, acc => acc.reverse
  | n + 1, i, acc => mgf1Aux h seed n (i + 1) (h.hash (seed ++ natToBytesBE 4 i) :: acc)

/-- MGF1 (PKCS #1 / RFC 8017 B.2.1): `H(seed ‖ I2OSP(0,4)) ‖ H(seed ‖ I2OSP(1,4)) ‖ …`
truncated to `len` bytes. -/
def mgf1 (h : HashAlg) (seed : Bytes) (len : Nat) : Bytes :=
  let n := (len + h.outSize - 1) / h.outSize
  (mgf1Aux h seed n 0 []).flatten.take len

end ZV.Hash
