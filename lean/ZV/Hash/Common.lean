import ZV.Base

/-!
# Shared helpers for the executable hash functions

Word packing (big/little endian), Merkle–Damgård padding and block chunking.
Everything is total, computable, and tail recursive (so that the compiled code
does not use stack proportional to the message length).
-/

namespace ZV.Hash

/-! ## Rotations -/

@[inline] def rotl32 (x : UInt32) (n : UInt32) : UInt32 :=
  (x <<< n) ||| (x >>> (32 - n))

@[inline] def rotr32 (x : UInt32) (n : UInt32) : UInt32 :=
  (x >>> n) ||| (x <<< (32 - n))

@[inline] def rotr64 (x : UInt64) (n : UInt64) : UInt64 :=
  (x >>> n) ||| (x <<< (64 - n))

/-! ## Word <-> byte conversions -/

/-- The 4 bytes of a 32-bit word, most significant first. -/
@[inline] def be32Bytes (w : UInt32) : Bytes :=
  [(w >>> 24).toUInt8, (w >>> 16).toUInt8, (w >>> 8).toUInt8, w.toUInt8]

/-- The 4 bytes of a 32-bit word, least significant first. -/
@[inline] def le32Bytes (w : UInt32) : Bytes :=
  [w.toUInt8, (w >>> 8).toUInt8, (w >>> 16).toUInt8, (w >>> 24).toUInt8]

/-- The 8 bytes of a 64-bit word, most significant first. -/
@[inline] def be64Bytes (w : UInt64) : Bytes :=
  [(w >>> 56).toUInt8, (w >>> 48).toUInt8, (w >>> 40).toUInt8, (w >>> 32).toUInt8,
   (w >>> 24).toUInt8, (w >>> 16).toUInt8, (w >>> 8).toUInt8, w.toUInt8]

/-- The 8 bytes of a 64-bit word, least significant first. -/
@[inline] def le64Bytes (w : UInt64) : Bytes :=
  [w.toUInt8, (w >>> 8).toUInt8, (w >>> 16).toUInt8, (w >>> 24).toUInt8,
   (w >>> 32).toUInt8, (w >>> 40).toUInt8, (w >>> 48).toUInt8, (w >>> 56).toUInt8]

@[inline] def packBE32 (a b c d : UInt8) : UInt32 :=
  (a.toUInt32 <<< 24) ||| (b.toUInt32 <<< 16) ||| (c.toUInt32 <<< 8) ||| d.toUInt32

@[inline] def packLE32 (a b c d : UInt8) : UInt32 :=
  (d.toUInt32 <<< 24) ||| (c.toUInt32 <<< 16) ||| (b.toUInt32 <<< 8) ||| a.toUInt32

@[inline] def packBE64 (a b c d e f g h : UInt8) : UInt64 :=
  (a.toUInt64 <<< 56) ||| (b.toUInt64 <<< 48) ||| (c.toUInt64 <<< 40) ||| (d.toUInt64 <<< 32) |||
  (e.toUInt64 <<< 24) ||| (f.toUInt64 <<< 16) ||| (g.toUInt64 <<< 8) ||| h.toUInt64

/-- Accumulator loop of `wordsBE32`. -/
def wordsBE32Aux : Bytes → List UInt32 → List UInt32
  | a :: b :: c :: d :: rest, acc => wordsBE32Aux rest (packBE32 a b c d :: acc)
  | _, acc => acc.reverse

/-- Group bytes into big-endian 32-bit words (trailing `< 4` bytes are dropped). -/
def wordsBE32 (bs : Bytes) : List UInt32 := wordsBE32Aux bs []

/-- Accumulator loop of `wordsLE32`. -/
def wordsLE32Aux : Bytes → List UInt32 → List UInt32
  | a :: b :: c :: d :: rest, acc => wordsLE32Aux rest (packLE32 a b c d :: acc)
  | _, acc => acc.reverse

/-- Group bytes into little-endian 32-bit words (trailing `< 4` bytes are dropped). -/
def wordsLE32 (bs : Bytes) : List UInt32 := wordsLE32Aux bs []

/-- Accumulator loop of `wordsBE64`. -/
def wordsBE64Aux : Bytes → List UInt64 → List UInt64
  | a :: b :: c :: d :: e :: f :: g :: h :: rest, acc =>
      wordsBE64Aux rest (packBE64 a b c d e f g h :: acc)
  | _, acc => acc.reverse

/-- Group bytes into big-endian 64-bit words (trailing `< 8` bytes are dropped). -/
def wordsBE64 (bs : Bytes) : List UInt64 := wordsBE64Aux bs []

/-- Accumulator loop of `flatMapTR`. -/
def flatMapRevAux {α β : Type} (f : α → List β) : List α → List β → List β
  | [], acc => acc.reverse
  | x :: xs, acc => flatMapRevAux f xs ((f x).reverseAux acc)

/-- Tail-recursive `List.flatMap` (used to serialise words back into bytes). -/
def flatMapTR {α β : Type} (f : α → List β) (l : List α) : List β :=
  flatMapRevAux f l []

/-- `n`-byte big-endian encoding of `v mod 256^n` (I2OSP). -/
def natToBytesBE : (n : Nat) → (v : Nat) → Bytes
  | 0, _ => []
  | n + 1, v => UInt8.ofNat (v / 256 ^ n) :: natToBytesBE n v

/-- `n`-byte little-endian encoding of `v mod 256^n`. -/
def natToBytesLE : (n : Nat) → (v : Nat) → Bytes
  | 0, _ => []
  | n + 1, v => UInt8.ofNat v :: natToBytesLE n (v / 256)

/-! ## Chunking -/

/-- Fuelled accumulator loop of `chunks`; structural recursion on the fuel. -/
def chunksAux {α : Type} (n : Nat) : Nat → List α → List (List α) → List (List α)
  | 0, _, acc => acc.reverse
  | _ + 1, [], acc => acc.reverse
  | fuel + 1, l@(_ :: _), acc => chunksAux n fuel (l.drop n) (l.take n :: acc)

/-- Split a list into consecutive pieces of length `n` (the last one may be shorter).
The fuel `l.length` always suffices when `n > 0`. -/
def chunks {α : Type} (n : Nat) (l : List α) : List (List α) :=
  chunksAux n l.length l []

/-! ## Merkle–Damgård padding -/

/-- Number of zero bytes after the `0x80` marker, for block size `blockSize`
and a length field of `lenBytes` bytes, when the message has `len` bytes. -/
def padZeros (blockSize lenBytes len : Nat) : Nat :=
  (2 * blockSize - 1 - lenBytes - len % blockSize) % blockSize

/-- Big-endian length padding (SHA-1 / SHA-2): `msg ‖ 80 ‖ 00… ‖ bitlen`. -/
def padBE (blockSize lenBytes : Nat) (msg : Bytes) : Bytes :=
  let len := msg.length
  msg ++ (0x80 :: (List.replicate (padZeros blockSize lenBytes len) 0
    ++ natToBytesBE lenBytes (8 * len)))

/-- Little-endian length padding (MD5): `msg ‖ 80 ‖ 00… ‖ bitlen`. -/
def padLE (blockSize lenBytes : Nat) (msg : Bytes) : Bytes :=
  let len := msg.length
  msg ++ (0x80 :: (List.replicate (padZeros blockSize lenBytes len) 0
    ++ natToBytesLE lenBytes (8 * len)))

/-! ## Hex (handy for test vectors and the driver) -/

def hexDigit (n : UInt8) : Char :=
  if n < 10 then Char.ofNat (48 + n.toNat) else Char.ofNat (87 + n.toNat)

/-- Lower-case hex rendering of a byte string. -/
def toHex (bs : Bytes) : String :=
  String.ofList (flatMapTR (fun (b : UInt8) => [hexDigit (b >>> 4), hexDigit (b &&& 0xf)]) bs)

def hexVal? (c : Char) : Option UInt8 :=
  if '0' ≤ c ∧ c ≤ '9' then some (UInt8.ofNat (c.toNat - 48))
  else if 'a' ≤ c ∧ c ≤ 'f' then some (UInt8.ofNat (c.toNat - 87))
  else if 'A' ≤ c ∧ c ≤ 'F' then some (UInt8.ofNat (c.toNat - 55))
  else none

def ofHexAux : List Char → Bytes → Option Bytes
  | [], acc => some acc.reverse
  | [_], _ => none
  | a :: b :: rest, acc =>
    match hexVal? a, hexVal? b with
    | some x, some y => ofHexAux rest (((x <<< 4) ||| y) :: acc)
    | _, _ => none

/-- Parse a hex string (even number of hex digits, either case). -/
def ofHex? (s : String) : Option Bytes := ofHexAux s.toList []

/-- Parse a hex string, returning `[]` on malformed input. -/
def ofHex (s : String) : Bytes := (ofHex? s).getD []

/-- The UTF-8 bytes of a string. -/
def strBytes (s : String) : Bytes := s.toUTF8.toList

end ZV.Hash
