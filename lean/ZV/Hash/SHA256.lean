import ZV.Hash.Common

/-! # SHA-256 and SHA-224 (FIPS 180-4) -/

namespace ZV.Hash.SHA256

/-- Round constants. -/
def K : Array UInt32 := #[
  0x428a2f98, 0x71374491, 0xb5c0fbcf, 0xe9b5dba5, 0x3956c25b, 0x59f111f1, 0x923f82a4, 0xab1c5ed5,
  0xd807aa98, 0x12835b01, 0x243185be, 0x550c7dc3, 0x72be5d74, 0x80deb1fe, 0x9bdc06a7, 0xc19bf174,
  0xe49b69c1, 0xefbe4786, 0x0fc19dc6, 0x240ca1cc, 0x2de92c6f, 0x4a7484aa, 0x5cb0a9dc, 0x76f988da,
  0x983e5152, 0xa831c66d, 0xb00327c8, 0xbf597fc7, 0xc6e00bf3, 0xd5a79147, 0x06ca6351, 0x14292967,
  0x27b70a85, 0x2e1b2138, 0x4d2c6dfc, 0x53380d13, 0x650a7354, 0x766a0abb, 0x81c2c92e, 0x92722c85,
  0xa2bfe8a1, 0xa81a664b, 0xc24b8b70, 0xc76c51a3, 0xd192e819, 0xd6990624, 0xf40e3585, 0x106aa070,
  0x19a4c116, 0x1e376c08, 0x2748774c, 0x34b0bcb5, 0x391c0cb3, 0x4ed8aa4a, 0x5b9cca4f, 0x682e6ff3,
  0x748f82ee, 0x78a5636f, 0x84c87814, 0x8cc70208, 0x90befffa, 0xa4506ceb, 0xbef9a3f7, 0xc67178f2]

/-- Chaining value / working variables. -/
structure State where
  a : UInt32
  b : UInt32
  c : UInt32
  d : UInt32
  e : UInt32
  f : UInt32
  g : UInt32
  h : UInt32
  deriving Repr, DecidableEq

def init256 : State :=
  ⟨0x6a09e667, 0xbb67ae85, 0x3c6ef372, 0xa54ff53a, 0x510e527f, 0x9b05688c, 0x1f83d9ab, 0x5be0cd19⟩

def init224 : State :=
  ⟨0xc1059ed8, 0x367cd507, 0x3070dd17, 0xf70e5939, 0xffc00b31, 0x68581511, 0x64f98fa7, 0xbefa4fa4⟩

@[inline] def ssig0 (x : UInt32) : UInt32 := rotr32 x 7 ^^^ rotr32 x 18 ^^^ (x >>> 3)
@[inline] def ssig1 (x : UInt32) : UInt32 := rotr32 x 17 ^^^ rotr32 x 19 ^^^ (x >>> 10)
@[inline] def bsig0 (x : UInt32) : UInt32 := rotr32 x 2 ^^^ rotr32 x 13 ^^^ rotr32 x 22
@[inline] def bsig1 (x : UInt32) : UInt32 := rotr32 x 6 ^^^ rotr32 x 11 ^^^ rotr32 x 25
@[inline] def ch (x y z : UInt32) : UInt32 := (x &&& y) ^^^ (~~~x &&& z)
@[inline] def maj (x y z : UInt32) : UInt32 := (x &&& y) ^^^ (x &&& z) ^^^ (y &&& z)

/-- One step of the message-schedule extension: append `W[t]` where `t = w.size`. -/
def scheduleStep (w : Array UInt32) (t : Nat) : Array UInt32 :=
  w.push (ssig1 (w.getD (t - 2) 0) + w.getD (t - 7) 0
          + ssig0 (w.getD (t - 15) 0) + w.getD (t - 16) 0)

/-- The 64-word message schedule of a 16-word block. -/
def schedule (block : List UInt32) : Array UInt32 :=
  (List.range' 16 48).foldl scheduleStep block.toArray

/-- One compression round with round constant `k` and schedule word `w`. -/
def round (s : State) (k w : UInt32) : State :=
  let t1 := s.h + bsig1 s.e + ch s.e s.f s.g + k + w
  let t2 := bsig0 s.a + maj s.a s.b s.c
  ⟨t1 + t2, s.a, s.b, s.c, s.d + t1, s.e, s.f, s.g⟩

def State.add (x y : State) : State :=
  ⟨x.a + y.a, x.b + y.b, x.c + y.c, x.d + y.d, x.e + y.e, x.f + y.f, x.g + y.g, x.h + y.h⟩

/-- The compression function on one 16-word block. -/
def compress (hv : State) (block : List UInt32) : State :=
  let w := schedule block
  hv.add ((List.range 64).foldl (fun s t => round s (K.getD t 0) (w.getD t 0)) hv)

def State.words (s : State) : List UInt32 := [s.a, s.b, s.c, s.d, s.e, s.f, s.g, s.h]

/-- Run the compression function over the padded message. -/
def digestState (iv : State) (msg : Bytes) : State :=
  (chunks 16 (wordsBE32 (padBE 64 8 msg))).foldl compress iv

end SHA256

/-- SHA-256 (32-byte digest). -/
def sha256 (msg : Bytes) : Bytes :=
  flatMapTR be32Bytes (SHA256.digestState SHA256.init256 msg).words

/-- SHA-224 (28-byte digest). -/
def sha224 (msg : Bytes) : Bytes :=
  (flatMapTR be32Bytes (SHA256.digestState SHA256.init224 msg).words).take 28

end ZV.Hash
