import ZV.Model.C31
import ZV.Hash.HMAC
import ZV.Generated.C31
/-! line protocol for C31 — see go/props/c31/ticket.go for the formats.  The model is instantiated with
    HMAC-SHA-256 from ZV.Hash, the AES-CTR keystream handed over on the line as an oracle value, and the
    cipher-suite tables extracted from the tree (ZV.Generated.C31). -/
namespace ZV.C31

def hmacSha256 (key msg : Bytes) : Bytes := ZV.Hash.hmac ZV.Hash.HashAlg.sha256 key msg

/-! ### parsing helpers -/

def splitNonEmpty (s : String) (sep : String) : List String := if s == "-" then [] else s.splitOn sep

def parseHexItem (s : String) : Option Bytes := if s == "_" then some [] else ofHex s

def parseHexList (s : String) : Option (List Bytes) := (splitNonEmpty s ",").mapM parseHexItem

def parseNatList (s : String) : Option (List Nat) := (splitNonEmpty s ",").mapM String.toNat?

def parseKeys (s : String) : Option (List Bytes) := (splitNonEmpty s ",").mapM ofHex

def showHexList (l : List Bytes) : String :=
  if l.isEmpty then "-" else ",".intercalate (l.map (fun b => if b.isEmpty then "_" else toHex b))

def showOptHex : Option Bytes → String
  | none => "n"
  | some b => toHex b

def parseOptHex (s : String) : Option (Option Bytes) :=
  if s == "n" then some none else (ofHex s).map some

def parseOptHexList (s : String) : Option (Option (List Bytes)) :=
  if s == "n" then some none else (parseHexList s).map some

def b01 (b : Bool) : String := if b then "1" else "0"

/-- keystream oracle `aeskey:iv:ks` (or `-`): the value AES-CTR produces for that key and IV. -/
structure Oracle where
  aes : Bytes
  iv : Bytes
  ks : Bytes

def parseOracle (s : String) : Option (Option Oracle) :=
  if s == "-" then some none
  else
    match s.splitOn ":" with
    | [a, i, k] =>
      match ofHex a, ofHex i, ofHex k with
      | some a, some i, some k => some (some ⟨a, i, k⟩)
      | _, _, _ => none
    | _ => none

/-- `ctr` as far as the oracle values on the line define it; the marker `[0xEE]*(n+1)` (wrong length) is
    returned for a query the harness did not anticipate, see `oracleCovers`. -/
def ctrOf (os : List Oracle) (aes iv : Bytes) (n : Nat) : Bytes :=
  match os.find? (fun o => o.aes == aes && o.iv == iv && n ≤ o.ks.length) with
  | some o => o.ks.take n
  | none => List.replicate (n + 1) 0xEE

/-- would the model query `ctr` outside the oracle for this ticket? (then the line is answered `oracle-miss`) -/
def oracleCovers (os : List Oracle) (keys : List TicketKey) (t : Bytes) : Bool :=
  if t.length < 64 then true
  else
    match findKey (ticketName t) keys 0 with
    | none => true
    | some (_, k) => os.any (fun o => o.aes == k.aes && o.iv == ticketIV t && t.length - 64 ≤ o.ks.length)

def bitSet (flags mask : Nat) : Bool := (flags &&& mask) != 0

def suiteByID (id : Nat) : Option SuiteInfo :=
  match Gen.suiteTable.find? (fun p => p.1 == id) with
  | none => none
  | some (_, fl) => some { ecdhe := bitSet fl Gen.suiteECDHE, ecSign := bitSet fl Gen.suiteECSign, tls12 := bitSet fl Gen.suiteTLS12 }

def hash13 (id : Nat) : Option Nat := (Gen.suiteTable13.find? (fun p => p.1 == id)).map (·.2)

def showState12 (s : SessionState) : String :=
  s!"{s.vers} {s.cipherSuite} {s.createdAt} {toHex s.masterSecret} {showHexList s.certificates}"

def showResBytes : Res Bytes → String
  | .ok b => toHex b
  | .err => "err"
  | .panic => "panic"

/-! ### rot: histories of Config.ticketKeys -/

def parseCfg (s : String) (now : Int) : Option (Res KeyCfg) :=
  match s.splitOn "/" with
  | [d, l, k] =>
    match ofHex l, parseKeys k with
    | some l, some k =>
      let legacy := if l.isEmpty then List.replicate 32 0 else l
      match k with
      | [] => some (.ok { disabled := d == "1", legacy := legacy, explicit := [], auto := [] })
      | _ =>
        match setSessionTicketKeys k now with
        | .ok e => some (.ok { disabled := d == "1", legacy := legacy, explicit := e, auto := [] })
        | .err => some .err
        | .panic => some .panic
    | _, _ => none
  | _ => none

def showAKeys (l : List AKey) : String :=
  if l.isEmpty then "-" else ",".intercalate (l.map (fun k => toHex (k.1.name.take 8) ++ "@" ++ toString k.2))

def runRot (c : KeyCfg) (f : Option KeyCfg) (rand : List Bytes) : List Int → List String → String
  | [], acc => ";".intercalate acc.reverse
  | t :: ts, acc =>
    match ticketKeys c f rand t with
    | .ok (c1, f1, rand1, ks) => runRot c1 f1 rand1 ts (showAKeys ks :: acc)
    | .err => "err"
    | .panic => "panic"

/-! ### handler -/

def handle (args : List String) : String :=
  match args with
  | ["key", k] =>
    match ofHex k with
    | some k => let t := ticketKeyFromBytes k; s!"{toHex t.name} {toHex t.aes} {toHex t.mac}"
    | none => "bad-op"
  | ["setkeys", ks] =>
    match parseKeys ks with
    | some ks =>
      match setSessionTicketKeys ks 1 with
      | .ok l => ",".intercalate (l.map (fun k => toHex k.1.name))
      | .err => "err"
      | .panic => "panic"
    | none => "bad-op"
  | ["enc", ks, iv, st, stream] =>
    match parseKeys ks, ofHex iv, ofHex st, ofHex stream with
    | some ks, some iv, some st, some stream =>
      let keys := ks.map ticketKeyFromBytes
      let os : List Oracle := match keys with | [] => [] | k :: _ => [⟨k.aes, iv, stream⟩]
      match encryptTicket hmacSha256 (ctrOf os) keys iv st with
      | .ok t => "ok " ++ toHex t
      | .err => "err"
      | .panic => "panic"
    | _, _, _, _ => "bad-op"
  | ["dec", ks, t, o, _] =>
    match parseKeys ks, ofHex t, parseOracle o with
    | some ks, some t, some o =>
      let keys := ks.map ticketKeyFromBytes
      let os := o.toList
      if !oracleCovers os keys t then "oracle-miss"
      else
        match decryptTicket hmacSha256 (ctrOf os) keys t with
        | some (pt, old) => s!"ok {toHex pt} {b01 old}"
        | none => "none"
    | _, _, _ => "bad-op"
  | ["m12", v, s, c, ms, certs] =>
    match v.toNat?, s.toNat?, c.toNat?, ofHex ms, parseHexList certs with
    | some v, some s, some c, some ms, some certs =>
      showResBytes (SessionState.marshal { vers := v, cipherSuite := s, createdAt := c, masterSecret := ms, certificates := certs, usedOldKey := false })
    | _, _, _, _, _ => "bad-op"
  | ["u12", d] =>
    match ofHex d with
    | some d =>
      match SessionState.unmarshal false d with
      | some s => "ok " ++ showState12 s
      | none => "err"
    | none => "bad-op"
  | ["m13", s, c, sec, certs, ocsp, scts] =>
    match s.toNat?, c.toNat?, ofHex sec, parseHexList certs, parseOptHex ocsp, parseOptHexList scts with
    | some s, some c, some sec, some certs, some ocsp, some scts =>
      showResBytes (SessionState13.marshal { cipherSuite := s, createdAt := c, resumptionSecret := sec,
                                             certificate := { certificates := certs, ocsp := ocsp, scts := scts } })
    | _, _, _, _, _, _ => "bad-op"
  | ["u13", d] =>
    match ofHex d with
    | some d =>
      match SessionState13.unmarshal d with
      | some s =>
        let scts := match s.certificate.scts with | none => [] | some l => l
        s!"ok {s.cipherSuite} {s.createdAt} {toHex s.resumptionSecret} {showHexList s.certificate.certificates} {showOptHex s.certificate.ocsp} {showHexList scts}"
      | none => "err"
    | none => "bad-op"
  | ["res12", ks, t, o, dis, now, vers, hvers, cs, ss, auth, flags, _] =>
    match parseKeys ks, ofHex t, parseOracle o, parseInt now, vers.toNat?, hvers.toNat?, parseNatList cs, parseNatList ss, auth.toNat?, flags.toNat? with
    | some ks, some t, some o, some now, some vers, some hvers, some cs, some ss, some auth, some flags =>
      let keys := ks.map ticketKeyFromBytes
      let os := o.toList
      let x : Ctx12 := { ticketsDisabled := dis == "1", now := now, vers := vers, helloVers := hvers, clientSuites := cs, serverSuites := ss,
                         clientAuth := auth, ecdheOk := bitSet flags 8, ecSignOk := bitSet flags 4,
                         rsaSignOk := bitSet flags 2, rsaDecryptOk := bitSet flags 1 }
      if !oracleCovers os keys t then "oracle-miss"
      else
        match checkForResumption12 hmacSha256 (ctrOf os) suiteByID x keys t with
        | none => "full"
        | some (st, suite) => s!"resume {suite} {b01 st.usedOldKey} {showState12 st}"
    | _, _, _, _, _, _, _, _, _, _ => "bad-op"
  | ["res13", ks, dis, now, suite, modes, auth, nb, ids, _] =>
    match parseKeys ks, parseInt now, suite.toNat?, ofHex modes, auth.toNat?, nb.toNat? with
    | some ks, some now, some suite, some modes, some auth, some nb =>
      let keys := ks.map ticketKeyFromBytes
      let parsed := (splitNonEmpty ids ";").mapM (fun id =>
        match id.splitOn "/" with
        | [t, o, s] =>
          match ofHex t, parseOracle o, parseOptHex s with
          | some t, some o, some s => some (t, o, s, 0)
          | _, _, _ => none
        | [t, o, s, a] =>
          match ofHex t, parseOracle o, parseOptHex s, a.toNat? with
          | some t, some o, some s, some a => some (t, o, s, a)
          | _, _, _, _ => none
        | _ => none)
      match parsed, hash13 suite with
      | some l, some h =>
        let os := l.flatMap (fun p => p.2.1.toList)
        let secrets := l.map (fun p => p.2.2.1)
        -- binder abstraction: the binder the harness computes for identity i verifies iff the client-side
        -- secret on the line equals the resumption secret inside the ticket
        let binderOk := fun (i : Nat) (st : SessionState13) =>
          match secrets[i]? with
          | some (some s) => s == st.resumptionSecret
          | _ => false
        let x : Ctx13 := { ticketsDisabled := dis == "1", now := now, negHash := h, pskModes := modes, nBinders := nb, clientAuth := auth }
        if !(l.all (fun p => oracleCovers os keys p.1)) then "oracle-miss"
        else
          match checkForResumption13Id hmacSha256 (ctrOf os) hash13 binderOk x keys
                  (l.map (fun p => { label := p.1, obfuscatedTicketAge := p.2.2.2 })) with
          | .noPSK => "none"
          | .errBinders => "err 0"
          | .errBinder _ => "err 0"
          | .accept i st =>
            -- processCertsFromClient: the generated certificates are junk (never parse); none stored ⇒ passes
            if st.certificate.certificates.isEmpty then s!"psk {i}" else "err 1"
      | _, _ => "bad-op"
    | _, _, _, _, _, _ => "bad-op"
  | ["rot", a, b, chunks, times] =>
    match parseKeys chunks, (times.splitOn ",").mapM parseInt with
    | some rand, some (t0 :: ts) =>
      let fb : Option (Option (Res KeyCfg)) := if b == "n" then some none else (parseCfg b t0).map some
      match parseCfg a t0, fb with
      | some (.ok c), some none => runRot c none rand (t0 :: ts) []
      | some (.ok c), some (some (.ok f)) => runRot c (some f) rand (t0 :: ts) []
      | some _, some _ => "panic"
      | _, _ => "bad-op"
    | _, _ => "bad-op"
  | _ => "bad-op"

end ZV.C31
