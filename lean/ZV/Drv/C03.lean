import ZV.Model.C03
import ZV.Drv.C23
/-! line protocol for C03: `c03 csfk <kt> <k1> <k2> <k3> <k4> <algo> <signed> <sig> <oracle>` → `ok` / `err` / `panic` -/
namespace ZV.C03
open ZV

def parseKey (kt k1 k2 k3 k4 : String) : Option Key :=
  match kt with
  | "rsa" => (C23.parsePub k1 k2).map Key.rsa
  | "dsa" =>
    (match C23.parseNat k1, C23.parseNat k2, C23.parseNat k3, C23.parseNat k4 with
     | some p, some q, some g, some y => some (Key.dsa p q g y)
     | _, _, _, _ => none)
  | "ecdsa" => some .ecdsa
  | "aug" => some .augEcdsa
  | "ed" => some .ed25519
  | _ => none

def handle (args : List String) : String :=
  match args with
  | ["csfk", kt, k1, k2, k3, k4, algo, signed, sig, o] =>
    (match parseKey kt k1 k2 k3 k4, algo.toNat?, ofHex signed, ofHex sig with
     | some key, some a, some m, some s => C23.showU (checkSignatureFromKey key a m s (o == "1"))
     | _, _, _, _ => "bad-op")
  | _ => "bad-op"

end ZV.C03
