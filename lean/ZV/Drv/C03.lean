import ZV.Model.C03
import ZV.Drv.C23
/-! line protocol for C03: `c03 csfk|csfkg <kt> <k1> <k2> <k3> <k4> <algo> <signed> <sig> <oracle>` → `ok` / `err` / `panic`;
    `c03 dsasign <P> <Q> <G> <X> <digest> <rnd>` → `ok <r> <s>` (hex as `big.Int.Text(16)`) / `err`;
    `c03 sparams <x509|ocsp> <label> <req>`, `c03 sigai <oid> <absent|null|pss:h>`, `c03 sigoid <oid>` (signer side);
    `c03 dsaver <P> <Q> <G> <Y> <digest> <r> <s>` → `1` / `0` -/
namespace ZV.C03
open ZV

def parseKey (kt k1 k2 k3 k4 : String) : Option Key :=
  match kt with
  | "rsa" => (C23.parsePub k1 k2).map Key.rsa
  | "dsa" =>
    (match C23.parseNat k1, C23.parseNat k2, C23.parseNat k3, C23.parseNat k4 with
     | some p, some q, some g, some y => some (Key.dsa p q g y)
     | _, _, _, _ => none)
  | "ecdsa" => some .ecdsa
  | "aug" => some .augEcdsa
  | "ed" => some .ed25519
  | "other" => some .other
  | _ => none

/-- `(*big.Int).Text(16)` of a natural number -/
def natHex (n : Nat) : String := String.ofList (Nat.toDigits 16 n)

def csfkLine (kt k1 k2 k3 k4 algo signed sig o : String) : String :=
  match parseKey kt k1 k2 k3 k4, algo.toNat?, ofHex signed, ofHex sig with
  | some key, some a, some m, some s => C23.showU (checkSignatureFromKey key a m s (o == "1"))
  | _, _, _, _ => "bad-op"

/-- dotted OID, `-` for the empty one -/
def showOid (o : List Nat) : String := if o.isEmpty then "-" else String.intercalate "." (o.map toString)

def parseOidArcs : List String → Option (List Nat)
  | [] => some []
  | a :: rest =>
    match a.toNat?, parseOidArcs rest with
    | some n, some r => some (n :: r)
    | _, _ => none

def parseOid (s : String) : Option (List Nat) := if s == "-" then some [] else parseOidArcs (s.splitOn ".")

def showParams : Params → String
  | .absent => "absent"
  | .null => "null"
  | .pss h => match pssParamsOf h with
    | some r => "raw:" ++ toHex (r.1.map UInt8.ofNat)
    | none => "raw:?"

def parseParams (s : String) : Option Params :=
  if s == "absent" then some .absent
  else if s == "null" then some .null
  else if s.startsWith "pss:" then (s.drop 4).toString.toNat?.map Params.pss
  else none

def showOpts (o : Bool × Nat) : String := (if o.1 then "1" else "0") ++ ":" ++ toString o.2

/-- `c03 sparams <x509|ocsp> <label> <req>` → `ok <hash> <oid> <params> <written> <pss>:<hash>` / `err` / `panic` -/
def sparamsLine (pkg label req : String) : String :=
  match req.toNat? with
  | none => "bad-op"
  | some r =>
    if pkg == "x509" then
      (match signingParams x509Pkg label r with
       | .ok sp => "ok " ++ toString sp.hash ++ " " ++ showOid sp.oid ++ " " ++ showParams sp.params ++ " " ++
           toString (algoFromAI sp.oid sp.params) ++ " " ++ showOpts (signerOpts r sp.hash)
       | .err => "err"
       | .panic => "panic")
    else if pkg == "ocsp" then
      (match signingParams ocspPkg label r with
       | .ok sp => "ok " ++ toString sp.hash ++ " " ++ showOid sp.oid ++ " " ++ showParams sp.params ++ " " ++
           toString (algoFromOID sp.oid) ++ " " ++ showOpts (signerOptsOcsp sp.hash)
       | .err => "err"
       | .panic => "panic")
    else "bad-op"

def handle (args : List String) : String :=
  match args with
  | ["sparams", pkg, label, req] => sparamsLine pkg label req
  | ["sigai", oid, par] =>
    (match parseOid oid, parseParams par with
     | some o, some p => toString (algoFromAI o p)
     | _, _ => "bad-op")
  | ["sigoid", oid] =>
    (match parseOid oid with
     | some o => toString (algoFromOID o)
     | none => "bad-op")
  | ["csfk", kt, k1, k2, k3, k4, algo, signed, sig, o] => csfkLine kt k1 k2 k3 k4 algo signed sig o
  -- `csfkg`: same call; the harness additionally demands acceptance (the signature is the library's own)
  | ["csfkg", kt, k1, k2, k3, k4, algo, signed, sig, o] => csfkLine kt k1 k2 k3 k4 algo signed sig o
  | ["dsasign", p, q, g, x, dg, rnd] =>
    (match C23.parseNat p, C23.parseNat q, C23.parseNat g, C23.parseNat x, ofHex dg, ofHex rnd with
     | some p, some q, some g, some x, some dg, some rnd =>
       (match dsaSign p q g x dg rnd with
        | .ok (r, s) => "ok " ++ natHex r ++ " " ++ natHex s
        | .err => "err"
        | .panic => "panic")
     | _, _, _, _, _, _ => "bad-op")
  | ["dsaver", p, q, g, y, dg, r, s] =>
    (match C23.parseNat p, C23.parseNat q, C23.parseNat g, C23.parseNat y, ofHex dg, C23.parseBig r, C23.parseBig s with
     | some p, some q, some g, some y, some dg, some (some r), some (some s) =>
       if dsaVerify p q g y dg r s then "1" else "0"
     | _, _, _, _, _, _, _ => "bad-op")
  | _ => "bad-op"

end ZV.C03
