import ZV.Model.C21
/-! line protocol for C21:  `c21 rw <tok,tok,…|-> <tailhex>`; see go/props/c21/c21.go for the tokens.
    output: `builderr` | `<bytes> readfail` | `<bytes> ok <v;v;…> <unread rest>` (`SPEC-MISMATCH` if the
    low-level Builder model and the specification serializer disagree). -/
namespace ZV.C21
open ZV ZV.Der0

/-- split a token head such as `oi160` into letters and the decimal tag -/
def splitTag (h : String) : String × Nat :=
  let cs := h.toList
  let letters := cs.takeWhile (fun c => !c.isDigit)
  let digits := cs.dropWhile (fun c => !c.isDigit)
  (String.ofList letters, match (String.ofList digits).toNat? with | some n => n | none => 0)

def tagOf (n : Nat) : UInt8 := UInt8.ofNat n

def parseOID (s : String) : Option (List Nat) :=
  if s.isEmpty then some [] else (s.splitOn ".").mapM (·.toNat?)

def parseBool (s : String) : Option Bool :=
  if s == "t" then some true else if s == "f" then some false else none

/-- tokens → program; stops at `]` (returning the tokens after it) or at the end. fuel = #tokens. -/
def parseSeq : Nat → List String → Option (Prog × List String)
  | _, [] => some (.done, [])
  | 0, _ :: _ => none
  | fuel + 1, tok :: rest =>
    if tok == "]" then some (.done, rest)
    else
      let isOpen := tok.endsWith "["
      let tok' := if isOpen then (tok.dropEnd 1).toString else tok
      let parts := tok'.splitOn ":"
      match parts with
      | [] => none
      | head :: args =>
        if isOpen then
          match parseSeq fuel rest with
          | none => none
          | some (body, rest1) =>
            match parseSeq fuel rest1 with
            | none => none
            | some (k, rest2) =>
              let (l, t) := splitTag head
              if head == "p1" then some (.lp 1 body k, rest2)
              else if head == "p2" then some (.lp 2 body k, rest2)
              else if head == "p3" then some (.lp 3 body k, rest2)
              else if head == "p4" then some (.lp 4 body k, rest2)
              else if l == "a" then some (.asn1 (tagOf t) body k, rest2)
              else if l == "oa" then some (.optAsn1 (tagOf t) body k, rest2)
              else if head == "v" then some (.value body false k, rest2)
              else if head == "vf" then some (.value body true k, rest2)
              else none
        else
          match parseSeq fuel rest with
          | none => none
          | some (k, rest') =>
            let mk (p : Option Prog) : Option (Prog × List String) := p.map (fun x => (x, rest'))
            let (l, t) := splitTag head
            match head, args with
            | "u8", [a] => mk (a.toNat?.map (fun v => .uN 1 v k))
            | "u16", [a] => mk (a.toNat?.map (fun v => .uN 2 v k))
            | "u24", [a] => mk (a.toNat?.map (fun v => .uN 3 v k))
            | "u32", [a] => mk (a.toNat?.map (fun v => .uN 4 v k))
            | "b", [a] => mk ((ofHex a).map (fun v => .raw v k))
            | "i", [a] => mk ((parseInt a).map (fun v => .int64 2 v k))
            | "e", [a] => mk ((parseInt a).map (fun v => .int64 10 v k))
            | "u", [a] => mk (a.toNat?.map (fun v => .uint64 v k))
            | "n", [a] => mk ((parseInt a).map (fun v => .big v k))
            | "t", [] => mk (some (.bool true k))
            | "f", [] => mk (some (.bool false k))
            | "o", [a] => mk ((parseOID a).map (fun v => .oid v k))
            | "s", [a] => mk ((ofHex a).map (fun v => .octets v k))
            | "bs", [a] => mk ((ofHex a).map (fun v => .bitstr v k))
            | "z", [] => mk (some (.null k))
            | "se", [] => mk (some (.setErr k))
            | "sk", [a] => mk ((ofHex a).map (fun v => .alt (.skip v) k))
            | "cp", [a] => mk ((ofHex a).map (fun v => .alt (.copy v) k))
            | "bb", [a] => mk ((ofHex a).map (fun v => .alt (.bitsBytes v) k))
            | "ob", [a, d] => mk (match parseBool a, parseBool d with
                | some v, some dv => some (.optBool v dv k) | _, _ => none)
            | "nb", [d] => mk ((parseBool d).map (fun dv => .noBool dv k))
            | "g", [a] =>
              (match a.splitOn "@" with
               | [u] => mk ((parseInt u).map (fun v => .gtime { unix := v, off := 0 } k))
               | [u, o] => mk (match parseInt u, parseInt o with
                  | some v, some ov => some (.gtime { unix := v, off := ov } k) | _, _ => none)
               | _ => none)
            | _, _ =>
              if l == "it" then
                (match args with
                 | [a] => mk ((parseInt a).map (fun v => .int64 (tagOf t) v k))
                 | _ => none)
              else if l == "na" then mk (some (.noAsn1 (tagOf t) k))
              else if l == "oi" then
                (match args with
                 | [a, d] => mk (match parseInt a, parseInt d with
                    | some v, some dv => some (.optInt (tagOf t) v dv k) | _, _ => none)
                 | _ => none)
              else if l == "ni" then
                (match args with
                 | [d] => mk ((parseInt d).map (fun dv => .noInt (tagOf t) dv k))
                 | _ => none)
              else if l == "os" then
                (match args with
                 | [a] => mk ((ofHex a).map (fun v => .optOctets (tagOf t) v k))
                 | _ => none)
              else if l == "ns" then mk (some (.noOctets (tagOf t) k))
              else if l == "kn" then mk (some (.alt (.noSkipOpt (tagOf t)) k))
              else if l == "el" ∨ l == "an" ∨ l == "ae" ∨ l == "ks" ∨ l == "ko" then
                (match args with
                 | [a] => mk ((ofHex a).map (fun v =>
                    if l == "el" then .alt (.elem (tagOf t) v) k
                    else if l == "an" then .alt (.any (tagOf t) v) k
                    else if l == "ae" then .alt (.anyElem (tagOf t) v) k
                    else if l == "ks" then .alt (.skipAsn1 (tagOf t) v) k
                    else .alt (.skipOpt (tagOf t) v) k))
                 | _ => none)
              else none

def showVal : Val → String
  | .nat n => toString n
  | .int v => toString v
  | .bytes b => toHex b
  | .bool b => if b then "t" else "f"
  | .oid o => ".".intercalate (o.map toString)
  | .bits l b => toString l ++ "/" ++ toHex b
  | .null => "z"
  | .present => "+"
  | .absent => "-"
  | .presentBytes b => "+" ++ toHex b
  | .skipped => "~"
  | .tagged t b => toString t.toNat ++ "#" ++ toHex b
  | .time t => if t.off = 0 then toString t.unix else toString t.unix ++ "@" ++ toString t.off

def run (p : Prog) (tail : Bytes) : String :=
  let low := buildBytes p
  let spec := ser p
  if low != spec then "SPEC-MISMATCH"
  else match low with
    | .panic => "panic"
    | .err => "builderr"
    | .ok bs =>
      match readProg p (bs ++ tail) with
      | .ok (vs, rest) =>
        toHex bs ++ " ok " ++ (if vs.isEmpty then "-" else ";".intercalate (vs.map showVal)) ++ " " ++ toHex rest
      | .err => toHex bs ++ " readfail"
      | .panic => toHex bs ++ " panic"

/-- builder-only programs (`c21 bw …`): tokens `b:HEX`, `uw:N`, `se`, `p1[`…`p4[`, `aTAG[`, `]`. -/
def parseB : Nat → List String → Option (BProg × List String)
  | _, [] => some (.done, [])
  | 0, _ :: _ => none
  | fuel + 1, tok :: rest =>
    if tok == "]" then some (.done, rest)
    else if tok.endsWith "[" then
      let head := (tok.dropEnd 1).toString
      match parseB fuel rest with
      | none => none
      | some (body, rest1) =>
        match parseB fuel rest1 with
        | none => none
        | some (k, rest2) =>
          let (l, t) := splitTag head
          if head == "p1" then some (.lp 1 body k, rest2)
          else if head == "p2" then some (.lp 2 body k, rest2)
          else if head == "p3" then some (.lp 3 body k, rest2)
          else if head == "p4" then some (.lp 4 body k, rest2)
          else if l == "a" then some (.asn1 (tagOf t) body k, rest2)
          else none
    else
      match parseB fuel rest with
      | none => none
      | some (k, rest') =>
        match tok.splitOn ":" with
        | ["se"] => some (.setErr k, rest')
        | ["b", a] => (ofHex a).map (fun v => (.add v k, rest'))
        | ["uw", a] => a.toNat?.map (fun v => (.unwrite v k, rest'))
        | _ => none

def runB (p : BProg) : String :=
  let low := bbuildBytes p
  if low != bspec p [] then "SPEC-MISMATCH"
  else match low with
    | .panic => "panic"
    | .err => "builderr"
    | .ok bs => toHex bs

def handle (args : List String) : String :=
  match args with
  | ["rw", prog, tail] =>
    let toks := if prog == "-" then [] else prog.splitOn ","
    (match parseSeq (toks.length + 1) toks, ofHex tail with
     | some (p, _), some t => run p t
     | _, _ => "bad-op")
  | ["bw", prog] =>
    let toks := if prog == "-" then [] else prog.splitOn ","
    (match parseB (toks.length + 1) toks with
     | some (p, _) => runB p
     | none => "bad-op")
  | _ => "bad-op"

end ZV.C21
