import ZV.Drv.C18
import ZV.Model.C20
import ZV.Drv.C20X
/-! line protocol for C20:  `c20 u <schema> <p=tagstring> <hex>`  →  `<strict result>|<permissive result>`
    (each result as in `c18 u`: `ok <value> <len(rest)>` | `err`);
    `c20 tpc <u|g> <hex>` and `c20 tu time <p=tagstring> <hex>` → the same pair for the time content parsers /
    for `UnmarshalWithParams` into a `time.Time` (results as in `c18 tpc` / `c18 tu`). -/
namespace ZV.C20
open ZV.C18

def handle (args : List String) : String :=
  match args with
  | ["u", sc, p, h] =>
    (match parseSchema sc, parseP p, ofHex h with
     | some s, some p, some bs => showUnm (unmarshal false s p bs) ++ "|" ++ showUnm (unmarshal true s p bs)
     | _, _, _ => "bad-op")
  | ["tpc", k, h] =>
    (match ofHex h with
     | some bs =>
       if k == "u" then showTimeRes (ZV.Time.EA.parseUTCTime false bs) ++ "|" ++ showTimeRes (ZV.Time.EA.parseUTCTime true bs)
       else if k == "g" then
         showTimeRes (ZV.Time.EA.parseGeneralizedTime false bs) ++ "|" ++ showTimeRes (ZV.Time.EA.parseGeneralizedTime true bs)
       else "bad-op"
     | none => "bad-op")
  | ["tu", "time", p, h] =>
    (match parseP p, ofHex h with
     | some p, some bs =>
       let sh (r : Res (ZV.Time.GoTime × Bytes)) : String :=
         match r with
         | .ok (t, rest) => "ok " ++ showTimeTok t ++ " " ++ toString rest.length
         | .err => "err"
         | .panic => "panic"
       sh (TimeField.parseTimeField false p bs) ++ "|" ++ sh (TimeField.parseTimeField true p bs)
     | _, _ => "bad-op")
  | "xsch" :: _ => ZV.C20.X.handle args
  | "xpk" :: _ => ZV.C20.X.handle args
  | "xpa" :: _ => ZV.C20.X.handle args
  | "xgn" :: _ => ZV.C20.X.handle args
  | "xpc" :: _ => ZV.C20.X.handle args
  | _ => "bad-op"

end ZV.C20
