import ZV.Drv.C18
import ZV.Model.C20
/-! line protocol for C20:  `c20 u <schema> <p=tagstring> <hex>`  →  `<strict result>|<permissive result>`
    (each result as in `c18 u`: `ok <value> <len(rest)>` | `err`). -/
namespace ZV.C20
open ZV.C18

def handle (args : List String) : String :=
  match args with
  | ["u", sc, p, h] =>
    (match parseSchema sc, parseP p, ofHex h with
     | some s, some p, some bs => showUnm (unmarshal false s p bs) ++ "|" ++ showUnm (unmarshal true s p bs)
     | _, _, _ => "bad-op")
  | _ => "bad-op"

end ZV.C20
