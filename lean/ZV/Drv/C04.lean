import ZV.Model.C04
import ZV.Model.C04NC
import ZV.Model.C04Val
import ZV.Model.C22Any
import ZV.Generated.C04
/-! line protocol for C04:
      `c04 t <seed> <key> <signer> <alg> KU EKU UNK BC SKI AKI OCSP ISS DNS EMAIL IP POL NC CRLDP EXTRA`
    (first four arguments are for the Go side only).  Lists: `,`-separated hex strings, OID lists `;`-separated
    dotted, `-` = empty list; BC = `valid,isCA,maxPathLen,maxPathLenZero`; NC = `-` | `crit:valuehex`;
    EXTRA = `;`-separated `oid:crit:valuehex`.
    output: `ok exts=<oid:crit:hex;…> ku= eku= unk= bc= ski= aki= dns= email= uri= ip= ocsp= iss= crldp= pol=`
    | `err` | `panic`. -/
namespace ZV.C04
open ZV ZV.Der

def splitList (sep : String) (s : String) : List String := if s == "-" then [] else s.splitOn sep

def parseOidStr (s : String) : Option (List Nat) := (s.splitOn ".").mapM (·.toNat?)

def hexList (s : String) : Option (List Bytes) := (splitList "," s).mapM ofHex

def oidList (s : String) : Option (List (List Nat)) := (splitList ";" s).mapM parseOidStr

def parseBool01 (s : String) : Option Bool := if s == "1" then some true else if s == "0" then some false else none

def parseExtra (s : String) : Option Ext :=
  match s.splitOn ":" with
  | [o, c, v] =>
    match parseOidStr o, parseBool01 c, ofHex v with
    | some oid, some crit, some val => some ⟨oid, crit, val⟩
    | _, _, _ => none
  | _ => none

/-- contents octets → arcs (`parseObjectIdentifier`) -/
def decArcs : Nat → Bytes → Option (List Nat)
  | 0, bs => if bs.isEmpty then some [] else none
  | f + 1, bs =>
    if bs.isEmpty then some []
    else
      match readBase128 5 0 0 bs with
      | .ok (v, rest) => (decArcs f rest).map (v :: ·)
      | _ => none

def decOID (bs : Bytes) : Option (List Nat) :=
  match decArcs bs.length bs with
  | some (v :: rest) => if v < 80 then some (v / 40 :: v % 40 :: rest) else some (2 :: (v - 80) :: rest)
  | _ => none

def showOid (o : List Nat) : String := ".".intercalate (o.map toString)
def showOidBytes (b : Bytes) : String := match decOID b with | some o => showOid o | none => "?"
def showList (sep : String) (l : List String) : String := if l.isEmpty then "-" else sep.intercalate l
def b01 (b : Bool) : String := if b then "1" else "0"

def showExt (x : Ext) : String := showOid x.oid ++ ":" ++ b01 x.critical ++ ":" ++ toHex x.value

def parseTmpl : List String → Option Tmpl
  | [ku, eku, unk, bc, ski, aki, ocsp, iss, dns, email, ip, pol, nc, crldp, extra] =>
    match ku.toNat?, (splitList "," eku).mapM (·.toNat?), oidList unk, (bc.splitOn ","), ofHex ski, ofHex aki with
    | some ku, some eku, some unk, [v, ca, mpl, z], some ski, some aki =>
      match parseBool01 v, parseBool01 ca, parseInt mpl, parseBool01 z, hexList ocsp, hexList iss, hexList dns, hexList email with
      | some v, some ca, some mpl, some z, some ocsp, some iss, some dns, some email =>
        match hexList ip, oidList pol, hexList crldp, (splitList ";" extra).mapM parseExtra with
        | some ip, some pol, some crldp, some extra =>
          let ncv : Option (Option (Bool × Bytes)) :=
            if nc == "-" then some none
            else match nc.splitOn ":" with
              | [c, h] => (match parseBool01 c, ofHex h with | some c, some h => some (some (c, h)) | _, _ => none)
              | _ => none
          match ncv with
          | some ncv => some ⟨ku, eku, unk, v, ca, mpl, z, ski, aki, ocsp, iss, dns, email, ip, pol, ncv, crldp, extra⟩
          | none => none
        | _, _, _, _ => none
      | _, _, _, _, _, _, _, _ => none
    | _, _, _, _, _, _ => none
  | _ => none

def showFields (f : Fields) : String :=
  let arcs := f.ekuOids.map decOID
  let known := arcs.filterMap (fun o => match o with
    | some a => (ZV.Generated.C04.ekuConstants.find? (fun p => p.1 == a)).map (fun p => toString p.2)
    | none => none)
  let unk := arcs.filterMap (fun o => match o with
    | some a => if (ZV.Generated.C04.ekuConstants.find? (fun p => p.1 == a)).isSome then none else some (showOid a)
    | none => some "?")
  "ku=" ++ toString f.keyUsage ++ " eku=" ++ showList "," known ++ " unk=" ++ showList ";" unk
    ++ " bc=" ++ b01 f.bcValid ++ "," ++ b01 f.isCA ++ "," ++ toString f.maxPathLen ++ "," ++ b01 f.maxPathLenZero
    ++ " ski=" ++ toHex f.ski ++ " aki=" ++ toHex f.aki
    ++ " dns=" ++ showList "," (f.san.dns.map toHex) ++ " email=" ++ showList "," (f.san.email.map toHex)
    ++ " uri=" ++ showList "," (f.san.uris.map toHex) ++ " ip=" ++ showList "," (f.san.ips.map toHex)
    ++ " ocsp=" ++ showList "," (f.ocsp.map toHex) ++ " iss=" ++ showList "," (f.issuing.map toHex)
    ++ " crldp=" ++ showList "," (f.crldp.map toHex) ++ " pol=" ++ showList ";" (f.policies.map showOidBytes)

/-! name constraints: `c04 nc <crit> PE PD PDIR PIP XE XD XDIR XIP` (lists `,`-separated `x<hex>`, IP ranges
    `x<addr>/x<mask>`, `-` = empty) → `ok v=<x hex|-> crit= P e= d= u= x4= dir= ip= X …`;
    `c04 ncp <crit> <hex>`: the parser arm alone on an arbitrary extension value → `ok crit= P … X …` | `err`. -/

def xHex (s : String) : Option Bytes := if s.startsWith "x" then ofHex (String.ofList (s.toList.drop 1)) else none
def xList (s : String) : Option (List Bytes) := (splitList "," s).mapM xHex
def xPair (s : String) : Option (Bytes × Bytes) :=
  match s.splitOn "/" with
  | [a, m] => (match xHex a, xHex m with | some a, some m => some (a, m) | _, _ => none)
  | _ => none
def xPairs (s : String) : Option (List (Bytes × Bytes)) := (splitList "," s).mapM xPair

def parseSide (e d dir ip : String) : Option NCSide :=
  match xList e, xList d, xList dir, xPairs ip with
  | some e, some d, some dir, some ip => some ⟨e, d, dir, ip⟩
  | _, _, _, _ => none

/-- `asn1.Unmarshal(Value.Bytes, &rawdn)` succeeds (trailing bytes are allowed): the C22 decoder -/
def rdnOK (b : Bytes) : Bool := match ZV.C22.unmarshalAny b with | .ok _ => true | _ => false

def xh (b : Bytes) : String := if b.isEmpty then "x" else "x" ++ toHex b
def showST (p : Bytes × Int × Int) : String := xh p.1 ++ ":" ++ toString p.2.1 ++ ":" ++ toString p.2.2
def showIP (p : Bytes × Bytes × Int × Int) : String :=
  xh p.1 ++ "/" ++ xh p.2.1 ++ ":" ++ toString p.2.2.1 ++ ":" ++ toString p.2.2.2
def showSide (s : NCOutSide) : String :=
  "e=" ++ showList "," (s.email.map showST) ++ " d=" ++ showList "," (s.dns.map showST) ++ " u=" ++ showList "," (s.uri.map showST)
    ++ " x4=" ++ toString s.x400 ++ " dir=" ++ showList "," (s.dir.map showST) ++ " ip=" ++ showList "," (s.ip.map showIP)

def handleNC (args : List String) : String :=
  match args with
  | ["nc", crit, pe, pd, pdir, pip, xe, xd, xdir, xip] =>
    (match parseBool01 crit, parseSide pe pd pdir pip, parseSide xe xd xdir xip with
     | some c, some p, some x =>
       let n : NCT := ⟨c, p, x⟩
       if n.present then
         (match parseNC rdnOK (buildNC n) with
          | .ok (ps, xs) => "ok v=" ++ xh (buildNC n) ++ " crit=" ++ b01 c ++ " P " ++ showSide ps ++ " X " ++ showSide xs
          | .err => "err"
          | .panic => "panic")
       else "ok v=- crit=0 P " ++ showSide {} ++ " X " ++ showSide {}
     | _, _, _ => "bad-op")
  | ["ncp", crit, v] =>
    (match parseBool01 crit, ofHex v with
     | some c, some v =>
       (match parseNC rdnOK v with
        | .ok (ps, xs) => "ok crit=" ++ b01 c ++ " P " ++ showSide ps ++ " X " ++ showSide xs
        | .err => "err"
        | .panic => "panic")
     | _, _ => "bad-op")
  | _ => "bad-op"

/-! `c04 val <serial> <nbUnix> <nbNsec> <nbOff> <naUnix> <naNsec> <naOff>` →
    `ok ser=<INTEGER contents hex> serial=<dec> v=<Validity DER hex> nb=<unix>,<off>,<nsec> na=…` | `err` -/
def showGT (t : ZV.Time.GoTime) : String := toString t.unix ++ "," ++ toString t.off ++ "," ++ toString t.nsec

def handleVal (args : List String) : String :=
  match args with
  | ["val", ser, nbu, nbn, nbo, nau, nan, nao] =>
    (match parseInt ser, parseInt nbu, nbn.toNat?, parseInt nbo, parseInt nau, nan.toNat?, parseInt nao with
     | some ser, some nbu, some nbn, some nbo, some nau, some nan, some nao =>
       (match buildValidity ⟨nbu, nbo, nbn⟩ ⟨nau, nao, nan⟩ with
        | .ok v =>
          (match parseValidity v, parseSerial (encSerial ser) with
           | .ok (a, b), .ok s => "ok ser=" ++ toHex (encSerial ser) ++ " serial=" ++ toString s ++ " v=" ++ toHex v
               ++ " nb=" ++ showGT a ++ " na=" ++ showGT b
           | .panic, _ => "panic"
           | _, .panic => "panic"
           | _, _ => "err")
        | .err => "err"
        | .panic => "panic")
     | _, _, _, _, _, _, _ => "bad-op")
  | _ => "bad-op"

def handle (args : List String) : String :=
  match args with
  | "t" :: _seed :: _key :: _signer :: _alg :: rest =>
    match parseTmpl rest with
    | none => "bad-op"
    | some t =>
      match buildExtensions ZV.Generated.C04.nativeEku t with
      | .ok exts =>
        (match applyExts {} exts with
         | .ok f => "ok exts=" ++ showList ";" (exts.map showExt) ++ " " ++ showFields f
         | .err => "err"
         | .panic => "panic")
      | .err => "err"
      | .panic => "panic"
  | "nc" :: _ => handleNC args
  | "ncp" :: _ => handleNC args
  | "val" :: _ => handleVal args
  | _ => "bad-op"

end ZV.C04
