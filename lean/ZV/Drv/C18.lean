import ZV.Model.C18
import ZV.Model.C18Dom
import ZV.Model.C18Time
import ZV.Model.C18Ext
/-! line protocol for C18 (shared with C20):
    `c18 m <schema> <p=tagstring> <value>`   →  `ok <hex>` | `err`
    `c18 u <schema> <p=tagstring> <hex>`     →  `ok <value> <len(rest)>` | `err`
    `c18 d <schema> <p=tagstring> <value>`   →  `in` | `out`   (the domain `InDomain` of the round-trip theorem; the harness
                                                  sends the values of ITS documented domain and prints `in`)
    schema / value are `;`-separated prefix-notation token lists:
      schema:  i64 i32 enum big bool oid bits oct str raw flag | S<n> (p=<tagstring> schema)×n | L schema | LS schema
      value:   i<dec> | t | f | x<hex> | n | o<a.b.c> | b<bitlen>:<hex> | r<cls>:<tag>:<t|f>:<hex>:<hex> | V<n> value×n
    time.Time (models `ZV.Model.Time`, `ZV.Model.C18Time`; a time is the token `T<unix>.<nsec>@<zone offset>`):
    `c18 tm time <p=tagstring> <time>`        →  `ok <hex>` | `err`              MarshalWithParams of a bare time.Time
    `c18 tm26 time <p=tagstring> <time>`      →  the same
    `c18 tu time <p=tagstring> <hex>`         →  `ok <time> <len(rest)>` | `err`  strict UnmarshalWithParams into a time.Time
    `c18 tp <um|us|g> <hex>`                  →  `ok <time>` | `err`              time.Parse with one of the three layouts
    `c18 tf <um|us|g> <time>`                 →  `ok <hex>`                       Time.Format
    `c18 tc <unix> <off>`                     →  `y/m/d/h/mi/s`                   Time.Date() / Time.Clock() in a fixed zone
    `c18 td <y> <m> <d> <h> <mi> <s> <off>`   →  `<unix>`                         time.Date(…).Unix()
    `c18 tpc <u|g> <s|p> <hex>`               →  `ok <time>` | `err`              parseUTCTime / parseGeneralizedTime (strict / permissive)
    `c18 tac <u|g> <time>`                    →  `ok <hex>` | `err`               appendUTCTime / appendGeneralizedTime
    extended embedding (`ZV.Model.C18Ext`; schema `S<n>` whose fields are `time` or old schemas, value `V<n>` of time tokens / old values):
    `c18 tm|tm26 S<n>;… <p=tagstring> V<n>;…` →  `ok <hex>` | `err`               MarshalWithParams of a struct with time fields
    `c18 xu S<n>;… <p=tagstring> <hex>`       →  `ok <value> <len(rest)>` | `err`  strict UnmarshalWithParams into such a struct -/
namespace ZV.C18

def dropPrefix (s : String) (n : Nat) : String := (s.drop n).toString

mutual
def parseSchemaTok : (fuel : Nat) → List String → Option (Schema × List String)
  | 0, _ => none
  | _, [] => none
  | f + 1, tok :: rest =>
    if tok == "i64" then some (.int64, rest)
    else if tok == "i32" then some (.int32, rest)
    else if tok == "enum" then some (.enum, rest)
    else if tok == "big" then some (.bigint, rest)
    else if tok == "bool" then some (.bool, rest)
    else if tok == "oid" then some (.oid, rest)
    else if tok == "bits" then some (.bits, rest)
    else if tok == "oct" then some (.octets, rest)
    else if tok == "str" then some (.str, rest)
    else if tok == "raw" then some (.raw, rest)
    else if tok == "flag" then some (.flag, rest)
    else if tok == "L" then
      match parseSchemaTok f rest with
      | some (e, r) => some (.seqOf false e, r)
      | none => none
    else if tok == "LS" then
      match parseSchemaTok f rest with
      | some (e, r) => some (.seqOf true e, r)
      | none => none
    else if tok.startsWith "S" then
      match (dropPrefix tok 1).toNat? with
      | some n =>
        (match parseFieldsTok f n rest with
         | some (fs, r) => some (.struct fs, r)
         | none => none)
      | none => none
    else none
def parseFieldsTok : (fuel : Nat) → (n : Nat) → List String → Option (Schema × List String)
  | _, 0, toks => some (.fnil, toks)
  | 0, _ + 1, _ => none
  | f + 1, n + 1, ptok :: rest =>
    if ptok.startsWith "p=" then
      match parseSchemaTok f rest with
      | some (s, r) =>
        (match parseFieldsTok f n r with
         | some (fs, r') => some (.fcons (parseFieldParameters (dropPrefix ptok 2)) s fs, r')
         | none => none)
      | none => none
    else none
  | _ + 1, _ + 1, [] => none
end

def parseSchema (s : String) : Option Schema :=
  let toks := s.splitOn ";"
  match parseSchemaTok (2 * toks.length + 2) toks with
  | some (sc, []) => some sc
  | _ => none

def parseArcsTok (s : String) : Option (List Int) :=
  if s.isEmpty then some [] else (s.splitOn ".").mapM parseInt

def parseBoolTok (s : String) : Option Bool :=
  if s == "t" then some true else if s == "f" then some false else none

mutual
def parseValTok : (fuel : Nat) → List String → Option (Val × List String)
  | 0, _ => none
  | _, [] => none
  | f + 1, tok :: rest =>
    if tok == "t" then some (.bool true, rest)
    else if tok == "f" then some (.bool false, rest)
    else if tok == "n" then some (.null, rest)
    else if tok.startsWith "i" then (parseInt (dropPrefix tok 1)).map (fun i => (.int i, rest))
    else if tok.startsWith "x" then (ofHex (dropPrefix tok 1)).map (fun b => (.bytes b, rest))
    else if tok.startsWith "o" then (parseArcsTok (dropPrefix tok 1)).map (fun l => (.oid l, rest))
    else if tok.startsWith "b" then
      match (dropPrefix tok 1).splitOn ":" with
      | [n, h] =>
        (match parseInt n, ofHex h with
         | some n, some b => some (.bits b n, rest)
         | _, _ => none)
      | _ => none
    else if tok.startsWith "r" then
      match (dropPrefix tok 1).splitOn ":" with
      | [c, t, k, h, fh] =>
        (match c.toNat?, t.toNat?, parseBoolTok k, ofHex h, ofHex fh with
         | some c, some t, some k, some b, some fb => some (.raw c t k b fb, rest)
         | _, _, _, _, _ => none)
      | _ => none
    else if tok.startsWith "V" then
      match (dropPrefix tok 1).toNat? with
      | some n => parseValsTok f n rest
      | none => none
    else none
def parseValsTok : (fuel : Nat) → (n : Nat) → List String → Option (Val × List String)
  | _, 0, toks => some (.vnil, toks)
  | 0, _ + 1, _ => none
  | f + 1, n + 1, toks =>
    match parseValTok f toks with
    | some (v, r) =>
      (match parseValsTok f n r with
       | some (vs, r') => some (.vcons v vs, r')
       | none => none)
    | none => none
end

def parseVal (s : String) : Option Val :=
  let toks := s.splitOn ";"
  match parseValTok (2 * toks.length + 2) toks with
  | some (v, []) => some v
  | _ => none

def chainLen : Val → Nat
  | .vcons _ r => chainLen r + 1
  | _ => 0

def showArcs (l : List Int) : String := ".".intercalate (l.map toString)

mutual
def showVal : Val → List String
  | .int i => ["i" ++ toString i]
  | .bool b => [if b then "t" else "f"]
  | .bytes bs => ["x" ++ toHex bs]
  | .null => ["n"]
  | .oid l => ["o" ++ showArcs l]
  | .bits bs n => ["b" ++ toString n ++ ":" ++ toHex bs]
  | .raw c t k b fb => ["r" ++ toString c ++ ":" ++ toString t ++ ":" ++ (if k then "t" else "f") ++ ":" ++ toHex b ++ ":" ++ toHex fb]
  | .vnil => ["V0"]
  | .vcons v r => ("V" ++ toString (chainLen r + 1)) :: (showVal v ++ showChain r)
def showChain : Val → List String
  | .vcons v r => showVal v ++ showChain r
  | _ => []
end

def showValStr (v : Val) : String := ";".intercalate (showVal v)

def showUnm (r : Res (Val × Bytes)) : String :=
  match r with
  | .ok (v, rest) => "ok " ++ showValStr v ++ " " ++ toString rest.length
  | .err => "err"
  | .panic => "panic"

def showBytesRes (r : Res Bytes) : String :=
  match r with
  | .ok b => "ok " ++ toHex b
  | .err => "err"
  | .panic => "panic"

def parseP (s : String) : Option Params :=
  if s.startsWith "p=" then some (parseFieldParameters (dropPrefix s 2)) else none

/-! ### time.Time -/
open ZV.Time in
def parseTimeTok (tok : String) : Option GoTime :=
  if tok.startsWith "T" then
    match (dropPrefix tok 1).splitOn "@" with
    | [sn, off] =>
      (match sn.splitOn "." with
       | [s, n] =>
         (match parseInt s, n.toNat?, parseInt off with
          | some s, some n, some o => some { unix := s, off := o, nsec := n }
          | _, _, _ => none)
       | _ => none)
    | _ => none
  else none

open ZV.Time in
def showTimeTok (t : GoTime) : String := "T" ++ toString t.unix ++ "." ++ toString t.nsec ++ "@" ++ toString t.off

open ZV.Time in
def showTimeRes (r : Res GoTime) : String :=
  match r with
  | .ok t => "ok " ++ showTimeTok t
  | .err => "err"
  | .panic => "panic"

open ZV.Time in
def layoutOf (s : String) : Option (List Std) :=
  if s == "um" then some layoutUTCMin else if s == "us" then some layoutUTCSec
  else if s == "g" then some layoutGen else none

open ZV.Time in
def handleTime (args : List String) : Option String :=
  match args with
  | [op, "time", p, a] =>
    if op == "tm" || op == "tm26" then
      (match parseP p, parseTimeTok a with
       | some p, some t => some (showBytesRes (TimeField.makeTimeField p t))
       | _, _ => some "bad-op")
    else if op == "tu" then
      (match parseP p, ofHex a with
       | some p, some bs =>
         some (match TimeField.parseTimeField false p bs with
           | .ok (t, rest) => "ok " ++ showTimeTok t ++ " " ++ toString rest.length
           | .err => "err"
           | .panic => "panic")
       | _, _ => some "bad-op")
    else none
  | ["tp", l, h] =>
    (match layoutOf l, ofHex h with
     | some l, some bs => some (match parse l bs with | some t => "ok " ++ showTimeTok t | none => "err")
     | _, _ => some "bad-op")
  | ["tf", l, tok] =>
    (match layoutOf l, parseTimeTok tok with
     | some l, some t => some ("ok " ++ toHex (format l t))
     | _, _ => some "bad-op")
  | ["tc", u, o] =>
    (match parseInt u, parseInt o with
     | some u, some o =>
       let c := ofUnix u o
       some ("/".intercalate [toString c.year, toString c.month, toString c.day, toString c.hour, toString c.min, toString c.sec])
     | _, _ => some "bad-op")
  | ["td", y, m, d, h, mi, s, o] =>
    (match parseInt y, m.toNat?, d.toNat?, h.toNat?, mi.toNat?, s.toNat?, parseInt o with
     | some y, some m, some d, some h, some mi, some s, some o =>
       some (toString (toUnix { year := y, month := m, day := d, hour := h, min := mi, sec := s, off := o }))
     | _, _, _, _, _, _, _ => some "bad-op")
  | ["tpc", k, mode, h] =>
    (match ofHex h with
     | some bs =>
       if k == "u" then some (showTimeRes (EA.parseUTCTime (mode == "p") bs))
       else if k == "g" then some (showTimeRes (EA.parseGeneralizedTime (mode == "p") bs))
       else some "bad-op"
     | none => some "bad-op")
  | ["tac", k, tok] =>
    (match parseTimeTok tok with
     | some t =>
       if k == "u" then some (showBytesRes (EA.appendUTCTime t))
       else if k == "g" then some (showBytesRes (EA.appendGeneralizedTime t))
       else some "bad-op"
     | none => some "bad-op")
  | _ => none


/-! ### structs with time fields (`ZV.Model.C18Ext`) -/
open ZV.C18.Ext in
def parseXFieldsTok : (n : Nat) → List String → Option (XFields × List String)
  | 0, toks => some ([], toks)
  | n + 1, ptok :: "time" :: rest =>
    if ptok.startsWith "p=" then
      match parseXFieldsTok n rest with
      | some (fs, r) => some ((parseFieldParameters (dropPrefix ptok 2), .time) :: fs, r)
      | none => none
    else none
  | n + 1, ptok :: rest =>
    if ptok.startsWith "p=" then
      match parseSchemaTok (2 * rest.length + 2) rest with
      | some (s, r) =>
        (match parseXFieldsTok n r with
         | some (fs, r') => some ((parseFieldParameters (dropPrefix ptok 2), .base s) :: fs, r')
         | none => none)
      | none => none
    else none
  | _ + 1, [] => none

open ZV.C18.Ext in
def parseXSchema (s : String) : Option XFields :=
  match s.splitOn ";" with
  | tok :: rest =>
    if tok.startsWith "S" then
      match (dropPrefix tok 1).toNat? with
      | some n => (match parseXFieldsTok n rest with | some (fs, []) => some fs | _ => none)
      | none => none
    else none
  | [] => none

open ZV.C18.Ext in
def parseXValsTok : XFields → List String → Option (List XV × List String)
  | [], toks => some ([], toks)
  | (_, .time) :: fs, tok :: rest =>
    (match parseTimeTok tok, parseXValsTok fs rest with
     | some t, some (vs, r) => some (.time t :: vs, r)
     | _, _ => none)
  | (_, .base _) :: fs, toks =>
    (match parseValTok (2 * toks.length + 2) toks with
     | some (v, r) =>
       (match parseXValsTok fs r with
        | some (vs, r') => some (.base v :: vs, r')
        | none => none)
     | none => none)
  | _ :: _, [] => none

open ZV.C18.Ext in
def parseXVals (fs : XFields) (s : String) : Option (List XV) :=
  match s.splitOn ";" with
  | tok :: rest =>
    if tok == "V" ++ toString fs.length then
      (match parseXValsTok fs rest with | some (vs, []) => some vs | _ => none)
    else none
  | [] => none

open ZV.C18.Ext in
def showXV : XV → List String
  | .base v => showVal v
  | .time t => [showTimeTok t]

open ZV.C18.Ext in
def showXVals (vs : List XV) : String :=
  ";".intercalate (("V" ++ toString vs.length) :: (vs.map showXV).flatten)

open ZV.C18.Ext in
def handleExt (args : List String) : Option String :=
  match args with
  | [op, sc, p, a] =>
    if op == "tm" || op == "tm26" then
      (match parseXSchema sc, parseP p with
       | some fs, some p =>
         (match parseXVals fs a with
          | some vs => some (showBytesRes (makeXStruct fs p vs))
          | none => some "bad-op")
       | _, _ => none)
    else if op == "xu" then
      (match parseXSchema sc, parseP p, ofHex a with
       | some fs, some p, some bs =>
         some (match parseXStruct false fs p bs with
           | .ok (vs, rest) => "ok " ++ showXVals vs ++ " " ++ toString rest.length
           | .err => "err"
           | .panic => "panic")
       | _, _, _ => some "bad-op")
    else none
  | _ => none

def handleMain (args : List String) : String :=
  match args with
  | ["m", sc, p, v] =>
    (match parseSchema sc, parseP p, parseVal v with
     | some s, some p, some v => showBytesRes (marshal s p v)
     | _, _, _ => "bad-op")
  | ["d", sc, p, v] =>
    (match parseSchema sc, parseP p, parseVal v with
     | some s, some p, some v => if InDomain s p v then "in" else "out"
     | _, _, _ => "bad-op")
  | ["u", sc, p, h] =>
    (match parseSchema sc, parseP p, ofHex h with
     | some s, some p, some bs => showUnm (unmarshal false s p bs)
     | _, _, _ => "bad-op")
  | _ => "bad-op"

def handle (args : List String) : String :=
  match handleTime args with
  | some r => r
  | none =>
    match handleExt args with
    | some r => r
    | none => handleMain args

end ZV.C18
