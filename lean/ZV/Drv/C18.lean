import ZV.Model.C18
import ZV.Model.C18Dom
/-! line protocol for C18 (shared with C20):
    `c18 m <schema> <p=tagstring> <value>`   →  `ok <hex>` | `err`
    `c18 u <schema> <p=tagstring> <hex>`     →  `ok <value> <len(rest)>` | `err`
    `c18 d <schema> <p=tagstring> <value>`   →  `in` | `out`   (the domain `InDomain` of the round-trip theorem; the harness
                                                  sends the values of ITS documented domain and prints `in`)
    schema / value are `;`-separated prefix-notation token lists:
      schema:  i64 i32 enum big bool oid bits oct str raw flag | S<n> (p=<tagstring> schema)×n | L schema | LS schema
      value:   i<dec> | t | f | x<hex> | n | o<a.b.c> | b<bitlen>:<hex> | r<cls>:<tag>:<t|f>:<hex>:<hex> | V<n> value×n -/
namespace ZV.C18

def dropPrefix (s : String) (n : Nat) : String := (s.drop n).toString

mutual
def parseSchemaTok : (fuel : Nat) → List String → Option (Schema × List String)
  | 0, _ => none
  | _, [] => none
  | f + 1, tok :: rest =>
    if tok == "i64" then some (.int64, rest)
    else if tok == "i32" then some (.int32, rest)
    else if tok == "enum" then some (.enum, rest)
    else if tok == "big" then some (.bigint, rest)
    else if tok == "bool" then some (.bool, rest)
    else if tok == "oid" then some (.oid, rest)
    else if tok == "bits" then some (.bits, rest)
    else if tok == "oct" then some (.octets, rest)
    else if tok == "str" then some (.str, rest)
    else if tok == "raw" then some (.raw, rest)
    else if tok == "flag" then some (.flag, rest)
    else if tok == "L" then
      match parseSchemaTok f rest with
      | some (e, r) => some (.seqOf false e, r)
      | none => none
    else if tok == "LS" then
      match parseSchemaTok f rest with
      | some (e, r) => some (.seqOf true e, r)
      | none => none
    else if tok.startsWith "S" then
      match (dropPrefix tok 1).toNat? with
      | some n =>
        (match parseFieldsTok f n rest with
         | some (fs, r) => some (.struct fs, r)
         | none => none)
      | none => none
    else none
def parseFieldsTok : (fuel : Nat) → (n : Nat) → List String → Option (Schema × List String)
  | _, 0, toks => some (.fnil, toks)
  | 0, _ + 1, _ => none
  | f + 1, n + 1, ptok :: rest =>
    if ptok.startsWith "p=" then
      match parseSchemaTok f rest with
      | some (s, r) =>
        (match parseFieldsTok f n r with
         | some (fs, r') => some (.fcons (parseFieldParameters (dropPrefix ptok 2)) s fs, r')
         | none => none)
      | none => none
    else none
  | _ + 1, _ + 1, [] => none
end

def parseSchema (s : String) : Option Schema :=
  let toks := s.splitOn ";"
  match parseSchemaTok (2 * toks.length + 2) toks with
  | some (sc, []) => some sc
  | _ => none

def parseArcsTok (s : String) : Option (List Int) :=
  if s.isEmpty then some [] else (s.splitOn ".").mapM parseInt

def parseBoolTok (s : String) : Option Bool :=
  if s == "t" then some true else if s == "f" then some false else none

mutual
def parseValTok : (fuel : Nat) → List String → Option (Val × List String)
  | 0, _ => none
  | _, [] => none
  | f + 1, tok :: rest =>
    if tok == "t" then some (.bool true, rest)
    else if tok == "f" then some (.bool false, rest)
    else if tok == "n" then some (.null, rest)
    else if tok.startsWith "i" then (parseInt (dropPrefix tok 1)).map (fun i => (.int i, rest))
    else if tok.startsWith "x" then (ofHex (dropPrefix tok 1)).map (fun b => (.bytes b, rest))
    else if tok.startsWith "o" then (parseArcsTok (dropPrefix tok 1)).map (fun l => (.oid l, rest))
    else if tok.startsWith "b" then
      match (dropPrefix tok 1).splitOn ":" with
      | [n, h] =>
        (match parseInt n, ofHex h with
         | some n, some b => some (.bits b n, rest)
         | _, _ => none)
      | _ => none
    else if tok.startsWith "r" then
      match (dropPrefix tok 1).splitOn ":" with
      | [c, t, k, h, fh] =>
        (match c.toNat?, t.toNat?, parseBoolTok k, ofHex h, ofHex fh with
         | some c, some t, some k, some b, some fb => some (.raw c t k b fb, rest)
         | _, _, _, _, _ => none)
      | _ => none
    else if tok.startsWith "V" then
      match (dropPrefix tok 1).toNat? with
      | some n => parseValsTok f n rest
      | none => none
    else none
def parseValsTok : (fuel : Nat) → (n : Nat) → List String → Option (Val × List String)
  | _, 0, toks => some (.vnil, toks)
  | 0, _ + 1, _ => none
  | f + 1, n + 1, toks =>
    match parseValTok f toks with
    | some (v, r) =>
      (match parseValsTok f n r with
       | some (vs, r') => some (.vcons v vs, r')
       | none => none)
    | none => none
end

def parseVal (s : String) : Option Val :=
  let toks := s.splitOn ";"
  match parseValTok (2 * toks.length + 2) toks with
  | some (v, []) => some v
  | _ => none

def chainLen : Val → Nat
  | .vcons _ r => chainLen r + 1
  | _ => 0

def showArcs (l : List Int) : String := ".".intercalate (l.map toString)

mutual
def showVal : Val → List String
  | .int i => ["i" ++ toString i]
  | .bool b => [if b then "t" else "f"]
  | .bytes bs => ["x" ++ toHex bs]
  | .null => ["n"]
  | .oid l => ["o" ++ showArcs l]
  | .bits bs n => ["b" ++ toString n ++ ":" ++ toHex bs]
  | .raw c t k b fb => ["r" ++ toString c ++ ":" ++ toString t ++ ":" ++ (if k then "t" else "f") ++ ":" ++ toHex b ++ ":" ++ toHex fb]
  | .vnil => ["V0"]
  | .vcons v r => ("V" ++ toString (chainLen r + 1)) :: (showVal v ++ showChain r)
def showChain : Val → List String
  | .vcons v r => showVal v ++ showChain r
  | _ => []
end

def showValStr (v : Val) : String := ";".intercalate (showVal v)

def showUnm (r : Res (Val × Bytes)) : String :=
  match r with
  | .ok (v, rest) => "ok " ++ showValStr v ++ " " ++ toString rest.length
  | .err => "err"
  | .panic => "panic"

def showBytesRes (r : Res Bytes) : String :=
  match r with
  | .ok b => "ok " ++ toHex b
  | .err => "err"
  | .panic => "panic"

def parseP (s : String) : Option Params :=
  if s.startsWith "p=" then some (parseFieldParameters (dropPrefix s 2)) else none

def handle (args : List String) : String :=
  match args with
  | ["m", sc, p, v] =>
    (match parseSchema sc, parseP p, parseVal v with
     | some s, some p, some v => showBytesRes (marshal s p v)
     | _, _, _ => "bad-op")
  | ["d", sc, p, v] =>
    (match parseSchema sc, parseP p, parseVal v with
     | some s, some p, some v => if InDomain s p v then "in" else "out"
     | _, _, _ => "bad-op")
  | ["u", sc, p, h] =>
    (match parseSchema sc, parseP p, ofHex h with
     | some s, some p, some bs => showUnm (unmarshal false s p bs)
     | _, _, _ => "bad-op")
  | _ => "bad-op"

end ZV.C18
