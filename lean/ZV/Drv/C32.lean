import ZV.Model.C32
/-! `c32 rd <vers (0 = none)> <stream hex>` → `<m<type>:<len>,…|-> <err|cx|panic> pos=<n> hand=<n> retry=<n>` -/
namespace ZV.C32

def showEv (l : List (Nat × Nat)) : String :=
  if l.isEmpty then "-" else ",".intercalate (l.map (fun p => s!"m{p.1}:{p.2}"))

def showSt (st : St) : String := s!"pos={st.pos} hand={st.hand.length} retry={st.retry}"

def handle (args : List String) : String :=
  match args with
  | ["rd", v, h] =>
    match v.toNat?, ofHex h with
    | some vers, some s =>
      let r := run vers (s.length + 2) ⟨[], 0, 0⟩ s []
      match r.2 with
      | .err st => s!"{showEv r.1} err {showSt st}"
      | .complex st => s!"{showEv r.1} cx {showSt st}"
      | .msg _ _ st _ => s!"{showEv r.1} more {showSt st}"
      | .panic => s!"{showEv r.1} panic"
    | _, _ => "bad-op"
  | _ => "bad-op"

end ZV.C32
