import ZV.Model.C32
import ZV.Model.C32Kx
/-! `c32 rd <vers (0 = none)> <stream hex>` → `<m<type>:<len>,…|-> <err|cx|panic> pos=<n> hand=<n> retry=<n>`
    `c32 dg <suite> <vers> <typ> <plain hex> <mode> <n> <outer typ> | <record type> <payload len> <kind> <block> <nonce>
            <overhead> <hasMac 0|1> <macSize> <dec hex> <auth 0|1>` → `plain <typ> <len>` | `alert <n>` | `panic`
    (the fields before `|` tell the Go side how to build the record; the model reads the ones after it)
    `c32 kx eskx <vers> <isRSA 0|1> <rsa|ecdsa|ed25519> <sigalgs csv|-> <pointOK 0|1> <msg hex>`
            → `ok curve=<n> pub=<hex> st=<n> h=<n> sig=<hex>` | `err` | `panic`
    `c32 kx dskx <vers> <dss 0|1> <d|a|-|sig:hash csv> <msg hex>` → `ok p=<hex> g=<hex> ys=<hex> h=<n> sig=<hex>` | `err` | `panic`
    `c32 kx dgen <vers> <msg hex>` → `ok p=<hex> g=<hex> ys=<hex> gen=<ok|err|panic>` | `err` | `panic`  (DHE ServerKeyExchange at an
            InsecureSkipVerify client, then generateClientKeyExchange)
    `c32 kx rckx <vers> <msg hex>` / `c32 kx eckx <curve> <pointOK 0|1> <msg hex>` / `c32 kx dckx <p hex> <msg hex>`
            → `ok n=<hex>` | `err` | `panic`      (msg = the whole handshake message, 4-byte header included) -/
namespace ZV.C32

def showEv (l : List (Nat × Nat)) : String :=
  if l.isEmpty then "-" else ",".intercalate (l.map (fun p => s!"m{p.1}:{p.2}"))

def showSt (st : St) : String := s!"pos={st.pos} hand={st.hand.length} retry={st.retry}"

def natList (s : String) : Option (List Nat) :=
  if s == "-" then some [] else (s.splitOn ",").mapM (·.toNat?)

def pairList (s : String) : Option (List (Nat × Nat)) :=
  if s == "-" then some []
  else if s == "d" then some defaultSKXSignatureAlgorithms
  else if s == "a" then some supportedSKXSignatureAlgorithms
  else (s.splitOn ",").mapM (fun e =>
    match e.splitOn ":" with
    | [a, b] => (match a.toNat?, b.toNat? with | some x, some y => some (x, y) | _, _ => none)
    | _ => none)

def keyTypeOf (s : String) : Option KeyType :=
  match s with
  | "rsa" => some .rsa | "ecdsa" => some .ecdsa | "ed25519" => some .ed25519 | _ => none

def showCkx : Res Bytes → String
  | .ok n => s!"ok n={toHex n}"
  | .err => "err"
  | .panic => "panic"

def handleKx (args : List String) : String :=
  match args with
  | ["eskx", v, r, kt, algs, pt, m] =>
    match v.toNat?, keyTypeOf kt, natList algs, ofHex m with
    | some vers, some k, some l, some msg =>
      match ecdheSKXMsg ⟨vers, r == "1", k, l, pt == "1"⟩ msg with
      | .ok o => s!"ok curve={o.curve} pub={toHex o.pub} st={o.sigType} h={o.hashId} sig={toHex o.sig}"
      | .err => "err"
      | .panic => "panic"
    | _, _, _, _ => "bad-op"
  | ["dskx", v, dss, lst, m] =>
    match v.toNat?, pairList lst, ofHex m with
    | some vers, some l, some msg =>
      match dheSKXMsg ⟨vers, if dss == "1" then signatureDSA else signatureRSA, l⟩ msg with
      | .ok o => s!"ok p={toHex (stripZeros o.p)} g={toHex (stripZeros o.g)} ys={toHex (stripZeros o.ys)} h={o.hashId} sig={toHex o.sig}"
      | .err => "err"
      | .panic => "panic"
    | _, _, _ => "bad-op"
  | ["dgen", v, m] =>
    match v.toNat?, ofHex m with
    | some vers, some msg =>
      match dheSKXSkipVerifyMsg ⟨vers, signatureRSA, defaultSKXSignatureAlgorithms⟩ msg with
      | .ok (p, g, ys) =>
        let gen := match dheGenCKX p g ys 0 with
          | .ok _ => "ok"
          | .err => "err"
          | .panic => "panic"
        s!"ok p={toHex (stripZeros p)} g={toHex (stripZeros g)} ys={toHex (stripZeros ys)} gen={gen}"
      | .err => "err"
      | .panic => "panic"
    | _, _ => "bad-op"
  | ["rckx", _, m] =>
    match ofHex m with
    | some msg => showCkx (ckxMsg .rsa msg)
    | none => "bad-op"
  | ["eckx", _, pt, m] =>
    match ofHex m with
    | some msg => showCkx (ckxMsg (.ecdhe (pt == "1")) msg)
    | none => "bad-op"
  | ["dckx", p, m] =>
    match ofHex p, ofHex m with
    | some pb, some msg => showCkx ((ckxMsg (.dhe pb) msg).map stripZeros)
    | _, _ => "bad-op"
  | _ => "bad-op"

def handle (args : List String) : String :=
  match args with
  | "kx" :: rest => handleKx rest
  | ["rd", v, h] =>
    match v.toNat?, ofHex h with
    | some vers, some s =>
      let r := run vers (s.length + 2) ⟨[], 0, 0⟩ s []
      match r.2 with
      | .err st => s!"{showEv r.1} err {showSt st}"
      | .complex st => s!"{showEv r.1} cx {showSt st}"
      | .msg _ _ st _ => s!"{showEv r.1} more {showSt st}"
      | .panic => s!"{showEv r.1} panic"
    | _, _ => "bad-op"
  | ["dg", _, v, _, _, _, _, _, "|", rt, pl, k, bl, no, ov, hm, ms, d, au] =>
    let kind? : Option CK := match k with
      | "none" => some .none | "stream" => some .stream | "aead" => some .aead | "cbc" => some .cbc | _ => none
    match v.toNat?, rt.toNat?, pl.toNat?, kind?, bl.toNat?, no.toNat?, ov.toNat?, ms.toNat?, ofHex d with
    | some vers, some rtyp, some plen, some kind, some block, some nonce, some overhead, some macSize, some dec =>
      let hc : HC := ⟨kind, vers, block, nonce, overhead, hm == "1", macSize⟩
      match decrypt hc rtyp (List.replicate plen 0) dec (au == "1") with
      | .plain t n => s!"plain {t} {n}"
      | .alert a => s!"alert {a}"
      | .panic => "panic"
    | _, _, _, _, _, _, _, _, _ => "bad-op"
  | _ => "bad-op"

end ZV.C32
