import ZV.Model.C32
/-! `c32 rd <vers (0 = none)> <stream hex>` → `<m<type>:<len>,…|-> <err|cx|panic> pos=<n> hand=<n> retry=<n>`
    `c32 dg <suite> <vers> <typ> <plain hex> <mode> <n> <outer typ> | <record type> <payload len> <kind> <block> <nonce>
            <overhead> <hasMac 0|1> <macSize> <dec hex> <auth 0|1>` → `plain <typ> <len>` | `alert <n>` | `panic`
    (the fields before `|` tell the Go side how to build the record; the model reads the ones after it) -/
namespace ZV.C32

def showEv (l : List (Nat × Nat)) : String :=
  if l.isEmpty then "-" else ",".intercalate (l.map (fun p => s!"m{p.1}:{p.2}"))

def showSt (st : St) : String := s!"pos={st.pos} hand={st.hand.length} retry={st.retry}"

def handle (args : List String) : String :=
  match args with
  | ["rd", v, h] =>
    match v.toNat?, ofHex h with
    | some vers, some s =>
      let r := run vers (s.length + 2) ⟨[], 0, 0⟩ s []
      match r.2 with
      | .err st => s!"{showEv r.1} err {showSt st}"
      | .complex st => s!"{showEv r.1} cx {showSt st}"
      | .msg _ _ st _ => s!"{showEv r.1} more {showSt st}"
      | .panic => s!"{showEv r.1} panic"
    | _, _ => "bad-op"
  | ["dg", _, v, _, _, _, _, _, "|", rt, pl, k, bl, no, ov, hm, ms, d, au] =>
    let kind? : Option CK := match k with
      | "none" => some .none | "stream" => some .stream | "aead" => some .aead | "cbc" => some .cbc | _ => none
    match v.toNat?, rt.toNat?, pl.toNat?, kind?, bl.toNat?, no.toNat?, ov.toNat?, ms.toNat?, ofHex d with
    | some vers, some rtyp, some plen, some kind, some block, some nonce, some overhead, some macSize, some dec =>
      let hc : HC := ⟨kind, vers, block, nonce, overhead, hm == "1", macSize⟩
      match decrypt hc rtyp (List.replicate plen 0) dec (au == "1") with
      | .plain t n => s!"plain {t} {n}"
      | .alert a => s!"alert {a}"
      | .panic => "panic"
    | _, _, _, _, _, _, _, _, _ => "bad-op"
  | _ => "bad-op"

end ZV.C32
