import ZV.Model.C07
/-! line protocol for C07:
    `c07 <pki seed> <certs> <sigOK rows> <leaf> <roots> <inters> <now> <keyUsages> <dnsName> <leafHasSAN> <leafDNSNames> <leafCN>`
    certs: `;`-separated, each `id:subject:issuer:spki:skid:akid:v3:bc:ca:maxPathLen:kuPresent:kuCertSign:selfSigned:eku:unknownEku:notBefore:notAfter`
           (eku `.`-joined or `_`); uid = position.  Index lists `.`-joined or `_`.  Strings hex (`-` empty), lists `,`-joined or `_`.
    output: `<error kind>|c=<chains>|e=<chains>|n=<chains>`; a chain = uids joined by `.`, chains sorted and joined by `,`.
    `c07 eku <chain> <keyUsages>`: `checkChainForKeyUsage` alone; chain = `;`-separated `eku:unknownEku` (or `_` = empty chain),
    usages in the harness numbering with `-1` = the sentinel value; output `true` / `false`.
    `c07 vsd <same arguments as the Verify line>`: `ValidateWithStupidDetail`; output `<error kind>|chains=<current chains>|trusted=<0/1>|berr=<kind of BrowserError>|matches=<0/1>|domain=<hex>`.
    `c07 isvalid <type 0 leaf|1 intermediate|2 root> <bc> <ca> <maxPathLen> <len(currentChain)>`: `isValid` alone; output = error kind. -/
namespace ZV.C07

def parseNats (s : String) : Option (List Nat) :=
  if s == "_" then some [] else (s.splitOn ".").mapM (·.toNat?)

def parseInts (s : String) : Option (List Int) :=
  if s == "_" then some [] else (s.splitOn ".").mapM parseInt

def parseHexList (s : String) : Option (List C09.Str) :=
  if s == "_" then some [] else (s.splitOn ",").mapM ofHex

def parseCert (uid : Nat) (s : String) : Option Cert :=
  match s.splitOn ":" with
  | [id, su, is, sp, sk, ak, v3, bc, ca, mpl, kup, kcs, self, eku, unk, nb, na] =>
    match [id, su, is, sp, sk, ak, v3, bc, ca, kup, kcs, self, unk].mapM (·.toNat?), parseInt mpl, parseInts eku, parseInt nb, parseInt na with
    | some [id, su, is, sp, sk, ak, v3, bc, ca, kup, kcs, self, unk], some mpl, some eku, some nb, some na =>
      some { uid := uid, id := id, subject := su, issuer := is, spki := sp, skid := sk, akid := ak,
             version3 := v3 != 0, bcValid := bc != 0, isCA := ca != 0, maxPathLen := mpl,
             kuPresent := kup != 0, kuCertSign := kcs != 0, selfSigned := self != 0,
             eku := eku, unknownEku := unk != 0, notBefore := nb, notAfter := na }
    | _, _, _, _, _ => none
  | _ => none

def parseCerts (s : String) : Option (List Cert) :=
  let rec go (uid : Nat) : List String → Option (List Cert)
    | [] => some []
    | x :: xs =>
      match parseCert uid x, go (uid + 1) xs with
      | some c, some cs => some (c :: cs)
      | _, _ => none
  go 0 (s.splitOn ";")

def sigOf (m : List (List Bool)) (child parent : Cert) : Bool :=
  match m[child.uid]? with
  | some row => match row[parent.uid]? with
    | some b => b
    | none => false
  | none => false

def pick (u : List Cert) (idx : List Nat) : Option (List Cert) := idx.mapM (fun i => u[i]?)

def showChain (ch : Chain) : String := ".".intercalate (ch.map (fun c => toString c.uid))

def showChains (l : List Chain) : String :=
  ",".intercalate ((l.map showChain).mergeSort (fun a b => decide (a ≤ b)))

def showErr : Option Err → String
  | none => "ok"
  | some .notAuthorizedToSign => "notAuthorizedToSign"
  | some .tooManyIntermediates => "tooManyIntermediates"
  | some .isSelfSigned => "isSelfSigned"
  | some .unknownAuthority => "unknownAuthority"
  | some .incompatibleUsage => "incompatibleUsage"
  | some .expired => "expired"
  | some .neverValid => "neverValid"
  | some .hostname => "hostname"
  | some .outOfFuel => "outOfFuel"

/-- a certificate of which only the EKU fields matter -/
def ekuCert (eku : List Int) (unk : Bool) : Cert :=
  { uid := 0, id := 0, subject := 0, issuer := 0, spki := 0, skid := 0, akid := 0, version3 := true,
    bcValid := false, isCA := false, maxPathLen := -1, kuPresent := false, kuCertSign := false, selfSigned := false,
    eku := eku, unknownEku := unk, notBefore := 0, notAfter := 0 }

def parseEkuChain (s : String) : Option Chain :=
  if s == "_" then some []
  else (s.splitOn ";").mapM (fun x =>
    match x.splitOn ":" with
    | [eku, unk] =>
      match parseInts eku, unk.toNat? with
      | some e, some u => some (ekuCert e (u != 0))
      | _, _ => none
    | _ => none)

def parseQuery (certs sig leaf roots inters now kus dns san ldns lcn : String) : Option (Env × Cert × C09.Cert × Opts) :=
  match parseCerts certs, leaf.toNat?, parseNats roots, parseNats inters, parseInt now, parseInts kus,
        ofHex dns, parseHexList ldns, ofHex lcn with
  | some u, some li, some ri, some ii, some now, some kus, some dns, some ldns, some lcn =>
    let m := (sig.splitOn ";").map (fun (row : String) => row.toList.map (· == '1'))
    match u[li]?, pick u ri, pick u ii with
    | some c, some rs, some is =>
      let env : Env := { roots := rs, inters := is, sigOK := sigOf m }
      let hc : C09.Cert := { extOids := if san == "1" then [C09.oidSAN] else [], dnsNames := ldns, ipAddresses := [], commonName := lcn }
      some (env, c, hc, { now := now, keyUsages := kus, dnsName := dns })
    | _, _, _ => none
  | _, _, _, _, _, _, _, _, _ => none

def handle (args : List String) : String :=
  match args with
  | ["isvalid", ty, bc, ca, mpl, n] =>
    match ty.toNat?, parseInt mpl, n.toNat? with
    | some t, some mpl, some n =>
      let c : Cert := { ekuCert [] false with bcValid := bc == "1", isCA := ca == "1", maxPathLen := mpl }
      let ct : CertType := if t = 0 then .leaf else if t = 1 then .intermediate else .root
      showErr (isValid c ct (List.replicate n (ekuCert [] false)))
    | _, _, _ => "bad-op"
  | ["eku", chain, kus] =>
    match parseEkuChain chain, parseInts kus with
    | some ch, some us => if checkChainForKeyUsage ch us then "true" else "false"
    | _, _ => "bad-op"
  | ["vsd", _, certs, sig, leaf, roots, inters, now, kus, dns, san, ldns, lcn] =>
    match parseQuery certs sig leaf roots inters now kus dns san ldns lcn with
    | some (env, c, hc, opts) =>
      match validateWithStupidDetail env c hc opts with
      | .ok o =>
        let b := fun (x : Bool) => if x then "1" else "0"
        s!"{showErr o.err}|chains={showChains o.chains}|trusted={b o.validation.browserTrusted}|berr={showErr o.validation.browserError}|matches={b o.validation.matchesDomain}|domain={toHex o.validation.domain}"
      | .err => "err"
      | .panic => "panic"
    | none => "bad-op"
  | [_, certs, sig, leaf, roots, inters, now, kus, dns, san, ldns, lcn] =>
    match parseQuery certs sig leaf roots inters now kus dns san ldns lcn with
    | some (env, c, hc, opts) =>
      match verify env c hc opts with
      | .ok o => s!"{showErr o.err}|c={showChains o.current}|e={showChains o.expired}|n={showChains o.never}"
      | .err => "err"
      | .panic => "panic"
    | none => "bad-op"
  | _ => "bad-op"

end ZV.C07
