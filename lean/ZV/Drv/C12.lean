import ZV.Model.C12
import ZV.Drv.C11
/-! line protocol for C12:
    `c12 <specs> <verify-matrix> <start> <time> <name> <onecrl> <crlset> <ops>` (see go/props/c12/c12.go) -/
namespace ZV.C12
open ZV.C10 ZV.C11

def parseName (s : String) : Option Name :=
  match s.toList with
  | ['-'] => some .none
  | 'e' :: r => (String.ofList r).toNat?.map .exact
  | 'w' :: r => (String.ofList r).toNat?.map .oneLabel
  | 'v' :: r => (String.ofList r).toNat?.map .twoLabels
  | 'b' :: r => (String.ofList r).toNat?.map .bare
  | 'c' :: r => (String.ofList r).toNat?.map .cn
  | _ => none

def parsePair (s : String) : Option (Nat × Nat) :=
  match s.splitOn "." with
  | [a, b] =>
    match a.toNat?, b.toNat? with
    | some x, some y => some (x, y)
    | _, _ => none
  | _ => none

def parsePairs (s : String) : Option (List (Nat × Nat)) :=
  if s == "-" then some [] else (s.splitOn "+").mapM parsePair

def parseNats (s : String) : Option (List Nat) :=
  if s == "-" then some [] else (s.splitOn "+").mapM (·.toNat?)

def parseOne (s : String) : Option (Option OneCRL) :=
  if s == "-" then some none
  else match s.splitOn "/" with
    | ["o", a, b] =>
      match parsePairs a, parsePairs b with
      | some x, some y => some (some { issuerSerial := x, blocked := y })
      | _, _ => none
    | _ => none

def parseSet (s : String) : Option (Option CRLSet) :=
  if s == "-" then some none
  else match s.splitOn "/" with
    | ["g", a, b] =>
      match parsePairs a, parseNats b with
      | some x, some y => some (some { issuerSerial := x, blockedSPKIs := y })
      | _, _ => none
    | _ => none

def showCh (cs : List Chain) : String :=
  let l := (cs.map (fun c => c.map (·.fp))).mergeSort lexLe
  if l.isEmpty then "-" else ";".intercalate (l.map (fun c => ">".intercalate (c.map toString)))

def showResult (r : Result) : String :=
  let b := fun (x : Bool) => if x then "1" else "0"
  "exp=" ++ b r.expired ++ " cur=" ++ showCh r.current ++ " old=" ++ showCh r.expiredChains ++ " nev=" ++ showCh r.never
    ++ " vae=" ++ showCh r.validAtExpiration ++ " par=" ++ showNats (r.parents.map (·.fp)) ++ " rev=" ++ b r.inRevocationSet
    ++ " type=" ++ (match r.ctype with | .unknown => "unknown" | .leaf => "leaf" | .intermediate => "intermediate" | .root => "root")
    ++ " name=" ++ (match r.nameError with | none => "na" | some true => "err" | some false => "ok")
    ++ " psk=" ++ (match r.parentSK with | none => "-" | some k => showKey k)

def handle (args : List String) : String :=
  match args with
  | [specs, vm, start, time, name, one, set, ops] =>
    match parseCerts specs, parseMatrix vm with
    | some cs, some m =>
      match parseOps cs ops, start.toNat?.bind (nth? cs), parseInt time, parseName name, parseOne one, parseSet set with
      | some os, some c, some t, some n, some o, some s =>
        match run (verOf m) Graph.empty os with
        | .ok g =>
          match verify (verOf m) g c { time := t, name := n, oneCRL := o, crlSet := s } with
          | .ok r => showResult r
          | _ => "panic"
        | _ => "panic"
      | _, _, _, _, _, _ => "bad-op"
    | _, _ => "bad-op"
  | _ => "bad-op"

end ZV.C12
