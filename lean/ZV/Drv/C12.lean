import ZV.Model.C12
import ZV.Drv.C11
/-! line protocol for C12:
    `c12 <specs> <verify-matrix> <start> <time> <name> <onecrl> <crlset> [<rev>] <ops>` (see go/props/c12/c12.go) -/
namespace ZV.C12
open ZV.C10 ZV.C11

def parseName (s : String) : Option Name :=
  match s.toList with
  | ['-'] => some .none
  | 'e' :: r => (String.ofList r).toNat?.map .exact
  | 'w' :: r => (String.ofList r).toNat?.map .oneLabel
  | 'v' :: r => (String.ofList r).toNat?.map .twoLabels
  | 'b' :: r => (String.ofList r).toNat?.map .bare
  | 'c' :: r => (String.ofList r).toNat?.map .cn
  | _ => none

def parsePair (s : String) : Option (Nat × Nat) :=
  match s.splitOn "." with
  | [a, b] =>
    match a.toNat?, b.toNat? with
    | some x, some y => some (x, y)
    | _, _ => none
  | _ => none

def parsePairs (s : String) : Option (List (Nat × Nat)) :=
  if s == "-" then some [] else (s.splitOn "+").mapM parsePair

def parseNats (s : String) : Option (List Nat) :=
  if s == "-" then some [] else (s.splitOn "+").mapM (·.toNat?)

def parseOne (s : String) : Option (Option OneCRL) :=
  if s == "-" then some none
  else match s.splitOn "/" with
    | ["o", a, b] =>
      match parsePairs a, parsePairs b with
      | some x, some y => some (some { issuerSerial := x, blocked := y })
      | _, _ => none
    | _ => none

def parseSet (s : String) : Option (Option CRLSet) :=
  if s == "-" then some none
  else match s.splitOn "/" with
    | ["g", a, b] =>
      match parsePairs a, parseNats b with
      | some x, some y => some (some { issuerSerial := x, blockedSPKIs := y })
      | _, _ => none
    | _ => none

/-- `<sec>` | `<sec>n<nsec>` -/
def parseTime (s : String) : Option Time :=
  match s.splitOn "n" with
  | [a] => (parseInt a).map Time.ofSec
  | [a, b] =>
    match parseInt a, b.toNat? with
    | some x, some y => some { sec := x, nsec := y }
    | _, _ => none
  | _ => none

/-- `<time>` | `<time>@<clock>` | `z@<clock>` (VerifyTime = time.Time{}) -/
def parseTimeClock (s : String) : Option (Time × Time) :=
  match s.splitOn "@" with
  | [a] => (parseTime a).map (fun t => (t, Time.ofSec 0))
  | [a, b] =>
    match (if a == "z" then some { sec := zeroSec, nsec := 0 } else parseTime a), parseTime b with
    | some t, some c => some (t, c)
    | _, _ => none
  | _ => none

def bit? (c : Char) : Option Bool := if c == '1' then some true else if c == '0' then some false else none
def dig? (c : Char) : Option Nat := if c.isDigit then some (c.toNat - '0'.toNat) else none

def parseAns (r i e : Char) : Option ProvAns :=
  match bit? r, dig? i, bit? e with
  | some r, some i, some e => some { revoked := r, info := if i == 0 then none else some i, err := e }
  | _, _, _ => none

structure RevTok where
  shouldOCSP : Bool
  shouldCRL : Bool
  nOCSP : Nat
  nCDP : Nat
  provider : Option Provider

/-- `-` | `<ShouldCheckOCSP><ShouldCheckCRL><len OCSPServer><len CRLDistributionPoints>/<n | s<r><i><e><r><i><e>>` -/
def parseRev (s : String) : Option RevTok :=
  if s == "-" then some { shouldOCSP := false, shouldCRL := false, nOCSP := 0, nCDP := 0, provider := none }
  else match s.splitOn "/" with
    | [a, p] =>
      match a.toList with
      | [so, sc, uo, uc] =>
        match bit? so, bit? sc, dig? uo, dig? uc with
        | some so, some sc, some uo, some uc =>
          match p.toList with
          | ['n'] => some { shouldOCSP := so, shouldCRL := sc, nOCSP := uo, nCDP := uc, provider := none }
          | ['s', r1, i1, e1, r2, i2, e2] =>
            match parseAns r1 i1 e1, parseAns r2 i2 e2 with
            | some x, some y => some { shouldOCSP := so, shouldCRL := sc, nOCSP := uo, nCDP := uc, provider := some { ocsp := x, crl := y } }
            | _, _ => none
          | _ => none
        | _, _, _, _ => none
      | _ => none
    | _ => none

def showAns (a : ProvAns) : String :=
  let b := fun (x : Bool) => if x then "1" else "0"
  b a.revoked ++ (match a.info with | none => "-" | some i => toString i) ++ b a.err

def showCh (cs : List Chain) : String :=
  let l := (cs.map (fun c => c.map (·.fp))).mergeSort lexLe
  if l.isEmpty then "-" else ";".intercalate (l.map (fun c => ">".intercalate (c.map toString)))

def showResult (r : Result) : String :=
  let b := fun (x : Bool) => if x then "1" else "0"
  "exp=" ++ b r.expired ++ " cur=" ++ showCh r.current ++ " old=" ++ showCh r.expiredChains ++ " nev=" ++ showCh r.never
    ++ " vae=" ++ showCh r.validAtExpiration ++ " par=" ++ showNats (r.parents.map (·.fp)) ++ " rev=" ++ b r.inRevocationSet
    ++ " type=" ++ (match r.ctype with | .unknown => "unknown" | .leaf => "leaf" | .intermediate => "intermediate" | .root => "root")
    ++ " name=" ++ (match r.nameError with | none => "na" | some true => "err" | some false => "ok")
    ++ " psk=" ++ (match r.parentSK with | none => "-" | some k => showKey k)

/-- the calls are observable only through a stub provider (`?` with the default provider) -/
def showRev (stub : Bool) (r : Result) : String :=
  " ocsp=" ++ (if !stub then "?" else match r.ocspCall with
      | none => "skip" | some none => "nil" | some (some i) => showKey i.sk) ++ ":" ++ showAns r.ocsp
    ++ " crl=" ++ (if !stub then "?" else if r.crlCall then "call" else "skip") ++ ":" ++ showAns r.crl

def handle10 (specs vm start time name one set rev ops : String) : String :=
  match parseCerts specs, parseMatrix vm with
  | some cs, some m =>
    match parseOps cs ops, start.toNat?.bind (nth? cs), parseTimeClock time, parseName name, parseOne one, parseSet set,
        parseRev rev with
    | some os, some c, some (t, clk), some n, some o, some s, some rv =>
      match run (verOf m) Graph.empty os with
      | .ok g =>
        let opts : Opts :=
          { time := t, name := n, oneCRL := o, crlSet := s, shouldOCSP := rv.shouldOCSP, shouldCRL := rv.shouldCRL,
            provider := rv.provider, clock := clk, nOCSP := rv.nOCSP, nCDP := rv.nCDP }
        match verify (verOf m) g c opts with
        | .ok r => showResult r ++ (if rev == "-" then "" else showRev rv.provider.isSome r)
        | _ => "panic"
      | _ => "panic"
    | _, _, _, _, _, _, _ => "bad-op"
  | _, _ => "bad-op"

def handle (args : List String) : String :=
  match args with
  | [specs, vm, start, time, name, one, set, ops] => handle10 specs vm start time name one set "-" ops
  | [specs, vm, start, time, name, one, set, rev, ops] => handle10 specs vm start time name one set rev ops
  | _ => "bad-op"

end ZV.C12
