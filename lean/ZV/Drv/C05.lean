import ZV.Model.C05
import ZV.Drv.C04
/-! line protocol for C05 (csr / crl lines are T3-only and never reach the driver):
      `c05 rl <seed> <key> <alg> <entries>`   entries: `,`-separated `serial:YYYYMMDDHHMMSS:reason|-:extras|-`,
                                               extras `+`-separated `oid/crit/valuehex`
        → `ok entries=<hex of the encoded revokedCertificates contents> parsed=<serial:time:reason|-:nexts,…>`
      `c05 num <decimal>` → `ok <crlNumber extension value hex>` | `err` -/
namespace ZV.C05
open ZV ZV.Der ZV.C04

def parseEExtStr (s : String) : Option EExt :=
  match s.splitOn "/" with
  | [o, c, v] =>
    match parseOidStr o, parseBool01 c, ofHex v with
    | some oid, some crit, some val => some ⟨oid, crit, val⟩
    | _, _, _ => none
  | _ => none

def parseEntryStr (s : String) : Option Entry :=
  match s.splitOn ":" with
  | [ser, t, r, x] =>
    match parseInt ser, (if r == "-" then some none else (parseInt r).map some),
          (if x == "-" then some [] else (x.splitOn "+").mapM parseEExtStr) with
    | some serial, some reason, some extras => some ⟨serial, t.toUTF8.toList, reason, extras⟩
    | _, _, _ => none
  | _ => none

def showP (p : PEntry) : String :=
  toString p.serial ++ ":" ++ String.ofList (p.time.map (fun b => Char.ofNat b.toNat)) ++ ":"
    ++ (match p.reason with | none => "-" | some n => toString n) ++ ":" ++ toString p.nexts

def handle (args : List String) : String :=
  match args with
  | ["rl", _seed, _key, _alg, entries] =>
    match (splitList "," entries).mapM parseEntryStr with
    | none => "bad-op"
    | some es =>
      match encEntries es with
      | none => "err"
      | some bs =>
        (match parseEntries bs with
         | .ok ps => "ok entries=" ++ toHex bs ++ " parsed=" ++ showList "," (ps.map showP)
         | .err => "err"
         | .panic => "panic")
  | ["num", n] =>
    match parseInt n with
    | none => "bad-op"
    | some i =>
      (match crlNumberExt i with
       | .ok v => "ok " ++ toHex v
       | .err => "err"
       | .panic => "panic")
  | _ => "bad-op"

end ZV.C05
