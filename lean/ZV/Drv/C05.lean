import ZV.Model.C05
import ZV.Model.C05List
import ZV.Model.C05Csr
import ZV.Drv.C18
import ZV.Drv.C04
/-! line protocol for C05 (csr / crl lines are T3-only and never reach the driver):
      `c05 rl <seed> <key> <alg> <entries>`   entries: `,`-separated `serial:YYYYMMDDHHMMSS:reason|-:extras|-`,
                                               extras `+`-separated `oid/crit/valuehex`
        → `ok entries=<hex of the encoded revokedCertificates contents> parsed=<serial:time:reason|-:nexts,…>`
      `c05 num <decimal>` → `ok <crlNumber extension value hex>` | `err`
      `c05 rlist <seed> <key> <alg> <sigAI hex> <issuer subject hex> <ski hex> <crlSign 0|1> <this unix/nsec> <next unix/nsec>
                 <number|nil> <entries> <extras>`   entries: `,`-separated `serial:unix:reason|-:extras|-`
        → `ok <parsed list>` (the model creates the list with a placeholder signature and parses it) | `err`
      `c05 rlp <der hex>` → `ok sig=<hex> <parsed list>` | `err`   (`ParseRevocationList` on any input)
      parsed list: `tbs= iss= this=<unix>@<off> next=<unix>@<off>|- num= aki=<hex>|nil entries=nil|-|<serial:unix@off:reason:exts:rawlen;…>
                    exts=<oidhex/crit/valuehex+…>` -/
namespace ZV.C05
open ZV ZV.Der ZV.C04

def parseEExtStr (s : String) : Option EExt :=
  match s.splitOn "/" with
  | [o, c, v] =>
    match parseOidStr o, parseBool01 c, ofHex v with
    | some oid, some crit, some val => some ⟨oid, crit, val⟩
    | _, _, _ => none
  | _ => none

def parseEntryStr (s : String) : Option Entry :=
  match s.splitOn ":" with
  | [ser, t, r, x] =>
    match parseInt ser, (if r == "-" then some none else (parseInt r).map some),
          (if x == "-" then some [] else (x.splitOn "+").mapM parseEExtStr) with
    | some serial, some reason, some extras => some ⟨serial, t.toUTF8.toList, reason, extras⟩
    | _, _, _ => none
  | _ => none

def showP (p : PEntry) : String :=
  toString p.serial ++ ":" ++ String.ofList (p.time.map (fun b => Char.ofNat b.toNat)) ++ ":"
    ++ (match p.reason with | none => "-" | some n => toString n) ++ ":" ++ toString p.nexts

def parseTimeStr (s : String) : Option GoTime :=
  match s.splitOn "/" with
  | [u, n] =>
    match parseInt u, n.toNat? with
    | some unix, some nsec => some { unix := unix, off := 0, nsec := nsec }
    | _, _ => none
  | _ => none

def parseEntryTStr (s : String) : Option EntryT :=
  match s.splitOn ":" with
  | [ser, t, r, x] =>
    match parseInt ser, parseInt t, (if r == "-" then some none else (parseInt r).map some),
          (if x == "-" then some [] else (x.splitOn "+").mapM parseEExtStr) with
    | some serial, some unix, some reason, some extras => some ⟨serial, { unix := unix, off := 0, nsec := 0 }, reason, extras⟩
    | _, _, _, _ => none
  | _ => none

def showT (t : GoTime) : String := toString t.unix ++ "@" ++ toString t.off

def showPExt (x : PExt) : String := toHex x.1 ++ "/" ++ (if x.2.1 then "1" else "0") ++ "/" ++ toHex x.2.2

def showPE (p : PEntryT) : String :=
  toString p.serial ++ ":" ++ showT p.time ++ ":" ++ (match p.reason with | none => "-" | some n => toString n) ++ ":"
    ++ showList "+" (p.exts.map showPExt) ++ ":" ++ toString p.raw.length

def showPRL (r : PRL) : String :=
  "tbs=" ++ toHex r.rawTBS ++ " iss=" ++ toHex r.rawIssuer ++ " this=" ++ showT r.thisUpdate
    ++ " next=" ++ (match r.nextUpdate with
                    | none => "-"
                    | some t => if isZeroTime t && t.off == 0 then "-" else showT t)   -- Go cannot tell 0001-01-01T00:00:00Z from "absent"
    ++ " num=" ++ (match r.number with | none => "-" | some n => toString n)
    ++ " aki=" ++ (match r.aki with | none => "nil" | some a => toHex a)
    ++ " entries=" ++ (match r.entries with | none => "nil" | some es => showList ";" (es.map showPE))
    ++ " exts=" ++ showList "+" (r.exts.map showPExt)

/-! CSR ops:
      `c05 csrm <seed> <key> <alg> <sigAI> <spki> <subject> <dns> <email> <ips> <extras>`  (name lists: `,`-separated hex, `e` = empty string)
        → `ok tbs=<hex> <parsed request>` | `err` | `created-but-rejected`
      `c05 csrp <der hex>` → `ok <parsed request>` | `err`;   `c05 xsch <type> <schema>` → `match` | `differ`
      parsed request: `ver= subj= sig= exts=<dotted oid/crit/valuehex+…> dns= email= ips=` -/
def parseHexList (s : String) : Option (List Bytes) :=
  if s == "-" then some [] else (s.splitOn ",").mapM (fun p => if p == "e" then some [] else ofHex p)

def showHexList (l : List Bytes) : String :=
  if l.isEmpty then "-" else ",".intercalate (l.map fun b => if b.isEmpty then "e" else toHex b)

def showPX (x : Csr.PX) : String :=
  ".".intercalate (x.oid.map toString) ++ "/" ++ (if x.critical then "1" else "0") ++ "/" ++ toHex x.value

def showPCSR (c : Csr.PCSR) : String :=
  "ver=" ++ toString c.version ++ " subj=" ++ toHex c.rawSubject ++ " sig="
    ++ toHex (rightAlign (8 * c.sigBits.1.length - c.sigBits.2.toNat) c.sigBits.1)
    ++ " exts=" ++ showList "+" (c.exts.map showPX)
    ++ " dns=" ++ showHexList c.sans.dns ++ " email=" ++ showHexList c.sans.email ++ " ips=" ++ showHexList c.sans.ips

def schemaByName (n : String) : Option C18.Schema :=
  if n == "certificateRequest" then some Csr.csrSchema
  else if n == "tbsCertificateRequest" then some Csr.tbsCsrSchema
  else if n == "publicKeyInfo" then some Csr.spkiSchema
  else if n == "AlgorithmIdentifier" then some Csr.aiSchema
  else if n == "extensions" then some Csr.extsSchema
  else if n == "RDNSequence" then some Csr.rdnSchema
  else none

def handle (args : List String) : String :=
  match args with
  | ["xsch", n, sc] =>
    (match schemaByName n, C18.parseSchema sc with
     | some a, some b => if reprStr a == reprStr b then "match" else "differ"
     | none, some _ => "match"      -- a type this model has no schema for (listed by the harness for other ops)
     | _, _ => "bad-op")
  | ["csrm", _seed, _key, _alg, ai, spki, subj, dns, email, ips, extras] =>
    match ofHex ai, ofHex spki, ofHex subj, parseHexList dns, parseHexList email, parseHexList ips,
          (splitList "+" extras).mapM parseEExtStr with
    | some ai, some spki, some subj, some dns, some email, some ips, some xs =>
      (match Csr.createCSRInfo spki ⟨subj, dns, email, ips, xs⟩ with
       | .ok tbs =>
         (match Csr.parseCSR (wrapSigned tbs ai [0]) with
          | .ok c => "ok tbs=" ++ toHex tbs ++ " " ++ showPCSR { c with sigBits := ([], 0) }
          | .err => "created-but-rejected"
          | .panic => "panic")
       | .err => "err"
       | .panic => "panic")
    | _, _, _, _, _, _, _ => "bad-op"
  | ["crlm", _seed, _key, ai, name, ski, now, exp, entries] =>
    match ofHex ai, ofHex name, ofHex ski, parseTimeStr now, parseTimeStr exp, (splitList "," entries).mapM parseEntryTStr with
    | some ai, some name, some ski, some now, some exp, some es =>
      (match Legacy.createLegacyTBS ai name ski (es.map fun e => ⟨e.serial, e.time, e.extras⟩) now exp with
       | .ok tbs => "ok tbs=" ++ toHex tbs
       | .err => "err"
       | .panic => "panic")
    | _, _, _, _, _, _ => "bad-op"
  | ["csrp", h] =>
    match ofHex h with
    | none => "bad-op"
    | some der =>
      (match Csr.parseCSR der with
       | .ok c => "ok " ++ showPCSR c
       | .err => "err"
       | .panic => "panic")
  | ["rlist", _seed, _key, _alg, ai, subj, ski, cs, tu, nu, num, entries, extras] =>
    match ofHex ai, ofHex subj, ofHex ski, parseBool01 cs, parseTimeStr tu, parseTimeStr nu,
          (if num == "nil" then some none else (parseInt num).map some),
          (splitList "," entries).mapM parseEntryTStr, (splitList "+" extras).mapM parseEExtStr with
    | some ai, some subj, some ski, some cs, some tu, some nu, some num, some es, some xs =>
      (match createRL ai ⟨subj, ski, cs⟩ ⟨tu, nu, num, es, xs⟩ [0] with
       | .ok der =>
         (match parseRL der with
          | .ok r => "ok " ++ showPRL r
          | .err => "created-but-rejected"
          | .panic => "panic")
       | .err => "err"
       | .panic => "panic")
    | _, _, _, _, _, _, _, _, _ => "bad-op"
  | ["rlp", h] =>
    match ofHex h with
    | none => "bad-op"
    | some der =>
      (match parseRL der with
       | .ok r => "ok sig=" ++ toHex r.signature ++ " " ++ showPRL r
       | .err => "err"
       | .panic => "panic")
  | ["rl", _seed, _key, _alg, entries] =>
    match (splitList "," entries).mapM parseEntryStr with
    | none => "bad-op"
    | some es =>
      match encEntries es with
      | none => "err"
      | some bs =>
        (match parseEntries bs with
         | .ok ps => "ok entries=" ++ toHex bs ++ " parsed=" ++ showList "," (ps.map showP)
         | .err => "err"
         | .panic => "panic")
  | ["num", n] =>
    match parseInt n with
    | none => "bad-op"
    | some i =>
      (match crlNumberExt i with
       | .ok v => "ok " ++ toHex v
       | .err => "err"
       | .panic => "panic")
  | _ => "bad-op"

end ZV.C05
