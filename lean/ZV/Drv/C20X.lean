import ZV.Drv.C18
import ZV.Model.C20X
/-! line protocol of the x509-level sites of C20 (see go/props/c20/x509sites.go):
    `c20 xsch <type> <schema>` → `match` | `differ`;  `c20 xpk <hex>`;  `c20 xgn <hex>`;  `c20 xpc <ext>[,<ext>…]`
    → `<strict>|<permissive>`. -/
namespace ZV.C20.X
open ZV.C18

deriving instance DecidableEq for Schema

def schemaByName (n : String) : Option Schema :=
  if n == "pkcs1PublicKey" then some pkcs1Schema
  else if n == "nameConstraints" then some ncSchema
  else if n == "distributionPoints" then some cdpSchema
  else if n == "authKeyId" then some akiSchema
  else if n == "policyInformations" then some policiesSchema
  else if n == "userNotice" then some userNoticeSchema
  else if n == "authorityInfoAccess" then some aiaSchema
  else if n == "OtherName" then some otherNameSchema
  else if n == "EDIPartyName" then some ediSchema
  else if n == "RDNSequence" then some rdnSchema
  else if n == "CABFOrganizationIDASN" then some cabfSchema
  else if n == "QCStatements" then some qcSchema
  else if n == "extKeyUsage" then some ekuSchema
  else none

def commas (l : List String) : String := ",".intercalate l
def semis (l : List String) : String := ";".intercalate l
def tf (b : Bool) : String := if b then "t" else "f"
def hexList (l : List Bytes) : String := commas (l.map toHex)
def valList (l : List Val) : String := commas (l.map showValStr)

/-- the Go value an ANY field holds after a successful parse, from the RawValue the model keeps (tokens as `showVal`;
    `T` for a time.Time, `n` for nil) -/
def showAny : Val → String
  | .raw cls tag compound inner _ =>
    if !compound && cls == 0 then
      let sv (r : Res Val) : String := match r with | .ok v => showValStr v | _ => "?"
      if tag = 19 ∨ tag = 18 ∨ tag = 22 ∨ tag = 20 ∨ tag = 12 ∨ tag = 4 then "x" ++ toHex inner
      else if tag = 30 then sv (parseBMPString inner)
      else if tag = 2 then sv (resInt (parseInt64 true inner))
      else if tag = 3 then sv (parseBitString inner)
      else if tag = 6 then sv (parseOID inner)
      else if tag = 23 ∨ tag = 24 then "T"
      else "n"
    else "n"
  | _ => "?"

def showATV : Val → String
  | .vcons t (.vcons v .vnil) => showValStr t ++ "=" ++ showAny v
  | _ => "?"

def chainList : Val → List Val
  | .vcons v r => v :: chainList r
  | _ => []

/-- a decoded RDNSequence: RDNs joined by `_`, the attributes of one RDN by `+` -/
def showRDN (d : Val) : String :=
  "_".intercalate ((chainList d).map (fun rdn => "+".intercalate ((chainList rdn).map showATV)))

def showGN (g : GN) : String :=
  "o[" ++ valList g.other ++ "]e[" ++ hexList g.email ++ "]d[" ++ hexList g.dns ++ "]u[" ++ hexList g.uri ++ "]n[" ++
  commas (g.dir.map showRDN) ++ "]p[" ++ valList g.edi ++ "]i[" ++ hexList g.ip ++ "]r[" ++
  valList g.rid ++ "]"

def showNCData (e : NCE) : String :=
  if e.kind = 4 then showRDN e.data
  else if e.kind = 3 ∨ e.kind = 5 ∨ e.kind = 8 then showValStr e.data
  else match e.data with
    | .bytes b => toHex b
    | v => showValStr v

def showNCE (e : NCE) : String :=
  toString e.kind ++ "/" ++ showNCData e ++ "/" ++ toString e.min ++ "/" ++ toString e.max

def showNC (l : List NCE) : String :=
  commas (([1, 2, 3, 4, 5, 6, 7, 8].map (fun k => (l.filter (fun e => e.kind == k)).map showNCE)).flatten)

def showPol (p : Pol) : String :=
  showValStr p.id ++ "/q[" ++ semis (p.qualifierIds.map showValStr) ++ "]/c[" ++ semis (p.cps.map toHex) ++ "]/t[" ++
  semis (p.explicitTexts.map toHex) ++ "]/g[" ++ semis (p.noticeOrgs.map toHex) ++ "]/" ++ toString p.notices

def showCert (c : Cert) : String :=
  " ".intercalate [
    "san=" ++ showGN c.san, "ian=" ++ showGN c.ian, "failed=[" ++ valList c.failedNames ++ "]",
    "ncc=" ++ tf c.ncCritical, "perm=[" ++ showNC c.permitted ++ "]", "excl=[" ++ showNC c.excluded ++ "]",
    "crl=[" ++ hexList c.crldp ++ "]", "aki=" ++ showValStr c.aki, "ski=" ++ showValStr c.ski,
    "eku=" ++ toString c.ekuKnown ++ "[" ++ valList c.ekuUnknown ++ "]",
    "pol=" ++ (match c.policies with | none => "n" | some l => "p[" ++ commas (l.map showPol) ++ "]"),
    "ocsp=[" ++ hexList c.ocsp ++ "]", "iss=[" ++ hexList c.issuers ++ "]",
    "sct=" ++ toString c.scts, "pre=" ++ tf c.isPrecert,
    "tor=" ++ (match c.tor with | none => "0" | some n => toString n),
    "cabf=" ++ (match c.cabf with | none => "n" | some v => showValStr v),
    "qc=" ++ tf c.qc]

def showCertRes (r : Res Cert) : String :=
  match r with
  | .ok c => "ok " ++ showCert c
  | .err => "err"
  | .panic => "panic"

/-- one `<oid>:<crit>:<hex>:<strict tok>:<perm tok>` token -/
def parseExtTok (s : String) : Option (Ext × String × String) :=
  match s.splitOn ":" with
  | [o, c, h, st, pt] =>
    (match parseArcsTok o, ofHex h with
     | some id, some v => some ({ id := id, critical := c == "t", value := v }, st, pt)
     | _, _ => none)
  | _ => none

def tokCount (t : String) : Option Nat := (dropPrefix t 1).toNat?

/-- the opaque sub-parsers, read off the case line -/
def subOf (tbl : List (Ext × String × String)) : Sub :=
  let look (perm : Bool) (v : Bytes) : String :=
    match tbl.find? (fun x => x.1.value == v && (x.2.1 != "-" || x.2.2 != "-")) with
    | some x => if perm then x.2.2 else x.2.1
    | none => "-"
  { tor := fun perm v => let t := look perm v; if t.startsWith "n" then tokCount t else none
    sct := fun perm v =>
      let t := look perm v
      parseSCTList (fun i _ => (t.toList.drop (i + 1)).head? == some '1') perm v
    qcParse := fun perm v => let t := look perm v; if t.startsWith "n" then some () else none }

def showKey (r : Res Key) : String :=
  match r with
  | .ok (.rsa n e) => "ok rsa " ++ toString n ++ " " ++ toString e
  | .ok (.dsa y p q g) => "ok dsa " ++ toString y ++ " " ++ toString p ++ " " ++ toString q ++ " " ++ toString g
  | .ok (.ecdsa c pt) => "ok ecdsa " ++ toString c ++ " " ++ toHex pt
  | .ok (.ed25519 b) => "ok ed25519 " ++ toHex b
  | .ok (.x25519 b) => "ok x25519 " ++ toHex b
  | .ok .none => "ok nil"
  | .err => "err"
  | .panic => "panic"

/-- `elliptic.Unmarshal(curve, data) != nil` for the four curves, read off the case line (`0`/`1` per curve) -/
def ecOkOf (bits : String) (c : Nat) (_ : Bytes) : Bool :=
  match bits.toList.drop c with
  | ch :: _ => ch == '1'
  | [] => false

def showGNRes (r : GN × Bool) : String :=
  tf r.2 ++ " " ++ showGN r.1 ++ " failed=[" ++ valList r.1.failed ++ "]"

def handle (args : List String) : String :=
  match args with
  | ["xsch", n, sc] =>
    (match schemaByName n, parseSchema sc with
     | some a, some b => if a = b then "match" else "differ"
     | _, _ => "bad-op")
  | ["xpk", h] =>
    (match ofHex h with
     | some bs => showKey (parsePublicKeyRSA false bs) ++ "|" ++ showKey (parsePublicKeyRSA true bs)
     | none => "bad-op")
  | ["xpa", algo, h, ph, bits] =>
    (match algo.toNat?, ofHex h, ofHex ph with
     | some a, some bs, some ps =>
       showKey (parsePublicKey (ecOkOf bits) false a bs ps) ++ "|" ++ showKey (parsePublicKey (ecOkOf bits) true a bs ps)
     | _, _, _ => "bad-op")
  | ["xgn", h] =>
    (match ofHex h with
     | some bs => showGNRes (parseGeneralNames false bs) ++ "|" ++ showGNRes (parseGeneralNames true bs)
     | none => "bad-op")
  | ["xpc", es] =>
    (match (es.splitOn ",").mapM parseExtTok with
     | some tbl =>
       let sub := subOf tbl
       let exts := tbl.map (·.1)
       showCertRes (parseExts sub false exts {}) ++ "|" ++ showCertRes (parseExts sub true exts {})
     | none => "bad-op")
  | _ => "bad-op"

end ZV.C20.X

/-- `tools/genglue.py` registers every `ZV/Drv/C*.lean` as a topic handler `ZV.<file>.handle`; this alias serves that
    (the topic `c20x` itself is unused: the `x…` ops arrive as `c20 x…` through `ZV.C20.handle`). -/
def ZV.C20X.handle (args : List String) : String := ZV.C20.X.handle args
