import ZV.Drv.C18
import ZV.Model.C20X
/-! line protocol of the x509-level sites of C20 (see go/props/c20/x509sites.go):
    `c20 xsch <type> <schema>` → `match` | `differ`;  `c20 xpk <hex>`;  `c20 xgn <hex>`;  `c20 xpc <ext>[,<ext>…]`
    → `<strict>|<permissive>`. -/
namespace ZV.C20.X
open ZV.C18

deriving instance DecidableEq for Schema

def schemaByName (n : String) : Option Schema :=
  if n == "pkcs1PublicKey" then some pkcs1Schema
  else if n == "nameConstraints" then some ncSchema
  else if n == "distributionPoints" then some cdpSchema
  else if n == "authKeyId" then some akiSchema
  else if n == "policyInformations" then some policiesSchema
  else if n == "userNotice" then some userNoticeSchema
  else if n == "authorityInfoAccess" then some aiaSchema
  else if n == "OtherName" then some otherNameSchema
  else if n == "EDIPartyName" then some ediSchema
  else if n == "RDNSequence" then some rdnSchema
  else if n == "CABFOrganizationIDASN" then some cabfSchema
  else if n == "QCStatements" then some qcSchema
  else if n == "extKeyUsage" then some ekuSchema
  else none

def commas (l : List String) : String := ",".intercalate l
def semis (l : List String) : String := ";".intercalate l
def tf (b : Bool) : String := if b then "t" else "f"
def hexList (l : List Bytes) : String := commas (l.map toHex)
def valList (l : List Val) : String := commas (l.map showValStr)

def showGN (g : GN) : String :=
  "o[" ++ valList g.other ++ "]e[" ++ hexList g.email ++ "]d[" ++ hexList g.dns ++ "]u[" ++ hexList g.uri ++ "]n[" ++
  commas (g.dir.map (fun d => toString (chainLength d))) ++ "]p[" ++ valList g.edi ++ "]i[" ++ hexList g.ip ++ "]r[" ++
  valList g.rid ++ "]"

def showNCData (e : NCE) : String :=
  if e.kind = 4 then toString (chainLength e.data)
  else if e.kind = 3 ∨ e.kind = 5 ∨ e.kind = 8 then showValStr e.data
  else match e.data with
    | .bytes b => toHex b
    | v => showValStr v

def showNCE (e : NCE) : String :=
  toString e.kind ++ "/" ++ showNCData e ++ "/" ++ toString e.min ++ "/" ++ toString e.max

def showNC (l : List NCE) : String :=
  commas (([1, 2, 3, 4, 5, 6, 7, 8].map (fun k => (l.filter (fun e => e.kind == k)).map showNCE)).flatten)

def showPol (p : Pol) : String :=
  showValStr p.id ++ "/q[" ++ semis (p.qualifierIds.map showValStr) ++ "]/c[" ++ semis (p.cps.map toHex) ++ "]/t[" ++
  semis (p.explicitTexts.map toHex) ++ "]/g[" ++ semis (p.noticeOrgs.map toHex) ++ "]/" ++ toString p.notices

def showCert (c : Cert) : String :=
  " ".intercalate [
    "san=" ++ showGN c.san, "ian=" ++ showGN c.ian, "failed=[" ++ valList c.failedNames ++ "]",
    "ncc=" ++ tf c.ncCritical, "perm=[" ++ showNC c.permitted ++ "]", "excl=[" ++ showNC c.excluded ++ "]",
    "crl=[" ++ hexList c.crldp ++ "]", "aki=" ++ showValStr c.aki, "ski=" ++ showValStr c.ski,
    "eku=" ++ toString c.ekuCount,
    "pol=" ++ (match c.policies with | none => "n" | some l => "p[" ++ commas (l.map showPol) ++ "]"),
    "ocsp=[" ++ hexList c.ocsp ++ "]", "iss=[" ++ hexList c.issuers ++ "]",
    "sct=" ++ toString c.scts, "pre=" ++ tf c.isPrecert,
    "tor=" ++ (match c.tor with | none => "0" | some n => toString n),
    "cabf=" ++ (match c.cabf with | none => "n" | some v => showValStr v),
    "qc=" ++ tf c.qc]

def showCertRes (r : Res Cert) : String :=
  match r with
  | .ok c => "ok " ++ showCert c
  | .err => "err"
  | .panic => "panic"

/-- one `<oid>:<crit>:<hex>:<strict tok>:<perm tok>` token -/
def parseExtTok (s : String) : Option (Ext × String × String) :=
  match s.splitOn ":" with
  | [o, c, h, st, pt] =>
    (match parseArcsTok o, ofHex h with
     | some id, some v => some ({ id := id, critical := c == "t", value := v }, st, pt)
     | _, _ => none)
  | _ => none

def tokCount (t : String) : Option Nat := (dropPrefix t 1).toNat?

/-- the opaque sub-parsers, read off the case line -/
def subOf (tbl : List (Ext × String × String)) : Sub :=
  let look (perm : Bool) (v : Bytes) : String :=
    match tbl.find? (fun x => x.1.value == v && (x.2.1 != "-" || x.2.2 != "-")) with
    | some x => if perm then x.2.2 else x.2.1
    | none => "-"
  { tor := fun perm v => let t := look perm v; if t.startsWith "n" then tokCount t else none
    sct := fun perm v =>
      let t := look perm v
      match tokCount t with
      | some n => (n, t.startsWith "n")
      | none => (0, false)
    qcParse := fun perm v => let t := look perm v; if t.startsWith "n" then some () else none }

def showKey (r : Res Key) : String :=
  match r with
  | .ok (.rsa n e) => "ok rsa " ++ toString n ++ " " ++ toString e
  | .ok (.other t) => "ok other " ++ toString t
  | .err => "err"
  | .panic => "panic"

def showGNRes (r : GN × Bool) : String :=
  tf r.2 ++ " " ++ showGN r.1 ++ " failed=[" ++ valList r.1.failed ++ "]"

def handle (args : List String) : String :=
  match args with
  | ["xsch", n, sc] =>
    (match schemaByName n, parseSchema sc with
     | some a, some b => if a = b then "match" else "differ"
     | _, _ => "bad-op")
  | ["xpk", h] =>
    (match ofHex h with
     | some bs => showKey (parsePublicKeyRSA false bs) ++ "|" ++ showKey (parsePublicKeyRSA true bs)
     | none => "bad-op")
  | ["xgn", h] =>
    (match ofHex h with
     | some bs => showGNRes (parseGeneralNames false bs) ++ "|" ++ showGNRes (parseGeneralNames true bs)
     | none => "bad-op")
  | ["xpc", es] =>
    (match (es.splitOn ",").mapM parseExtTok with
     | some tbl =>
       let sub := subOf tbl
       let exts := tbl.map (·.1)
       showCertRes (parseExts sub false exts {}) ++ "|" ++ showCertRes (parseExts sub true exts {})
     | none => "bad-op")
  | _ => "bad-op"

end ZV.C20.X

/-- `tools/genglue.py` registers every `ZV/Drv/C*.lean` as a topic handler `ZV.<file>.handle`; this alias serves that
    (the topic `c20x` itself is unused: the `x…` ops arrive as `c20 x…` through `ZV.C20.handle`). -/
def ZV.C20X.handle (args : List String) : String := ZV.C20.X.handle args
