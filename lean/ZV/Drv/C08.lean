import ZV.Model.C08
/-! line protocol for C08:
    `c08 <useed> <fp:subj:iss:skid:akid;…> <chk rows of 0/1;…> <op,op,…|->`
    ops: `a<r>:<i>` AddCert (`a<r>:n` = AddCert(nil)), `p<r>:<tok.tok…>` AppendCertsFromPEM; tok `g` = text that is not PEM
         (pem.Decode yields no block for it), else `<hex of block.Type>_<len(block.Headers)>_<body>` with body `c<i>` = DER of
         certificate i (ParseCertificate succeeds), `u<i>` truncated DER / `t<i>` DER + trailing byte / `e` empty (ParseCertificate fails);
         WHICH blocks are skipped is decided by the model (`Block.skipped`, `appendCertsFromPEM`),
         `s<d>:<a>:<b>` regs[d] = regs[a].Sum(regs[b]).
    output: one observation of ALL FOUR pool variables for the initial state and after EVERY operation (the state
            after k operations is `run init (ops.take k)`), joined by `#`, then `M=` PEM results.  An observation is,
            per variable (`|`), `nil` or `size/uids/subjects/C=<Contains bits>/N=<byName buckets>/K=<bySubjectKeyId
            buckets>/P=<findVerifiedParents per certificate: parents/errCert/errNil/ValidSignature after the call (before: uid odd)>` -- or `=` when that text is
            identical to the one of the same variable in the previous observation -- then `V=` Covers bits. -/
namespace ZV.C08

def parseCert (uid : Nat) (s : String) : Option Cert :=
  match (s.splitOn ":").mapM (·.toNat?) with
  | some [fp, su, is, sk, ak] => some { uid := uid, fp := fp, subject := su, issuer := is, skid := sk, akid := ak }
  | _ => none

def parseCerts (s : String) : Option (List Cert) :=
  let rec go (uid : Nat) : List String → Option (List Cert)
    | [] => some []
    | x :: xs =>
      match parseCert uid x, go (uid + 1) xs with
      | some c, some cs => some (c :: cs)
      | _, _ => none
  go 0 (s.splitOn ";")

def parseChk (s : String) : List (List Bool) :=
  (s.splitOn ";").map (fun row => row.toList.map (· == '1'))

def chkOf (m : List (List Bool)) (child parent : Cert) : Bool :=
  match m[child.uid % 100]? with
  | some row => match row[parent.uid % 100]? with
    | some b => b
    | none => false
  | none => false

/-- the object `AppendCertsFromPEM` creates for block `c<i>`: uid 100 + first index with the same fingerprint -/
def pemCert (u : List Cert) (i : Nat) : Option Cert :=
  match u[i]? with
  | none => none
  | some c =>
    match u.findIdx? (fun x => x.fp == c.fp) with
    | some j => some { c with uid := 100 + j }
    | none => none

def hexStr (s : String) : Option String :=
  match ofHex s with
  | some bs => some (String.ofList (bs.map (fun b => Char.ofNat b.toNat)))
  | none => none

/-- `none` = malformed token; `some none` = text without a block; `some (some b)` = a decoded block -/
def parseTok (u : List Cert) (t : String) : Option (Option Block) :=
  if t == "g" then some none else
  match t.splitOn "_" with
  | [ty, nh, body] =>
    match hexStr ty, nh.toNat? with
    | some typ, some n =>
      match body.toList with
      | 'c' :: rest =>
        match (String.ofList rest).toNat? with
        | some i => (pemCert u i).map (fun c => some { typ := typ, nHeaders := n, parsed := some c })
        | none => none
      | 'u' :: _ => some (some { typ := typ, nHeaders := n, parsed := none })
      | 't' :: _ => some (some { typ := typ, nHeaders := n, parsed := none })
      | ['e'] => some (some { typ := typ, nHeaders := n, parsed := none })
      | _ => none
    | _, _ => none
  | _ => none

def parseOp (u : List Cert) (s : String) : Option Op :=
  match s.toList with
  | 'a' :: rest =>
    match (String.ofList rest).splitOn ":" with
    | [r, i] =>
      match r.toNat?, i.toNat? with
      | some rr, some ii => (u[ii]?).map (fun c => Op.add rr (some c))
      | some rr, none => if i == "n" then some (Op.add rr none) else none
      | _, _ => none
    | _ => none
  | 'p' :: rest =>
    match (String.ofList rest).splitOn ":" with
    | [r, toks] =>
      match r.toNat?, (toks.splitOn ".").mapM (parseTok u) with
      | some rr, some bs => some (Op.pem rr (bs.filterMap id))
      | _, _ => none
    | _ => none
  | 's' :: rest =>
    match ((String.ofList rest).splitOn ":").mapM (·.toNat?) with
    | some [d, a, b] => some (Op.sum d a b)
    | _ => none
  | _ => none

def bit (b : Bool) : String := if b then "1" else "0"
def dots (l : List Nat) : String := ".".intercalate (l.map toString)

def showParents : Res Parents → String
  | .ok p => s!"{dots p.parents}/{match p.errCert with | some c => toString c.uid | none => "-"}/{bit p.errNil}/{bit p.valid}"
  | .err => "err"
  | .panic => "panic"

/-- insertion of `n` into an ascending duplicate-free list -/
def insAsc (n : Nat) : List Nat → List Nat
  | [] => [n]
  | x :: xs => if n < x then n :: x :: xs else if n = x then x :: xs else x :: insAsc n xs

/-- sorted distinct non-zero identifiers -/
def idsOf (l : List Nat) : List Nat := (l.foldl (fun acc n => insAsc n acc) []).filter (· ≠ 0)

/-- full observation of one pool variable -/
def showPool (u : List Cert) (m : List (List Bool)) (names kids : List Nat) : Option Pool → String
  | none => "nil"
  | some p =>
    let cb := String.join (u.map (fun c => bit (contains (some p) c)))
    let ns := ",".intercalate (names.map (fun n => dots (p.byName n)))
    let ks := ",".intercalate (kids.map (fun k => dots (p.bySubjectKeyId k)))
    let pp := ",".intercalate (u.map (fun c => showParents (findVerifiedParents (chkOf m) (some p) c (c.uid % 2 == 1))))
    s!"{size (some p)}/{dots ((certificates p).map (·.uid))}/{dots (subjects p)}/C={cb}/N={ns}/K={ks}/P={pp}"

def regIds : List Nat := [0, 1, 2, 3]

def showCovers (regs : Regs) : String :=
  String.join (regIds.map (fun a => String.join (regIds.map (fun b => bit (covers (regs a) (regs b))))))

/-- the observations of the successive states, each pool text replaced by `=` when unchanged -/
def showSteps : Option (List String) → List (List String × String) → List String
  | _, [] => []
  | prev, (pools, cov) :: rest =>
    let shown := match prev with
      | none => pools
      | some pv => List.zipWith (fun a b => if a == b then "=" else b) pv pools
    ("|".intercalate shown ++ "|V=" ++ cov) :: showSteps (some pools) rest

def handle (args : List String) : String :=
  match args with
  | [_, certs, chk, ops] =>
    match parseCerts certs with
    | none => "bad-op"
    | some u =>
      let m := parseChk chk
      let opl := if ops == "-" then some [] else (ops.splitOn ",").mapM (parseOp u)
      match opl with
      | none => "bad-op"
      | some os =>
        let names := idsOf (u.flatMap (fun c => [c.subject, c.issuer]))
        let kids := idsOf (u.flatMap (fun c => [c.skid, c.akid]))
        -- the state after every prefix of the history
        let states := (List.range (os.length + 1)).mapM (fun k =>
          match run init (os.take k) with
          | .ok (regs, _) => some regs
          | _ => none)
        match states, run init os with
        | some sts, .ok (_, pems) =>
          let obs := sts.map (fun regs => (regIds.map (fun r => showPool u m names kids (regs r)), showCovers regs))
          "#".intercalate (showSteps none obs) ++ s!"#M={String.join (pems.map bit)}"
        | _, .err => "err"
        | _, _ => "panic"
  | _ => "bad-op"

end ZV.C08
