import ZV.Model.C08
/-! line protocol for C08:
    `c08 <useed> <fp:subj:iss:skid:akid;…> <chk rows of 0/1;…> <op,op,…|->`
    ops: `a<r>:<i>` AddCert, `p<r>:<tok.tok…>` AppendCertsFromPEM (tok `c<i>` = certificate i, anything else = skipped block),
         `s<d>:<a>:<b>` regs[d] = regs[a].Sum(regs[b]).
    output: per variable `nil` or `size/uids/subjects`, then `C=` Contains bits, `V=` Covers bits,
            `P=` findVerifiedParents per variable x certificate (`parents/errCert/errNil`), `M=` PEM results. -/
namespace ZV.C08

def parseCert (uid : Nat) (s : String) : Option Cert :=
  match (s.splitOn ":").mapM (·.toNat?) with
  | some [fp, su, is, sk, ak] => some { uid := uid, fp := fp, subject := su, issuer := is, skid := sk, akid := ak }
  | _ => none

def parseCerts (s : String) : Option (List Cert) :=
  let rec go (uid : Nat) : List String → Option (List Cert)
    | [] => some []
    | x :: xs =>
      match parseCert uid x, go (uid + 1) xs with
      | some c, some cs => some (c :: cs)
      | _, _ => none
  go 0 (s.splitOn ";")

def parseChk (s : String) : List (List Bool) :=
  (s.splitOn ";").map (fun row => row.toList.map (· == '1'))

def chkOf (m : List (List Bool)) (child parent : Cert) : Bool :=
  match m[child.uid % 100]? with
  | some row => match row[parent.uid % 100]? with
    | some b => b
    | none => false
  | none => false

/-- the object `AppendCertsFromPEM` creates for block `c<i>`: uid 100 + first index with the same fingerprint -/
def pemCert (u : List Cert) (i : Nat) : Option Cert :=
  match u[i]? with
  | none => none
  | some c =>
    match u.findIdx? (fun x => x.fp == c.fp) with
    | some j => some { c with uid := 100 + j }
    | none => none

def parseTok (u : List Cert) (t : String) : Option (Option Cert) :=
  match t.toList with
  | 'c' :: rest =>
    match (String.ofList rest).toNat? with
    | some i => (pemCert u i).map some
    | none => none
  | _ => some none

def parseOp (u : List Cert) (s : String) : Option Op :=
  match s.toList with
  | 'a' :: rest =>
    match (String.ofList rest).splitOn ":" with
    | [r, i] =>
      match r.toNat?, i.toNat? with
      | some rr, some ii => (u[ii]?).map (fun c => Op.add rr c)
      | _, _ => none
    | _ => none
  | 'p' :: rest =>
    match (String.ofList rest).splitOn ":" with
    | [r, toks] =>
      match r.toNat?, (toks.splitOn ".").mapM (parseTok u) with
      | some rr, some bs => some (Op.pem rr bs)
      | _, _ => none
    | _ => none
  | 's' :: rest =>
    match ((String.ofList rest).splitOn ":").mapM (·.toNat?) with
    | some [d, a, b] => some (Op.sum d a b)
    | _ => none
  | _ => none

def bit (b : Bool) : String := if b then "1" else "0"
def dots (l : List Nat) : String := ".".intercalate (l.map toString)

def showPool : Option Pool → String
  | none => "nil"
  | some p => s!"{size (some p)}/{dots ((certificates p).map (·.uid))}/{dots (subjects p)}"

def showParents : Res Parents → String
  | .ok p => s!"{dots p.parents}/{match p.errCert with | some c => toString c.uid | none => "-"}/{bit p.errNil}"
  | .err => "err"
  | .panic => "panic"

def handle (args : List String) : String :=
  match args with
  | [_, certs, chk, ops] =>
    match parseCerts certs with
    | none => "bad-op"
    | some u =>
      let m := parseChk chk
      let opl := if ops == "-" then some [] else (ops.splitOn ",").mapM (parseOp u)
      match opl with
      | none => "bad-op"
      | some os =>
        match run init os with
        | .ok (regs, pems) =>
          let rs := [0, 1, 2]
          let pools := "|".intercalate (rs.map (fun r => showPool (regs r)))
          let cb := String.join (rs.map (fun r => String.join (u.map (fun c => bit (contains (regs r) c)))))
          let vb := String.join (rs.map (fun a => String.join (rs.map (fun b => bit (covers (regs a) (regs b))))))
          let pp := ",".intercalate (rs.flatMap (fun r => u.map (fun c => showParents (findVerifiedParents (chkOf m) (regs r) c))))
          s!"{pools}|C={cb}|V={vb}|P={pp}|M={String.join (pems.map bit)}"
        | .err => "err"
        | .panic => "panic"
  | _ => "bad-op"

end ZV.C08
