import ZV.Model.C06Multi
import ZV.Model.C06Tbs
/-! line protocol for C06:
      `c06 cert <der-hex> <canon:0|1> <verified:0|1|u>`
    output `err` or
      `ok v=<Version> tbs=<off>+<len> iss=<off>+<len> sub=<off>+<len> spki=<off>+<len> md5=… sha1=… sha256=…
          spkifp=… tbsfp=… spkisub=… noct=<hex | -> eq=<0|1> ss=<0|1|u>`
    `noct` is printed only for canonically encoded certificates (flag supplied by the harness: re-marshalling the
    parsed TBS reproduces RawTBSCertificate); `verified` is the outcome of verifying the certificate's signature
    under its own key (u = the harness has no independent verifier for that algorithm).
    every summary ends with ` nb=<NotBefore.Unix()> na=<NotAfter.Unix()> vp=<ValidityPeriod> saoid=<arcs of SignatureAlgorithmOID>`
    (`info=err` if the model cannot decode Validity / the inner AlgorithmIdentifier of a certificate Go accepts).
      `c06 tbs <der-hex> <canon:0|1> <class>`
    `ParseTBSCertificate` on the bytes: `err` or `ok v=… raw=<len of Raw> iss=… sub=… spki=…` + fingerprints (of the
    TBS bytes) + noct + eq + the info suffix.
      `c06 wrap <prefix-hex|-> <der-hex> <suffix-hex|-> <class>`
    output `err` or `ok raw=<length of Raw> md5=… sha1=… sha256=…` for the input prefix ‖ der ‖ suffix.
      `c06 bundle <class> <flags> <der1-hex> … <derk-hex>`
    `ParseCertificates` on der1 ‖ … ‖ derk; flags = 2k characters, canon and verified of certificate i at 2i, 2i+1.
    output `err` or `ok n=<number of certificates>` followed by `;` + the `cert` summary (without the leading `ok `)
    of every certificate returned. -/
namespace ZV.C06
open ZV ZV.Der

def showSpan (off len : Nat) : String := toString off ++ "+" ++ toString len

def showArcs : List Nat → String
  | [] => ""
  | [a] => toString a
  | a :: as => toString a ++ "." ++ showArcs as

def showInfo (tbs : Tbs) : String :=
  match tbsInfo tbs with
  | .ok i => " nb=" ++ toString i.notBefore ++ " na=" ++ toString i.notAfter ++ " vp=" ++ toString i.period
      ++ " saoid=" ++ showArcs i.sigAlgOID
  | .err => " info=err"
  | .panic => " info=panic"

/-- summary of `ParseTBSCertificate`'s result -/
def showTbsCert (t : Elem) (tbs : Tbs) (canon : String) : String :=
  let c := tbsAsCert t tbs
  let m := c.meta
  "v=" ++ toString m.version ++ " raw=" ++ toString c.raw.full.length
    ++ " iss=" ++ showSpan (tbsOffIssuer t tbs) c.rawIssuer.length
    ++ " sub=" ++ showSpan (tbsOffSubject t tbs) c.rawSubject.length
    ++ " spki=" ++ showSpan (tbsOffSPKI t tbs) c.rawSPKI.length
    ++ " md5=" ++ toHex m.fpMD5 ++ " sha1=" ++ toHex m.fpSHA1 ++ " sha256=" ++ toHex m.fpSHA256
    ++ " spkifp=" ++ toHex m.spkiFp ++ " tbsfp=" ++ toHex m.tbsFp ++ " spkisub=" ++ toHex m.spkiSubjectFp
    ++ " noct=" ++ (if canon == "1" then toHex m.noCTFp else "-")
    ++ " eq=" ++ (if m.issuerEqSubject then "1" else "0") ++ showInfo tbs

def showCert (c : Cert) (canon ver : String) : String :=
  let m := c.meta
  let ss := if ver == "u" then "u" else if selfSigned m (ver == "1") then "1" else "0"
  "v=" ++ toString m.version
    ++ " tbs=" ++ showSpan c.offTbs c.rawTBS.length
    ++ " iss=" ++ showSpan c.offIssuer c.rawIssuer.length
    ++ " sub=" ++ showSpan c.offSubject c.rawSubject.length
    ++ " spki=" ++ showSpan c.offSPKI c.rawSPKI.length
    ++ " md5=" ++ toHex m.fpMD5 ++ " sha1=" ++ toHex m.fpSHA1 ++ " sha256=" ++ toHex m.fpSHA256
    ++ " spkifp=" ++ toHex m.spkiFp ++ " tbsfp=" ++ toHex m.tbsFp ++ " spkisub=" ++ toHex m.spkiSubjectFp
    ++ " noct=" ++ (if canon == "1" then toHex m.noCTFp else "-")
    ++ " eq=" ++ (if m.issuerEqSubject then "1" else "0") ++ " ss=" ++ ss ++ showInfo c.tbs

/-- certificates paired with their (canon, verified) flag characters; missing flags print as `?` -/
def showCerts : List Cert → List Char → String
  | [], _ => ""
  | c :: cs, a :: b :: fl => ";" ++ showCert c (String.singleton a) (String.singleton b) ++ showCerts cs fl
  | c :: cs, _ => ";" ++ showCert c "?" "?" ++ showCerts cs []

def allHex : List String → Option (List Bytes)
  | [] => some []
  | h :: t =>
    match ofHex h, allHex t with
    | some b, some bs => some (b :: bs)
    | _, _ => none

def handle (args : List String) : String :=
  match args with
  | ["cert", hex, canon, ver, _src] =>
    match ofHex hex with
    | none => "bad-hex"
    | some bs =>
      match parseCert bs with
      | .ok c => "ok " ++ showCert c canon ver
      | .err => "err"
      | .panic => "panic"
  | ["tbs", hex, canon, _class] =>
    match ofHex hex with
    | none => "bad-hex"
    | some bs =>
      match parseTbsCertFull bs with
      | .ok (t, tbs, _) => "ok " ++ showTbsCert t tbs canon
      | .err => "err"
      | .panic => "panic"
  | "bundle" :: _class :: flags :: hexes =>
    match allHex hexes with
    | none => "bad-hex"
    | some ds =>
      match parseCerts ds.flatten with
      | .ok cs => "ok n=" ++ toString cs.length ++ showCerts cs flags.toList
      | .err => "err"
      | .panic => "panic"
  | ["wrap", pre, der, suf, _class] =>
    -- input = prefix ‖ DER ‖ suffix fed to `ParseCertificate` as one byte string
    match ofHex pre, ofHex der, ofHex suf with
    | some p, some d, some s =>
      match parseCert (p ++ d ++ s) with
      | .ok c =>
        let m := c.meta
        "ok raw=" ++ toString c.raw.full.length
          ++ " md5=" ++ toHex m.fpMD5 ++ " sha1=" ++ toHex m.fpSHA1 ++ " sha256=" ++ toHex m.fpSHA256
      | .err => "err"
      | .panic => "panic"
    | _, _, _ => "bad-hex"
  | _ => "bad-op"

end ZV.C06
