import ZV.Model.C25
/-! line protocol for C25 (see go/props/c25/record.go):
    `c25 pad <bytes>` / `c25 padf <L> <fill> <last> <pos> <val>`            → `<toRemove> <good>`
    `c25 enc <vers> <cipher> <seq> <hdr> <payload> <rand>`                  → `ok <record> <seq> <state>` | `err` | `panic`
    `c25 dec <vers> <cipher> <seq> <record> [label]`                        → `ok <typ> <plaintext> <seq> <state>` | `err` | `panic`
    `c25 maxp <vers> <cipher> <dyn> <bytesSent> <packetsSent> <typ>`        → `<n> <packetsSent'>`
    `c25 write <vers> <cipher> <seq> <dyn> <buf> <bytesSent> <packetsSent> <typ> <data> <rand>`
    `c25 read <vers> <haveVers> <handshakeComplete> <cipher> <seq> <wire>`
    bytes: parts joined by `+`; part = hex | `-` | `g<len>.<seed>` | `r<len>.<byte>`;
    cipher: `null` | `stream:<key>:<ctr>:<mac>:<mackey>` | `cbc:<key>:<iv>:<mac>:<mackey>` |
            `prefix:<key>:<taglen>:<prefix4>` | `xor:<key>:<taglen>:<mask12>`  -/
namespace ZV.C25
open Toy

def genBytesAux (seed : Nat) : Nat → Nat → Bytes → Bytes
  | 0, _, acc => acc.reverse
  | n + 1, i, acc => genBytesAux seed n (i + 1) (UInt8.ofNat (seed + 7 * i + 13 * (i / 256)) :: acc)

def parsePart (p : String) : Option Bytes :=
  match p.toList with
  | 'g' :: rest =>
    match (String.ofList rest).splitOn "." with
    | [a, b] => match a.toNat?, b.toNat? with
      | some n, some v => some (genBytesAux v n 0 [])
      | _, _ => none
    | _ => none
  | 'r' :: rest =>
    match (String.ofList rest).splitOn "." with
    | [a, b] => match a.toNat?, b.toNat? with
      | some n, some v => some (List.replicate n (UInt8.ofNat v))
      | _, _ => none
    | _ => none
  | _ => ofHex p

def parseBytes (s : String) : Option Bytes :=
  ((s.splitOn "+").mapM parsePart).map List.flatten

def hexNat (s : String) : Option Nat :=
  s.toList.foldlM (fun acc c => (hexVal c).map (fun d => acc * 16 + d)) 0

def parseMac (alg key : String) : Option Mac :=
  match ofHex key with
  | none => none
  | some k =>
    if alg == "sha1" then some (hmacMac ZV.Hash.HashAlg.sha1 k)
    else if alg == "sha256" then some (hmacMac ZV.Hash.HashAlg.sha256 k)
    else none

/-- cipher for one direction (`dec` = reading side) and the initial toy state -/
def parseCipher (s : String) (dec : Bool) : Option (Cipher St × St × String) :=
  match s.splitOn ":" with
  | ["null"] => some (.null, ⟨0, []⟩, "null")
  | ["stream", key, ctr, alg, mk] =>
    match ofHex key, ctr.toNat?, parseMac alg mk with
    | some k, some c, some m => some (.stream (streamXor k) m, ⟨c, []⟩, "stream")
    | _, _, _ => none
  | ["cbc", key, iv, alg, mk] =>
    match ofHex key, ofHex iv, parseMac alg mk with
    | some k, some i, some m => some (.cbc (toyCbc k dec) m, ⟨0, i⟩, "cbc")
    | _, _, _ => none
  | ["prefix", key, tl, fx] =>
    match ofHex key, tl.toNat?, ofHex fx with
    | some k, some t, some f => some (.aead (prefixNonceAEAD (toyAead k t) (f ++ List.replicate 8 0)), ⟨0, []⟩, "aead")
    | _, _, _ => none
  | ["xor", key, tl, mask] =>
    match ofHex key, tl.toNat?, ofHex mask with
    | some k, some t, some m => some (.aead (xorNonceAEAD (toyAead k t) m), ⟨0, []⟩, "aead")
    | _, _, _ => none
  | _ => none

def showState (kind : String) (s : St) : String :=
  if kind == "stream" then toString s.ctr else if kind == "cbc" then toHex s.iv else "-"

def mkHalf (vers cipher seq : String) (dec : Bool) : Option (HalfConn St × String) :=
  match hexNat vers, parseCipher cipher dec, ofHex seq with
  | some v, some (c, st, kind), some s => some ({ version := v, cipher := c, st := st, seq := s }, kind)
  | _, _, _ => none

def cksum (bs : Bytes) : UInt32 := bs.foldl (fun c b => c * 31 + b.toUInt32) 0

def showPad (r : Nat × UInt8) : String := toString r.1 ++ " " ++ toString r.2.toNat

def setAt (l : Bytes) (i : Nat) (v : UInt8) : Bytes := l.take i ++ (match l.drop i with | [] => [] | _ :: t => v :: t)

def handle (args : List String) : String :=
  match args with
  | ["pad", p] =>
    match parseBytes p with
    | some b => showPad (extractPadding b)
    | none => "bad-arg"
  | ["padf", l, fill, last, pos, val] =>
    match l.toNat?, fill.toNat?, last.toNat?, pos.toNat?, val.toNat? with
    | some l, some fill, some last, some pos, some val =>
      let p := List.replicate l (UInt8.ofNat fill)
      let p := if l > 0 then setAt p (l - 1) (UInt8.ofNat last) else p
      let p := if pos < l then setAt p (l - 1 - pos) (UInt8.ofNat val) else p
      showPad (extractPadding p)
    | _, _, _, _, _ => "bad-arg"
  | ["enc", vers, cipher, seq, hdr, payload, rand] =>
    match mkHalf vers cipher seq false, parseBytes hdr, parseBytes payload, parseBytes rand with
    | some (hc, kind), some h, some p, some r =>
      match encrypt hc h p r with
      | .ok (rec, hc', _) => "ok " ++ toHex rec ++ " " ++ toHex hc'.seq ++ " " ++ showState kind hc'.st
      | .err => "err"
      | .panic => "panic"
    | _, _, _, _ => "bad-arg"
  | "dec" :: vers :: cipher :: seq :: record :: _ =>
    match mkHalf vers cipher seq true, parseBytes record with
    | some (hc, kind), some r =>
      match decrypt hc r with
      | .ok (pt, typ, hc') =>
        "ok " ++ toString typ.toNat ++ " " ++ toHex pt ++ " " ++ toHex hc'.seq ++ " " ++ showState kind hc'.st
      | .err => "err"
      | .panic => "panic"
    | _, _ => "bad-arg"
  | ["maxp", vers, cipher, dyn, bs, ps, typ] =>
    match mkHalf vers cipher "0000000000000000" false, bs.toNat?, ps.toNat?, typ.toNat? with
    | some (hc, _), some bs, some ps, some typ =>
      let c : Conn St := { vers := hc.version, haveVers := true, handshakeComplete := true,
                           dynamicRecordSizingDisabled := dyn == "1", buffering := false, bytesSent := bs,
                           packetsSent := ps, retryCount := 0, hc := hc, hand := [] }
      match maxPayloadSizeForWrite c (UInt8.ofNat typ) with
      | (n, p) => toString n ++ " " ++ toString p
    | _, _, _, _ => "bad-arg"
  | ["write", vers, cipher, seq, dyn, buf, bs, ps, typ, data, rand] =>
    match mkHalf vers cipher seq false, bs.toNat?, ps.toNat?, typ.toNat?, parseBytes data, parseBytes rand with
    | some (hc, _), some bs, some ps, some typ, some d, some r =>
      let c : Conn St := { vers := hc.version, haveVers := true, handshakeComplete := true,
                           dynamicRecordSizingDisabled := dyn == "1", buffering := buf == "1", bytesSent := bs,
                           packetsSent := ps, retryCount := 0, hc := hc, hand := [] }
      match writeRecordLocked c (UInt8.ofNat typ) d r with
      | .ok w =>
        let wire := w.records.flatten
        let lens := w.records.map (fun rec => toString (rec.length - 5))
        "ok " ++ toString w.n ++ " " ++ (if lens.isEmpty then "-" else ",".intercalate lens) ++ " " ++
          toString wire.length ++ " " ++ toString (cksum wire).toNat ++ " " ++
          (if wire.length ≤ 1024 then toHex wire else "*") ++ " " ++
          toString w.conn.bytesSent ++ " " ++ toString w.conn.packetsSent ++ " " ++ toHex w.conn.hc.seq
      | .err => "err"
      | .panic => "panic"
    | _, _, _, _, _, _ => "bad-arg"
  | ["read", vers, hv, hsc, cipher, seq, wire] =>
    match mkHalf vers cipher seq true, parseBytes wire with
    | some (hc, _), some w =>
      let c : Conn St := { vers := hc.version, haveVers := hv == "1", handshakeComplete := hsc == "1",
                           dynamicRecordSizingDisabled := false, buffering := false, bytesSent := 0,
                           packetsSent := 0, retryCount := 0, hc := hc, hand := [] }
      match readRecord c w with
      | .data input c' _ => "data " ++ toHex input ++ " " ++ toHex c'.hc.seq
      | .hand c' _ => "hand " ++ toHex c'.hand ++ " " ++ toHex c'.hc.seq
      | .err rc => "err " ++ toString rc
      | .panic => "panic"
    | _, _ => "bad-arg"
  | _ => "bad-op"

end ZV.C25
