import ZV.Model.C25
/-! line protocol for C25 (see go/props/c25/record.go):
    `c25 pad <bytes>` / `c25 padf <L> <fill> <last> <pos> <val>`            → `<toRemove> <good>`
    `c25 enc <vers> <cipher> <seq> <hdr> <payload> <rand>`                  → `ok <record> <seq> <state>` | `err` | `panic`
    `c25 dec <vers> <cipher> <seq> <record> [label]`                        → `ok <typ> <plaintext> <seq> <state>` | `err` | `panic`
    `c25 maxp <vers> <cipher> <dyn> <bytesSent> <packetsSent> <typ>`        → `<n> <packetsSent'>`
    `c25 write <vers> <cipher> <seq> <dyn> <buf> <bytesSent> <packetsSent> <typ> <data> <rand>`
    `c25 read <vers> <haveVers> <handshakeComplete> <cipher> <seq> <wire>`
    bytes: parts joined by `+`; part = hex | `-` | `g<len>.<seed>` | `r<len>.<byte>`;
    cipher: `null` | `stream:<key>:<ctr>:<mac>:<mackey>` | `cbc:<key>:<iv>:<mac>:<mackey>` |
            `prefix:<key>:<taglen>:<prefix4>` | `xor:<key>:<taglen>:<mask12>`  -/
namespace ZV.C25
open Toy

def genBytesAux (seed : Nat) : Nat → Nat → Bytes → Bytes
  | 0, _, acc => acc.reverse
  | n + 1, i, acc => genBytesAux seed n (i + 1) (UInt8.ofNat (seed + 7 * i + 13 * (i / 256)) :: acc)

def parsePart (p : String) : Option Bytes :=
  match p.toList with
  | 'g' :: rest =>
    match (String.ofList rest).splitOn "." with
    | [a, b] => match a.toNat?, b.toNat? with
      | some n, some v => some (genBytesAux v n 0 [])
      | _, _ => none
    | _ => none
  | 'r' :: rest =>
    match (String.ofList rest).splitOn "." with
    | [a, b] => match a.toNat?, b.toNat? with
      | some n, some v => some (List.replicate n (UInt8.ofNat v))
      | _, _ => none
    | _ => none
  | _ => ofHex p

def parseBytes (s : String) : Option Bytes :=
  ((s.splitOn "+").mapM parsePart).map List.flatten

def hexNat (s : String) : Option Nat :=
  s.toList.foldlM (fun acc c => (hexVal c).map (fun d => acc * 16 + d)) 0

def parseMac (alg key : String) : Option Mac :=
  match ofHex key with
  | none => none
  | some k =>
    if alg == "sha1" then some (hmacMac ZV.Hash.HashAlg.sha1 k)
    else if alg == "sha256" then some (hmacMac ZV.Hash.HashAlg.sha256 k)
    else none

/-- cipher for one direction (`dec` = reading side) and the initial toy state -/
def parseCipher (s : String) (dec : Bool) : Option (Cipher St × St × String) :=
  match s.splitOn ":" with
  | ["null"] => some (.null, ⟨0, []⟩, "null")
  | ["stream", key, ctr, alg, mk] =>
    match ofHex key, ctr.toNat?, parseMac alg mk with
    | some k, some c, some m => some (.stream (streamXor k) m, ⟨c, []⟩, "stream")
    | _, _, _ => none
  | ["cbc", key, iv, alg, mk] =>
    match ofHex key, ofHex iv, parseMac alg mk with
    | some k, some i, some m => some (.cbc (toyCbc k dec) m, ⟨0, i⟩, "cbc")
    | _, _, _ => none
  | ["prefix", key, tl, fx] =>
    match ofHex key, tl.toNat?, ofHex fx with
    | some k, some t, some f => some (.aead (prefixNonceAEAD (toyAead k t) (f ++ List.replicate 8 0)), ⟨0, []⟩, "aead")
    | _, _, _ => none
  | ["xor", key, tl, mask] =>
    match ofHex key, tl.toNat?, ofHex mask with
    | some k, some t, some m => some (.aead (xorNonceAEAD (toyAead k t) m), ⟨0, []⟩, "aead")
    | _, _, _ => none
  | _ => none

def showState (kind : String) (s : St) : String :=
  if kind == "stream" then toString s.ctr else if kind == "cbc" then toHex s.iv else "-"

def mkHalf (vers cipher seq : String) (dec : Bool) : Option (HalfConn St × String) :=
  match hexNat vers, parseCipher cipher dec, ofHex seq with
  | some v, some (c, st, kind), some s => some ({ version := v, cipher := c, st := st, seq := s }, kind)
  | _, _, _ => none

def cksum (bs : Bytes) : UInt32 := bs.foldl (fun c b => c * 31 + b.toUInt32) 0

def showPad (r : Nat × UInt8) : String := toString r.1 ++ " " ++ toString r.2.toNat

def setAt (l : Bytes) (i : Nat) (v : UInt8) : Bytes := l.take i ++ (match l.drop i with | [] => [] | _ :: t => v :: t)


def showErrK : ErrK → String
  | .io .eof => "eof"
  | .io .unexpectedEOF => "ueof"
  | .localAlert a => "local." ++ toString a
  | .remoteAlert a => "remote." ++ toString a
  | .header none => "hdr.-"
  | .header (some a) => "hdr." ++ toString a
  | .tooManyIgnored => "ignored"
  | .pendingInput => "pending"

def parseNext (s : String) (dec : Bool) : Option (Option (Cipher St × St)) :=
  if s == "-" then some none
  else match parseCipher s dec with
    | some (c, st, _) => some (some (c, st))
    | none => none

/-- the calls of `readx`: `0`/`1` = drain c.input, then readRecordOrCCS(false/true); `p` = readRecordOrCCS(false)
    without draining -/
def runCalls : List Char → RState St → List String → Option Nat → (List String × RState St × Option Nat)
  | [], s, acc, al => (acc.reverse, s, al)
  | ch :: rest, s, acc, al =>
    let s := if ch == 'p' then s else s.drained
    match readRecordOrCCS s (ch == '1') with
    | none => (("panic" :: acc).reverse, s, al)
    | some (s', o) =>
      let tok := match o with
        | .data d => "data:" ++ toHex d
        | .hand => "hand:" ++ toHex s'.core.c.hand
        | .ccs => "ccs"
        | .err e => "err:" ++ showErrK e
      let al' := match o, s.core.inErr with
        | .err e, none => (match e.alertSent with | some a => some a | none => al)
        | _, _ => al
      runCalls rest s' (tok :: acc) al'

def showLens (recs : List Bytes) : String :=
  let lens := recs.map (fun rec => toString (rec.length - 5))
  if lens.isEmpty then "-" else ",".intercalate lens

structure WSt where
  c : Conn St
  next : Option (Cipher St × St)
  rand : Bytes
  outErr : Bool
  wire : Bytes

/-- one op of `writex`: `r<typ>:<bytes>` = writeRecordLocked, `w:<bytes>` = Conn.Write -/
def runWOp (beast : Bool) (w : WSt) (op : String) : Option (String × WSt) :=
  match op.splitOn ":" with
  | [k, d] =>
    match parseBytes d with
    | none => none
    | some data =>
      if k == "w" then
        if w.outErr then some ("err:0", w)
        else match connWrite w.c beast data w.rand with
          | .ok (n, w1, w2) =>
            let recs := (match w1 with | some x => x.records | none => []) ++ w2.records
            some ("ok:" ++ toString n ++ ":" ++ showLens recs,
              { w with c := w2.conn, rand := w2.rand, wire := w.wire ++ recs.flatten })
          | .err => some ("err", w)
          | .panic => some ("panic", w)
      else match (String.ofList (k.toList.drop 1)).toNat? with
        | none => none
        | some typ =>
          match writeRecordLockedN w.c w.next (UInt8.ofNat typ) data w.rand with
          | .ok (.plain x) =>
            some ("ok:" ++ toString x.n ++ ":" ++ showLens x.records,
              { w with c := x.conn, rand := x.rand, wire := w.wire ++ x.records.flatten })
          | .ok (.switched x) =>
            some ("ok:" ++ toString x.n ++ ":" ++ showLens x.records,
              { w with c := x.conn, next := none, rand := x.rand, wire := w.wire ++ x.records.flatten })
          | .ok (.ccsFailed x al) =>
            match al with
            | .ok y => some ("ccserr:" ++ toString x.n ++ ":" ++ showLens (x.records ++ y.records),
                { w with c := y.conn, rand := y.rand, outErr := true, wire := w.wire ++ x.records.flatten ++ y.records.flatten })
            | _ => some ("ccserr:" ++ toString x.n ++ ":" ++ showLens x.records,
                { w with c := x.conn, rand := x.rand, outErr := true, wire := w.wire ++ x.records.flatten })
          | .err => some ("err", w)
          | .panic => some ("panic", w)
  | _ => none

def runWOps (beast : Bool) : List String → WSt → List String → Option (List String × WSt)
  | [], w, acc => some (acc.reverse, w)
  | op :: rest, w, acc =>
    match runWOp beast w op with
    | none => none
    | some (tok, w') => if tok == "panic" || tok == "err" then some ((tok :: acc).reverse, w') else runWOps beast rest w' (tok :: acc)

def handle (args : List String) : String :=
  match args with
  | ["pad", p] =>
    match parseBytes p with
    | some b => showPad (extractPadding b)
    | none => "bad-arg"
  | ["padf", l, fill, last, pos, val] =>
    match l.toNat?, fill.toNat?, last.toNat?, pos.toNat?, val.toNat? with
    | some l, some fill, some last, some pos, some val =>
      let p := List.replicate l (UInt8.ofNat fill)
      let p := if l > 0 then setAt p (l - 1) (UInt8.ofNat last) else p
      let p := if pos < l then setAt p (l - 1 - pos) (UInt8.ofNat val) else p
      showPad (extractPadding p)
    | _, _, _, _, _ => "bad-arg"
  | ["enc", vers, cipher, seq, hdr, payload, rand] =>
    match mkHalf vers cipher seq false, parseBytes hdr, parseBytes payload, parseBytes rand with
    | some (hc, kind), some h, some p, some r =>
      match encrypt hc h p r with
      | .ok (rec, hc', _) => "ok " ++ toHex rec ++ " " ++ toHex hc'.seq ++ " " ++ showState kind hc'.st
      | .err => "err"
      | .panic => "panic"
    | _, _, _, _ => "bad-arg"
  | "dec" :: vers :: cipher :: seq :: record :: _ =>
    match mkHalf vers cipher seq true, parseBytes record with
    | some (hc, kind), some r =>
      match decrypt hc r with
      | .ok (pt, typ, hc') =>
        "ok " ++ toString typ.toNat ++ " " ++ toHex pt ++ " " ++ toHex hc'.seq ++ " " ++ showState kind hc'.st
      | .err => "err"
      | .panic => "panic"
    | _, _ => "bad-arg"
  | ["maxp", vers, cipher, dyn, bs, ps, typ] =>
    match mkHalf vers cipher "0000000000000000" false, bs.toNat?, ps.toNat?, typ.toNat? with
    | some (hc, _), some bs, some ps, some typ =>
      let c : Conn St := { vers := hc.version, haveVers := true, handshakeComplete := true,
                           dynamicRecordSizingDisabled := dyn == "1", buffering := false, bytesSent := bs,
                           packetsSent := ps, retryCount := 0, hc := hc, hand := [] }
      match maxPayloadSizeForWrite c (UInt8.ofNat typ) with
      | (n, p) => toString n ++ " " ++ toString p
    | _, _, _, _ => "bad-arg"
  | ["write", vers, cipher, seq, dyn, buf, bs, ps, typ, data, rand] =>
    match mkHalf vers cipher seq false, bs.toNat?, ps.toNat?, typ.toNat?, parseBytes data, parseBytes rand with
    | some (hc, _), some bs, some ps, some typ, some d, some r =>
      let c : Conn St := { vers := hc.version, haveVers := true, handshakeComplete := true,
                           dynamicRecordSizingDisabled := dyn == "1", buffering := buf == "1", bytesSent := bs,
                           packetsSent := ps, retryCount := 0, hc := hc, hand := [] }
      match writeRecordLocked c (UInt8.ofNat typ) d r with
      | .ok w =>
        let wire := w.records.flatten
        let lens := w.records.map (fun rec => toString (rec.length - 5))
        "ok " ++ toString w.n ++ " " ++ (if lens.isEmpty then "-" else ",".intercalate lens) ++ " " ++
          toString wire.length ++ " " ++ toString (cksum wire).toNat ++ " " ++
          (if wire.length ≤ 1024 then toHex wire else "*") ++ " " ++
          toString w.conn.bytesSent ++ " " ++ toString w.conn.packetsSent ++ " " ++ toHex w.conn.hc.seq
      | .err => "err"
      | .panic => "panic"
    | _, _, _, _, _, _ => "bad-arg"
  | ["read", vers, hv, hsc, cipher, seq, wire] =>
    match mkHalf vers cipher seq true, parseBytes wire with
    | some (hc, _), some w =>
      let c : Conn St := { vers := hc.version, haveVers := hv == "1", handshakeComplete := hsc == "1",
                           dynamicRecordSizingDisabled := false, buffering := false, bytesSent := 0,
                           packetsSent := 0, retryCount := 0, hc := hc, hand := [] }
      match readRecord c w with
      | .data input c' _ => "data " ++ toHex input ++ " " ++ toHex c'.hc.seq
      | .hand c' _ => "hand " ++ toHex c'.hand ++ " " ++ toHex c'.hc.seq
      | .err rc => "err " ++ toString rc
      | .panic => "panic"
    | _, _ => "bad-arg"
  | "readx" :: vers :: hv :: hsc :: cipher :: seq :: next :: hand :: _eofLast :: calls :: chunks :: _ =>
    match mkHalf vers cipher seq true, parseNext next true, parseBytes hand, (chunks.splitOn ",").mapM parseBytes with
    | some (hc, _), some nx, some hd, some cs =>
      let c : Conn St := { vers := hc.version, haveVers := hv == "1", handshakeComplete := hsc == "1",
                           dynamicRecordSizingDisabled := false, buffering := false, bytesSent := 0,
                           packetsSent := 0, retryCount := 0, hc := hc, hand := hd }
      let s : RState St := { core := { c := c, next := nx, inErr := none, input := [] }, raw := [], chunks := cs }
      match runCalls calls.toList s [] none with
      | (toks, s', al) =>
        if toks.contains "panic" then "panic" else
        " ".intercalate toks ++ " seq=" ++ toHex s'.core.c.hc.seq ++ " rc=" ++ toString s'.core.c.retryCount ++
          " raw=" ++ toString s'.raw.length ++ " alert=" ++ (match al with | some a => toString a | none => "-")
    | _, _, _, _ => "bad-arg"
  | ["writex", vers, cipher, seq, next, beast, dyn, ops, rand] =>
    match mkHalf vers cipher seq false, parseNext next false, parseBytes rand with
    | some (hc, _), some nx, some r =>
      let c : Conn St := { vers := hc.version, haveVers := true, handshakeComplete := true,
                           dynamicRecordSizingDisabled := dyn == "1", buffering := false, bytesSent := 0,
                           packetsSent := 0, retryCount := 0, hc := hc, hand := [] }
      match runWOps (beast == "1") (ops.splitOn ",") ⟨c, nx, r, false, []⟩ [] with
      | some (toks, w) =>
        " ".intercalate toks ++ " wire=" ++ toString w.wire.length ++ " " ++ toString (cksum w.wire).toNat ++ " " ++
          (if w.wire.length ≤ 1024 then toHex w.wire else "*") ++ " seq=" ++ toHex w.c.hc.seq ++
          " next=" ++ (match w.next with | some _ => "1" | none => "0") ++ " sent=" ++ toString w.c.bytesSent ++
          " pkts=" ++ toString w.c.packetsSent
      | none => "bad-arg"
    | _, _, _ => "bad-arg"
  | _ => "bad-op"

end ZV.C25
