import ZV.Model.C27
/-! `c27 hs <ver> <suite> <key> <kex> <server scenario> <skip 0/1> <mode 0..4> <client scenario> <i>` → `c=<ok|fail> s=<ok|fail>` -/
namespace ZV.C27

def parseKex (s : String) : Option Kex :=
  if s == "rsa" then some .rsa else if s == "ecdhe" then some .ecdhe else if s == "dhe" then some .dhe
  else if s == "tls13" then some .tls13 else none

def serverScen (s : String) : Option ServerCred :=
  if s == "trusted" then some ⟨true, true, true⟩
  else if s == "untrusted" || s == "expired" || s == "wrongname" then some ⟨false, true, true⟩
  else if s == "wrongkey" then some ⟨true, false, true⟩
  else if s == "corruptsig" then some ⟨true, true, false⟩
  else none

def clientScen (s : String) : Option ClientOffer :=
  if s == "none" then some ⟨false, false, false⟩
  else if s == "trusted" then some ⟨true, true, true⟩
  else if s == "untrusted" || s == "expired" then some ⟨true, false, true⟩
  else if s == "wrongkey" || s == "corruptcv" then some ⟨true, true, false⟩
  else none

def parseMode (s : String) : Option Mode :=
  if s == "0" then some .noClientCert else if s == "1" then some .request else if s == "2" then some .requireAny
  else if s == "3" then some .verifyIfGiven else if s == "4" then some .requireAndVerify else none

def okStr (b : Bool) : String := if b then "ok" else "fail"

def handle (args : List String) : String :=
  match args with
  | ["hs", _ver, _suite, _key, kex, ss, skip, mode, cs, _i] =>
    match parseKex kex, serverScen ss, parseMode mode, clientScen cs with
    | some k, some sc, some m, some co =>
      let ca := clientAccepts (skip == "1") k sc
      let sa := serverAccepts m co
      let o := outcome (k == .tls13) ca sa
      s!"c={okStr o.1} s={okStr o.2}"
    | _, _, _, _ => "bad-op"
  | _ => "bad-op"

end ZV.C27
