import ZV.Model.C27
/-! `c27 hs <ver> <suite> <key> <kex> <server scenario> <skip 0/1> <mode 0..4> <client scenario> <i>` → `c=<ok|fail> s=<ok|fail>`
`c27 name <ver> <ServerName form> <certificate kind> <skip 0/1> <i>` → `c=… s=…`
`c27 res <ver> <server cert> <first client cfg> <second client cfg> <cache k|1> <i>` → `c1=… s1=… c2=… s2=… r2=<1|0|->`
`c27 sres <ver> <client cert> <first server cfg> <second server cfg> <i>` → same
`c27 hk <ver> <suite> <key> <kex> <server scenario> <skip> <mode> <client scenario> <hooks> <ClientCAs R|N|E> <i>` → `c=… s=… cb=<client callbacks run>`
`c27 res … <cache> <hooks> <i>` / `c27 sres … <second server cfg> <hooks> <i>`: the same two-connection scenarios with PERMISSIVE hooks installed → same output
(descriptors: see go/props/c27/names.go, resume.go and hooks.go).  The tables below are the scenario → abstract fact mapping (trusted). -/
namespace ZV.C27

def parseKex (s : String) : Option Kex :=
  if s == "rsa" then some .rsa else if s == "ecdhe" then some .ecdhe else if s == "dhe" then some .dhe
  else if s == "tls13" then some .tls13 else none

def serverScen (s : String) : Option ServerCred :=
  if s == "trusted" then some ⟨true, true, true⟩
  else if s == "untrusted" || s == "expired" || s == "wrongname" then some ⟨false, true, true⟩
  else if s == "wrongkey" then some ⟨true, false, true⟩
  else if s == "corruptsig" then some ⟨true, true, false⟩
  else none

def clientScen (s : String) : Option ClientOffer :=
  if s == "none" then some ⟨false, false, false⟩
  else if s == "trusted" then some ⟨true, true, true⟩
  else if s == "untrusted" || s == "expired" then some ⟨true, false, true⟩
  else if s == "wrongkey" || s == "corruptcv" then some ⟨true, true, false⟩
  else none

def parseMode (s : String) : Option Mode :=
  if s == "0" then some .noClientCert else if s == "1" then some .request else if s == "2" then some .requireAny
  else if s == "3" then some .verifyIfGiven else if s == "4" then some .requireAndVerify else none

def okStr (b : Bool) : String := if b then "ok" else "fail"

/-- which identity a `Config.ServerName` spelling denotes for `VerifyHostname` as coded: an IP literal (optionally in
    brackets) is compared with the IP SANs only; anything `net.ParseIP` refuses (zone, trailing dot) is a DNS name,
    compared case-insensitively with the DNS SANs after dropping ONE trailing dot. -/
inductive Ident | host | sub | ip4 | ip6 | ll | nothing
  deriving DecidableEq

def formIdent (s : String) : Option Ident :=
  if s == "dns" || s == "dnsupper" || s == "dnsdot" then some .host
  else if s == "dnssub" then some .sub
  else if s == "ip4" || s == "ip4br" || s == "ip4mapped" then some .ip4
  else if s == "ip6" || s == "ip6long" || s == "ip6br" then some .ip6
  else if s == "ip6ll" then some .ll
  else if s == "dnsdot2" || s == "dnsother" || s == "ip4dot" || s == "ip4other" || s == "ip6zone" || s == "ip6brzone"
       || s == "ip6other" || s == "ip6brother" || s == "empty" then some .nothing
  else none

/-- what each certificate kind lists -/
def certLists (kind : String) (i : Ident) : Option Bool :=
  if kind == "dns" then some (i == .host)
  else if kind == "ips" then some (i == .ip4 || i == .ip6 || i == .ll)
  else if kind == "all" then some (i == .host || i == .ip4 || i == .ip6 || i == .ll)
  else if kind == "other" then some false
  else if kind == "wild" then some (i == .sub)
  else none

def verKex (ver : String) : Kex := if ver == "13" then .tls13 else .ecdhe

/-- server certificate `<issuer><names><life>` seen from client configuration `<skip><roots><name><clock>` -/
def chainFacts (srv cfg : List Char) : Option ChainFacts :=
  match srv, cfg with
  | [iss, names, life], [_, roots, name, clock] =>
    some ⟨roots == 'C' || roots == iss, clock == 'N' || life == 'L', names == 'b' || names == name⟩
  | _, _ => none

def rStr (completed resumed : Bool) : String := if !completed then "-" else if resumed then "1" else "0"

/-- two client connections through one session cache (see resume.go) -/
def handleRes (ver srv a b cache : String) : String :=
  match chainFacts srv.toList a.toList, chainFacts srv.toList b.toList, a.toList, b.toList with
  | some f1, some f2, [skip1, _, name1, _], [skip2, _, name2, _] =>
    let kex := verKex ver
    let ca1 := clientAccepts (skip1 == '1') kex ⟨f1.chainOK, true, true⟩
    let o1 := outcome (ver == "13") ca1 true
    let cached : Option Session := if ca1 && (cache == "1" || name1 == name2) then some (sessionOf f1) else none
    let ca2 := clientAcceptsWithCache (skip2 == '1') kex cached f2 ⟨f2.chainOK, true, true⟩
    let o2 := outcome (ver == "13") ca2 true
    let resumed := match cached with
      | some s => sessionUsable (skip2 == '1') s f2.fresh f2.named
      | none => false
    s!"c1={okStr o1.1} s1={okStr o1.2} c2={okStr o2.1} s2={okStr o2.2} r2={rStr (o2.1 && o2.2) resumed}"
  | _, _, _, _ => "bad-op"

/-- two connections to servers sharing a ticket key (see resume.go) -/
def handleSRes (ver cli a b : String) : String :=
  match a.toList, b.toList with
  | [m1, cas1, clock1], [m2, cas2, clock2] =>
    match parseMode (String.singleton m1), parseMode (String.singleton m2) with
    | some m1, some m2 =>
      let hasCert := cli != "none"
      let chainOK (cas clock : Char) : Bool :=
        match cli.toList with
        | [iss, life] => hasCert && (cas == 'C' || cas == iss) && (clock == 'N' || life == 'L')
        | _ => false
      let tls13 := ver == "13"
      let sa1 := serverAccepts m1 ⟨hasCert, chainOK cas1 clock1, true⟩
      let o1 := outcome tls13 true sa1
      let sess : Option Bool := if sa1 then some (hasCert && decide (m1.toNat ≥ 1)) else none
      let tryResume := match sess with
        | some h => serverResumes m2 h
        | none => false
      let sa2 := serverAcceptsWithTicket m2 sess (chainOK cas2 clock2) ⟨hasCert, chainOK cas2 clock2, true⟩
      let o2 := if tryResume then (sa2, sa2) else outcome tls13 true sa2
      s!"c1={okStr o1.1} s1={okStr o1.2} c2={okStr o2.1} s2={okStr o2.2} r2={rStr (o2.1 && o2.2) tryResume}"
    | _, _ => "bad-op"
  | _, _ => "bad-op"

/-- The hooks descriptor of hooks.go: `-` or a set of letters.
    client: `p`/`q` VerifyPeerCertificate returning nil / an error, `c`/`d` VerifyConnection returning nil / an error,
            `s` the client certificate sits in `Config.Certificates` (default selection) instead of `GetClientCertificate`;
    server: `P`/`Q`, `C`/`D` likewise, `G` GetCertificate returning the configured certificate, `F` GetConfigForClient
            returning the real configuration (the listener's own is a lax shell), `f` GetConfigForClient returning nil.
    The structural hooks are parsed and have no influence on any decision. -/
structure HookSet where
  cvpc : Hook
  cvc : Hook
  svpc : Hook
  svc : Hook
  staticCert : Bool
  getCert : Bool
  cfgForClient : Bool

def HookSet.none : HookSet := ⟨.absent, .absent, .absent, .absent, false, false, false⟩

def addHook (h : HookSet) (ch : Char) : Option HookSet :=
  if ch == 'p' then (if h.cvpc == .absent then some { h with cvpc := .permit } else none)
  else if ch == 'q' then (if h.cvpc == .absent then some { h with cvpc := .reject } else none)
  else if ch == 'c' then (if h.cvc == .absent then some { h with cvc := .permit } else none)
  else if ch == 'd' then (if h.cvc == .absent then some { h with cvc := .reject } else none)
  else if ch == 'P' then (if h.svpc == .absent then some { h with svpc := .permit } else none)
  else if ch == 'Q' then (if h.svpc == .absent then some { h with svpc := .reject } else none)
  else if ch == 'C' then (if h.svc == .absent then some { h with svc := .permit } else none)
  else if ch == 'D' then (if h.svc == .absent then some { h with svc := .reject } else none)
  else if ch == 's' then (if !h.staticCert then some { h with staticCert := true } else none)
  else if ch == 'G' then (if !h.getCert then some { h with getCert := true } else none)
  else if ch == 'F' || ch == 'f' then (if !h.cfgForClient then some { h with cfgForClient := true } else none)
  else none

def parseHookChars : List Char → HookSet → Option HookSet
  | [], h => some h
  | ch :: rest, h =>
    match addHook h ch with
    | some h' => parseHookChars rest h'
    | none => none

def parseHooks (s : String) : Option HookSet :=
  if s == "-" then some HookSet.none
  else if s.isEmpty then none
  else parseHookChars s.toList HookSet.none

/-- every installed callback returns nil and the client certificate is supplied as in the plain scenarios -/
def HookSet.permissive (h : HookSet) : Bool :=
  h.cvpc.allows && h.cvc.allows && h.svpc.allows && h.svc.allows && !h.staticCert

/-- `ClientCAs`: `R` the pool holding the issuer of the trusted client certificates, `N` nil (the host's roots), `E` an
    empty pool: with `N` / `E` no client certificate of the scenarios chains to a trusted root -/
def parseCas (s : String) : Option Bool :=
  if s == "R" then some true else if s == "N" || s == "E" then some false else none

def runFlag (name : String) (h : Hook) (ran : Bool) : String :=
  if h.installed then name ++ (if ran then "1" else "0") else ""

def cbStr (h : HookSet) (skip : Bool) (c : ServerCred) : String :=
  let s := runFlag "p" h.cvpc (clientVpcRuns h.cvpc skip c) ++ runFlag "c" h.cvc (clientVcRuns h.cvpc h.cvc skip c)
  if s.isEmpty then "-" else s

def handle (args : List String) : String :=
  match args with
  | ["name", ver, form, kind, skip, _i] =>
    match formIdent form with
    | some id =>
      match certLists kind id with
      | some listed =>
        let ca := clientAccepts (skip == "1") (verKex ver) ⟨listed, true, true⟩
        let o := outcome (ver == "13") ca true
        s!"c={okStr o.1} s={okStr o.2}"
      | none => "bad-op"
    | none => "bad-op"
  | ["res", ver, srv, a, b, cache, _i] => handleRes ver srv a b cache
  | ["res", ver, srv, a, b, cache, hooks, _i] =>
    match parseHooks hooks with
    | some h => if h.permissive then handleRes ver srv a b cache else "bad-op"
    | none => "bad-op"
  | ["sres", ver, cli, a, b, _i] => handleSRes ver cli a b
  | ["sres", ver, cli, a, b, hooks, _i] =>
    match parseHooks hooks with
    | some h => if h.permissive then handleSRes ver cli a b else "bad-op"
    | none => "bad-op"
  | ["hk", _ver, _suite, _key, kex, ss, skip, mode, cs, hooks, cas, _i] =>
    match parseKex kex, serverScen ss, parseMode mode, clientScen cs, parseHooks hooks, parseCas cas with
    | some k, some sc, some m, some co, some h, some casOK =>
      -- default selection from `Config.Certificates` withholds a certificate whose issuer the CertificateRequest's CA
      -- list (the subjects of a non-empty ClientCAs) does not name
      let withheld := h.staticCert && cs == "untrusted" && casOK
      let co' : ClientOffer := if withheld then ⟨false, false, false⟩ else ⟨co.hasCert, co.chainOK && casOK, co.cvValid⟩
      let sk := skip == "1"
      let ca := clientAcceptsH h.cvpc h.cvc sk k sc
      let sa := serverAcceptsH h.svpc h.svc m co'
      let o := outcome (k == .tls13) ca sa
      s!"c={okStr o.1} s={okStr o.2} cb={cbStr h sk sc}"
    | _, _, _, _, _, _ => "bad-op"
  | ["hs", _ver, _suite, _key, kex, ss, skip, mode, cs, _i] =>
    match parseKex kex, serverScen ss, parseMode mode, clientScen cs with
    | some k, some sc, some m, some co =>
      let ca := clientAccepts (skip == "1") k sc
      let sa := serverAccepts m co
      let o := outcome (k == .tls13) ca sa
      s!"c={okStr o.1} s={okStr o.2}"
    | _, _, _, _ => "bad-op"
  | _ => "bad-op"

end ZV.C27
