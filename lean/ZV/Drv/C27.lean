import ZV.Model.C27
import ZV.Model.C27Sel
/-! `c27 hs <ver> <suite> <key> <kex> <server scenario> <skip 0/1> <mode 0..4> <client scenario> <i>` → `c=<ok|fail> s=<ok|fail>`
`c27 name <ver> <ServerName form> <certificate kind> <skip 0/1> <i>` → `c=… s=…`
`c27 res <ver> <server cert> <first client cfg> <second client cfg> <cache k|1> <i>` → `c1=… s1=… c2=… s2=… r2=<1|0|->`
`c27 sres <ver> <client cert> <first server cfg> <second server cfg> <i>` → same
`c27 hk <ver> <suite> <key> <kex> <server scenario> <skip> <mode> <client scenario> <hooks> <ClientCAs R|N|E> <i>` → `c=… s=… cb=<client callbacks run>`
`c27 res … <cache> <hooks> <i>` / `c27 sres … <second server cfg> <hooks> <i>`: the same two-connection scenarios with PERMISSIVE hooks installed → same output
(descriptors: see go/props/c27/names.go, resume.go and hooks.go).  The tables below are the scenario → abstract fact mapping (trusted). -/
namespace ZV.C27

def parseKex (s : String) : Option Kex :=
  if s == "rsa" then some .rsa else if s == "ecdhe" then some .ecdhe else if s == "dhe" then some .dhe
  else if s == "tls13" then some .tls13 else none

def serverScen (s : String) : Option ServerCred :=
  if s == "trusted" then some ⟨true, true, true⟩
  else if s == "untrusted" || s == "expired" || s == "wrongname" then some ⟨false, true, true⟩
  else if s == "wrongkey" then some ⟨true, false, true⟩
  else if s == "corruptsig" then some ⟨true, true, false⟩
  else none

def clientScen (s : String) : Option ClientOffer :=
  if s == "none" then some ⟨false, false, false⟩
  else if s == "trusted" then some ⟨true, true, true⟩
  else if s == "untrusted" || s == "expired" then some ⟨true, false, true⟩
  else if s == "wrongkey" || s == "corruptcv" then some ⟨true, true, false⟩
  else none

def parseMode (s : String) : Option Mode :=
  if s == "0" then some .noClientCert else if s == "1" then some .request else if s == "2" then some .requireAny
  else if s == "3" then some .verifyIfGiven else if s == "4" then some .requireAndVerify else none

def okStr (b : Bool) : String := if b then "ok" else "fail"

/-- which identity a `Config.ServerName` spelling denotes for `VerifyHostname` as coded: an IP literal (optionally in
    brackets) is compared with the IP SANs only; anything `net.ParseIP` refuses (zone, trailing dot) is a DNS name,
    compared case-insensitively with the DNS SANs after dropping ONE trailing dot. -/
inductive Ident | host | sub | ip4 | ip6 | ll | nothing
  deriving DecidableEq

def formIdent (s : String) : Option Ident :=
  if s == "dns" || s == "dnsupper" || s == "dnsdot" then some .host
  else if s == "dnssub" then some .sub
  else if s == "ip4" || s == "ip4br" || s == "ip4mapped" then some .ip4
  else if s == "ip6" || s == "ip6long" || s == "ip6br" then some .ip6
  else if s == "ip6ll" then some .ll
  else if s == "dnsdot2" || s == "dnsother" || s == "ip4dot" || s == "ip4other" || s == "ip6zone" || s == "ip6brzone"
       || s == "ip6other" || s == "ip6brother" || s == "empty" then some .nothing
  else none

/-- what each certificate kind lists -/
def certLists (kind : String) (i : Ident) : Option Bool :=
  if kind == "dns" then some (i == .host)
  else if kind == "ips" then some (i == .ip4 || i == .ip6 || i == .ll)
  else if kind == "all" then some (i == .host || i == .ip4 || i == .ip6 || i == .ll)
  else if kind == "other" then some false
  else if kind == "wild" then some (i == .sub)
  else none

def verKex (ver : String) : Kex := if ver == "13" then .tls13 else .ecdhe

/-- server certificate `<issuer><names><life>` seen from client configuration `<skip><roots><name><clock>` -/
def chainFacts (srv cfg : List Char) : Option ChainFacts :=
  match srv, cfg with
  | [iss, names, life], [_, roots, name, clock] =>
    some ⟨roots == 'C' || roots == iss, clock == 'N' || life == 'L', names == 'b' || names == name⟩
  | _, _ => none

def rStr (completed resumed : Bool) : String := if !completed then "-" else if resumed then "1" else "0"

/-- two client connections through one session cache (see resume.go) -/
def handleRes (ver srv a b cache : String) : String :=
  match chainFacts srv.toList a.toList, chainFacts srv.toList b.toList, a.toList, b.toList with
  | some f1, some f2, [skip1, _, name1, _], [skip2, _, name2, _] =>
    let kex := verKex ver
    let ca1 := clientAccepts (skip1 == '1') kex ⟨f1.chainOK, true, true⟩
    let o1 := outcome (ver == "13") ca1 true
    let cached : Option Session := if ca1 && (cache == "1" || name1 == name2) then some (sessionOf f1) else none
    let ca2 := clientAcceptsWithCache (skip2 == '1') kex cached f2 ⟨f2.chainOK, true, true⟩
    let o2 := outcome (ver == "13") ca2 true
    let resumed := match cached with
      | some s => sessionUsable (skip2 == '1') s f2.fresh f2.named
      | none => false
    s!"c1={okStr o1.1} s1={okStr o1.2} c2={okStr o2.1} s2={okStr o2.2} r2={rStr (o2.1 && o2.2) resumed}"
  | _, _, _, _ => "bad-op"

/-- two connections to servers sharing a ticket key (see resume.go) -/
def handleSRes (ver cli a b : String) : String :=
  match a.toList, b.toList with
  | [m1, cas1, clock1], [m2, cas2, clock2] =>
    match parseMode (String.singleton m1), parseMode (String.singleton m2) with
    | some m1, some m2 =>
      let hasCert := cli != "none"
      let chainOK (cas clock : Char) : Bool :=
        match cli.toList with
        | [iss, life] => hasCert && (cas == 'C' || cas == iss) && (clock == 'N' || life == 'L')
        | _ => false
      let tls13 := ver == "13"
      let sa1 := serverAccepts m1 ⟨hasCert, chainOK cas1 clock1, true⟩
      let o1 := outcome tls13 true sa1
      let sess : Option Bool := if sa1 then some (hasCert && decide (m1.toNat ≥ 1)) else none
      let tryResume := match sess with
        | some h => serverResumes m2 h
        | none => false
      let sa2 := serverAcceptsWithTicket m2 sess (chainOK cas2 clock2) ⟨hasCert, chainOK cas2 clock2, true⟩
      let o2 := if tryResume then (sa2, sa2) else outcome tls13 true sa2
      s!"c1={okStr o1.1} s1={okStr o1.2} c2={okStr o2.1} s2={okStr o2.2} r2={rStr (o2.1 && o2.2) tryResume}"
    | _, _ => "bad-op"
  | _, _ => "bad-op"

/-- The hooks descriptor of hooks.go: `-` or a set of letters.
    client: `p`/`q` VerifyPeerCertificate returning nil / an error, `c`/`d` VerifyConnection returning nil / an error,
            `s` the client certificate sits in `Config.Certificates` (default selection) instead of `GetClientCertificate`;
    server: `P`/`Q`, `C`/`D` likewise, `G` GetCertificate returning the configured certificate, `F` GetConfigForClient
            returning the real configuration (the listener's own is a lax shell), `f` GetConfigForClient returning nil.
    The structural hooks are parsed and have no influence on any decision. -/
structure HookSet where
  cvpc : Hook
  cvc : Hook
  svpc : Hook
  svc : Hook
  staticCert : Bool
  getCert : Bool
  cfgForClient : Bool

def HookSet.none : HookSet := ⟨.absent, .absent, .absent, .absent, false, false, false⟩

def addHook (h : HookSet) (ch : Char) : Option HookSet :=
  if ch == 'p' then (if h.cvpc == .absent then some { h with cvpc := .permit } else none)
  else if ch == 'q' then (if h.cvpc == .absent then some { h with cvpc := .reject } else none)
  else if ch == 'c' then (if h.cvc == .absent then some { h with cvc := .permit } else none)
  else if ch == 'd' then (if h.cvc == .absent then some { h with cvc := .reject } else none)
  else if ch == 'P' then (if h.svpc == .absent then some { h with svpc := .permit } else none)
  else if ch == 'Q' then (if h.svpc == .absent then some { h with svpc := .reject } else none)
  else if ch == 'C' then (if h.svc == .absent then some { h with svc := .permit } else none)
  else if ch == 'D' then (if h.svc == .absent then some { h with svc := .reject } else none)
  else if ch == 's' then (if !h.staticCert then some { h with staticCert := true } else none)
  else if ch == 'G' then (if !h.getCert then some { h with getCert := true } else none)
  else if ch == 'F' || ch == 'f' then (if !h.cfgForClient then some { h with cfgForClient := true } else none)
  else none

def parseHookChars : List Char → HookSet → Option HookSet
  | [], h => some h
  | ch :: rest, h =>
    match addHook h ch with
    | some h' => parseHookChars rest h'
    | none => none

def parseHooks (s : String) : Option HookSet :=
  if s == "-" then some HookSet.none
  else if s.isEmpty then none
  else parseHookChars s.toList HookSet.none

/-- every installed callback returns nil and the client certificate is supplied as in the plain scenarios -/
def HookSet.permissive (h : HookSet) : Bool :=
  h.cvpc.allows && h.cvc.allows && h.svpc.allows && h.svc.allows && !h.staticCert

/-- `ClientCAs`: `R` the pool holding the issuer of the trusted client certificates, `N` nil (the host's roots), `E` an
    empty pool: with `N` / `E` no client certificate of the scenarios chains to a trusted root -/
def parseCas (s : String) : Option Bool :=
  if s == "R" then some true else if s == "N" || s == "E" then some false else none

def runFlag (name : String) (h : Hook) (ran : Bool) : String :=
  if h.installed then name ++ (if ran then "1" else "0") else ""

def cbStr (h : HookSet) (skip : Bool) (c : ServerCred) : String :=
  let s := runFlag "p" h.cvpc (clientVpcRuns h.cvpc skip c) ++ runFlag "c" h.cvc (clientVcRuns h.cvpc h.cvc skip c)
  if s.isEmpty then "-" else s

/-! ## selection / policy ops (Model/C27Sel.lean)

`c27 sel <hook a|n|c|e> <nil|build|map:k=i,…> <certs cn:san+san/… | -> <supports bits | -> <ServerName | -> <i>` → `hook|err|nocerts|cert=<i>` (+ ` map=…` for `build`)
`c27 ssfc <vers> <key> <ssa>` → `s=<schemes>`;  `c27 sss <vers> <key> <ssa> <peer algs>` → `ok=<scheme>|err`
`c27 cri <certificate types> <hasSignatureAlgorithm 0/1> <algs>` → `s=<schemes>`
`c27 gcc <vers> <schemes> <acceptable CAs> <key;ssa;issuers/…>` → `cert=<i>|none`
`c27 pol <ClientAuthType> <kind> <callback 0|1|2> <i>` → `ok|alert=<n> peers=<n> chains=<0|1> vpc=<0|1>` -/

def splitOnChar (c : Char) (s : List Char) : List (List Char) :=
  match s with
  | [] => [[]]
  | x :: rest =>
    match splitOnChar c rest with
    | [] => [[]]
    | cur :: more => if x = c then [] :: cur :: more else (x :: cur) :: more

def u16sOfBytes : Bytes → Option (List Nat)
  | [] => some []
  | [_] => none
  | a :: b :: rest =>
    match u16sOfBytes rest with
    | some r => some ((a.toNat * 256 + b.toNat) :: r)
    | none => none

def parseU16s (s : String) : Option (List Nat) :=
  match ofHex s with
  | some bs => u16sOfBytes bs
  | none => none

def hex16 (n : Nat) : String :=
  String.ofList [hexDigit (n / 4096 % 16), hexDigit (n / 256 % 16), hexDigit (n / 16 % 16), hexDigit (n % 16)]

def showU16s (l : List Nat) : String := if l.isEmpty then "-" else String.join (l.map hex16)

def parseKey (s : String) : Option Key :=
  match s.toList with
  | ['d'] => some .ed25519
  | ['n'] => some .notSigner
  | ['o'] => some .otherSigner
  | 'r' :: rest => (String.ofList rest).toNat?.map Key.rsa
  | 'e' :: rest => (String.ofList rest).toNat?.map Key.ecdsa
  | _ => none

def parseSsa (s : String) : Option (Option (List Nat)) :=
  if s == "-" then some none else if s == "e" then some (some []) else (parseU16s s).map some

def digitVal (c : Char) : Option Nat := if '0' ≤ c ∧ c ≤ '9' then some (c.toNat - 48) else none

def parseCaIds : List Char → Option (List Nat)
  | [] => some []
  | c :: rest =>
    match digitVal c, parseCaIds rest with
    | some d, some r => some (d :: r)
    | _, _ => none

def parseIssuers : List Char → Option (List (Option Nat))
  | [] => some []
  | c :: rest =>
    match parseIssuers rest with
    | none => none
    | some r => if c = 'x' then some (none :: r) else
      match digitVal c with
      | some d => some (some d :: r)
      | none => none

def dashEmpty (s : String) : List Char := if s == "-" then [] else s.toList

def parseClientCert (s : List Char) : Option ClientCert :=
  match splitOnChar ';' s with
  | [k, ssa, iss] =>
    match parseKey (String.ofList k), parseSsa (String.ofList ssa), parseIssuers (dashEmpty (String.ofList iss)) with
    | some k, some ssa, some iss => some ⟨k, ssa, iss⟩
    | _, _, _ => none
  | _ => none

def parseAll {α} (f : List Char → Option α) : List (List Char) → Option (List α)
  | [] => some []
  | x :: rest =>
    match f x, parseAll f rest with
    | some a, some r => some (a :: r)
    | _, _ => none

/-- `cn:san+san`, a leading `!` = the leaf does not parse -/
def parseLeafNames (s : List Char) : Option LeafNames :=
  let (parses, body) := match s with
    | '!' :: rest => (false, rest)
    | _ => (true, s)
  match splitOnChar ':' body with
  | [cn, sans] => some ⟨parses, cn, if sans.isEmpty then [] else splitOnChar '+' sans⟩
  | _ => none

def parseMapEntry (s : List Char) : Option (List Char × Nat) :=
  match splitOnChar '=' s with
  | [k, v] => (String.ofList v).toNat?.map (fun i => (k, i))
  | _ => none

def parseBits : List Char → Option (List Bool)
  | [] => some []
  | c :: rest =>
    match parseBits rest with
    | none => none
    | some r => if c = '1' then some (true :: r) else if c = '0' then some (false :: r) else none

def insertSorted (e : String × Nat) : List (String × Nat) → List (String × Nat)
  | [] => [e]
  | x :: rest => if e.1 < x.1 then e :: x :: rest else x :: insertSorted e rest

def showMap (m : NameMap) : String :=
  let sorted := (m.map (fun (k, v) => (String.ofList k, v))).foldr insertSorted []
  if sorted.isEmpty then "-" else ",".intercalate (sorted.map (fun (k, v) => k ++ ">" ++ toString v))

def showSel : SelRes → String
  | .hookCert => "hook"
  | .hookErr => "err"
  | .noCerts => "nocerts"
  | .cert i => s!"cert={i}"

def parseGetCertHook (s : String) : Option GetCertHook :=
  if s == "a" then some .absent else if s == "n" then some .retNil else if s == "c" then some .retCert
  else if s == "e" then some .retErr else none

def handleSel (hook n2c certs bits name : String) : String :=
  match parseGetCertHook hook, parseAll parseLeafNames (if certs == "-" then [] else splitOnChar '/' certs.toList),
        parseBits (dashEmpty bits) with
  | some h, some leaves, some sup =>
    if sup.length ≠ leaves.length then "bad-op" else
    let sn := dashEmpty name
    if n2c == "nil" then showSel (getCertificate h leaves.length none sup sn)
    else if n2c == "build" then
      let m := buildNameToCertificate leaves
      showSel (getCertificate h leaves.length (some m) sup sn) ++ " map=" ++ showMap m
    else
      match n2c.toList with
      | 'm' :: 'a' :: 'p' :: ':' :: rest =>
        match parseAll parseMapEntry (if rest.isEmpty then [] else splitOnChar ',' rest) with
        | some entries =>
          let m : NameMap := entries.foldl (fun m e => m.insert e.1 e.2) []
          showSel (getCertificate h leaves.length (some m) sup sn)
        | none => "bad-op"
      | _ => "bad-op"
  | _, _, _ => "bad-op"

/-- certificate kind of selpki → what `processCertsFromClient` sees (trusted mapping; `verifies` is x509's verdict) -/
def presentedOf (kind : String) : Option Presented :=
  match ["none", "valid", "untrusted", "expired", "ekuserver", "ekunone", "ekuany", "garbage", "validextra", "validgarbage"].idxOf? kind with
  | some k => presentedOfKind k
  | none => none

def parseVpc (s : String) : Option Hook :=
  if s == "0" then some .absent else if s == "1" then some .permit else if s == "2" then some .reject else none

def showPolicy (r : PolicyRes) : String :=
  (match r.alert with
   | some a => s!"alert={a}"
   | none => "ok") ++ s!" peers={r.peers} chains={if r.chains then 1 else 0} vpc={if r.vpcRan then 1 else 0}"

def handleSelOps (args : List String) : Option String :=
  match args with
  | ["sel", hook, n2c, certs, bits, name, _i] => some (handleSel hook n2c certs bits name)
  | ["ssfc", vers, key, ssa] =>
    match vers.toNat?, parseKey key, parseSsa ssa with
    | some v, some k, some s => some ("s=" ++ showU16s (signatureSchemesForCertificate v ⟨k, s, []⟩))
    | _, _, _ => some "bad-op"
  | ["sss", vers, key, ssa, peer] =>
    match vers.toNat?, parseKey key, parseSsa ssa, parseU16s peer with
    | some v, some k, some s, some p =>
      match selectSignatureScheme v ⟨k, s, []⟩ p with
      | some a => some ("ok=" ++ hex16 a)
      | none => some "err"
    | _, _, _, _ => some "bad-op"
  | ["cri", types, has, algs] =>
    match ofHex types, parseU16s algs with
    | some t, some a => some ("s=" ++ showU16s (criSchemes (t.map UInt8.toNat) (has == "1") a))
    | _, _ => some "bad-op"
  | ["gcc", vers, schemes, cas, certs] =>
    match vers.toNat?, parseU16s schemes, parseCaIds (dashEmpty cas),
          parseAll parseClientCert (if certs == "-" then [] else splitOnChar '/' certs.toList) with
    | some v, some s, some c, some cs =>
      match getClientCertificate v s c cs with
      | some i => some s!"cert={i}"
      | none => some "none"
    | _, _, _, _ => some "bad-op"
  | ["pol", mode, kind, vpc, _i] =>
    match mode.toNat?, presentedOf kind, parseVpc vpc with
    | some m, some p, some h => some (showPolicy (processCerts m p h))
    | _, _, _ => some "bad-op"
  | _ => none

def handle (args : List String) : String :=
  match handleSelOps args with
  | some r => r
  | none =>
  match args with
  | ["name", ver, form, kind, skip, _i] =>
    match formIdent form with
    | some id =>
      match certLists kind id with
      | some listed =>
        let ca := clientAccepts (skip == "1") (verKex ver) ⟨listed, true, true⟩
        let o := outcome (ver == "13") ca true
        s!"c={okStr o.1} s={okStr o.2}"
      | none => "bad-op"
    | none => "bad-op"
  | ["res", ver, srv, a, b, cache, _i] => handleRes ver srv a b cache
  | ["res", ver, srv, a, b, cache, hooks, _i] =>
    match parseHooks hooks with
    | some h => if h.permissive then handleRes ver srv a b cache else "bad-op"
    | none => "bad-op"
  | ["sres", ver, cli, a, b, _i] => handleSRes ver cli a b
  | ["sres", ver, cli, a, b, hooks, _i] =>
    match parseHooks hooks with
    | some h => if h.permissive then handleSRes ver cli a b else "bad-op"
    | none => "bad-op"
  | ["hk", _ver, _suite, _key, kex, ss, skip, mode, cs, hooks, cas, _i] =>
    match parseKex kex, serverScen ss, parseMode mode, clientScen cs, parseHooks hooks, parseCas cas with
    | some k, some sc, some m, some co, some h, some casOK =>
      -- default selection from `Config.Certificates` withholds a certificate whose issuer the CertificateRequest's CA
      -- list (the subjects of a non-empty ClientCAs) does not name
      let withheld := h.staticCert && cs == "untrusted" && casOK
      let co' : ClientOffer := if withheld then ⟨false, false, false⟩ else ⟨co.hasCert, co.chainOK && casOK, co.cvValid⟩
      let sk := skip == "1"
      let ca := clientAcceptsH h.cvpc h.cvc sk k sc
      let sa := serverAcceptsH h.svpc h.svc m co'
      let o := outcome (k == .tls13) ca sa
      s!"c={okStr o.1} s={okStr o.2} cb={cbStr h sk sc}"
    | _, _, _, _, _, _ => "bad-op"
  | ["hs", _ver, _suite, _key, kex, ss, skip, mode, cs, _i] =>
    match parseKex kex, serverScen ss, parseMode mode, clientScen cs with
    | some k, some sc, some m, some co =>
      let ca := clientAccepts (skip == "1") k sc
      let sa := serverAccepts m co
      let o := outcome (k == .tls13) ca sa
      s!"c={okStr o.1} s={okStr o.2}"
    | _, _, _, _ => "bad-op"
  | _ => "bad-op"

end ZV.C27
