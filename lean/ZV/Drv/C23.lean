import ZV.Model.C23
/-! line protocol for C23 (see go/props/c23): `c23 <op> <args…>`; integers are sign-magnitude hex
    (`nil` = missing), byte strings lower-case hex (`-` = empty); answers `ok[ <hex>]` / `err` / `panic`. -/
namespace ZV.C23
open ZV ZV.Hash

def natOfHexChars : List Char → Nat → Option Nat
  | [], acc => some acc
  | c :: cs, acc =>
    match hexVal c with
    | some v => natOfHexChars cs (acc * 16 + v)
    | none => none

/-- `nil` ↦ `some none`; `[-]hex` ↦ `some (some v)`; anything else `none` -/
def parseBig (s : String) : Option (Option Int) :=
  if s == "nil" then some none
  else match s.toList with
    | '-' :: rest => (natOfHexChars rest 0).map (fun n => some (-(Int.ofNat n)))
    | cs => (natOfHexChars cs 0).map (fun n => some (Int.ofNat n))

def parseNat (s : String) : Option Nat := natOfHexChars s.toList 0

def parsePub (n e : String) : Option Pub :=
  match parseBig n, parseBig e with
  | some a, some b => some ⟨a, b⟩
  | _, _ => none

def parsePre (s : String) : Option (Option (Nat × Nat × Nat)) :=
  if s == "-" then some none
  else
    let s' := String.ofList (s.toList.filter (· != '!'))
    match (s'.splitOn ",").mapM parseNat with
    | some [a, b, c] => some (some (a, b, c))
    | _ => none

def parsePriv (n e d ps pre : String) : Option Priv :=
  match parseNat n, parseNat e, parseNat d, (ps.splitOn ",").mapM parseNat, parsePre pre with
  | some n, some e, some d, some ps, some pre => some ⟨n, e, d, ps, pre⟩
  | _, _, _, _, _ => none

def showB : Res Bytes → String := showRes toHex
def showU : Res Unit → String
  | .ok _ => "ok"
  | .err => "err"
  | .panic => "panic"

/-! #### `seq`: a sequence of calls sharing one hash.Hash, one reader and one key object

  `c23 seq <H> <N> <E> <D> <primes> <pre> <rnd> <step>,<step>,…`; a step is `:`-separated, its options `.`-separated:
  `eo:msg:label` `do:ct:label` `ev:msg` `dv:ct` `ds:ct:key` `kd:ct:(nil|x|o.hash.mgf.label|p.len)`
  `sp:hash:digest:(nil|sl.ohash)` `vp:hash:digest:sig:(nil|sl.ohash)` `s1:hash:digest` `v1:hash:digest:sig`
  `ks:digest:(h.hash|s.sl.ohash)` `pc:qinv` `hw:bytes`.  Answer: the results joined by ` | `. -/

def parsePSSOpts (s : String) : Option (Option PSSOpts) :=
  if s == "nil" then some none
  else match s.splitOn "." with
    | [sl, oh] =>
      (match parseInt sl, oh.toNat? with
       | some sl, some oh => some (some ⟨sl, oh⟩)
       | _, _ => none)
    | _ => none

def parseDecOpts (s : String) : Option DecOpts :=
  if s == "nil" then some .nil
  else if s == "x" then some .other
  else match s.splitOn "." with
    | ["o", h, mgf, label] =>
      (match h.toNat?, mgf.toNat?, ofHex label with
       | some h, some mgf, some label => some (.oaep h mgf label)
       | _, _, _ => none)
    | ["p", l] => (parseInt l).map DecOpts.v15
    | _ => none

def parseSignerOpts (s : String) : Option SignerOpts :=
  match s.splitOn "." with
  | ["h", h] => h.toNat?.map SignerOpts.hash
  | ["s", sl, oh] =>
    (match parseInt sl, oh.toNat? with
     | some sl, some oh => some (.pss ⟨sl, oh⟩)
     | _, _ => none)
  | _ => none

def parseStep (s : String) : Option Step :=
  match s.splitOn ":" with
  | ["eo", msg, label] =>
    (match ofHex msg, ofHex label with
     | some m, some l => some (.encOAEP m l)
     | _, _ => none)
  | ["do", ct, label] =>
    (match ofHex ct, ofHex label with
     | some c, some l => some (.decOAEP c l)
     | _, _ => none)
  | ["ev", msg] => (ofHex msg).map Step.encV15
  | ["dv", ct] => (ofHex ct).map Step.decV15
  | ["ds", ct, key] =>
    (match ofHex ct, ofHex key with
     | some c, some k => some (.sessKey c k)
     | _, _ => none)
  | ["kd", ct, opts] =>
    (match ofHex ct, parseDecOpts opts with
     | some c, some o => some (.keyDecrypt c o)
     | _, _ => none)
  | ["sp", h, dg, opts] =>
    (match h.toNat?, ofHex dg, parsePSSOpts opts with
     | some h, some dg, some o => some (.signPSS h dg o)
     | _, _, _ => none)
  | ["vp", h, dg, sig, opts] =>
    (match h.toNat?, ofHex dg, ofHex sig, parsePSSOpts opts with
     | some h, some dg, some sig, some o => some (.verifyPSS h dg sig o)
     | _, _, _, _ => none)
  | ["s1", h, dg] =>
    (match h.toNat?, ofHex dg with
     | some h, some dg => some (.signV15 h dg)
     | _, _ => none)
  | ["v1", h, dg, sig] =>
    (match h.toNat?, ofHex dg, ofHex sig with
     | some h, some dg, some sig => some (.verifyV15 h dg sig)
     | _, _, _ => none)
  | ["ks", dg, opts] =>
    (match ofHex dg, parseSignerOpts opts with
     | some dg, some o => some (.keySign dg o)
     | _, _ => none)
  | ["pc", qinv] => (parseNat qinv).map Step.precompute
  | ["hw", b] => (ofHex b).map Step.hashWrite
  | _ => none

def seqLine (h n e d ps pre rnd steps : String) : String :=
  match h.toNat?.bind hashAlg, parsePriv n e d ps pre, ofHex rnd, (steps.splitOn ",").mapM parseStep with
  | some h, some k, some rnd, some steps =>
    (match runSeq h ⟨k, [], rnd⟩ steps with
     | some rs => " | ".intercalate (rs.map showB)
     | none => "unmodelled")
  | _, _, _, _ => "bad-op"

def handle (args : List String) : String :=
  match args with
  | ["seq", h, n, e, d, ps, pre, rnd, steps] => seqLine h n e d ps pre rnd steps
  | ["checkpub", n, e] =>
    (match parsePub n e with
     | some p => (match checkPub p with | .ok _ => "ok" | .err => "err" | .panic => "panic")
     | none => "bad-op")
  | ["enc", n, e, m] =>
    (match parseNat n, parseNat e, ofHex m with
     | some n, some e, some m => showB (encrypt n e m)
     | _, _, _ => "bad-op")
  | ["dec", n, e, d, ps, pre, chk, ct] =>
    (match parsePriv n e d ps pre, ofHex ct with
     | some k, some ct => showB (decrypt k ct (chk == "1"))
     | _, _ => "bad-op")
  | ["encv15", n, e, rnd, msg] =>
    (match parsePub n e, ofHex rnd, ofHex msg with
     | some p, some rnd, some msg => showB (encryptPKCS1v15 p rnd msg)
     | _, _, _ => "bad-op")
  | ["encdecv15", n, e, _, _, _, rnd, msg] =>
    (match parsePub n e, ofHex rnd, ofHex msg with
     | some p, some rnd, some msg => showB (encryptPKCS1v15 p rnd msg)
     | _, _, _ => "bad-op")
  | ["decv15", n, e, d, ps, pre, ct] =>
    (match parsePriv n e d ps pre, ofHex ct with
     | some k, some ct => showB (decryptPKCS1v15 k ct)
     | _, _ => "bad-op")
  | ["signv15", n, e, d, ps, pre, h, dg] =>
    (match parsePriv n e d ps pre, h.toNat?, ofHex dg with
     | some k, some h, some dg => showB (signPKCS1v15 k h dg)
     | _, _, _ => "bad-op")
  | ["verv15", n, e, h, dg, sig] =>
    (match parsePub n e, h.toNat?, ofHex dg, ofHex sig with
     | some p, some h, some dg, some sig => showU (verifyPKCS1v15 p h dg sig)
     | _, _, _, _ => "bad-op")
  | ["pssenc", h, mh, emBits, salt] =>
    (match h.toNat?.bind hashAlg, ofHex mh, emBits.toNat?, ofHex salt with
     | some h, some mh, some eb, some salt => showB (emsaPSSEncode h mh eb salt)
     | _, _, _, _ => "bad-op")
  | ["pssver", h, mh, em, emBits, sl] =>
    (match h.toNat?.bind hashAlg, ofHex mh, ofHex em, emBits.toNat?, parseInt sl with
     | some h, some mh, some em, some eb, some sl => showU (emsaPSSVerify h mh em eb sl)
     | _, _, _, _, _ => "bad-op")
  | ["signpss", n, e, d, ps, pre, h, dg, sl, rnd] =>
    (match parsePriv n e d ps pre, h.toNat?.bind hashAlg, ofHex dg, parseInt sl, ofHex rnd with
     | some k, some h, some dg, some sl, some rnd => showB (signPSS k h dg sl rnd)
     | _, _, _, _, _ => "bad-op")
  | ["verpss", n, e, h, dg, sig, sl] =>
    (match parsePub n e, h.toNat?.bind hashAlg, ofHex dg, ofHex sig, parseInt sl with
     | some p, some h, some dg, some sig, some sl => showU (verifyPSS p h dg sig sl)
     | _, _, _, _, _ => "bad-op")
  | ["oaepenc", h, n, e, rnd, msg, label] =>
    (match h.toNat?.bind hashAlg, parsePub n e, ofHex rnd, ofHex msg, ofHex label with
     | some h, some p, some rnd, some msg, some label => showB (encryptOAEP h p rnd msg label)
     | _, _, _, _, _ => "bad-op")
  | ["oaeprt", h, n, e, _, _, _, rnd, msg, label] =>
    (match h.toNat?.bind hashAlg, parsePub n e, ofHex rnd, ofHex msg, ofHex label with
     | some h, some p, some rnd, some msg, some label => showB (encryptOAEP h p rnd msg label)
     | _, _, _, _, _ => "bad-op")
  | ["oaepdec", h, n, e, d, ps, pre, ct, label] =>
    (match h.toNat?.bind hashAlg, parsePriv n e d ps pre, ofHex ct, ofHex label with
     | some h, some k, some ct, some label => showB (decryptOAEP h h k ct label)
     | _, _, _, _ => "bad-op")
  | _ => "bad-op"

end ZV.C23
