import ZV.Model.C23
/-! line protocol for C23 (see go/props/c23): `c23 <op> <args…>`; integers are sign-magnitude hex
    (`nil` = missing), byte strings lower-case hex (`-` = empty); answers `ok[ <hex>]` / `err` / `panic`. -/
namespace ZV.C23
open ZV ZV.Hash

def natOfHexChars : List Char → Nat → Option Nat
  | [], acc => some acc
  | c :: cs, acc =>
    match hexVal c with
    | some v => natOfHexChars cs (acc * 16 + v)
    | none => none

/-- `nil` ↦ `some none`; `[-]hex` ↦ `some (some v)`; anything else `none` -/
def parseBig (s : String) : Option (Option Int) :=
  if s == "nil" then some none
  else match s.toList with
    | '-' :: rest => (natOfHexChars rest 0).map (fun n => some (-(Int.ofNat n)))
    | cs => (natOfHexChars cs 0).map (fun n => some (Int.ofNat n))

def parseNat (s : String) : Option Nat := natOfHexChars s.toList 0

def parsePub (n e : String) : Option Pub :=
  match parseBig n, parseBig e with
  | some a, some b => some ⟨a, b⟩
  | _, _ => none

def parsePre (s : String) : Option (Option (Nat × Nat × Nat)) :=
  if s == "-" then some none
  else
    let s' := String.ofList (s.toList.filter (· != '!'))
    match (s'.splitOn ",").mapM parseNat with
    | some [a, b, c] => some (some (a, b, c))
    | _ => none

def parsePriv (n e d ps pre : String) : Option Priv :=
  match parseNat n, parseNat e, parseNat d, (ps.splitOn ",").mapM parseNat, parsePre pre with
  | some n, some e, some d, some ps, some pre => some ⟨n, e, d, ps, pre⟩
  | _, _, _, _, _ => none

def showB : Res Bytes → String := showRes toHex
def showU : Res Unit → String
  | .ok _ => "ok"
  | .err => "err"
  | .panic => "panic"

def handle (args : List String) : String :=
  match args with
  | ["checkpub", n, e] =>
    (match parsePub n e with
     | some p => (match checkPub p with | .ok _ => "ok" | .err => "err" | .panic => "panic")
     | none => "bad-op")
  | ["enc", n, e, m] =>
    (match parseNat n, parseNat e, ofHex m with
     | some n, some e, some m => showB (encrypt n e m)
     | _, _, _ => "bad-op")
  | ["dec", n, e, d, ps, pre, chk, ct] =>
    (match parsePriv n e d ps pre, ofHex ct with
     | some k, some ct => showB (decrypt k ct (chk == "1"))
     | _, _ => "bad-op")
  | ["encv15", n, e, rnd, msg] =>
    (match parsePub n e, ofHex rnd, ofHex msg with
     | some p, some rnd, some msg => showB (encryptPKCS1v15 p rnd msg)
     | _, _, _ => "bad-op")
  | ["encdecv15", n, e, _, _, _, rnd, msg] =>
    (match parsePub n e, ofHex rnd, ofHex msg with
     | some p, some rnd, some msg => showB (encryptPKCS1v15 p rnd msg)
     | _, _, _ => "bad-op")
  | ["decv15", n, e, d, ps, pre, ct] =>
    (match parsePriv n e d ps pre, ofHex ct with
     | some k, some ct => showB (decryptPKCS1v15 k ct)
     | _, _ => "bad-op")
  | ["signv15", n, e, d, ps, pre, h, dg] =>
    (match parsePriv n e d ps pre, h.toNat?, ofHex dg with
     | some k, some h, some dg => showB (signPKCS1v15 k h dg)
     | _, _, _ => "bad-op")
  | ["verv15", n, e, h, dg, sig] =>
    (match parsePub n e, h.toNat?, ofHex dg, ofHex sig with
     | some p, some h, some dg, some sig => showU (verifyPKCS1v15 p h dg sig)
     | _, _, _, _ => "bad-op")
  | ["pssenc", h, mh, emBits, salt] =>
    (match h.toNat?.bind hashAlg, ofHex mh, emBits.toNat?, ofHex salt with
     | some h, some mh, some eb, some salt => showB (emsaPSSEncode h mh eb salt)
     | _, _, _, _ => "bad-op")
  | ["pssver", h, mh, em, emBits, sl] =>
    (match h.toNat?.bind hashAlg, ofHex mh, ofHex em, emBits.toNat?, parseInt sl with
     | some h, some mh, some em, some eb, some sl => showU (emsaPSSVerify h mh em eb sl)
     | _, _, _, _, _ => "bad-op")
  | ["signpss", n, e, d, ps, pre, h, dg, sl, rnd] =>
    (match parsePriv n e d ps pre, h.toNat?.bind hashAlg, ofHex dg, parseInt sl, ofHex rnd with
     | some k, some h, some dg, some sl, some rnd => showB (signPSS k h dg sl rnd)
     | _, _, _, _, _ => "bad-op")
  | ["verpss", n, e, h, dg, sig, sl] =>
    (match parsePub n e, h.toNat?.bind hashAlg, ofHex dg, ofHex sig, parseInt sl with
     | some p, some h, some dg, some sig, some sl => showU (verifyPSS p h dg sig sl)
     | _, _, _, _, _ => "bad-op")
  | ["oaepenc", h, n, e, rnd, msg, label] =>
    (match h.toNat?.bind hashAlg, parsePub n e, ofHex rnd, ofHex msg, ofHex label with
     | some h, some p, some rnd, some msg, some label => showB (encryptOAEP h p rnd msg label)
     | _, _, _, _, _ => "bad-op")
  | ["oaeprt", h, n, e, _, _, _, rnd, msg, label] =>
    (match h.toNat?.bind hashAlg, parsePub n e, ofHex rnd, ofHex msg, ofHex label with
     | some h, some p, some rnd, some msg, some label => showB (encryptOAEP h p rnd msg label)
     | _, _, _, _, _ => "bad-op")
  | ["oaepdec", h, n, e, d, ps, pre, ct, label] =>
    (match h.toNat?.bind hashAlg, parsePriv n e d ps pre, ofHex ct, ofHex label with
     | some h, some k, some ct, some label => showB (decryptOAEP h h k ct label)
     | _, _, _, _ => "bad-op")
  | _ => "bad-op"

end ZV.C23
