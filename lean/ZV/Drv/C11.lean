import ZV.Model.C11
import ZV.Drv.C10
/-! line protocol for C11:  `c11 <specs> <verify-matrix> <start index> <ops>` (see Drv/C10 for the tokens)
    output: `<number of chains> <chains>`: chains sorted lexicographically, `;` between chains,
    `>` between certificate indices; `0 -` when there is none. -/
namespace ZV.C11
open ZV.C10

def lexLe : List Nat → List Nat → Bool
  | [], _ => true
  | _ :: _, [] => false
  | a :: as, b :: bs => a < b || (a == b && lexLe as bs)

def showChains (cs : List (List Cert)) : String :=
  let l := (cs.map (fun c => c.map (·.fp))).mergeSort lexLe
  if l.isEmpty then "0 -"
  else toString l.length ++ " " ++ ";".intercalate (l.map (fun c => ">".intercalate (c.map toString)))

def handle (args : List String) : String :=
  match args with
  | [specs, vm, start, ops] =>
    match parseCerts specs, parseMatrix vm with
    | some cs, some m =>
      match parseOps cs ops, start.toNat?.bind (nth? cs) with
      | some os, some c =>
        match run (verOf m) Graph.empty os with
        | .ok g => showChains (walkChains (verOf m) g c)
        | _ => "panic"
      | _, _ => "bad-op"
    | _, _ => "bad-op"
  | _ => "bad-op"

end ZV.C11
