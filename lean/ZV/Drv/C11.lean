import ZV.Model.C11
import ZV.Drv.C10
/-! line protocol for C11:  `c11 <specs> <verify-matrix> <start index> <ops>` (see Drv/C10 for the tokens)
    output: `<number of chains> <chains>`: chains sorted lexicographically, `;` between chains,
    `>` between certificate indices; `0 -` when there is none.
    `c11 seq <specs> <verify-matrix> <history>`: a history on ONE graph; tokens `a<i>` AddCert, `r<i>` AddRoot,
    `s<i>` WalkChains, `c<i>:<n>` WalkChainsAsync with channel size n (the model does not see n).
    output: per token (`|`) the canonical dump of the graph after it (Drv/C10 `showGraph`), preceded for a
    walk by `W=<chains> `. -/
namespace ZV.C11
open ZV.C10

def lexLe : List Nat → List Nat → Bool
  | [], _ => true
  | _ :: _, [] => false
  | a :: as, b :: bs => a < b || (a == b && lexLe as bs)

def showChains (cs : List (List Cert)) : String :=
  let l := (cs.map (fun c => c.map (·.fp))).mergeSort lexLe
  if l.isEmpty then "0 -"
  else toString l.length ++ " " ++ ";".intercalate (l.map (fun c => ">".intercalate (c.map toString)))

def parseEv (cs : List Cert) (s : String) : Option Ev :=
  match s.toList with
  | 'a' :: rest => ((String.ofList rest).toNat?.bind (nth? cs)).map (fun c => Ev.ins (Op.add c))
  | 'r' :: rest => ((String.ofList rest).toNat?.bind (nth? cs)).map (fun c => Ev.ins (Op.root c))
  | 's' :: rest => ((String.ofList rest).toNat?.bind (nth? cs)).map Ev.walk
  | 'c' :: rest =>
    match (String.ofList rest).splitOn ":" with
    | [i, n] =>
      match n.toNat? with
      | some _ => (i.toNat?.bind (nth? cs)).map Ev.walk
      | none => none
    | _ => none
  | _ => none

def showObs (x : Graph × Option (List (List Cert))) : String :=
  match x.2 with
  | none => showGraph x.1
  | some chains => "W=" ++ showChains chains ++ " " ++ showGraph x.1

def handleSeq (specs vm hist : String) : String :=
  match parseCerts specs, parseMatrix vm with
  | some cs, some m =>
    match (if hist == "-" then some [] else (hist.splitOn ",").mapM (parseEv cs)) with
    | some evs =>
      match history (verOf m) Graph.empty evs with
      | .ok obs => if obs.isEmpty then "-" else "|".intercalate (obs.map showObs)
      | _ => "panic"
    | none => "bad-op"
  | _, _ => "bad-op"

def b01 (b : Bool) : String := if b then "1" else "0"

/-- `c11 can <bc> <ca> <maxPathLen> <root> <len(chain)>` -/
def handleCan (bc ca mpl root len : String) : String :=
  match bc.toNat?, ca.toNat?, mpl.toInt?, root.toNat?, len.toNat? with
  | some b, some a, some m, some r, some l =>
    let c : Cert := { fp := 0, subj := 0, key := 0, iss := 0, isCA := a != 0, bcValid := b != 0, maxPathLen := m }
    toString (canAddReason c (r != 0) l)
  | _, _, _, _, _ => "bad-op"

/-- `c11 async <specs> <verify-matrix> <start> <channel size> <ValidSignature before> <ops>` -/
def handleAsync (specs vm start size before ops : String) : String :=
  match parseCerts specs, parseMatrix vm with
  | some cs, some m =>
    match parseOps cs ops, start.toNat?.bind (nth? cs), size.toInt?, before.toNat? with
    | some os, some c, some n, some bf =>
      match run (verOf m) Graph.empty os with
      | .ok g =>
        let o := walkChainsAsync (verOf m) g c n (bf != 0)
        "cap=" ++ toString o.cap ++ " vs=" ++ b01 o.validSig ++ " " ++ showChains o.chains
      | _ => "panic"
    | _, _, _, _ => "bad-op"
  | _, _ => "bad-op"

def handle (args : List String) : String :=
  match args with
  | ["const"] => "maxIntermediateCount=" ++ toString maxIntermediateCount ++ " defaultChannelSize=" ++ toString (chanCap 0)
  | ["can", bc, ca, mpl, root, len] => handleCan bc ca mpl root len
  | ["async", specs, vm, start, size, before, ops] => handleAsync specs vm start size before ops
  | ["seq", specs, vm, hist] => handleSeq specs vm hist
  | [specs, vm, start, ops] =>
    match parseCerts specs, parseMatrix vm with
    | some cs, some m =>
      match parseOps cs ops, start.toNat?.bind (nth? cs) with
      | some os, some c =>
        match run (verOf m) Graph.empty os with
        | .ok g => showChains (walkChains (verOf m) g c)
        | _ => "panic"
      | _, _ => "bad-op"
    | _, _ => "bad-op"
  | _ => "bad-op"

end ZV.C11
