import ZV.Model.C13
/-! line protocol for C13

  `c13 decide <outerOk> <status> <typeOk> <basicOk> <rtag> <rok> <ncerts> <c0ok> <vEResp> <vICert> <vIResp>
              <issuer 0|1> <cert n|serial> <singles|-> <issuerIdx> <derhex>`
     singles: `,`-separated `serial/good/unknown/this/next/revokedAt/reason/hash/critical`;
     the three `v…` bits are the signature-primitive results (embedded key on the response, issuer key
     on the embedded certificate, issuer key on the response); the last two arguments are for the Go side.
  `c13 resp <ca> <mode> <issuerNil> <algOk> <status> <serial> <this> <next> <revokedAt> <reason> <hash> <crit>
            <sigchoice> <nsec> <tzoff> <nExt> <keyKind 0 rsa|1 p224|2 p256|3 p384|4 p521|5 other curve|6 other key> <requested x509.SignatureAlgorithm>`
     CreateResponse then ParseResponse in the toy signature scheme `sign k m = k :: m`; whether the signer key /
     requested algorithm is accepted and which algorithm ends up in the response come from `signingParams`.
  output: `err` | `err-create` | `panic` |
          `ok <idx> <good|revoked|unknown> <serial> <this> <next> <revokedAt|-> <reason|-> <hash> <name|keyhash> <cert 0|1>`
          (resp lines: followed by ` sig=<x509.SignatureAlgorithm of the parsed response>`) -/
namespace ZV.C13

def pBool (s : String) : Option Bool :=
  if s == "1" then some true else if s == "0" then some false else none

def pSingle (s : String) : Option Single :=
  match s.splitOn "/" with
  | [se, g, u, th, nx, ra, re, h, cr] =>
    match parseInt se, pBool g, pBool u, parseInt th, parseInt nx, parseInt ra, parseInt re, h.toNat?, pBool cr with
    | some se, some g, some u, some th, some nx, some ra, some re, some h, some cr =>
      some { serial := se, good := g, unknown := u, thisUpdate := th, nextUpdate := nx, revokedAt := ra,
             reason := re, hash := h, critical := cr }
    | _, _, _, _, _, _, _, _, _ => none
  | _ => none

def pSingles (s : String) : Option (List Single) :=
  if s == "-" then some [] else (s.splitOn ",").mapM pSingle

def pCert (s : String) : Option (Option Int) :=
  if s == "n" then some none else (parseInt s).map some

def showOut {K B : Type} (o : Out K B) : String :=
  let st := match o.status with
    | .good => "good"
    | .revoked _ _ => "revoked"
    | .unknown => "unknown"
  let ra := match o.status with
    | .revoked a _ => toString a
    | _ => "-"
  let re := match o.status with
    | .revoked _ r => toString r
    | _ => "-"
  joinWith " " [toString o.idx, st, toString o.single.serial, toString o.single.thisUpdate,
    toString o.single.nextUpdate, ra, re, toString o.single.hash,
    (if o.byName then "name" else "keyhash"), (if o.certificate.isSome then "1" else "0")]

/-- the verify oracle rebuilt from the three bits of the line: keys 0 = issuer, 1 = embedded;
    byte strings 0 = response (tbs, sig), 1 = embedded certificate (tbs, sig). -/
def oracle (vEResp vICert vIResp : Bool) (k a m s : Nat) : Bool :=
  if k = 1 ∧ a = 0 ∧ m = 0 ∧ s = 0 then vEResp
  else if k = 0 ∧ a = 1 ∧ m = 1 ∧ s = 1 then vICert
  else if k = 0 ∧ a = 0 ∧ m = 0 ∧ s = 0 then vIResp
  else false

def handleDecide (a : List String) : String :=
  match a with
  | [oo, st, ty, bo, rt, ro, nc, c0, v1, v2, v3, iss, ce, si, _, _] =>
    match pBool oo, st.toNat?, pBool ty, pBool bo, rt.toNat?, pBool ro, nc.toNat?, pBool c0 with
    | some oo, some st, some ty, some bo, some rt, some ro, some nc, some c0 =>
      match pBool v1, pBool v2, pBool v3, pBool iss, pCert ce, pSingles si with
      | some v1, some v2, some v3, some iss, some ce, some si =>
        let e : ECert Nat Nat := { key := 1, alg := 1, tbs := 1, sig := 1 }
        let certs : List (Option (ECert Nat Nat)) :=
          match nc with
          | 0 => []
          | n + 1 => (if c0 then some e else none) :: List.replicate n none
        let inp : Input Nat Nat :=
          { outerOk := oo, status := st, typeOk := ty, basicOk := bo, tbs := 0, sig := 0, alg := 0,
            responderTag := rt, responderOk := ro, singles := si, certs := certs }
        showRes showOut (parse (oracle v1 v2 v3) inp ce (if iss then some 0 else none))
      | _, _, _, _, _, _ => "bad-op"
    | _, _, _, _, _, _, _, _ => "bad-op"
  | _ => "bad-op"

/-! toy signature scheme for `resp` lines -/
def toySign (k : Nat) (m : List Int) : List Int := (k : Int) :: m
def toyVerify (k : Nat) (_ : Nat) (m s : List Int) : Bool := s == toySign k m
def toyEncode (l : List Single) : List Int :=
  l.flatMap (fun s => [s.serial, s.thisUpdate, s.nextUpdate, s.revokedAt, s.reason, (s.hash : Int),
    (if s.good then 1 else 0), (if s.unknown then 1 else 0), (if s.critical then 1 else 0)])
/-- certificate of key `k` issued by key `by_` -/
def toyCert (k by_ : Nat) : ECert Nat (List Int) :=
  { key := k, alg := 0, tbs := [1000 + (k : Int)], sig := toySign by_ [1000 + (k : Int)] }

def pKind (s : String) : Option KeyKind :=
  if s == "0" then some .rsa else if s == "1" then some .p224 else if s == "2" then some .p256
  else if s == "3" then some .p384 else if s == "4" then some .p521 else if s == "5" then some .otherCurve
  else if s == "6" then some .otherKey else none

/-- `<algOk>` on the line is the harness's own expectation (cross-checked on the Go side); the model decides with
    `signingParams <keyKind> <requested algorithm>` and prints the algorithm the parsed response must show. -/
def handleResp (a : List String) : String :=
  match a with
  | [ca, mode, inil, _algok, st, se, th, nx, ra, re, h, cr, _sc, _nsec, _tz, _nExt, kk, rq] =>
    match ca.toNat?, mode.toNat?, pBool inil, pKind kk, rq.toNat?, parseInt st, parseInt se, parseInt th, parseInt nx with
    | some ca, some mode, some inil, some kk, some rq, some st, some se, some th, some nx =>
      match parseInt ra, parseInt re, h.toNat?, pBool cr with
      | some ra, some re, some h, some cr =>
        let t : Template := { status := st, serial := se, thisUpdate := th, nextUpdate := nx, revokedAt := ra,
                              reason := re, hash := h, critical := cr }
        let ca' := (ca + 1) % 6
        let (signer, embed) : Nat × Option (ECert Nat (List Int)) :=
          if mode = 0 then (ca, none)
          else if mode = 1 then (10 + ca, some (toyCert (10 + ca) ca))
          else if mode = 2 then (10 + ca, none)
          else if mode = 3 then (10 + ca', some (toyCert (10 + ca') ca'))
          else if mode = 4 then (ca, some (toyCert ca ca))
          else (99, none)
        let (algok, alg) : Bool × Nat :=
          match signingParams kk rq with
          | .ok (_, al) => (true, al)
          | _ => (false, 0)
        match create toyEncode toySign algok alg t signer embed with
        | .err => "err-create"
        | .panic => "panic"
        | .ok inp =>
          match parse toyVerify inp none (if inil then none else some ca) with
          | .ok o => "ok " ++ showOut o ++ " sig=" ++ toString inp.alg
          | .err => "err"
          | .panic => "panic"
      | _, _, _, _ => "bad-op"
    | _, _, _, _, _, _, _, _, _ => "bad-op"
  | _ => "bad-op"

def handle (args : List String) : String :=
  match args with
  | "decide" :: rest => handleDecide rest
  | "resp" :: rest => handleResp rest
  | _ => "bad-op"

end ZV.C13
