import ZV.Model.C13
import ZV.Model.C13Der
import ZV.Model.C13Enc
/-! line protocol for C13

  `c13 decide <outerOk> <status> <typeOk> <basicOk> <rtag> <rok> <ncerts> <c0ok> <vEResp> <vICert> <vIResp>
              <issuer 0|1> <cert n|serial> <singles|-> <issuerIdx> <derhex>`
     singles: `,`-separated `serial/good/unknown/this/next/revokedAt/reason/hash/critical`;
     the three `v…` bits are the signature-primitive results (embedded key on the response, issuer key
     on the embedded certificate, issuer key on the response); the last two arguments are for the Go side.
  `c13 resp <ca> <mode> <issuerNil> <algOk> <status> <serial> <this> <next> <revokedAt> <reason> <hash> <crit>
            <sigchoice> <nsec> <tzoff> <nExt> <keyKind 0 rsa|1 p224|2 p256|3 p384|4 p521|5 other curve|6 other key> <requested x509.SignatureAlgorithm>`
     CreateResponse then ParseResponse in the toy signature scheme `sign k m = k :: m`; whether the signer key /
     requested algorithm is accepted and which algorithm ends up in the response come from `signingParams`.
  `c13 xresp <issuer name variant> <responder name variant> <the arguments of resp>`   the same round trip with certificates whose
     subject DER is hand-assembled (every string type, multi-valued RDNs, …): names are opaque to the model (the responder id is
     "by name", the bytes are compared on the Go side), so the answer is that of the resp line
  `c13 bytes <same arguments as decide>`   ParseResponseForCert FROM THE BYTES: the model decodes `<derhex>` itself (ZV.Model.C13Der)
                             and feeds `parse`; of the abstract fields on the line only `<c0ok>` (x509.ParseCertificate on the first
                             embedded certificate), the three signature-primitive bits, `<issuer>` and `<cert>` are used
  `c13 schema <ocspRequest|responseASN1|basicResponse>`   the schema term of that Go type, rendered as the harness renders the declaration
  `c13 der <hex>`            the two asn1.Unmarshal calls of ParseResponseForCert through ZV.Model.C18 on the schema terms of
                             ZV.Model.C13Der: `o:err` | `o:<status>,<type oid|->,<rest>,<body len> b:err` | `… b:<fields>`
  `c13 rq <hash> <nameHash> <keyHash> <serial>`   Request.Marshal, then ParseRequest of the bytes: `merr` | `<der> ok …` | `<der> err`
  `c13 rqd <hex>`            ParseRequest on given bytes
  `c13 enc <ca> <mode> <keyKind> <reqAlgo> <status> <serial> <this> <next> <revAt> <reason> <hash> <exts n|e|oid/crit/hex+…> <nameHash> <keyHash>
           <responderName> <sig> <cert|n>`   CreateResponse byte for byte (ZV.Model.C13Enc.createResponse, ProducedAt 2000-01-01T00:00:00Z):
                             `err` | `<tbsResponseData hex> <response hex>`
  `c13 time <23|24> <hex>`   parseUTCTime / parseGeneralizedTime (strict): `ok <unix seconds>` | `err`
  output: `err` | `err-create` | `panic` |
          `ok <idx> <good|revoked|unknown> <serial> <this> <next> <revokedAt|-> <reason|-> <hash> <name|keyhash> <cert 0|1>`
          (resp lines: followed by ` sig=<x509.SignatureAlgorithm of the parsed response>`) -/
namespace ZV.C13

def pBool (s : String) : Option Bool :=
  if s == "1" then some true else if s == "0" then some false else none

def pSingle (s : String) : Option Single :=
  match s.splitOn "/" with
  | [se, g, u, th, nx, ra, re, h, cr] =>
    match parseInt se, pBool g, pBool u, parseInt th, parseInt nx, parseInt ra, parseInt re, h.toNat?, pBool cr with
    | some se, some g, some u, some th, some nx, some ra, some re, some h, some cr =>
      some { serial := se, good := g, unknown := u, thisUpdate := th, nextUpdate := nx, revokedAt := ra,
             reason := re, hash := h, critical := cr }
    | _, _, _, _, _, _, _, _, _ => none
  | _ => none

def pSingles (s : String) : Option (List Single) :=
  if s == "-" then some [] else (s.splitOn ",").mapM pSingle

def pCert (s : String) : Option (Option Int) :=
  if s == "n" then some none else (parseInt s).map some

def showOut {K B : Type} (o : Out K B) : String :=
  let st := match o.status with
    | .good => "good"
    | .revoked _ _ => "revoked"
    | .unknown => "unknown"
  let ra := match o.status with
    | .revoked a _ => toString a
    | _ => "-"
  let re := match o.status with
    | .revoked _ r => toString r
    | _ => "-"
  joinWith " " [toString o.idx, st, toString o.single.serial, toString o.single.thisUpdate,
    toString o.single.nextUpdate, ra, re, toString o.single.hash,
    (if o.byName then "name" else "keyhash"), (if o.certificate.isSome then "1" else "0")]

/-- the verify oracle rebuilt from the three bits of the line: keys 0 = issuer, 1 = embedded;
    byte strings 0 = response (tbs, sig), 1 = embedded certificate (tbs, sig). -/
def oracle (vEResp vICert vIResp : Bool) (k a m s : Nat) : Bool :=
  if k = 1 ∧ a = 0 ∧ m = 0 ∧ s = 0 then vEResp
  else if k = 0 ∧ a = 1 ∧ m = 1 ∧ s = 1 then vICert
  else if k = 0 ∧ a = 0 ∧ m = 0 ∧ s = 0 then vIResp
  else false

def handleDecide (a : List String) : String :=
  match a with
  | [oo, st, ty, bo, rt, ro, nc, c0, v1, v2, v3, iss, ce, si, _, _] =>
    match pBool oo, st.toNat?, pBool ty, pBool bo, rt.toNat?, pBool ro, nc.toNat?, pBool c0 with
    | some oo, some st, some ty, some bo, some rt, some ro, some nc, some c0 =>
      match pBool v1, pBool v2, pBool v3, pBool iss, pCert ce, pSingles si with
      | some v1, some v2, some v3, some iss, some ce, some si =>
        let e : ECert Nat Nat := { key := 1, alg := 1, tbs := 1, sig := 1 }
        let certs : List (Option (ECert Nat Nat)) :=
          match nc with
          | 0 => []
          | n + 1 => (if c0 then some e else none) :: List.replicate n none
        let inp : Input Nat Nat :=
          { outerOk := oo, status := st, typeOk := ty, basicOk := bo, tbs := 0, sig := 0, alg := 0,
            responderTag := rt, responderOk := ro, singles := si, certs := certs }
        showRes showOut (parse (oracle v1 v2 v3) inp ce (if iss then some 0 else none))
      | _, _, _, _, _, _ => "bad-op"
    | _, _, _, _, _, _, _, _ => "bad-op"
  | _ => "bad-op"

/-! toy signature scheme for `resp` lines -/
def toySign (k : Nat) (m : List Int) : List Int := (k : Int) :: m
def toyVerify (k : Nat) (_ : Nat) (m s : List Int) : Bool := s == toySign k m
def toyEncode (l : List Single) : List Int :=
  l.flatMap (fun s => [s.serial, s.thisUpdate, s.nextUpdate, s.revokedAt, s.reason, (s.hash : Int),
    (if s.good then 1 else 0), (if s.unknown then 1 else 0), (if s.critical then 1 else 0)])
/-- certificate of key `k` issued by key `by_` -/
def toyCert (k by_ : Nat) : ECert Nat (List Int) :=
  { key := k, alg := 0, tbs := [1000 + (k : Int)], sig := toySign by_ [1000 + (k : Int)] }

def pKind (s : String) : Option KeyKind :=
  if s == "0" then some .rsa else if s == "1" then some .p224 else if s == "2" then some .p256
  else if s == "3" then some .p384 else if s == "4" then some .p521 else if s == "5" then some .otherCurve
  else if s == "6" then some .otherKey else none

/-- `<algOk>` on the line is the harness's own expectation (cross-checked on the Go side); the model decides with
    `signingParams <keyKind> <requested algorithm>` and prints the algorithm the parsed response must show. -/
def handleResp (a : List String) : String :=
  match a with
  | [ca, mode, inil, _algok, st, se, th, nx, ra, re, h, cr, _sc, _nsec, _tz, _nExt, kk, rq] =>
    match ca.toNat?, mode.toNat?, pBool inil, pKind kk, rq.toNat?, parseInt st, parseInt se, parseInt th, parseInt nx with
    | some ca, some mode, some inil, some kk, some rq, some st, some se, some th, some nx =>
      match parseInt ra, parseInt re, h.toNat?, pBool cr with
      | some ra, some re, some h, some cr =>
        let t : Template := { status := st, serial := se, thisUpdate := th, nextUpdate := nx, revokedAt := ra,
                              reason := re, hash := h, critical := cr }
        let ca' := (ca + 1) % 6
        let (signer, embed) : Nat × Option (ECert Nat (List Int)) :=
          if mode = 0 then (ca, none)
          else if mode = 1 then (10 + ca, some (toyCert (10 + ca) ca))
          else if mode = 2 then (10 + ca, none)
          else if mode = 3 then (10 + ca', some (toyCert (10 + ca') ca'))
          else if mode = 4 then (ca, some (toyCert ca ca))
          else (99, none)
        let (algok, alg) : Bool × Nat :=
          match signingParams kk rq with
          | .ok (_, al) => (true, al)
          | _ => (false, 0)
        match create toyEncode toySign algok alg t signer embed with
        | .err => "err-create"
        | .panic => "panic"
        | .ok inp =>
          match parse toyVerify inp none (if inil then none else some ca) with
          | .ok o => "ok " ++ showOut o ++ " sig=" ++ toString inp.alg
          | .err => "err"
          | .panic => "panic"
      | _, _, _, _ => "bad-op"
    | _, _, _, _, _, _, _, _, _ => "bad-op"
  | _ => "bad-op"

/-! schema lines: the schema terms rendered as the harness renders the Go declarations -/

def showParams (p : C18.Params) : String :=
  let parts : List String :=
    (if p.optional then ["o"] else []) ++ (if p.explicit then ["e"] else []) ++ (if p.application then ["a"] else []) ++
    (if p.priv then ["v"] else []) ++ (match p.defaultValue with | some d => ["d" ++ toString d] | none => []) ++
    (match p.tag with | some t => ["t" ++ toString t] | none => []) ++
    (if p.stringType ≠ 0 then ["s" ++ toString p.stringType] else []) ++
    (if p.timeType ≠ 0 then ["m" ++ toString p.timeType] else []) ++
    (if p.set then ["S"] else []) ++ (if p.omitEmpty then ["E"] else [])
  if parts.isEmpty then "-" else ",".intercalate parts

mutual
def showSchema : C18.Schema → String
  | .int64 => "i64" | .int32 => "i32" | .enum => "enum" | .bigint => "big" | .bool => "bool" | .oid => "oid"
  | .bits => "bits" | .octets => "oct" | .str => "str" | .raw => "raw" | .flag => "flag"
  | .struct fs => "{" ++ ";".intercalate (showFields fs) ++ "}"
  | .seqOf sn e => (if sn then "LS(" else "L(") ++ showSchema e ++ ")"
  | .fnil => "?" | .fcons _ _ _ => "?"
def showFields : C18.Schema → List String
  | .fcons p s rest => (showParams p ++ ":" ++ showSchema s) :: showFields rest
  | _ => []
end

def handleSchema (n : String) : String :=
  if n == "ocspRequest" then showSchema ocspRequestS
  else if n == "responseASN1" then showSchema responseASN1S
  else if n == "basicResponse" then showSchema basicResponseS
  else "bad-op"

/-! DER lines -/

def showOid (o : List Int) : String := if o.isEmpty then "-" else ".".intercalate (o.map toString)

def showExt (e : List Int × Bool × Bytes) : String :=
  showOid e.1 ++ ":" ++ (if e.2.1 then "1" else "0") ++ ":" ++ toHex e.2.2

def showDSingle (s : DSingle) : String :=
  "/".intercalate [showOid s.hashOid, toHex s.hashParams, toHex s.nameHash, toHex s.keyHash, toString s.serial,
    (if s.good then "1" else "0"), (if s.unknown then "1" else "0"), toString s.revokedAt, toString s.reason,
    toString s.thisUpdate, (match s.nextUpdate with | some x => toString x | none => toString zeroTime),
    (if s.exts.isEmpty then "-" else "+".intercalate (s.exts.map showExt))]

def showDBasic (b : DBasic) (rest : Bytes) : String :=
  joinWith " " ["rest=" ++ toString rest.length, "tbs=" ++ toHex b.tbs, "v=" ++ toString b.version,
    "rid=" ++ toString b.ridClass ++ "/" ++ toString b.ridTag ++ "/" ++ (if b.ridCompound then "1" else "0") ++ "/" ++ toHex b.ridBytes,
    "pa=" ++ toString b.producedAt, "alg=" ++ showOid b.sigOid ++ "/" ++ toHex b.sigParams,
    "sig=" ++ toHex b.sigBytes ++ "/" ++ toString b.sigBitLen,
    "certs=" ++ toString b.certs.length ++ ":" ++ ",".intercalate (b.certs.map (fun c => toString c.length)),
    "s=" ++ (if b.singles.isEmpty then "-" else ";".intercalate (b.singles.map showDSingle))]

def handleDer (h : String) : String :=
  match ofHex h with
  | none => "bad-op"
  | some der =>
    match decodeOuter der with
    | .err => "o:err"
    | .shape => "shape"
    | .ok (st, ty, body, rest) =>
      "o:" ++ toString st ++ "," ++ showOid ty ++ "," ++ toString rest.length ++ "," ++ toString body.length ++ " b:" ++
        (match decodeBasic body with
         | .err => "err"
         | .shape => "shape"
         | .ok (b, rest2) => showDBasic b rest2)

def showReq (r : Req) : String :=
  joinWith " " [toString r.hash, toHex r.nameHash, toHex r.keyHash, toString r.serial]

def handleRq (a : List String) : String :=
  match a with
  | [h, nh, kh, sn] =>
    match h.toNat?, ofHex nh, ofHex kh, parseInt sn with
    | some h, some nh, some kh, some sn =>
      (match marshalRequest { hash := h, nameHash := nh, keyHash := kh, serial := sn } with
       | .ok der => toHex der ++ " " ++ showRes showReq (parseRequest der)
       | .err => "merr"
       | .panic => "panic")
    | _, _, _, _ => "bad-op"
  | _ => "bad-op"

def handleBytes (a : List String) : String :=
  match a with
  | [_, _, _, _, _, _, _, c0, v1, v2, v3, iss, ce, _, _, dh] =>
    match pBool c0, pBool v1, pBool v2, pBool v3, pBool iss, pCert ce, ofHex dh with
    | some c0, some v1, some v2, some v3, some iss, some ce, some der =>
      let e : ECert Nat Nat := { key := 1, alg := 1, tbs := 1, sig := 1 }
      (match parseBytes (oracle v1 v2 v3) (fun _ => (0 : Nat)) (fun _ _ => (0 : Nat)) (fun _ => 0)
          (fun _ => if c0 then some e else none) der ce (if iss then some 0 else none) with
       | .ok r => showRes showOut r
       | .err => "err"
       | .shape => "shape")
    | _, _, _, _, _, _, _ => "bad-op"
  | _ => "bad-op"

def pOidDots (s : String) : Option (List Int) := (s.splitOn ".").mapM parseInt

def pExt (s : String) : Option (List Int × Bool × Bytes) :=
  match s.splitOn "/" with
  | [o, c, v] =>
    (match pOidDots o, pBool c, ofHex v with
     | some o, some c, some v => some (o, c, v)
     | _, _, _ => none)
  | _ => none

def pExts (s : String) : Option (Option (List (List Int × Bool × Bytes))) :=
  if s == "n" then some none else if s == "e" then some (some [])
  else ((s.splitOn "+").mapM pExt).map some

def handleEnc (a : List String) : String :=
  match a with
  | [_, _, kk, rq, st, se, th, nx, ra, re, h, ex, nh, kh, rn, sg, ce] =>
    match kk.toNat?, rq.toNat?, parseInt st, parseInt se, parseInt th, parseInt nx, parseInt ra, parseInt re, h.toNat?, pExts ex with
    | some kk, some rq, some st, some se, some th, some nx, some ra, some re, some h, some ex =>
      (match ofHex nh, ofHex kh, ofHex rn, ofHex sg, (if ce == "n" then some none else (ofHex ce).map some) with
       | some nh, some kh, some rn, some sg, some ce =>
         let t : RTemplate := { status := st, serial := se, thisUpdate := th, nextUpdate := nx, revokedAt := ra, reason := re,
                                hash := h, exts := ex }
         (match createResponse t nh kh rn 946684800 (kindOfNat kk) rq sg ce, tbsDER t nh kh rn 946684800 with
          | .ok der, .ok tbs => toHex tbs ++ " " ++ toHex der
          | .panic, _ => "panic"
          | _, _ => "err")
       | _, _, _, _, _ => "bad-op")
    | _, _, _, _, _, _, _, _, _, _ => "bad-op"
  | _ => "bad-op"

def handle (args : List String) : String :=
  match args with
  | "decide" :: rest => handleDecide rest
  | "bytes" :: rest => handleBytes rest
  | "resp" :: rest => handleResp rest
  | "xresp" :: _ :: _ :: rest => handleResp rest
  | ["der", h] => handleDer h
  | ["schema", n] => handleSchema n
  | "rq" :: rest => handleRq rest
  | "enc" :: rest => handleEnc rest
  | ["rqd", h] =>
    (match ofHex h with
     | some der => showRes showReq (parseRequest der)
     | none => "bad-op")
  | ["time", tg, h] =>
    (match tg.toNat?, ofHex h with
     | some tg, some bs => showRes toString (parseTime tg bs)
     | _, _ => "bad-op")
  | _ => "bad-op"

end ZV.C13
