import ZV.Model.C34
/-! line protocol for C34: `c34 seq <12|13> <ops>` with ops over H W C S (`-` = none);
    output: outcomes `ok|closed|shutdown|early|err` joined by `,` (or `-`). -/
namespace ZV.C34

def parseOp : Char → Option Op
  | 'H' => some .handshake | 'W' => some .write | 'C' => some .close | 'S' => some .closeWrite
  | _ => none

def showOut : Out → String
  | .ok => "ok" | .closed => "closed" | .shutdown => "shutdown" | .early => "early" | .err => "err"

def handle (args : List String) : String :=
  match args with
  | ["seq", ver, ops] =>
    if ver ≠ "12" ∧ ver ≠ "13" then "bad-op"
    else
      match (if ops = "-" then some [] else ops.toList.mapM parseOp) with
      | none => "bad-op"
      | some os =>
        let outs := runSeq os
        if outs.length ≠ os.length then "model-stuck"
        else if outs.isEmpty then "-" else ",".intercalate (outs.map showOut)
  | _ => "bad-op"

end ZV.C34
