import ZV.Model.C16
import ZV.Model.C16Rd
/-! line protocol for C16 (topic `c16`); byte-string arguments in the `Wire.parseBytes` syntax.
    sct-ser <pkg> <here|n> <ver> <logid> <ts> <ext> <hash> <alg> <sig>      → ser=<ok B|err> len=<n|err>
    sct-de  <pkg> <bytes>                                                   → ok ver logid ts ext hash alg sig rest=n | err
    ds-ser  <pkg> <hash> <alg> <sig>                                        → ok B | err
    ds-de   <pkg> <bytes>                                                   → ok hash alg sig rest=n | err
    leaf-de <bytes>   /  leaf-rt <ver> <lt> <ts> <x|p> <a> <b> <ext>        → (enc=… dec=…)
    chain-de <x|p> <bytes>  /  chain-rt <x|p> <c1,c2,…|~>
    sct-in <ver> <ts> <lt> <et> <x509> <ikh> <tbs> <ext>   /  sth-in <ver> <size> <ts> <root>
    vsct <rsa|ec> <prim 0|1> <ver> <ts> <hash> <alg> <sig> <lt> <et> <x509> <ikh> <tbs> <ext>
    vsth <rsa|ec> <prim 0|1> <ver> <size> <ts> <root> <hash> <alg> <sig> -/
namespace ZV.C16
open ZV.Wire

def u8? (s : String) : Option UInt8 := s.toNat?.bind (fun n => if n < 256 then some (UInt8.ofNat n) else none)
def u16? (s : String) : Option UInt16 := s.toNat?.bind (fun n => if n < 65536 then some (UInt16.ofNat n) else none)
def u64? (s : String) : Option UInt64 := s.toNat?.bind (fun n => if n < 2 ^ 64 then some (UInt64.ofNat n) else none)

def showResB : Res Bytes → String
  | .ok b => "ok " ++ showBytes b
  | .err => "err"
  | .panic => "panic"

def showDS (d : DS) : String := toString d.hash.toNat ++ " " ++ toString d.alg.toNat ++ " " ++ showBytes d.sig

def showSCT (s : SCT) : String :=
  toString s.version.toNat ++ " " ++ showBytes s.logID ++ " " ++ toString s.timestamp.toNat ++ " " ++ showBytes s.ext ++ " " ++ showDS s.sig

def showLeaf (l : Leaf) : String :=
  toString l.version.toNat ++ " " ++ toString l.leafType.toNat ++ " " ++ toString l.timestamp.toNat ++ " " ++
  (match l.entry with
   | .x509 c => "x " ++ showBytes c
   | .precert h t => "p " ++ showBytes h ++ " " ++ showBytes t) ++ " " ++ showBytes l.ext

def showChain (cs : List Bytes) : String :=
  "n=" ++ toString cs.length ++ " " ++ (if cs.isEmpty then "~" else ",".intercalate (cs.map showBytes))

def showPar {α} (f : α → String) : Res (α × Bytes) → String
  | .ok (a, rest) => "ok " ++ f a ++ " rest=" ++ toString rest.length
  | .err => "err"
  | .panic => "panic"

/-- `enc=<ser v> dec=<par of it>` -/
def showRT {α} (c : Fmt α) (f : α → String) (v : α) : String :=
  match c.ser v with
  | .ok bs => "enc=" ++ showBytes bs ++ " dec=" ++ showPar f (c.par bs)
  | .err => "enc=err"
  | .panic => "enc=panic"

def showU : Res Unit → String
  | .ok _ => "ok"
  | .err => "err"
  | .panic => "panic"

/-- the primitive's verdict `prim` was computed by the harness for the digest `dg` (standard-library SHA-256 of the
    harness's own RFC input); any other digest reaching the primitive is answered `false` -/
def mkPrims (kind prim dg : String) : Option Prims :=
  let k : Option KeyKind := if kind == "rsa" then some .rsa else if kind == "ec" then some .ecdsa else none
  match k, parseBytes dg with
  | some k, some dg => some ⟨k, fun d _ => prim == "1" && d == dg, fun d _ => prim == "1" && d == dg⟩
  | _, _ => none

def parseScript (s : String) : Option Script :=
  if s == "~" then some []
  else (s.splitOn ",").mapM (fun e => if e == "!" then some Ev.fail else (parseBytes e).map Ev.data)

def showErr : RErr → String
  | .eof => "eof" | .uexp => "uexp" | .short => "short" | .other => "other"

def showR {α} (f : α → String) (r : RRes α × Script) : String :=
  (match r.1 with | .ok a => "ok " ++ f a | .fail e => showErr e) ++ " rest=" ++ toString (flat r.2).length

def parseCurve (s : String) : Option (Option Curve) :=
  if s == "p224" then some (some .p224) else if s == "p256" then some (some .p256) else if s == "p384" then some (some .p384)
  else if s == "p521" then some (some .p521) else if s == "copy" then some (some .copy) else if s == "nil" then some none else none

def parseKey (s : String) : Option Key :=
  match s.splitOn ":" with
  | ["rsa", "nilN"] => some (.rsa none)
  | ["rsa", n] => n.toNat?.map (fun b => Key.rsa (some b))
  | ["rsanil"] => some .rsaNil
  | ["ec", c] => (parseCurve c).map Key.ecdsa
  | ["ecnil"] => some .ecdsaNil
  | ["other", _] => some .other
  | _ => none

def nat? (s : String) : Option Nat := s.toNat?

def handle (args : List String) : String :=
  match args with
  | ["sct-ser", _, here, ver, logid, ts, ext, hash, alg, sig] =>
    match u8? ver, parseBytes logid, u64? ts, parseBytes ext, u8? hash, u8? alg, parseBytes sig with
    | some ver, some logid, some ts, some ext, some hash, some alg, some sig =>
      let s : SCT := ⟨ver, logid, ts, ext, ⟨hash, alg, sig⟩⟩
      let h : Option (Option Nat) := if here == "n" then some none else here.toNat?.map some
      match h with
      | some h =>
        "ser=" ++ showResB (serializeSCTHere s h) ++ " len=" ++
          (match serializedLength s with | .ok n => toString n | .err => "err" | .panic => "panic")
      | none => "bad-op"
    | _, _, _, _, _, _, _ => "bad-op"
  | ["sct-de", _, bs] =>
    match parseBytes bs with
    | some bs => showPar showSCT (sctFmt.par bs)
    | none => "bad-op"
  | ["ds-ser", _, hash, alg, sig] =>
    match u8? hash, u8? alg, parseBytes sig with
    | some hash, some alg, some sig => showResB (marshalDS ⟨hash, alg, sig⟩)
    | _, _, _ => "bad-op"
  | ["ds-de", _, bs] =>
    match parseBytes bs with
    | some bs => showPar showDS (dsFmt.par bs)
    | none => "bad-op"
  | ["leaf-de", bs] =>
    match parseBytes bs with
    | some bs => showPar showLeaf (leafFmt.par bs)
    | none => "bad-op"
  | ["leaf-rt", ver, lt, ts, kind, a, b, ext] =>
    match u8? ver, u8? lt, u64? ts, parseBytes a, parseBytes b, parseBytes ext with
    | some ver, some lt, some ts, some a, some b, some ext =>
      let e : Entry := if kind == "x" then .x509 a else .precert a b
      showRT leafFmt showLeaf ⟨ver, lt, ts, e, ext⟩
    | _, _, _, _, _, _ => "bad-op"
  | ["chain-de", kind, bs] =>
    match parseBytes bs with
    | some bs => showPar showChain ((if kind == "x" then chainFmt else precertChainFmt).par bs)
    | none => "bad-op"
  | ["chain-rt", kind, cs] =>
    let certs : Option (List Bytes) := if cs == "~" then some [] else (cs.splitOn ",").mapM parseBytes
    match certs with
    | some certs => showRT (if kind == "x" then chainFmt else precertChainFmt) showChain certs
    | none => "bad-op"
  | ["sct-in", ver, ts, lt, et, x509, ikh, tbs, ext] =>
    match u8? ver, u64? ts, u8? lt, u16? et, parseBytes x509, parseBytes ikh, parseBytes tbs, parseBytes ext with
    | some ver, some ts, some lt, some et, some x509, some ikh, some tbs, some ext =>
      showResB (sctSignatureInput ver ts ⟨lt, et, x509, ikh, tbs, ext⟩)
    | _, _, _, _, _, _, _, _ => "bad-op"
  | ["sth-in", ver, size, ts, root] =>
    match u8? ver, u64? size, u64? ts, parseBytes root with
    | some ver, some size, some ts, some root => showResB (sthSignatureInput ⟨ver, size, ts, root⟩)
    | _, _, _, _ => "bad-op"
  | ["vsct", kind, prim, ver, ts, hash, alg, sig, lt, et, x509, ikh, tbs, ext, dg] =>
    match mkPrims kind prim dg, u8? ver, u64? ts, u8? hash, u8? alg, parseBytes sig with
    | some p, some ver, some ts, some hash, some alg, some sig =>
      match u8? lt, u16? et, parseBytes x509, parseBytes ikh, parseBytes tbs, parseBytes ext with
      | some lt, some et, some x509, some ikh, some tbs, some ext =>
        showU (verifySCT p ver ts ⟨hash, alg, sig⟩ ⟨lt, et, x509, ikh, tbs, ext⟩)
      | _, _, _, _, _, _ => "bad-op"
    | _, _, _, _, _, _ => "bad-op"
  | ["vsth", kind, prim, ver, size, ts, root, hash, alg, sig, dg] =>
    match mkPrims kind prim dg, u8? ver, u64? size, u64? ts, parseBytes root with
    | some p, some ver, some size, some ts, some root =>
      match u8? hash, u8? alg, parseBytes sig with
      | some hash, some alg, some sig => showU (verifySTH p ⟨ver, size, ts, root⟩ ⟨hash, alg, sig⟩)
      | _, _, _ => "bad-op"
    | _, _, _, _, _ => "bad-op"
  | ["vsig", kind, prim, hash, alg, sig, data, dg] =>
    match mkPrims kind prim dg, u8? hash, u8? alg, parseBytes sig, parseBytes data with
    | some p, some hash, some alg, some sig, some data => showU (verifySignature p data ⟨hash, alg, sig⟩)
    | _, _, _, _, _ => "bad-op"
  | ["nsv", allow, key] =>
    match parseKey key with
    | some k =>
      (match newSignatureVerifier (allow == "1") k with
       | .ok .rsa => "ok rsa" | .ok .ecdsa => "ok ec" | .err => "err" | .panic => "panic")
    | none => "bad-op"
  | ["dsh", _, here, hash, alg, sig] =>
    match u8? hash, u8? alg, parseBytes sig with
    | some hash, some alg, some sig =>
      let h : Option (Option Nat) := if here == "n" then some none else here.toNat?.map some
      (match h with
       | some h => showResB (marshalDSHere ⟨hash, alg, sig⟩ h)
       | none => "bad-op")
    | _, _, _ => "bad-op"
  | ["rd-full", n, sc] =>
    match nat? n, parseScript sc with
    | some n, some sc => showR showBytes (readFull sc n [])
    | _, _ => "bad-op"
  | ["rd-uint", _, k, sc] =>
    match nat? k, parseScript sc with
    | some k, some sc => showR toString (readUintR sc k)
    | _, _ => "bad-op"
  | ["rd-var", _, k, sc] =>
    match nat? k, parseScript sc with
    | some k, some sc => showR showBytes (readVarBytesR sc k)
    | _, _ => "bad-op"
  | ["rd-list", tk, ek, sc] =>
    match nat? tk, nat? ek, parseScript sc with
    | some tk, some ek, some sc => showR showChain (readCertListR sc tk ek)
    | _, _, _ => "bad-op"
  | ["wr-uint", _, v, k] =>
    match u64? v, nat? k with
    | some v, some k => showResB (writeUintW v.toNat k)
    | _, _ => "bad-op"
  | ["wr-var", _, v, k] =>
    match parseBytes v, nat? k with
    | some v, some k => showResB (writeVarBytesW v k)
    | _, _ => "bad-op"
  | ["de-r", which, sc] =>
    match parseScript sc with
    | some sc =>
      if !noFail sc then "bad-op"
      else
        let bs := flat sc
        if which == "sct" || which == "xsct" then showPar showSCT (sctFmt.par bs)
        else if which == "ds" || which == "xds" then showPar showDS (dsFmt.par bs)
        else if which == "leaf" then showPar showLeaf (leafFmt.par bs)
        else if which == "tse" then showPar showLeaf (leafFmt.par ([0, 0] ++ bs))   -- ReadTimestampedEntryInto = the leaf reader after version and leaf type
        else "bad-op"
    | none => "bad-op"
  | _ => "bad-op"

end ZV.C16
