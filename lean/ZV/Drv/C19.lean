import ZV.Model.Der0
import ZV.Model.C19
import ZV.Model.Time
/-! line protocol for C19:  `c19 <op> <hex>`  and batch lines `c19 <op>* <prefix-hex> <k>`
    (all 256^k suffixes; output `n=<accepted> h=<sum of digests of the single outputs mod 1e9+7>`).
    Single outputs: see go/props/c19/c19.go (the two sides must print identical text). -/
namespace ZV.C19
open ZV.Der0

def oidStr (o : List Nat) : String := ".".intercalate (o.map toString)

/-- (output, accepted) -/
abbrev One := String × Bool

def part (name : String) (r : Res (String × Bytes)) : One :=
  match r with
  | .ok (v, re) => (name ++ "=ok:" ++ v ++ ":" ++ toHex re, true)
  | .err => (name ++ "=err", false)
  | .panic => (name ++ "=panic", false)

def join3 (a b c : One) : One := (a.1 ++ " " ++ b.1 ++ " " ++ c.1, a.2 || b.2 || c.2)

def eaInt (c : Bytes) : One :=
  join3
    (part "i64" ((EA.parseInt64 c).map fun v => (toString v, EA.encodeInt64 v)))
    (part "i32" ((EA.parseInt32 c).map fun v => (toString v, EA.encodeInt64 v)))
    (part "big" ((EA.parseBigInt c).map fun v => (toString v, EA.makeBigInt v)))

def simple (r : Res String) : One :=
  match r with
  | .ok s => ("ok:" ++ s, true)
  | .err => ("err", false)
  | .panic => ("panic", false)

def eaBool (c : Bytes) : One :=
  simple ((EA.parseBool c).map fun v => (if v then "t" else "f") ++ ":" ++ toHex (boolContent v))

def encStr (r : Res Bytes) : String :=
  match r with
  | .ok b => toHex b
  | _ => "encerr"

def eaOID (c : Bytes) : One :=
  simple ((EA.parseObjectIdentifier c).map fun v => oidStr v ++ ":" ++ encStr (EA.encodeOID v))

def eaB128 (c : Bytes) : One :=
  simple ((EA.parseBase128Int c).map fun (v, rest) =>
    toString v ++ ":" ++ toString (c.length - rest.length) ++ ":" ++ toHex (appendBase128 v))

def eaBits (c : Bytes) : One :=
  simple ((EA.parseBitString c).map fun v =>
    toString v.bitLength ++ ":" ++ toHex v.bytes ++ ":" ++ toHex (EA.encodeBitString v))

def eaHdr (c : Bytes) : One :=
  simple ((EA.parseTagAndLength c).map fun (t, rest) =>
    toString t.cls ++ ":" ++ (if t.compound then "1" else "0") ++ ":" ++ toString t.tag ++ ":" ++
    toString t.length ++ ":" ++ toString (c.length - rest.length) ++ ":" ++ toHex (EA.appendTagAndLength t))

def cbPart (name : String) (r : Res (String × Bytes × Res Bytes)) : One :=
  match r with
  | .ok (v, rest, re) => (name ++ "ok:" ++ v ++ ":" ++ toString rest.length ++ ":" ++ encStr re, true)
  | .err => (name ++ "err", false)
  | .panic => (name ++ "panic", false)

def cbInt (s : Bytes) : One :=
  join3
    (cbPart "i64=" ((CB.readInt64 s).map fun (v, rest) => (toString v, rest, CB.addASN1Int64 v)))
    (cbPart "u64=" ((CB.readUint64 s).map fun (v, rest) => (toString v, rest, CB.addASN1Uint64 v)))
    (cbPart "big=" ((CB.readBigInt s).map fun (v, rest) => (toString v, rest, CB.addASN1BigInt v)))

def cbBool (s : Bytes) : One :=
  cbPart "" ((CB.readBool s).map fun (v, rest) => ((if v then "t" else "f"), rest, CB.addASN1Boolean v))

def cbOID (s : Bytes) : One :=
  cbPart "" ((CB.readOID s).map fun (v, rest) => (oidStr v, rest, CB.addASN1OID v))

def cbBits (s : Bytes) : One :=
  cbPart "" ((CB.readBitString s).map fun (v, rest) =>
    (toString v.bitLength ++ "/" ++ toHex v.bytes, rest,
      CB.addASN1BitString (byteOfInt ((8 - v.bitLength.tmod 8).tmod 8)) v.bytes))

def cbAny (s : Bytes) : One :=
  cbPart "" ((CB.readASN1 s).map fun e =>
    (toString e.tag.toNat ++ "/" ++ toString e.body.length, e.rest, CB.element e.tag e.body))

def timeStr (t : ZV.Time.GoTime) : String := toString t.unix ++ "." ++ toString t.nsec ++ "@" ++ toString t.off

/-- `ReadASN1GeneralizedTime`, re-encoded by `AddASN1GeneralizedTime` (model: `ZV.Model.Time`) -/
def cbGTime (s : Bytes) : One :=
  cbPart "" ((ZV.Time.CB.readGeneralizedTime s).map fun (t, rest) => (timeStr t, rest, ZV.Time.CB.addGeneralizedTime t))

/-- `ReadASN1UTCTime` (no Builder counterpart): value and unread length -/
def cbUTime (s : Bytes) : One :=
  match ZV.Time.CB.readUTCTime s with
  | .ok (t, rest) => ("ok:" ++ timeStr t ++ ":" ++ toString rest.length, true)
  | .err => ("err", false)
  | .panic => ("panic", false)

/-- string types: decoded string (hex) and the re-encoding by the matching `make…String` -/
def eaStr (dec enc : Bytes → Res Bytes) (c : Bytes) : One :=
  simple ((dec c).map fun v => toHex v ++ ":" ++ encStr (enc v))

def cbEnum (s : Bytes) : One :=
  cbPart "" ((CB.readEnum s).map fun (v, rest) => (toString v, rest, CB.addASN1Enum v))

def cbOct (s : Bytes) : One :=
  cbPart "" ((CB.readOctetString s).map fun (b, rest) => (toHex b, rest, CB.addASN1OctetString b))

/-- `ReadASN1(&null, NULL)`; an empty body is re-encoded by `AddASN1NULL` -/
def cbNull (s : Bytes) : One :=
  cbPart "" ((CB.readASN1Tag s 5).map fun (b, rest) =>
    (toString b.length, rest, if b.length = 0 then .ok CB.addASN1NULL else .err))

def resStr (r : Res String) : String :=
  match r with
  | .ok s => "ok:" ++ s
  | .err => "err"
  | .panic => "panic"

/-- cross-codec lines: the same content through encoding/asn1 (content parser) and through cryptobyte
    (wrapped in a minimal element by `CB.element`) -/
def xBoth (ea : Bytes → Res String) (tag : UInt8) (cb : Bytes → Res String) (c : Bytes) : One :=
  let e := resStr (ea c)
  let b := match CB.element tag c with
    | .ok el => resStr (cb el)
    | _ => "encerr"
  ("ea=" ++ e ++ " cb=" ++ b, e != "err" || b != "err")

def xInt : Bytes → One :=
  xBoth (fun c => (EA.parseInt64 c).map toString) 2 (fun s => (CB.readInt64 s).map fun (v, _) => toString v)
def xBig : Bytes → One :=
  xBoth (fun c => (EA.parseBigInt c).map toString) 2 (fun s => (CB.readBigInt s).map fun (v, _) => toString v)
def xOID : Bytes → One :=
  xBoth (fun c => (EA.parseObjectIdentifier c).map oidStr) 6 (fun s => (CB.readOID s).map fun (v, _) => oidStr v)
def xBits : Bytes → One :=
  xBoth (fun c => (EA.parseBitString c).map fun v => toString v.bitLength ++ "/" ++ toHex v.bytes) 3
    (fun s => (CB.readBitString s).map fun (v, _) => toString v.bitLength ++ "/" ++ toHex v.bytes)
def xBool : Bytes → One :=
  xBoth (fun c => (EA.parseBool c).map fun v => if v then "t" else "f") 1
    (fun s => (CB.readBool s).map fun (v, _) => if v then "t" else "f")

/-- header through both: class*64+compound*32+tag, content length, header length -/
def xHdr (s : Bytes) : One :=
  let e := resStr ((EA.parseTagAndLength s).map fun (t, rest) =>
    toString (t.cls * 64 + (if t.compound then 32 else 0) + t.tag) ++ ":" ++ toString t.length ++ ":" ++
      toString (s.length - rest.length))
  let b := resStr ((CB.readASN1 s).map fun el =>
    toString el.tag.toNat ++ ":" ++ toString el.body.length ++ ":" ++ toString el.headerLen)
  ("ea=" ++ e ++ " cb=" ++ b, e != "err" || b != "err")

def opOf (op : String) : Option (Bytes → One) :=
  match op with
  | "ea-int" => some eaInt | "ea-bool" => some eaBool | "ea-oid" => some eaOID
  | "ea-b128" => some eaB128 | "ea-bits" => some eaBits | "ea-hdr" => some eaHdr
  | "cb-int" => some cbInt | "cb-bool" => some cbBool | "cb-oid" => some cbOID
  | "cb-bits" => some cbBits | "cb-any" => some cbAny
  | "cb-gtime" => some cbGTime | "cb-utime" => some cbUTime
  | "ea-num" => some (eaStr EA.parseNumericString EA.makeNumericString)
  | "ea-prt" => some (eaStr EA.parsePrintableString EA.makePrintableString)
  | "ea-ia5" => some (eaStr EA.parseIA5String EA.makeIA5String)
  | "ea-t61" => some (eaStr EA.parseT61String (fun b => .ok b))
  | "cb-enum" => some cbEnum | "cb-oct" => some cbOct | "cb-null" => some cbNull
  | "x-int" => some xInt | "x-big" => some xBig | "x-oid" => some xOID | "x-bits" => some xBits
  | "x-bool" => some xBool | "x-hdr" => some xHdr
  | _ => none

def digest (s : String) : Nat :=
  s.toList.foldl (fun h c => (h * 131 + c.toNat) % 1000000007) 0

/-- all `k`-byte suffixes in lexicographic order, folded. -/
def enumFold (f : Bytes → One) (pre : Bytes) : Nat → (Nat × Nat) → (Nat × Nat)
  | 0, (n, h) =>
    let r := f pre
    ((if r.2 then n + 1 else n), (h + digest r.1) % 1000000007)
  | k + 1, acc =>
    (List.range 256).foldl (fun a v => enumFold f (pre ++ [UInt8.ofNat v]) k a) acc

def handle (args : List String) : String :=
  match args with
  | [op, hex] =>
    (match opOf op, ofHex hex with
     | some f, some bs => (f bs).1
     | _, _ => "bad-op")
  | [op, hex, ks] =>
    (match opOf ((op.dropEnd 1).toString), ofHex hex, ks.toNat? with
     | some f, some bs, some k =>
       if op.endsWith "*" ∧ k ≤ 2 then
         let (n, h) := enumFold f bs k (0, 0)
         "n=" ++ toString n ++ " h=" ++ toString h
       else "bad-op"
     | _, _, _ => "bad-op")
  | _ => "bad-op"

end ZV.C19
