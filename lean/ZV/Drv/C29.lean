import ZV.Model.C29
/-! line protocol for C29
    `c29 marshal <force 0|1> <vers> <random hex> <ts 0|1> <sid hex> <suites n,n,…|-> <comp hex> <rand hex> <exts e,e,…|->`
       ext tokens: `null` `reneg` `ems` `status` `sct` `sni[:hex]…` `alpn[:hex]…` `curves[:n]…`
                   `points:hex` `ticket:hex` `sigalgs[:n]…`   (hex `-` = empty string)
       output `ok <hex>` / `err`; when the timestamp prefix applies, the four timestamp bytes are
       printed as `T` (the harness prints `T` iff they are the low 32 bits of a Unix time it observed
       around the call).
    `c29 parse <hex>` → `ok <canonical dump>` / `err`   (clientHelloMsg.unmarshal)
    `c29 wire <ServerName hex> <fp cache: -|nokey|empty|s:vers:suite:tickethex> <RandomSessionID> <Config options>
              <force> … <exts>` (rest as in marshal; ext tokens `sni+…` / `ticket+:hex` = Autopopulate)
       → `ok <hex of the ClientHello in the first handshake record(s)>` / `err` / `panic` -/
namespace ZV.C29
open ZV.TlsHello

def parseNats (s : String) : Option (List Nat) :=
  if s == "-" then some [] else (s.splitOn ",").mapM String.toNat?

def parseBool (s : String) : Option Bool :=
  if s == "1" then some true else if s == "0" then some false else none

def parseExtTok (s : String) : Option Ext :=
  match s.splitOn ":" with
  | ["null"] => some .null
  | ["reneg"] => some .reneg
  | ["ems"] => some .ems
  | ["status"] => some .status
  | ["sct"] => some .sct
  | "sni" :: ds => (ds.mapM ofHex).map .sni
  | "alpn" :: ps => (ps.mapM ofHex).map .alpn
  | "curves" :: ns => (ns.mapM String.toNat?).map (fun l => .curves (l.map UInt16.ofNat))
  | "sigalgs" :: ns => (ns.mapM String.toNat?).map (fun l => .sigalgs (l.map UInt16.ofNat))
  | ["points", h] => (ofHex h).map .points
  | ["ticket", h] => (ofHex h).map .ticket
  | _ => none

def parseExtToks (s : String) : Option (List Ext) :=
  if s == "-" then some [] else (s.splitOn ",").mapM parseExtTok

/-- does the timestamp prefix apply? (`len(ClientRandom) != 32 && InsertTimestamp`) -/
def usesTimestamp (cfg : Cfg) : Bool := cfg.random.length != 32 && cfg.insertTimestamp

def showMarshal (cfg : Cfg) (r : Option Bytes) : String :=
  match r with
  | none => "err"
  | some b =>
    if usesTimestamp cfg then "ok " ++ toHex (b.take 6) ++ "T" ++ toHex (b.drop 10)
    else "ok " ++ toHex b

def parseWExtTok (s : String) : Option WExt :=
  match s.splitOn ":" with
  | "sni+" :: ds => (ds.mapM ofHex).map (fun l => { e := .sni l, auto := true })
  | ["ticket+", h] => (ofHex h).map (fun t => { e := .ticket t, auto := true })
  | _ => (parseExtTok s).map (fun e => { e := e, auto := false })

def parseWExtToks (s : String) : Option (List WExt) :=
  if s == "-" then some [] else (s.splitOn ",").mapM parseWExtTok

def parseFpCache (s : String) : Option FpCache :=
  match s.splitOn ":" with
  | ["-"] => some .none
  | ["nokey"] => some .noKey
  | ["empty"] => some .empty
  | ["s", v, su, t] =>
    match v.toNat?, su.toNat?, ofHex t with
    | some v, some su, some t => some (.hit (UInt16.ofNat v) (UInt16.ofNat su) t)
    | _, _, _ => none
  | _ => none

/-- Config options of a `wire` line: of all letters only `C` / `T` (a `Config.ClientSessionCache`, session
    tickets not disabled by `D`) matter for what is sent; every other option is overwritten by `WriteToConfig`
    or not consulted on the fingerprint path. -/
def configCacheOf (copt : String) : Bool :=
  (copt.toList.contains 'C' || copt.toList.contains 'T') && !copt.toList.contains 'D'

def handle (args : List String) : String :=
  match args with
  | ["wire", sn, fpc, rsid, copt, force, vers, random, ts, sid, suites, comp, rand, exts] =>
    match ofHex sn, parseFpCache fpc, rsid.toNat?, parseBool force, vers.toNat?, ofHex random, parseBool ts with
    | some sn, some fpc, some rsid, some force, some vers, some random, some ts =>
      match ofHex sid, parseNats suites, ofHex comp, ofHex rand, parseWExtToks exts with
      | some sid, some suites, some comp, some rand, some wexts =>
        let cfg : Cfg := { vers := UInt16.ofNat vers, random := random, insertTimestamp := ts, sessionId := sid,
                           suites := suites.map UInt16.ofNat, comp := comp, exts := wexts.map (·.e) }
        match wireHello cfg wexts sn fpc rsid (configCacheOf copt) force rand 0 with
        | .err => "err"
        | .panic => "panic"
        | .sent b => showMarshal cfg (some b)
      | _, _, _, _, _ => "bad-op"
    | _, _, _, _, _, _, _ => "bad-op"
  | ["marshal", force, vers, random, ts, sid, suites, comp, rand, exts] =>
    match parseBool force, vers.toNat?, ofHex random, parseBool ts, ofHex sid, parseNats suites,
          ofHex comp, ofHex rand, parseExtToks exts with
    | some force, some vers, some random, some ts, some sid, some suites, some comp, some rand, some exts =>
      let cfg : Cfg := { vers := UInt16.ofNat vers, random := random, insertTimestamp := ts, sessionId := sid,
                         suites := suites.map UInt16.ofNat, comp := comp, exts := exts }
      showMarshal cfg (marshal cfg force rand 0)
    | _, _, _, _, _, _, _, _, _ => "bad-op"
  | ["parse", h] =>
    match ofHex h with
    | none => "bad-op"
    | some b =>
      match parseClientHello b with
      | none => "err"
      | some m => "ok " ++ showClientHello m
  | _ => "bad-op"

end ZV.C29
