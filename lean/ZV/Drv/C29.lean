import ZV.Model.C29
/-! line protocol for C29
    `c29 marshal <force 0|1> <vers> <random hex> <ts 0|1> <sid hex> <suites n,n,…|-> <comp hex> <rand hex> <exts e,e,…|->`
       ext tokens: `null` `reneg` `ems` `status` `sct` `sni[:hex]…` `alpn[:hex]…` `curves[:n]…`
                   `points:hex` `ticket:hex` `sigalgs[:n]…`   (hex `-` = empty string)
       output `ok <hex>` / `err`; when the timestamp prefix applies, the four timestamp bytes are
       printed as `T` (the harness prints `T` iff they are the low 32 bits of a Unix time it observed
       around the call).
    `c29 parse <hex>` → `ok <canonical dump>` / `err`   (clientHelloMsg.unmarshal)
    `c29 ext <tok>` → `<hex of ext.Marshal()> <1 iff CheckImplemented() == nil>`
    `c29 check <exts>` → `ok` / `err`   ((*ClientFingerprintConfiguration).CheckImplementedExtensions)
    `c29 rt <marshal args>` → `ok <dump of the hello parsed back>` / `err-marshal` / `err-parse`
    `c29 wtc <ServerName hex> <SignatureAndHashes before n,…|-> <vers> <random hex> <suites> <wexts>`
       → the Config fields (*ClientFingerprintConfiguration).WriteToConfig wrote and the extension list afterwards
    `c29 wire <ServerName hex> <fp cache: -|nokey|empty|s:vers:suite:tickethex> <RandomSessionID> <Config options>
              <force> … <exts>` (rest as in marshal; ext tokens `sni+…` / `ticket+:hex` = Autopopulate)
       → `ok <hex of the ClientHello in the first handshake record(s)>` / `err` / `panic` -/
namespace ZV.C29
open ZV.TlsHello

def parseNats (s : String) : Option (List Nat) :=
  if s == "-" then some [] else (s.splitOn ",").mapM String.toNat?

def parseBool (s : String) : Option Bool :=
  if s == "1" then some true else if s == "0" then some false else none

def parseExtTok (s : String) : Option Ext :=
  match s.splitOn ":" with
  | ["null"] => some .null
  | ["reneg"] => some .reneg
  | ["ems"] => some .ems
  | ["status"] => some .status
  | ["sct"] => some .sct
  | "sni" :: ds => (ds.mapM ofHex).map .sni
  | "alpn" :: ps => (ps.mapM ofHex).map .alpn
  | "curves" :: ns => (ns.mapM String.toNat?).map (fun l => .curves (l.map UInt16.ofNat))
  | "sigalgs" :: ns => (ns.mapM String.toNat?).map (fun l => .sigalgs (l.map UInt16.ofNat))
  | ["points", h] => (ofHex h).map .points
  | ["ticket", h] => (ofHex h).map .ticket
  | _ => none

def parseExtToks (s : String) : Option (List Ext) :=
  if s == "-" then some [] else (s.splitOn ",").mapM parseExtTok

/-- does the timestamp prefix apply? (`len(ClientRandom) != 32 && InsertTimestamp`) -/
def usesTimestamp (cfg : Cfg) : Bool := cfg.random.length != 32 && cfg.insertTimestamp

def showMarshal (cfg : Cfg) (r : Option Bytes) : String :=
  match r with
  | none => "err"
  | some b =>
    if usesTimestamp cfg then "ok " ++ toHex (b.take 6) ++ "T" ++ toHex (b.drop 10)
    else "ok " ++ toHex b

def parseWExtTok (s : String) : Option WExt :=
  match s.splitOn ":" with
  | "sni+" :: ds => (ds.mapM ofHex).map (fun l => { e := .sni l, auto := true })
  | ["ticket+", h] => (ofHex h).map (fun t => { e := .ticket t, auto := true })
  | _ => (parseExtTok s).map (fun e => { e := e, auto := false })

def parseWExtToks (s : String) : Option (List WExt) :=
  if s == "-" then some [] else (s.splitOn ",").mapM parseWExtTok

def parseFpCache (s : String) : Option FpCache :=
  match s.splitOn ":" with
  | ["-"] => some .none
  | ["nokey"] => some .noKey
  | ["empty"] => some .empty
  | ["s", v, su, t] =>
    match v.toNat?, su.toNat?, ofHex t with
    | some v, some su, some t => some (.hit (UInt16.ofNat v) (UInt16.ofNat su) t)
    | _, _, _ => none
  | _ => none

/-- Config options of a `wire` line: of all letters only `C` / `T` (a `Config.ClientSessionCache`, session
    tickets not disabled by `D`) matter for what is sent; every other option is overwritten by `WriteToConfig`
    or not consulted on the fingerprint path. -/
def configCacheOf (copt : String) : Bool :=
  (copt.toList.contains 'C' || copt.toList.contains 'T') && !copt.toList.contains 'D'

def showExtTok : Ext → String
  | .null => "null"
  | .reneg => "reneg"
  | .ems => "ems"
  | .status => "status"
  | .sct => "sct"
  | .sni ds => "sni" ++ String.join (ds.map (fun d => ":" ++ toHex d))
  | .alpn ps => "alpn" ++ String.join (ps.map (fun d => ":" ++ toHex d))
  | .curves l => "curves" ++ String.join (l.map (fun n => ":" ++ toString n.toNat))
  | .sigalgs l => "sigalgs" ++ String.join (l.map (fun n => ":" ++ toString n.toNat))
  | .points l => "points:" ++ toHex l
  | .ticket t => "ticket:" ++ toHex t

def showWExtTok (w : WExt) : String :=
  if w.auto then
    match w.e with
    | .sni ds => "sni+" ++ String.join (ds.map (fun d => ":" ++ toHex d))
    | .ticket t => "ticket+:" ++ toHex t
    | e => showExtTok e
  else showExtTok w.e

def showWCfg (r : List WExt × WCfg) : String :=
  let c := r.2
  " ".intercalate [
    "sn=" ++ toHex c.serverName,
    "np=" ++ toString c.nextProtos.length ++ "/" ++ showList (c.nextProtos.map toHex),
    "cs=" ++ showNats (c.cipherSuites.map (·.toNat)),
    "mv=" ++ toString c.maxVersion.toNat,
    "cr=" ++ toHex c.clientRandom,
    "cp=" ++ showNats (c.curvePrefs.map (·.toNat)),
    "hb=" ++ showBool c.heartbeat,
    "er=" ++ showBool c.extendedRandom,
    "ft=" ++ showBool c.forceTicket,
    "ems=" ++ showBool c.ems,
    "sct=" ++ showBool c.sct,
    "sh=" ++ showList (c.sigHashes.map (fun p => toString p.1.toNat ++ ":" ++ toString p.2.toNat)),
    "exts=" ++ showList (r.1.map showWExtTok)]

def handle (args : List String) : String :=
  match args with
  | ["ext", tok] =>
    match parseExtTok tok with
    | none => "bad-op"
    | some e => toHex (marshalExt e) ++ " " ++ showBool (checkExt e)
  | ["check", exts] =>
    match parseExtToks exts with
    | none => "bad-op"
    | some l => if checkExts l then "ok" else "err"
  | ["rt", force, vers, random, ts, sid, suites, comp, rand, exts] =>
    match parseBool force, vers.toNat?, ofHex random, parseBool ts, ofHex sid, parseNats suites,
          ofHex comp, ofHex rand, parseExtToks exts with
    | some force, some vers, some random, some ts, some sid, some suites, some comp, some rand, some exts =>
      let cfg : Cfg := { vers := UInt16.ofNat vers, random := random, insertTimestamp := ts, sessionId := sid,
                         suites := suites.map UInt16.ofNat, comp := comp, exts := exts }
      match roundTrip cfg force rand 0 with
      | .errMarshal => "err-marshal"
      | .errParse => "err-parse"
      | .ok m => "ok " ++ showClientHello m
    | _, _, _, _, _, _, _, _, _ => "bad-op"
  | ["wtc", sn, sh0, vers, random, suites, exts] =>
    match ofHex sn, parseNats sh0, vers.toNat?, ofHex random, parseNats suites, parseWExtToks exts with
    | some sn, some sh0, some vers, some random, some suites, some wexts =>
      let cfg : Cfg := { vers := UInt16.ofNat vers, random := random, insertTimestamp := false, sessionId := [],
                         suites := suites.map UInt16.ofNat, comp := [0], exts := wexts.map (·.e) }
      showWCfg (writeToConfig cfg wexts sn (structured (sh0.map UInt16.ofNat)))
    | _, _, _, _, _, _ => "bad-op"
  | ["wire", sn, fpc, rsid, copt, force, vers, random, ts, sid, suites, comp, rand, exts] =>
    match ofHex sn, parseFpCache fpc, rsid.toNat?, parseBool force, vers.toNat?, ofHex random, parseBool ts with
    | some sn, some fpc, some rsid, some force, some vers, some random, some ts =>
      match ofHex sid, parseNats suites, ofHex comp, ofHex rand, parseWExtToks exts with
      | some sid, some suites, some comp, some rand, some wexts =>
        let cfg : Cfg := { vers := UInt16.ofNat vers, random := random, insertTimestamp := ts, sessionId := sid,
                           suites := suites.map UInt16.ofNat, comp := comp, exts := wexts.map (·.e) }
        match wireHello cfg wexts sn fpc rsid (configCacheOf copt) force rand 0 with
        | .err => "err"
        | .panic => "panic"
        | .sent b => showMarshal cfg (some b)
      | _, _, _, _, _ => "bad-op"
    | _, _, _, _, _, _, _ => "bad-op"
  | ["marshal", force, vers, random, ts, sid, suites, comp, rand, exts] =>
    match parseBool force, vers.toNat?, ofHex random, parseBool ts, ofHex sid, parseNats suites,
          ofHex comp, ofHex rand, parseExtToks exts with
    | some force, some vers, some random, some ts, some sid, some suites, some comp, some rand, some exts =>
      let cfg : Cfg := { vers := UInt16.ofNat vers, random := random, insertTimestamp := ts, sessionId := sid,
                         suites := suites.map UInt16.ofNat, comp := comp, exts := exts }
      showMarshal cfg (marshal cfg force rand 0)
    | _, _, _, _, _, _, _, _, _ => "bad-op"
  | ["parse", h] =>
    match ofHex h with
    | none => "bad-op"
    | some b =>
      match parseClientHello b with
      | none => "err"
      | some m => "ok " ++ showClientHello m
  | _ => "bad-op"

end ZV.C29
