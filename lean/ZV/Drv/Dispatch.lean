import ZV.Drv.C35
namespace ZV
/-- topic → handler; every handler is a total function `List String → String`. -/
def dispatch (topic : String) (args : List String) : String :=
  match topic with
  | "c35" => C35.handle args
  | _ => "bad-topic"
end ZV
