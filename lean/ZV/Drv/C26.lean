import ZV.Model.C26
/-! line protocol for C26 (all byte strings hex, `-` = empty, `nil` = Go nil where it matters):
```
c26 phash <md5|sha1|sha256|sha384|sha512> <n> <secret> <seed>            → hex
c26 split <secret>                                                       → s1,s2
c26 prf10 <n> <secret> <label> <seed>                                    → hex
c26 prf12 <hash> <n> <secret> <label> <seed>                             → hex
c26 prfv <version> <suite id> <n> <secret> <label> <seed>              → <none|sha256|sha384> hex | panic
c26 master <version> <suite> <pms> <cr> <sr>                            → hex | panic
c26 keys <version> <suite> <ms> <cr> <sr> <mac> <key> <iv>              → 6 hex joined by , | panic
c26 fin <version> <suite> <ms> <msg>,<msg>…                              → sum,client,server | panic
c26 ekm <version> <suite> <ms> <cr> <sr> <label> <ctx|nil> <len>        → ok hex | err | panic
c26 xl <suite13 id> <secret> <label> <ctx> <len>                      → ok hex | panic
c26 ds <hash> <secret> <label> <msgs|nil>                                → ok hex | panic
c26 ext <hash> <new|nil> <cur>                                           → hex
c26 nts <hash> <secret>                                                  → ok hex | panic
c26 tk <suite13> <secret>                                          → ok key,iv | panic
c26 fin13 <hash> <basekey> <msgs>                                        → ok hex | panic
c26 ekm13 <hash> <master> <msgs> <label> <ctx> <len>                     → ok hex | panic
```
Suite ids are decimal; the model resolves them with its RFC tables (`rfcSHA384Suites`, `rfcSuites13`), which T1 ties to the tree's tables. -/
namespace ZV.C26
open ZV.Hash

def algOf (s : String) : Option HashAlg :=
  if s == "md5" then some HashAlg.md5
  else if s == "sha1" then some HashAlg.sha1
  else if s == "sha256" then some HashAlg.sha256
  else if s == "sha384" then some HashAlg.sha384
  else if s == "sha512" then some HashAlg.sha512
  else none

def optHex (s : String) : Option (Option Bytes) :=
  if s == "nil" then some none else (ofHex s).map some

/-- TLS ≤ 1.2 suite id → does key derivation use SHA-384 (`flags&suiteSHA384`) -/
def flag (s : String) : Option Bool := s.toNat?.map (fun id => rfcSHA384Suites.contains id)

/-- TLS 1.3 suite id → (hash, key length) -/
def suite13 (s : String) : Option (HashAlg × Nat) :=
  match s.toNat? with
  | none => none
  | some id =>
    match rfcSuites13.find? (fun r => r.1 == id) with
    | none => none
    | some (_, kl, h) => (algOf h).map (fun a => (a, kl))

def showResB : Res Bytes → String := showRes toHex

def prfHashName : PrfHash → String
  | .none => "none"
  | .sha256 => "sha256"
  | .sha384 => "sha384"

def handle (args : List String) : String :=
  match args with
  | ["phash", h, n, secret, seed] =>
    match algOf h, n.toNat?, ofHex secret, ofHex seed with
    | some a, some n, some secret, some seed => toHex (pHash (hmac a) n secret seed)
    | _, _, _, _ => "bad-op"
  | ["split", secret] =>
    match ofHex secret with
    | some s => toHex (splitPreMasterSecret s).1 ++ "," ++ toHex (splitPreMasterSecret s).2
    | none => "bad-op"
  | ["prf10", n, secret, label, seed] =>
    match n.toNat?, ofHex secret, ofHex label, ofHex seed with
    | some n, some secret, some label, some seed => toHex (prf10 realPrims n secret label seed)
    | _, _, _, _ => "bad-op"
  | ["prf12", h, n, secret, label, seed] =>
    match algOf h, n.toNat?, ofHex secret, ofHex label, ofHex seed with
    | some a, some n, some secret, some label, some seed => toHex (prf12 (hmac a) n secret label seed)
    | _, _, _, _, _ => "bad-op"
  | ["prfv", v, f, n, secret, label, seed] =>
    match v.toNat?, flag f, n.toNat?, ofHex secret, ofHex label, ofHex seed with
    | some v, some f, some n, some secret, some label, some seed =>
      match prfAndHashForVersion realPrims v f with
      | .ok (prf, h) => prfHashName h ++ " " ++ toHex (prf n secret label seed)
      | .err => "err"
      | .panic => "panic"
    | _, _, _, _, _, _ => "bad-op"
  | ["master", v, f, pms, cr, sr] =>
    match v.toNat?, flag f, ofHex pms, ofHex cr, ofHex sr with
    | some v, some f, some pms, some cr, some sr =>
      match masterFromPreMasterSecret realPrims v f pms cr sr with
      | .ok m => toHex m
      | .err => "err"
      | .panic => "panic"
    | _, _, _, _, _ => "bad-op"
  | ["keys", v, f, ms, cr, sr, mac, key, iv] =>
    match v.toNat?, flag f, ofHex ms, ofHex cr, ofHex sr, mac.toNat?, key.toNat?, iv.toNat? with
    | some v, some f, some ms, some cr, some sr, some mac, some key, some iv =>
      match keysFromMasterSecret realPrims v f ms cr sr mac key iv with
      | .ok k => ",".intercalate [toHex k.clientMAC, toHex k.serverMAC, toHex k.clientKey, toHex k.serverKey,
                                  toHex k.clientIV, toHex k.serverIV]
      | .err => "err"
      | .panic => "panic"
    | _, _, _, _, _, _, _, _ => "bad-op"
  | ["fin", v, f, ms, msgs] =>
    match v.toNat?, flag f, ofHex ms, (msgs.splitOn ",").mapM ofHex with
    | some v, some f, some ms, some msgl =>
      let msgs := msgl.flatten   -- finishedHash.Write is a running hash: only the concatenation matters
      match finishedSum realPrims v f msgs, clientSum realPrims v f ms msgs, serverSum realPrims v f ms msgs with
      | .ok s, .ok c, .ok sv => toHex s ++ "," ++ toHex c ++ "," ++ toHex sv
      | .panic, _, _ => "panic"
      | _, _, _ => "err"
    | _, _, _, _ => "bad-op"
  | ["ekm", v, f, ms, cr, sr, label, ctx, len] =>
    match v.toNat?, flag f, ofHex ms, ofHex cr, ofHex sr, ofHex label, optHex ctx, len.toNat? with
    | some v, some f, some ms, some cr, some sr, some label, some ctx, some len =>
      showResB (ekmFromMasterSecret realPrims v f ms cr sr label ctx len)
    | _, _, _, _, _, _, _, _ => "bad-op"
  | ["xl", h, secret, label, ctx, len] =>
    match (suite13 h).map (·.1), ofHex secret, ofHex label, ofHex ctx, len.toNat? with
    | some a, some secret, some label, some ctx, some len =>
      showResB (expandLabel (hash13OfAlg a) secret label ctx len)
    | _, _, _, _, _ => "bad-op"
  | ["ds", h, secret, label, msgs] =>
    match (suite13 h).map (·.1), ofHex secret, ofHex label, optHex msgs with
    | some a, some secret, some label, some msgs => showResB (deriveSecret (hash13OfAlg a) secret label msgs)
    | _, _, _, _ => "bad-op"
  | ["ext", h, ns, cur] =>
    match (suite13 h).map (·.1), optHex ns, ofHex cur with
    | some a, some ns, some cur => toHex (extract (hash13OfAlg a) ns cur)
    | _, _, _ => "bad-op"
  | ["nts", h, secret] =>
    match (suite13 h).map (·.1), ofHex secret with
    | some a, some secret => showResB (nextTrafficSecret (hash13OfAlg a) secret)
    | _, _ => "bad-op"
  | ["tk", h, secret] =>
    match suite13 h, ofHex secret with
    | some (a, kl), some secret =>
      showRes (fun (p : Bytes × Bytes) => toHex p.1 ++ "," ++ toHex p.2) (trafficKey (hash13OfAlg a) kl secret)
    | _, _ => "bad-op"
  | ["fin13", h, baseKey, msgs] =>
    match (suite13 h).map (·.1), ofHex baseKey, ofHex msgs with
    | some a, some bk, some msgs => showResB (finishedHash13 (hash13OfAlg a) bk msgs)
    | _, _, _ => "bad-op"
  | ["ekm13", h, master, msgs, label, ctx, len] =>
    match (suite13 h).map (·.1), ofHex master, ofHex msgs, ofHex label, ofHex ctx, len.toNat? with
    | some a, some master, some msgs, some label, some ctx, some len =>
      showResB (exportKeyingMaterial (hash13OfAlg a) master msgs label ctx len)
    | _, _, _, _, _, _ => "bad-op"
  | _ => "bad-op"

end ZV.C26
