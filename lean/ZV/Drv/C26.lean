import ZV.Model.C26
import ZV.Generated.C26
/-! line protocol for C26 (all byte strings hex, `-` = empty, `nil` = Go nil where it matters):
```
c26 phash <md5|sha1|sha256|sha384|sha512> <n> <secret> <seed>            → hex
c26 split <secret>                                                       → s1,s2
c26 prf10 <n> <secret> <label> <seed>                                    → hex
c26 prf12 <hash> <n> <secret> <label> <seed>                             → hex
c26 prfv <version> <suite id> <n> <secret> <label> <seed>              → <none|sha256|sha384> hex | panic
c26 master <version> <suite> <pms> <cr> <sr>                            → hex | panic
c26 keys <version> <suite> <ms> <cr> <sr> <mac> <key> <iv>              → 6 hex joined by , | panic
c26 fin <version> <suite> <ms> <msg>,<msg>…                              → sum,client,server | panic
c26 ekm <version> <suite> <ms> <cr> <sr> <label> <ctx|nil> <len>        → ok hex | err | panic
c26 xl <suite13 id> <secret> <label> <ctx> <len>                      → ok hex | panic
c26 ds <hash> <secret> <label> <msgs|nil>                                → ok hex | panic
c26 ext <hash> <new|nil> <cur>                                           → hex
c26 nts <hash> <secret>                                                  → ok hex | panic
c26 tk <suite13> <secret>                                          → ok key,iv | panic
c26 fin13 <hash> <basekey> <msgs>                                        → ok hex | panic
c26 ekm13 <hash> <master> <msgs> <label> <ctx> <len>                     → ok hex | panic
c26 prfseq <version> <suite> <n>:<secret>:<label>:<seed>,…                → <none|sha256|sha384>;hex;hex… (ONE prf closure, several calls)
c26 ekmseq <version> <suite> <ms> <cr> <sr> <label>:<ctx|nil>:<len>,…    → results of the queries on ONE closure joined by ;
c26 ekm13seq <suite13> <master> <msgs> <label>:<ctx|nil>:<len>,…         → same for the TLS 1.3 exporter closure
c26 finseq <version> <suite> <ms> <msg>,<msg>…                           → sum,client,server before the first / after every Write (+ once more)
c26 keyssuite <version> <suite id> <ms> <cr> <sr>                        → 6 hex | panic   (establishKeys: the suite's own lengths, T1 table row)
c26 suitebyid <id>                                                       → id,mac,key,iv,flags | nil   (cipherSuiteByID)
c26 mutual <id,…|-> <want>                                               → id,mac,key,iv,flags | nil   (mutualCipherSuite)
c26 hs13 <suite13> <early|nil> <shared> <msgs>                           → ok cHs,sHs,master | panic  (establishHandshakeKeys)
c26 psk13 <suite13> <resumption secret> <nonce> <truncated hello>        → ok psk,binder | panic  (loadSession / checkForResumption)
c26 app13 <suite13> <master> <msgsSF> <msgsCF>                           → ok cAp,sAp,res | panic
c26 sched13 <suite13> <step>,…   (w:<hex> | ds:<secret>:<label> | fin:<basekey> | exp:<master> | ekm:<label>:<ctx|nil>:<len>)
                                                                         → per step w | ok hex | exp | ok hex/err/panic joined by ;
```
The model functions are pure: a closure / running hash queried n times is the function applied n times (to the transcript
written so far). That is the statement "the derived objects keep no state between queries"; T2 checks it on the real objects.
Suite ids are decimal; the model resolves them with its RFC tables (`rfcSHA384Suites`, `rfcSuites13`), which T1 ties to the tree's tables. -/
namespace ZV.C26
open ZV.Hash

def algOf (s : String) : Option HashAlg :=
  if s == "md5" then some HashAlg.md5
  else if s == "sha1" then some HashAlg.sha1
  else if s == "sha256" then some HashAlg.sha256
  else if s == "sha384" then some HashAlg.sha384
  else if s == "sha512" then some HashAlg.sha512
  else none

def optHex (s : String) : Option (Option Bytes) :=
  if s == "nil" then some none else (ofHex s).map some

/-- TLS ≤ 1.2 suite id → does key derivation use SHA-384 (`flags&suiteSHA384`) -/
def flag (s : String) : Option Bool :=
  s.toNat?.map (fun id => (cipherSuiteByID ZV.Generated.C26.tableImplemented id).elim (rfcSHA384Suites.contains id)
    (rowSHA384 ZV.Generated.C26.suiteSHA384Bit))

/-- TLS 1.3 suite id → (hash, key length) -/
def suite13 (s : String) : Option (HashAlg × Nat) :=
  match s.toNat? with
  | none => none
  | some id =>
    match rfcSuites13.find? (fun r => r.1 == id) with
    | none => none
    | some (_, kl, h) => (algOf h).map (fun a => (a, kl))

def showResB : Res Bytes → String := showRes toHex

def prfHashName : PrfHash → String
  | .none => "none"
  | .sha256 => "sha256"
  | .sha384 => "sha384"

/-- all prefixes, shortest first -/
def prefixes {α} : List α → List (List α)
  | [] => [[]]
  | x :: xs => [] :: (prefixes xs).map (x :: ·)

/-- one exporter query `<label>:<ctx|nil>:<len>` -/
def parseCall (p : List String) : Option (Bytes × Option Bytes × Nat) :=
  match p with
  | [label, ctx, len] =>
    match ofHex label, optHex ctx, len.toNat? with
    | some label, some ctx, some len => some (label, ctx, len)
    | _, _, _ => none
  | _ => none

def ctxBytes : Option Bytes → Bytes
  | none => []
  | some c => c

/-- `sched13`: `msgs` = everything written to the shared transcript so far; `exp` = (master secret, transcript at creation)
of the exporter closure created last. -/
def sched13 (H : Hash13) : List String → Bytes → Option (Bytes × Bytes) → Option (List String)
  | [], _, _ => some []
  | st :: rest, msgs, exp =>
    match st.splitOn ":" with
    | ["w", b] =>
      match ofHex b with
      | some b => (sched13 H rest (msgs ++ b) exp).map ("w" :: ·)
      | none => none
    | ["ds", secret, label] =>
      match ofHex secret, ofHex label with
      | some secret, some label => (sched13 H rest msgs exp).map (showResB (deriveSecret H secret label (some msgs)) :: ·)
      | _, _ => none
    | ["fin", bk] =>
      match ofHex bk with
      | some bk => (sched13 H rest msgs exp).map (showResB (finishedHash13 H bk msgs) :: ·)
      | none => none
    | ["exp", master] =>
      match ofHex master with
      | some master => (sched13 H rest msgs (some (master, msgs))).map ("exp" :: ·)
      | none => none
    | "ekm" :: call =>
      match exp, parseCall call with
      | some (master, emsgs), some (label, ctx, len) =>
        (sched13 H rest msgs exp).map (showResB (exportKeyingMaterial H master emsgs label (ctxBytes ctx) len) :: ·)
      | _, _ => none
    | _ => none

/-- the suite's row of the T1-extracted `implementedCipherSuites` table -/
def suiteRow (s : String) : Option (Nat × Nat × Nat × Nat × Bool) :=
  match s.toNat? with
  | none => none
  | some id => (cipherSuiteByID ZV.Generated.C26.tableImplemented id).map (rowKeyShape ZV.Generated.C26.suiteSHA384Bit)

def showRow : Option SuiteRow → String
  | none => "nil"
  | some r => s!"{r.1},{r.2.1},{r.2.2.1},{r.2.2.2.1},{r.2.2.2.2}"

def handle (args : List String) : String :=
  match args with
  | ["suitebyid", id] =>
    match id.toNat? with
    | some id => showRow (cipherSuiteByID ZV.Generated.C26.tableImplemented id)
    | none => "bad-op"
  | ["mutual", have_, want] =>
    match (if have_ == "-" then some [] else (have_.splitOn ",").mapM String.toNat?), want.toNat? with
    | some h, some w => showRow (mutualCipherSuite ZV.Generated.C26.tableImplemented h w)
    | _, _ => "bad-op"
  | ["keyssuite", v, sid, ms, cr, sr] =>
    match v.toNat?, suiteRow sid, ofHex ms, ofHex cr, ofHex sr with
    | some v, some row, some ms, some cr, some sr =>
      match establishKeys realPrims v row ms cr sr with
      | .ok k => ",".intercalate [toHex k.clientMAC, toHex k.serverMAC, toHex k.clientKey, toHex k.serverKey,
                                  toHex k.clientIV, toHex k.serverIV]
      | .err => "err"
      | .panic => "panic"
    | _, _, _, _, _ => "bad-op"
  | ["hs13", h, early, shared, msgs] =>
    match (suite13 h).map (·.1), optHex early, ofHex shared, ofHex msgs with
    | some a, some early, some shared, some msgs =>
      let H := hash13OfAlg a
      let e := match early with
        | none => earlySecret H none       -- !usingPSK: extract(nil, nil)
        | some e => e                      -- usingPSK: hs.earlySecret
      showRes (fun (k : HsKeys) => toHex k.clientSecret ++ "," ++ toHex k.serverSecret ++ "," ++ toHex k.masterSecret)
        (establishHandshakeKeys H e shared msgs)
    | _, _, _, _ => "bad-op"
  | ["psk13", h, res, nonce, hello] =>
    match (suite13 h).map (·.1), ofHex res, ofHex nonce, ofHex hello with
    | some a, some res, some nonce, some hello =>
      let H := hash13OfAlg a
      showRes (fun (p : Bytes × Bytes) => toHex p.1 ++ "," ++ toHex p.2)
        ((ticketPSK H res nonce).bind fun psk => (pskBinder H psk hello).map fun b => (psk, b))
    | _, _, _, _ => "bad-op"
  | ["app13", h, master, msgsSF, msgsCF] =>
    match (suite13 h).map (·.1), ofHex master, ofHex msgsSF, ofHex msgsCF with
    | some a, some master, some m1, some m2 =>
      let H := hash13OfAlg a
      showRes (fun (p : AppKeys × Bytes) => toHex p.1.clientSecret ++ "," ++ toHex p.1.serverSecret ++ "," ++ toHex p.2)
        ((applicationSecrets H master m1).bind fun k => (resumptionSecret H master m2).map fun r => (k, r))
    | _, _, _, _ => "bad-op"
  | ["prfseq", v, f, calls] =>
    let parse (c : String) : Option (Nat × Bytes × Bytes × Bytes) :=
      match c.splitOn ":" with
      | [n, secret, label, seed] =>
        match n.toNat?, ofHex secret, ofHex label, ofHex seed with
        | some n, some secret, some label, some seed => some (n, secret, label, seed)
        | _, _, _, _ => none
      | _ => none
    match v.toNat?, flag f, (calls.splitOn ",").mapM parse with
    | some v, some f, some calls =>
      match prfAndHashForVersion realPrims v f with
      | .ok (prf, h) => ";".intercalate (prfHashName h :: calls.map (fun (n, secret, label, seed) => toHex (prf n secret label seed)))
      | .err => "err"
      | .panic => "panic"
    | _, _, _ => "bad-op"
  | ["ekmseq", v, f, ms, cr, sr, calls] =>
    match v.toNat?, flag f, ofHex ms, ofHex cr, ofHex sr, (calls.splitOn ",").mapM (fun c => parseCall (c.splitOn ":")) with
    | some v, some f, some ms, some cr, some sr, some calls =>
      ";".intercalate (calls.map (fun (label, ctx, len) => showResB (ekmFromMasterSecret realPrims v f ms cr sr label ctx len)))
    | _, _, _, _, _, _ => "bad-op"
  | ["ekm13seq", h, master, msgs, calls] =>
    match (suite13 h).map (·.1), ofHex master, ofHex msgs, (calls.splitOn ",").mapM (fun c => parseCall (c.splitOn ":")) with
    | some a, some master, some msgs, some calls =>
      ";".intercalate (calls.map (fun (label, ctx, len) =>
        showResB (exportKeyingMaterial (hash13OfAlg a) master msgs label (ctxBytes ctx) len)))
    | _, _, _, _ => "bad-op"
  | ["finseq", v, f, ms, msgs] =>
    match v.toNat?, flag f, ofHex ms, (if msgs == "-" then some [] else (msgs.splitOn ",").mapM ofHex) with
    | some v, some f, some ms, some msgl =>
      let triple (m : Bytes) : Option String :=
        match finishedSum realPrims v f m, clientSum realPrims v f ms m, serverSum realPrims v f ms m with
        | .ok s, .ok c, .ok sv => some (toHex s ++ "," ++ toHex c ++ "," ++ toHex sv)
        | _, _, _ => none
      match ((prefixes msgl).map List.flatten ++ [msgl.flatten]).mapM triple with
      | some l => ";".intercalate l
      | none => "panic"
    | _, _, _, _ => "bad-op"
  | ["sched13", h, steps] =>
    match (suite13 h).map (·.1) with
    | some a =>
      match sched13 (hash13OfAlg a) (steps.splitOn ",") [] none with
      | some l => ";".intercalate l
      | none => "bad-op"
    | none => "bad-op"
  | ["phash", h, n, secret, seed] =>
    match algOf h, n.toNat?, ofHex secret, ofHex seed with
    | some a, some n, some secret, some seed => toHex (pHash (hmac a) n secret seed)
    | _, _, _, _ => "bad-op"
  | ["split", secret] =>
    match ofHex secret with
    | some s => toHex (splitPreMasterSecret s).1 ++ "," ++ toHex (splitPreMasterSecret s).2
    | none => "bad-op"
  | ["prf10", n, secret, label, seed] =>
    match n.toNat?, ofHex secret, ofHex label, ofHex seed with
    | some n, some secret, some label, some seed => toHex (prf10 realPrims n secret label seed)
    | _, _, _, _ => "bad-op"
  | ["prf12", h, n, secret, label, seed] =>
    match algOf h, n.toNat?, ofHex secret, ofHex label, ofHex seed with
    | some a, some n, some secret, some label, some seed => toHex (prf12 (hmac a) n secret label seed)
    | _, _, _, _, _ => "bad-op"
  | ["prfv", v, f, n, secret, label, seed] =>
    match v.toNat?, flag f, n.toNat?, ofHex secret, ofHex label, ofHex seed with
    | some v, some f, some n, some secret, some label, some seed =>
      match prfAndHashForVersion realPrims v f with
      | .ok (prf, h) => prfHashName h ++ " " ++ toHex (prf n secret label seed)
      | .err => "err"
      | .panic => "panic"
    | _, _, _, _, _, _ => "bad-op"
  | ["master", v, f, pms, cr, sr] =>
    match v.toNat?, flag f, ofHex pms, ofHex cr, ofHex sr with
    | some v, some f, some pms, some cr, some sr =>
      match masterFromPreMasterSecret realPrims v f pms cr sr with
      | .ok m => toHex m
      | .err => "err"
      | .panic => "panic"
    | _, _, _, _, _ => "bad-op"
  | ["keys", v, f, ms, cr, sr, mac, key, iv] =>
    match v.toNat?, flag f, ofHex ms, ofHex cr, ofHex sr, mac.toNat?, key.toNat?, iv.toNat? with
    | some v, some f, some ms, some cr, some sr, some mac, some key, some iv =>
      match keysFromMasterSecret realPrims v f ms cr sr mac key iv with
      | .ok k => ",".intercalate [toHex k.clientMAC, toHex k.serverMAC, toHex k.clientKey, toHex k.serverKey,
                                  toHex k.clientIV, toHex k.serverIV]
      | .err => "err"
      | .panic => "panic"
    | _, _, _, _, _, _, _, _ => "bad-op"
  | ["fin", v, f, ms, msgs] =>
    match v.toNat?, flag f, ofHex ms, (msgs.splitOn ",").mapM ofHex with
    | some v, some f, some ms, some msgl =>
      let msgs := msgl.flatten   -- finishedHash.Write is a running hash: only the concatenation matters
      match finishedSum realPrims v f msgs, clientSum realPrims v f ms msgs, serverSum realPrims v f ms msgs with
      | .ok s, .ok c, .ok sv => toHex s ++ "," ++ toHex c ++ "," ++ toHex sv
      | .panic, _, _ => "panic"
      | _, _, _ => "err"
    | _, _, _, _ => "bad-op"
  | ["ekm", v, f, ms, cr, sr, label, ctx, len] =>
    match v.toNat?, flag f, ofHex ms, ofHex cr, ofHex sr, ofHex label, optHex ctx, len.toNat? with
    | some v, some f, some ms, some cr, some sr, some label, some ctx, some len =>
      showResB (ekmFromMasterSecret realPrims v f ms cr sr label ctx len)
    | _, _, _, _, _, _, _, _ => "bad-op"
  | ["xl", h, secret, label, ctx, len] =>
    match (suite13 h).map (·.1), ofHex secret, ofHex label, ofHex ctx, len.toNat? with
    | some a, some secret, some label, some ctx, some len =>
      showResB (expandLabel (hash13OfAlg a) secret label ctx len)
    | _, _, _, _, _ => "bad-op"
  | ["ds", h, secret, label, msgs] =>
    match (suite13 h).map (·.1), ofHex secret, ofHex label, optHex msgs with
    | some a, some secret, some label, some msgs => showResB (deriveSecret (hash13OfAlg a) secret label msgs)
    | _, _, _, _ => "bad-op"
  | ["ext", h, ns, cur] =>
    match (suite13 h).map (·.1), optHex ns, ofHex cur with
    | some a, some ns, some cur => toHex (extract (hash13OfAlg a) ns cur)
    | _, _, _ => "bad-op"
  | ["nts", h, secret] =>
    match (suite13 h).map (·.1), ofHex secret with
    | some a, some secret => showResB (nextTrafficSecret (hash13OfAlg a) secret)
    | _, _ => "bad-op"
  | ["tk", h, secret] =>
    match suite13 h, ofHex secret with
    | some (a, kl), some secret =>
      showRes (fun (p : Bytes × Bytes) => toHex p.1 ++ "," ++ toHex p.2) (trafficKey (hash13OfAlg a) kl secret)
    | _, _ => "bad-op"
  | ["fin13", h, baseKey, msgs] =>
    match (suite13 h).map (·.1), ofHex baseKey, ofHex msgs with
    | some a, some bk, some msgs => showResB (finishedHash13 (hash13OfAlg a) bk msgs)
    | _, _, _ => "bad-op"
  | ["ekm13", h, master, msgs, label, ctx, len] =>
    match (suite13 h).map (·.1), ofHex master, ofHex msgs, ofHex label, ofHex ctx, len.toNat? with
    | some a, some master, some msgs, some label, some ctx, some len =>
      showResB (exportKeyingMaterial (hash13OfAlg a) master msgs label ctx len)
    | _, _, _, _, _, _ => "bad-op"
  | _ => "bad-op"

end ZV.C26
