import ZV.Model.C22
import ZV.Model.C22Der
import ZV.Model.C22Any
/-! line protocol for C22 (see go/props/c22/c22.go):
    `c22 t <name>` · `c22 f <seq>` · `c22 a <name> <seq>` · `c22 d <name>` (DER leg through ZV.Model.C18) · `c22 s` (the schema term) · `c22 u <der>` (Unmarshal of arbitrary DER through the ANY arm, ZV.Model.C22Any);  the canonical text of sequences / names is
    produced here exactly as the Go harness prints it. -/
namespace ZV.C22

def hexStr (bs : Bytes) : String := String.join (bs.map hexOfByte)

def parseOID (s : String) : Option OID :=
  if s == "_" then some [] else (s.splitOn ".").mapM (·.toNat?)

def showOID (o : OID) : String :=
  if o.isEmpty then "_" else ".".intercalate (o.map toString)

def parseVal (s : String) : Option AVal :=
  match s.toList with
  | 's' :: rest => (ofHexChars rest).map .str
  | 'o' :: rest =>
    match (String.ofList rest).splitOn "." with
    | [t, h] =>
      match t.toNat?, ofHexChars h.toList with
      | some tag, some raw => some (.other tag raw)
      | _, _ => none
    | _ => none
  | _ => none

def showVal : AVal → String
  | .str s => "s" ++ hexStr s
  | .other t r => "o" ++ toString t ++ "." ++ hexStr r

def parseATV (s : String) : Option ATV :=
  match s.splitOn "=" with
  | [o, v] =>
    match parseOID o, parseVal v with
    | some t, some val => some { type := t, value := val }
    | _, _ => none
  | _ => none

def showATV (a : ATV) : String := showOID a.type ++ "=" ++ showVal a.value

def parseRDN (s : String) : Option RDN :=
  if s == "e" then some [] else (s.splitOn "+").mapM parseATV

def showRDN (r : RDN) : String :=
  if r.isEmpty then "e" else "+".intercalate (r.map showATV)

/-- `nil` | `-` | rdn{,rdn} -/
def parseSeq (s : String) : Option (Option RDNSeq) :=
  if s == "nil" then some none
  else if s == "-" then some (some [])
  else ((s.splitOn ",").mapM parseRDN).map some

def showSeq : Option RDNSeq → String
  | none => "nil"
  | some [] => "-"
  | some s => ",".intercalate (s.map showRDN)

def fieldKeys : List (String × Field) := Field.all.map (fun f => (f.goName, f))

def parseItem (n : Name) (it : String) : Option Name :=
  match it.splitOn ":" with
  | [key, body] =>
    if key == "N" then ((body.splitOn ";").mapM parseATV).map (fun l => { n with names := l })
    else if key == "X" then ((body.splitOn ";").mapM parseATV).map (fun l => { n with extraNames := l })
    else if key == "CommonName" then (ofHexChars body.toList).map (fun v => n.setS .commonName v)
    else if key == "SerialNumber" then (ofHexChars body.toList).map (fun v => n.setS .serialNumber v)
    else
      match fieldKeys.lookup key, (body.splitOn ";").mapM (fun h => ofHexChars h.toList) with
      | some f, some l => some (n.modify f (fun _ => l))
      | _, _ => none
  | _ => none

def parseName (s : String) : Option Name :=
  if s == "-" then some Name.empty
  else (s.splitOn ",").foldlM parseItem Name.empty

def showSlice (key : String) (l : List Bytes) : List String :=
  if l.isEmpty then [] else [key ++ ":" ++ ";".intercalate (l.map hexStr)]

def showScalar (key : String) (v : Bytes) : List String :=
  if v.isEmpty then [] else [key ++ ":" ++ hexStr v]

def showATVs (key : String) (l : List ATV) : List String :=
  if l.isEmpty then [] else [key ++ ":" ++ ";".intercalate (l.map showATV)]

/-- struct declaration order of `pkix.Name` -/
def nameItems (n : Name) : String :=
  let items :=
    showSlice "Country" n.country ++ showSlice "Organization" n.organization ++
    showSlice "OrganizationalUnit" n.organizationalUnit ++ showSlice "Locality" n.locality ++
    showSlice "Province" n.province ++ showSlice "StreetAddress" n.streetAddress ++
    showSlice "PostalCode" n.postalCode ++ showSlice "DomainComponent" n.domainComponent ++
    showSlice "EmailAddress" n.emailAddress ++ showScalar "SerialNumber" n.serialNumber ++
    showScalar "CommonName" n.commonName ++ showSlice "SerialNumbers" n.serialNumbers ++
    showSlice "CommonNames" n.commonNames ++ showSlice "GivenName" n.givenName ++
    showSlice "Surname" n.surname ++ showSlice "OrganizationIDs" n.organizationIDs ++
    showSlice "JurisdictionLocality" n.jurisdictionLocality ++
    showSlice "JurisdictionProvince" n.jurisdictionProvince ++
    showSlice "JurisdictionCountry" n.jurisdictionCountry ++
    showATVs "N" n.names ++ showATVs "X" n.extraNames
  if items.isEmpty then "-" else ",".intercalate items

def nameDump (n : Name) : String := nameItems n ++ " O=" ++ showSeq n.originalRDNS

/-- the schema term rendered as the harness renders the Go declaration (all field parameters of this type are empty) -/
def showSchema : C18.Schema → String
  | .oid => "oid" | .str => "str"
  | .struct (.fcons p1 s1 (.fcons p2 s2 .fnil)) =>
    "{" ++ (if p1 == {} then "-" else "?") ++ ":" ++ showSchema s1 ++ ";" ++ (if p2 == {} then "-" else "?") ++ ":" ++ showSchema s2 ++ "}"
  | .seqOf sn e => (if sn then "LS(" else "L(") ++ showSchema e ++ ")"
  | _ => "?"

def handle (args : List String) : String :=
  match args with
  | ["s"] => showSchema rdnSchema
  | ["t", ns] =>
    match parseName ns with
    | some n =>
      let seq := toRDN n
      showSeq seq ++ " | " ++ nameDump (fill seq)
    | none => "bad-op"
  | ["f", ss] =>
    match parseSeq ss with
    | some seq =>
      let m := fill seq
      nameDump m ++ " | " ++ showSeq (toRDN m) ++ " | " ++ showSeq (toRDN { m with originalRDNS := none })
    | none => "bad-op"
  | ["a", ns, ss] =>
    match parseName ns, parseSeq ss with
    | some n, some seq =>
      let m := fillInto n seq
      nameDump m ++ " | " ++ showSeq (toRDN m)
    | _, _ => "bad-op"
  | ["d", ns] =>
    match parseName ns with
    | some n =>
      let seq := toRDN n
      let dom := " dom=" ++ (if seqOK (orNil seq) then "1" else "0")
      match marshalSeq seq with
      | .err => "merr" ++ dom
      | .panic => "panic"
      | .ok der =>
        match unmarshalSeq der with
        | .err => hexStr der ++ " uerr" ++ dom
        | .panic => "panic"
        | .ok (dec, rest) =>
          hexStr der ++ " | " ++ showSeq (some dec) ++ " | rest=" ++ toString rest.length ++ " | " ++
            nameDump (fill (some dec)) ++ dom
    | none => "bad-op"
  | ["u", dh] =>
    match (if dh == "-" then some [] else ofHexChars dh.toList) with
    | some der =>
      match unmarshalAny der with
      | .err => "uerr"
      | .panic => "panic"
      | .ok (dec, rest) =>
        let m := fill (some dec)
        let re :=
          if allStrings dec then
            match marshalSeq (some dec) with
            | .ok b => hexStr b
            | .err => "merr"
            | .panic => "panic"
          else "skip"
        showSeq (some dec) ++ " | rest=" ++ toString rest.length ++ " | " ++ nameDump m ++ " | " ++ showSeq (toRDN m) ++ " | re=" ++ re
    | none => "bad-op"
  | _ => "bad-op"

end ZV.C22
