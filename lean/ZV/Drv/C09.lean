import ZV.Model.C09
/-! line protocol for C09 (hex strings, `-` = empty string, `_` = empty list, lists joined by `,`):
    `c09 low <s>`                               → hex of toLowerCaseASCII
    `c09 ip <s>`                                → 16-byte hex of net.ParseIP, or `nil`
    `c09 mh <pattern> <host,host,…>`            → one of `t`/`f`/`p` per host (matchHostnames)
    `c09 vh <oids> <dns,…> <ip,…> <cn> <host,…>` → per host `ok` or `e:<HostnameError.Host>`, joined by `,`
    `c09 em <oids> <dns,…> <ip,…> <cn> <host> <ipstr,…>` → hex of HostnameError{cert, host}.Error() (ipstr = san.String())
    oids: `2.5.29.17;2.5.29.15` or `_`. -/
namespace ZV.C09

def parseList (s : String) : Option (List Str) :=
  if s == "_" then some [] else (s.splitOn ",").mapM ofHex

def parseOid (s : String) : Option (List Nat) := (s.splitOn ".").mapM (·.toNat?)

def parseOids (s : String) : Option (List (List Nat)) :=
  if s == "_" then some [] else (s.splitOn ";").mapM parseOid

def showB : Res Bool → String
  | .ok true => "t"
  | .ok false => "f"
  | .err => "e"
  | .panic => "p"

def showV : Res Verdict → String
  | .ok .accept => "ok"
  | .ok (.reject h) => "e:" ++ toHex h
  | .err => "err"
  | .panic => "panic"

def handle (args : List String) : String :=
  match args with
  | ["low", s] =>
    match ofHex s with
    | some b => toHex (toLowerCaseASCII b)
    | none => "bad-op"
  | ["ip", s] =>
    match ofHex s with
    | some b => match parseIP b with
      | some ip => toHex ip
      | none => "nil"
    | none => "bad-op"
  | ["mh", p, hs] =>
    match ofHex p, parseList hs with
    | some pb, some hl => String.join (hl.map (fun h => showB (matchHostnames pb h)))
    | _, _ => "bad-op"
  | ["vh", oids, dns, ips, cn, hs] =>
    match parseOids oids, parseList dns, parseList ips, ofHex cn, parseList hs with
    | some o, some d, some i, some c, some hl =>
      let cert : Cert := { extOids := o, dnsNames := d, ipAddresses := i, commonName := c }
      ",".intercalate (hl.map (fun h => showV (verifyHostname cert h)))
    | _, _, _, _, _ => "bad-op"
  | ["em", oids, dns, ips, cn, h, istrs] =>
    match parseOids oids, parseList dns, parseList ips, ofHex cn, ofHex h, parseList istrs with
    | some o, some d, some i, some c, some hb, some is =>
      let cert : Cert := { extOids := o, dnsNames := d, ipAddresses := i, commonName := c }
      toHex (hostnameErrorMsg cert hb is)
    | _, _, _, _, _, _ => "bad-op"
  | _ => "bad-op"

end ZV.C09
