import ZV.Model.C17
import ZV.Generated.C17
/-! line protocol for C17 (see go/props/c17/rig/rig.go):
    `c17 scan <start> <max> <tree> <batch> <nf> <nm> <opts> <kinds> <script> <sched>`
    output `ret=<n>;cnt=<certs>,<precerts>,<unparsable>,<nonfatal>;cb=<idx>:<kind><c|p>,…;req=<s>-<e>,…`
    (callbacks sorted by index, requests stably sorted by their `end`).
    `c17 cap …` the same with a kind PATTERN repeated over the tree;
    `c17 seq <n> <10 fields>*n` consecutive scans on one `Scanner` value, outputs joined by `|`. -/
namespace ZV.C17

def parseKind : Char → Option Kind
  | 'a' => some .certMatch | 'b' => some .certOther | 'n' => some .certNonFatal
  | 'u' => some .certGarbage | 'v' => some .certShell
  | 'p' => some .preMatch | 'q' => some .preOther | 'r' => some .preGarbage | 's' => some .preShell
  | _ => none

def parseOpts (s : String) : Option Opts :=
  match s.toList with
  | [p, i, m] =>
    let mk : Option MatcherKind :=
      if m = 'a' then some .all else if m = 'n' then some .none else if m = 's' then some .subject else none
    mk.map (fun mk => ⟨p = 'P', i = 'I', mk⟩)
  | _ => none

def parseTok (s : String) : Option Tok :=
  if s = "e" ∨ s = "t" ∨ s = "f" then some .err else s.toNat?.map .give

def parseScript (s : String) : Option (List (Nat × List Tok)) :=
  if s = "-" then some []
  else (s.splitOn "/").mapM (fun part =>
    match part.splitOn ":" with
    | [e, toks] =>
      match e.toNat?, (toks.splitOn ",").mapM parseTok with
      | some e, some ts => some (e, ts)
      | _, _ => none
    | _ => none)

def lookupScript (tbl : List (Nat × List Tok)) (e : Nat) : List Tok :=
  match tbl.find? (fun p => p.1 == e) with
  | some p => p.2
  | none => []

def schedOf (s : String) (nf nm : Nat) : List Worker :=
  if s = "-" then []
  else s.toList.filterMap (fun c =>
    if nf + nm = 0 then none
    else
      let d := (c.toNat - 48) % (nf + nm)
      some (if d < nf then Worker.f d else Worker.m (d - nf)))

/-- schedule of the bounded model: digit `d` picks thread `d mod (nf+nm+1)`: 0 = the main goroutine of `Scan`,
    then the fetchers, then the matchers -/
def bschedOf (s : String) (nf nm : Nat) : List BWorker :=
  if s = "-" then []
  else s.toList.map (fun c =>
    let d := (c.toNat - 48) % (nf + nm + 1)
    if d = 0 then BWorker.main else if d - 1 < nf then BWorker.f (d - 1) else BWorker.m (d - 1 - nf))

def insertBy {α} (k : α → Nat) (x : α) : List α → List α
  | [] => [x]
  | y :: ys => if k y < k x then y :: insertBy k x ys else x :: y :: ys

/-- stable insertion sort -/
def sortBy {α} (k : α → Nat) (l : List α) : List α := l.foldr (insertBy k) []

def kindChar : Kind → String
  | .certMatch => "a" | .certOther => "b" | .certNonFatal => "n" | .certGarbage => "u" | .certShell => "v"
  | .preMatch => "p" | .preOther => "q" | .preGarbage => "r" | .preShell => "s"

/-- one `Scan` on a `Scanner` value whose counters hold `ob`; returns the output and the counters left behind -/
def handleScanOn (ob : Obj) (start mx tree batch nf nm : Nat) (o : Opts) (kinds : List Kind)
    (tbl : List (Nat × List Tok)) (sched : String) : String × Obj :=
  let stop := stopIndex mx tree
  -- prologue of `Scan`
  let ob0 := resetCounters ob
  if start < stop ∧ batch = 0 then ("hang", ob0)
  else
    -- the BOUNDED model with the channel capacities extracted from the source of `Scan`: main goroutine,
    -- fetchers and matchers under the schedule of the case line, then round-robin to completion
    -- (`bounded_round_robin_finishes`); a run that cannot finish (nf = 0 or nm = 0 with more ranges / entries
    -- than the channel holds) prints `stuck`
    let b0 := binitOn ob0 Gen.fetchesCap Gen.jobsCap start stop batch nf nm (lookupScript tbl)
    let b1 := brun b0 (bschedOf sched nf nm)
    let b2 := broundRobin b1 (bmu b1 + 1)
    let st := b2.st
    if !bfinished b2 then ("stuck", ob0)
    else
      -- cross-check inside the model: per range, the interleaved fetcher sends the requests of `fetchRange`
      let seqReqs := (ranges start stop batch).flatMap (fun r => (fetchRange r.1 r.2 (lookupScript tbl r.2)).2)
      let reqs := sortBy (fun (p : Nat × Nat) => p.2) st.reqlog.reverse
      if nf > 0 ∧ reqs ≠ seqReqs then ("model-inconsistent", ob0)
      else
        let ka := kinds.toArray
        let effs := (sortBy id st.processed).filterMap (fun i => (ka[i]?).map (fun k => (i, k, processEntry o k)))
        if effs.length ≠ st.processed.length then ("index-outside-tree", ob0)
        else
          let pre := ob0.precerts + (effs.map (fun e => e.2.2.pre)).sum
          let unp := ob0.unparsable + (effs.map (fun e => e.2.2.unparsable)).sum
          let nfe := ob0.nonFatal + (effs.map (fun e => e.2.2.nonFatal)).sum
          let cbs := effs.filterMap (fun e =>
            match e.2.2.cb with
            | .none => none
            | .cert => some (toString e.1 ++ ":" ++ kindChar e.2.1 ++ "c")
            | .precert => some (toString e.1 ++ ":" ++ kindChar e.2.1 ++ "p"))
          let rq := reqs.map (fun p => toString p.1 ++ "-" ++ toString p.2)
          ("ret=" ++ toString (scanReturn start st) ++ ";cnt=" ++ toString st.counter ++ "," ++ toString pre ++ ","
            ++ toString unp ++ "," ++ toString nfe ++ ";cb=" ++ (if cbs.isEmpty then "-" else ",".intercalate cbs)
            ++ ";req=" ++ (if rq.isEmpty then "-" else ",".intercalate rq), ⟨st.counter, pre, unp, nfe⟩)

/-- parse the 10 fields of a scan line and run it on `ob`; `pattern = true`: the kinds field is a pattern
    repeated over the tree (`cap` lines) -/
def scanFields (ob : Obj) (pattern : Bool) (f : List String) : Option (String × Obj) :=
  match f with
  | [start, mx, tree, batch, nf, nm, opts, kinds, script, sched] =>
    match start.toNat?, mx.toNat?, tree.toNat?, batch.toNat?, nf.toNat?, nm.toNat?, parseOpts opts,
      (if kinds = "-" then some [] else kinds.toList.mapM parseKind), parseScript script with
    | some start, some mx, some tree, some batch, some nf, some nm, some o, some ks, some tbl =>
      if pattern then
        if tree > 4194304 ∨ (ks.isEmpty ∧ tree ≠ 0) then none
        else
          let pa := ks.toArray
          let full := (List.range tree).filterMap (fun i => pa[i % pa.size]?)
          some (handleScanOn ob start mx tree batch nf nm o full tbl sched)
      else some (handleScanOn ob start mx tree batch nf nm o ks tbl sched)
    | _, _, _, _, _, _, _, _, _ => none
  | _ => none

/-- `n` scans on one value: the counters left by one are what the next one finds -/
def handleSeq : Nat → Obj → List String → Option (List String)
  | 0, _, [] => some []
  | 0, _, _ :: _ => none
  | n + 1, ob, f =>
    match scanFields ob false (f.take 10) with
    | none => none
    | some (out, ob') => (handleSeq n ob' (f.drop 10)).map (fun rest => out :: rest)

def handle (args : List String) : String :=
  match args with
  | "scan" :: f =>
    match scanFields Obj.new false f with
    | some (out, _) => out
    | none => "bad-op"
  | "cap" :: f =>
    match scanFields Obj.new true f with
    | some (out, _) => out
    | none => "bad-op"
  | "seq" :: n :: f =>
    match n.toNat? with
    | some n =>
      if n = 0 ∨ n > 16 then "bad-op"
      else
        match handleSeq n Obj.new f with
        | some outs => "|".intercalate outs
        | none => "bad-op"
    | none => "bad-op"
  | _ => "bad-op"

end ZV.C17
