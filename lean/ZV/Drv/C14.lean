import ZV.Model.C14
/-! line protocol for C14:
    `c14 <serial> <n|e|fw|lw> <entries> <exts> <hdr>`
    entries `-` | `serial:time,…`; exts `-` | `1.2.3/<0|1>/<hex>,…`;
    hdr `version/thisUpdate/nextUpdate/<sig hex>/<issuer>`; issuer `-` | RDNs joined by `;`, attributes by `+`, empty RDN `~`.
    `c14 seq <serial>:<mode>,… <entries> <exts> <hdr>`: the lookups made one after the other on ONE CertificateList object
    (caches built once from it); output = the single-lookup outputs joined by ` | `, each computed on the original CRL.
    An issuer attribute is `oid=<hex of the Go string>` or `oid=#<hex>` (a non-string value, opaque).
    `c14 str <int>`: the cache key `(*big.Int).String()` of a serial. -/
namespace ZV.C14

def parseEntry (s : String) : Option Entry :=
  match s.splitOn ":" with
  | [a, b] =>
    match parseInt a, parseInt b with
    | some x, some y => some ⟨x, y⟩
    | _, _ => none
  | _ => none

def parseList {α} (f : String → Option α) (sep : String) (s : String) : Option (List α) :=
  if s == "-" then some [] else (s.splitOn sep).mapM f

def parseExt (s : String) : Option Ext :=
  match s.splitOn "/" with
  | [o, c, v] =>
    match (o.splitOn ".").mapM String.toNat?, ofHex v with
    | some oid, some val => some ⟨oid, c == "1", val⟩
    | _, _ => none
  | _ => none

def hexStr (bs : Bytes) : String := String.join (bs.map hexOfByte)

def parseAtv (s : String) : Option ZV.C22.ATV :=
  match s.splitOn "=" with
  | [o, v] =>
    match (o.splitOn ".").mapM String.toNat? with
    | some oid =>
      (match v.toList with
       | '#' :: rest => (ofHexChars rest).map (fun b => { type := oid, value := .other 0 b })
       | cs => (ofHexChars cs).map (fun b => { type := oid, value := .str b }))
    | none => none
  | _ => none

def parseRDN (s : String) : Option ZV.C22.RDN :=
  if s == "~" then some [] else (s.splitOn "+").mapM parseAtv

def parseIssuer (s : String) : Option (Option ZV.C22.RDNSeq) :=
  if s == "-" then some none else ((s.splitOn ";").mapM parseRDN).map some

def showOid (o : List Nat) : String := ".".intercalate (o.map toString)
def showExt (e : Ext) : String := showOid e.oid ++ "/" ++ (if e.critical then "1" else "0") ++ "/" ++ toHex e.value
def showExts (l : List Ext) : String := if l.isEmpty then "-" else ",".intercalate (l.map showExt)
def showAtv (a : ZV.C22.ATV) : String :=
  showOid a.type ++ "=" ++ (match a.value with | .str b => hexStr b | .other _ b => "#" ++ hexStr b)
def showRDN (r : ZV.C22.RDN) : String := if r.isEmpty then "~" else "+".intercalate (r.map showAtv)
def showRDNs (l : Option ZV.C22.RDNSeq) : String :=
  match l with
  | none => "-"
  | some l => if l.isEmpty then "-" else ";".intercalate (l.map showRDN)

def showSlice (key : String) (l : List Bytes) : List String :=
  if l.isEmpty then [] else [key ++ ":" ++ ";".intercalate (l.map hexStr)]
def showScalar (key : String) (v : Bytes) : List String :=
  if v.isEmpty then [] else [key ++ ":" ++ hexStr v]

/-- the per-attribute fields of pkix.Name, struct declaration order -/
def showFields (n : ZV.C22.Name) : String :=
  let items :=
    showSlice "Country" n.country ++ showSlice "Organization" n.organization ++
    showSlice "OrganizationalUnit" n.organizationalUnit ++ showSlice "Locality" n.locality ++
    showSlice "Province" n.province ++ showSlice "StreetAddress" n.streetAddress ++
    showSlice "PostalCode" n.postalCode ++ showSlice "DomainComponent" n.domainComponent ++
    showSlice "EmailAddress" n.emailAddress ++ showScalar "SerialNumber" n.serialNumber ++
    showScalar "CommonName" n.commonName ++ showSlice "SerialNumbers" n.serialNumbers ++
    showSlice "CommonNames" n.commonNames ++ showSlice "GivenName" n.givenName ++
    showSlice "Surname" n.surname ++ showSlice "OrganizationIDs" n.organizationIDs ++
    showSlice "JurisdictionLocality" n.jurisdictionLocality ++
    showSlice "JurisdictionProvince" n.jurisdictionProvince ++
    showSlice "JurisdictionCountry" n.jurisdictionCountry ++
    (if n.extraNames.isEmpty then [] else ["X:" ++ ";".intercalate (n.extraNames.map showAtv)])
  if items.isEmpty then "-" else ",".intercalate items

def showRev (r : RevData) : String :=
  "rev=" ++ (if r.isRevoked then "t" else "f") ++
  " time=" ++ (match r.revTime with | none => "z" | some t => toString t) ++
  " num=" ++ toString r.crlNumber ++
  " crit=" ++ showExts r.unknownCritical ++
  " non=" ++ showExts r.unknown ++
  " ver=" ++ toString r.version ++ " this=" ++ toString r.thisUpdate ++ " next=" ++ toString r.nextUpdate ++
  " sig=" ++ toHex r.sig ++ " rdns=" ++ showRDNs r.issuer.originalRDNS ++
  " names=" ++ (if r.issuer.names.isEmpty then "-" else "+".intercalate (r.issuer.names.map showAtv)) ++
  " fields=" ++ showFields r.issuer ++
  " reason=" ++ (match r.entryReason with | none => "nil" | some c => toString c) ++
  " rawx=" ++ showExts r.rawEntryExts

def cacheOf (mode : String) (es : List Entry) : Option (Option Cache) :=
  if mode == "n" then some none
  else if mode == "e" then some (some [])
  else if mode == "fw" then some (some (firstWins es))
  else if mode == "lw" then some (some (lastWins es))
  else none

def parseCRL (entries exts hdr : String) : Option CRL :=
  match parseList parseEntry "," entries, parseList parseExt "," exts, hdr.splitOn "/" with
  | some es, some xs, [v, tu, nu, sg, iss] =>
    match parseInt v, parseInt tu, parseInt nu, ofHex sg, parseIssuer iss with
    | some v, some tu, some nu, some sg, some iss => some ⟨v, tu, nu, iss, sg, es, xs⟩
    | _, _, _, _, _ => none
  | _, _, _ => none

def parseQuery (es : List Entry) (s : String) : Option (Int × Option Cache) :=
  match s.splitOn ":" with
  | [a, m] =>
    match parseInt a, cacheOf m es with
    | some x, some c => some (x, c)
    | _, _ => none
  | _ => none

def handle (args : List String) : String :=
  match args with
  | ["str", i] =>
    match parseInt i with
    | some x => decStr x
    | none => "bad-op"
  | ["seq", queries, entries, exts, hdr] =>
    match parseCRL entries exts hdr with
    | some crl =>
      match (queries.splitOn ",").mapM (parseQuery crl.entries) with
      | some qs => " | ".intercalate ((checkSeq crl qs).map showRev)
      | none => "bad-op"
    | none => "bad-op"
  | [serial, mode, entries, exts, hdr] =>
    match parseInt serial, parseCRL entries exts hdr with
    | some s, some crl =>
      match cacheOf mode crl.entries with
      | some c => showRev (check crl s c)
      | none => "bad-op"
    | _, _ => "bad-op"
  | _ => "bad-op"

end ZV.C14
