import ZV.Model.C15
/-! line protocol for C15 (topic `c15`); byte strings in `Wire.parseBytes` syntax; string lists `~` | `a,b,…`.
    cs-parse <in> <jsonok> <seq> <np> <blocked>                        → ok seq= np= blocked= issuers= | err
    cs-check <in> <jsonok> <seq> <np> <blocked> <serial> <hash>        → err | nil | hit <serial>
    b64-dec <str>   base64.StdEncoding.DecodeString                    → ok <bytes> | err <bytes returned with the error>
    b64-enc <bytes> base64.StdEncoding.EncodeToString                  → <str>
    oc-name <str> <ntbl>  decodePkixName                               → ok <Name.String()> <raw> | err
    oc-parse <recs> <ntbl> <doc>  (recs = `X` (JSON rejected) | list of `N` | subject/pubKeyHash/serialNumber/issuerName
                            (the raw JSON string fields); ntbl entry = der=Name.String() | der=! (asn1 rejects);
                            <doc> = the JSON document, used by the Go side only)          → ok blocked= issuers= | err
    oc-check <recs> <ntbl> <doc> <pool index> <serial> <issuer> <rawSubject> <spkiHash>   → err | nil | blk | ser <n>
    ms-parse <in> <tbl>  (tbl entry = blob=issuer:serial | blob=!)     → ok issuers= | err
    ms-check <in> <tbl> <pool index> <serial> <issuer>                 → err | nil | hit <n> -/
namespace ZV.C15
open ZV.Wire

def bytesLt : Bytes → Bytes → Bool
  | [], [] => false
  | [], _ :: _ => true
  | _ :: _, [] => false
  | a :: as, b :: bs => if a.toNat < b.toNat then true else if a.toNat > b.toNat then false else bytesLt as bs

def insertSorted {V} (x : Str × V) : List (Str × V) → List (Str × V)
  | [] => [x]
  | y :: ys => if bytesLt x.1 y.1 then x :: y :: ys else y :: insertSorted x ys

def sortMap {V} (m : List (Str × V)) : List (Str × V) := m.foldl (fun acc x => insertSorted x acc) []

def showInts (l : List Int) : String := if l.isEmpty then "-" else ".".intercalate (l.map toString)

def showMap (m : List (Str × List Int)) : String :=
  if m.isEmpty then "~" else ";".intercalate ((sortMap m).map (fun (k, l) => toHex k ++ ":" ++ showInts l))

def showStrs (l : List Str) : String := if l.isEmpty then "~" else ",".intercalate (l.map toHex)

def parseStrs (s : String) : Option (List Str) :=
  if s == "~" then some [] else (s.splitOn ",").mapM parseBytes

def parseHdr (ok seq np blocked : String) : Option Hdr :=
  match parseInt seq, parseInt np, parseStrs blocked with
  | some a, some b, some c => some ⟨ok == "1", a, b, c⟩
  | _, _, _ => none

def parseRec (s : String) : Option Rec :=
  if s == "N" then some ⟨true, [], [], [], []⟩
  else
    match s.splitOn "/" with
    | [sj, pk, ser, iss] =>
      match parseBytes sj, parseBytes pk, parseBytes ser, parseBytes iss with
      | some sj, some pk, some ser, some iss => some ⟨false, sj, pk, ser, iss⟩
      | _, _, _, _ => none
    | _ => none

def parseRecs (s : String) : Option (List Rec) :=
  if s == "~" then some [] else (s.splitOn ",").mapM parseRec

def parseNEntry (s : String) : Option (Bytes × Option Str) :=
  match s.splitOn "=" with
  | [b, v] =>
    match parseBytes b with
    | none => none
    | some der =>
      if v == "!" then some (der, none)
      else (parseBytes v).map (fun x => (der, some x))
  | _ => none

def parseNTbl (s : String) : Option (List (Bytes × Option Str)) :=
  if s == "~" then some [] else (s.splitOn ",").mapM parseNEntry

def ntblFun (t : List (Bytes × Option Str)) (b : Bytes) : Option Str :=
  match t.find? (fun e => decide (e.1 = b)) with
  | some (_, v) => v
  | none => none

def parseTblEntry (s : String) : Option (Bytes × Option CertInfo) :=
  match s.splitOn "=" with
  | [b, v] =>
    match parseBytes b with
    | none => none
    | some blob =>
      if v == "!" then some (blob, none)
      else
        match v.splitOn ":" with
        | [i, ser] =>
          match parseBytes i, parseInt ser with
          | some iss, some n => some (blob, some ⟨iss, n⟩)
          | _, _ => none
        | _ => none
  | _ => none

def parseTbl (s : String) : Option (List (Bytes × Option CertInfo)) :=
  if s == "~" then some [] else (s.splitOn ",").mapM parseTblEntry

def tblFun (t : List (Bytes × Option CertInfo)) (b : Bytes) : Option CertInfo :=
  match t.find? (fun e => decide (e.1 = b)) with
  | some (_, ci) => ci
  | none => none

def handle (args : List String) : String :=
  match args with
  | ["cs-parse", inp, ok, seq, np, blocked] =>
    match parseBytes inp, parseHdr ok seq np blocked with
    | some inp, some h =>
      match csParse inp h with
      | .ok s => "ok seq=" ++ toString s.sequence ++ " np=" ++ toString s.numParents ++ " blocked=" ++ showStrs s.blocked ++
                 " issuers=" ++ showMap s.issuers
      | .err => "err"
      | .panic => "panic"
    | _, _ => "bad-op"
  | ["cs-check", inp, ok, seq, np, blocked, serial, hash] =>
    match parseBytes inp, parseHdr ok seq np blocked, parseInt serial, parseBytes hash with
    | some inp, some h, some serial, some hash =>
      match csParse inp h with
      | .ok s => (match csCheck s serial hash with | some n => "hit " ++ toString n | none => "nil")
      | .err => "err"
      | .panic => "panic"
    | _, _, _, _ => "bad-op"
  | ["b64-dec", s] =>
    match parseBytes s with
    | some s => (if (b64Decode s).2 then "err " else "ok ") ++ toHex (b64Decode s).1
    | none => "bad-op"
  | ["b64-enc", b] =>
    match parseBytes b with
    | some b => toHex (b64Encode b)
    | none => "bad-op"
  | ["oc-name", name, ntbl] =>
    match parseBytes name, parseNTbl ntbl with
    | some name, some t =>
      match decodePkixName name (ntblFun t) with
      | .ok (s, raw) => "ok " ++ toHex s ++ " " ++ toHex raw
      | .err => "err"
      | .panic => "panic"
    | _, _ => "bad-op"
  | ["oc-parse", "X", _, _] => "err"          -- the JSON layer rejected the document
  | ["oc-check", "X", _, _, _, _, _, _, _] => "err"
  | ["oc-parse", recs, ntbl, _] =>
    match parseRecs recs, parseNTbl ntbl with
    | some recs, some t =>
      match ocParse recs (ntblFun t) with
      | .ok c => "ok blocked=" ++ (if c.blocked.isEmpty then "~" else ",".intercalate (c.blocked.map (fun b => toHex b.1 ++ "/" ++ toHex b.2))) ++
                 " issuers=" ++ showMap c.issuers
      | .err => "err"
      | .panic => "panic"
    | _, _ => "bad-op"
  | ["oc-check", recs, ntbl, _, _, serial, issuer, raw, spki] =>
    match parseRecs recs, parseNTbl ntbl, parseBytes issuer, parseInt serial, parseBytes raw, parseBytes spki with
    | some recs, some t, some issuer, some serial, some raw, some spki =>
      match ocParse recs (ntblFun t) with
      | .ok c =>
        (match ocCheck c issuer serial raw spki with
         | some .blockedKey => "blk"
         | some (.serial n) => "ser " ++ toString n
         | none => "nil")
      | .err => "err"
      | .panic => "panic"
    | _, _, _, _, _, _ => "bad-op"
  | ["ms-parse", inp, tbl] =>
    match parseBytes inp, parseTbl tbl with
    | some inp, some t =>
      match msParse inp (tblFun t) with
      | .ok d => "ok issuers=" ++ showMap d
      | .err => "err"
      | .panic => "panic"
    | _, _ => "bad-op"
  | ["ms-check", inp, tbl, _, serial, issuer] =>
    match parseBytes inp, parseTbl tbl, parseBytes issuer, parseInt serial with
    | some inp, some t, some issuer, some serial =>
      match msParse inp (tblFun t) with
      | .ok d => (match msCheck d issuer serial with | some n => "hit " ++ toString n | none => "nil")
      | .err => "err"
      | .panic => "panic"
    | _, _, _, _ => "bad-op"
  | _ => "bad-op"

end ZV.C15
