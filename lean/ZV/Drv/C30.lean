import ZV.Model.C30b
/-! line protocol for C30
    `c30 rt  <kind> <fields>`        → `v=<0|1> <hex> ok <dump>` | `v=<0|1> <hex> err` | `panic`   (marshal, then unmarshal of the bytes;
                                       v = value inside the round-trip domain)
    `c30 un  <kind> <params> <hex>`  → `ok <dump>` | `err`                          (unmarshal of arbitrary bytes)
    `c30 pre <kind> <fields>`        → `acc=<lengths of the accepted strict prefixes, or ->` | `panic`
    `c30 wb <clientHello fields>`    → `ok <hex>` | `panic`                          (marshalWithoutBinders)
    `c30 ub <0|1> <fields> <binders>`→ `ok <hex> ok <dump>` | `ok <hex> err` | `panic` ([marshal;] updateBinders; marshal; unmarshal of that)
    `c30 rm  <kind> <params> <hex>`  → `err` | `ok same=<0|1> fresh=<hex>` | `ok fresh=panic` (unmarshal, then marshal without the `raw` cache)
    fields: `name=value;…` (see tls/zv_c30_verif.go for the canonical form). -/
namespace ZV.C30
open ZV.TlsWire

abbrev Fields := List (String × String)

def parseFields (s : String) : Fields :=
  if s == "-" || s == "" then []
  else (s.splitOn ";").filterMap (fun kv =>
    match kv.splitOn "=" with
    | [k, v] => some (k, v)
    | _ => none)

def fget (f : Fields) (k : String) : Option String := (f.find? (·.1 == k)).map (·.2)
def fstr (f : Fields) (k : String) : String := (fget f k).getD ""
def hexB (s : String) : Bytes := if s == "" || s == "-" || s == "~" then [] else (ofHex s).getD []
def fbytes (f : Fields) (k : String) : Bytes := hexB (fstr f k)
def fnat (f : Fields) (k : String) : Nat := (fstr f k).toNat?.getD 0
def fflag (f : Fields) (k : String) : Bool := fnat f k != 0
def flist (f : Fields) (k : String) : List String :=
  let v := fstr f k
  if v == "" || v == "-" || v == "~" then [] else v.splitOn ","
def fbyteList (f : Fields) (k : String) : List Bytes := (flist f k).map hexB
def fnatList (f : Fields) (k : String) : List Nat := (flist f k).map (fun s => s.toNat?.getD 0)
/-- `~`/absent = nil -/
def fbytesNil (f : Fields) (k : String) : Option Bytes :=
  match fget f k with
  | none => none
  | some v => if v == "~" then none else some (hexB v)
def fbyteListNil (f : Fields) (k : String) : Option (List Bytes) :=
  match fget f k with
  | none => none
  | some v => if v == "~" then none else some (fbyteList f k)
def fpairs (f : Fields) (k : String) : List (String × String) :=
  (flist f k).filterMap (fun s => match s.splitOn ":" with | [a, b] => some (a, b) | _ => none)

def sBool (b : Bool) : String := if b then "1" else "0"
def sList (l : List String) : String := if l.isEmpty then "-" else ",".intercalate l
def sByteList (l : List Bytes) : String := sList (l.map toHex)
def sNatList (l : List Nat) : String := sList (l.map toString)
def sHexNil : Option Bytes → String
  | none => "~"
  | some b => toHex b
def sByteListNil : Option (List Bytes) → String
  | none => "~"
  | some l => sByteList l

def certOf (f : Fields) : Cert := ⟨fbyteList f "certificates", fbytesNil f "ocspStaple", fbyteListNil f "sctList"⟩
def sCert (c : Cert) : String :=
  s!"certificates={sByteList c.certs};ocspStaple={sHexNil c.ocsp};sctList={sByteListNil c.scts}"

def shOf (f : Fields) : ServerHello :=
  let ks := match fpairs f "serverShare" with | [(g, d)] => (g.toNat?.getD 0, hexB d) | _ => (0, [])
  { vers := fnat f "vers", random := fbytes f "random", sessionId := fbytes f "sessionId", cipherSuite := fnat f "cipherSuite",
    compressionMethod := fnat f "compressionMethod", ocspStapling := fflag f "ocspStapling", ticketSupported := fflag f "ticketSupported",
    secureRenegotiationSupported := fflag f "secureRenegotiationSupported", secureRenegotiation := fbytes f "secureRenegotiation",
    extendedMasterSecret := fflag f "extendedMasterSecret", alpnProtocol := fbytes f "alpnProtocol", scts := fbyteList f "scts",
    supportedVersion := fnat f "supportedVersion", serverShareGroup := ks.1, serverShareData := ks.2,
    selectedIdentityPresent := fflag f "selectedIdentityPresent", selectedIdentity := fnat f "selectedIdentity",
    supportedPoints := fbytes f "supportedPoints", cookie := fbytes f "cookie", selectedGroup := fnat f "selectedGroup",
    unknownExtensions := fbyteList f "unknownExtensions" }

def sSh (m : ServerHello) : String :=
  let ks := if m.serverShareGroup != 0 || !m.serverShareData.isEmpty then s!"{m.serverShareGroup}:{toHex m.serverShareData}" else "-"
  s!"vers={m.vers};random={toHex m.random};sessionId={toHex m.sessionId};cipherSuite={m.cipherSuite};compressionMethod={m.compressionMethod};" ++
  s!"ocspStapling={sBool m.ocspStapling};ticketSupported={sBool m.ticketSupported};" ++
  s!"secureRenegotiationSupported={sBool m.secureRenegotiationSupported};secureRenegotiation={toHex m.secureRenegotiation};" ++
  s!"extendedMasterSecret={sBool m.extendedMasterSecret};alpnProtocol={toHex m.alpnProtocol};scts={sByteList m.scts};" ++
  s!"supportedVersion={m.supportedVersion};serverShare={ks};selectedIdentityPresent={sBool m.selectedIdentityPresent};" ++
  s!"selectedIdentity={m.selectedIdentity};supportedPoints={toHex m.supportedPoints};cookie={toHex m.cookie};" ++
  s!"selectedGroup={m.selectedGroup};unknownExtensions={sByteList m.unknownExtensions}"

def chOf (f : Fields) : ClientHello :=
  { vers := fnat f "vers", random := fbytes f "random", sessionId := fbytes f "sessionId", cipherSuites := fnatList f "cipherSuites",
    compressionMethods := fbytes f "compressionMethods", serverName := fbytes f "serverName", ocspStapling := fflag f "ocspStapling",
    supportedCurves := fnatList f "supportedCurves", supportedPoints := fbytes f "supportedPoints",
    ticketSupported := fflag f "ticketSupported", sessionTicket := fbytes f "sessionTicket",
    sigAlgs := fnatList f "supportedSignatureAlgorithms", sigAlgsCert := fnatList f "supportedSignatureAlgorithmsCert",
    secureRenegotiationSupported := fflag f "secureRenegotiationSupported", secureRenegotiation := fbytes f "secureRenegotiation",
    extendedRandomEnabled := fflag f "extendedRandomEnabled", extendedRandom := fbytes f "extendedRandom",
    extendedMasterSecret := fflag f "extendedMasterSecret", alpnProtocols := fbyteList f "alpnProtocols", scts := fflag f "scts",
    supportedVersions := fnatList f "supportedVersions", cookie := fbytes f "cookie",
    keyShares := (fpairs f "keyShares").map (fun p => (p.1.toNat?.getD 0, hexB p.2)), earlyData := fflag f "earlyData",
    pskModes := fbytes f "pskModes", pskIdentities := (fpairs f "pskIdentities").map (fun p => (hexB p.1, p.2.toNat?.getD 0)),
    pskBinders := fbyteList f "pskBinders" }

def sCh (m : ClientHello) : String :=
  s!"vers={m.vers};random={toHex m.random};sessionId={toHex m.sessionId};cipherSuites={sNatList m.cipherSuites};" ++
  s!"compressionMethods={toHex m.compressionMethods};serverName={toHex m.serverName};ocspStapling={sBool m.ocspStapling};" ++
  s!"supportedCurves={sNatList m.supportedCurves};supportedPoints={toHex m.supportedPoints};ticketSupported={sBool m.ticketSupported};" ++
  s!"sessionTicket={toHex m.sessionTicket};supportedSignatureAlgorithms={sNatList m.sigAlgs};" ++
  s!"supportedSignatureAlgorithmsCert={sNatList m.sigAlgsCert};secureRenegotiationSupported={sBool m.secureRenegotiationSupported};" ++
  s!"secureRenegotiation={toHex m.secureRenegotiation};extendedRandomEnabled={sBool m.extendedRandomEnabled};" ++
  s!"extendedRandom={toHex m.extendedRandom};extendedMasterSecret={sBool m.extendedMasterSecret};" ++
  s!"alpnProtocols={sByteList m.alpnProtocols};scts={sBool m.scts};supportedVersions={sNatList m.supportedVersions};" ++
  s!"cookie={toHex m.cookie};keyShares={sList (m.keyShares.map (fun k => s!"{k.1}:{toHex k.2}"))};earlyData={sBool m.earlyData};" ++
  s!"pskModes={toHex m.pskModes};pskIdentities={sList (m.pskIdentities.map (fun p => s!"{toHex p.1}:{p.2}"))};" ++
  s!"pskBinders={sByteList m.pskBinders}"

/-- a kind, packaged as: encoder from fields, decoder (given the parameter fields) to a dump -/
structure Kind where
  ser : Fields → Option Bytes
  par : Fields → Bytes → Option String
  valid : Fields → Bool
  rm : Fields → Bytes → Option (Option Bytes)

def mk {α} (m : Fields → MFmt α) (ofF : Fields → α) (dump : Fields → α → String) (valid : Fields → α → Bool := fun _ _ => true) : Kind :=
  ⟨fun f => (m f).ser (ofF f), fun f s => ((m f).par s).map (dump f), fun f => valid f (ofF f),
   fun f s => remarshal (m f) s⟩

def kindOf (k : String) : Option Kind :=
  match k with
  | "finished" => some (mk (fun _ => finished) (fun f => ((), fbytes f "verifyData")) (fun _ x => s!"verifyData={toHex x.2}"))
  | "certificate" => some (mk (fun _ => certificate) (fun f => fbyteList f "certificates") (fun _ x => s!"certificates={sByteList x}")
      (fun _ x => x.all nonEmpty))
  | "serverHelloDone" => some (mk (fun _ => serverHelloDone) (fun _ => ()) (fun _ _ => "-"))
  | "helloRequest" => some (mk (fun _ => helloRequest) (fun _ => ()) (fun _ _ => "-"))
  | "endOfEarlyData" => some (mk (fun _ => endOfEarlyData) (fun _ => ()) (fun _ _ => "-"))
  | "clientKeyExchange" => some (mk (fun _ => clientKeyExchange) (fun f => fbytes f "ciphertext") (fun _ x => s!"ciphertext={toHex x}"))
  | "serverKeyExchange" => some (mk (fun _ => serverKeyExchange) (fun f => fbytes f "key") (fun _ x => s!"key={toHex x}"))
  | "certificateStatus" => some (mk (fun _ => certificateStatus) (fun f => ((), fbytes f "response")) (fun _ x => s!"response={toHex x.2}")
      (fun _ x => nonEmpty x.2))
  | "newSessionTicket" => some (mk (fun _ => newSessionTicket) (fun f => (fnat f "lifetimeHint", fbytes f "ticket"))
      (fun _ x => s!"ticket={toHex x.2};lifetimeHint={x.1}"))
  | "certificateRequest" => some (mk (fun f => certificateRequest (fflag f "hasSignatureAlgorithm"))
      (fun f => (fbytes f "certificateTypes", fnatList f "supportedSignatureAlgorithms", fbyteList f "certificateAuthorities"))
      (fun f x => s!"hasSignatureAlgorithm={sBool (fflag f "hasSignatureAlgorithm")};certificateTypes={toHex x.1};" ++
                  s!"supportedSignatureAlgorithms={sNatList x.2.1};certificateAuthorities={sByteList x.2.2}")
      (fun f x => nonEmpty x.1 && (fflag f "hasSignatureAlgorithm" || x.2.1.isEmpty)))
  | "certificateVerify" => some (mk (fun f => certificateVerify (fflag f "hasSignatureAlgorithm"))
      (fun f => (fnat f "signatureAlgorithm", fbytes f "signature"))
      (fun f x => s!"hasSignatureAlgorithm={sBool (fflag f "hasSignatureAlgorithm")};signatureAlgorithm={x.1};signature={toHex x.2}")
      (fun f x => fflag f "hasSignatureAlgorithm" || x.1 == 0))
  | "sessionState" => some (mk (fun _ => sessionState)
      (fun f => (fnat f "vers", fnat f "cipherSuite", fnat f "createdAt", fbytes f "masterSecret", fbyteList f "certificates"))
      (fun _ x => s!"vers={x.1};cipherSuite={x.2.1};createdAt={x.2.2.1};masterSecret={toHex x.2.2.2.1};certificates={sByteList x.2.2.2.2}")
      (fun _ x => nonEmpty x.2.2.2.1))
  | "sessionStateTLS13" => some (mk (fun _ => sessionStateTLS13)
      (fun f => ((), (), fnat f "cipherSuite", fnat f "createdAt", fbytes f "resumptionSecret", certOf f))
      (fun _ x => s!"cipherSuite={x.2.2.1};createdAt={x.2.2.2.1};resumptionSecret={toHex x.2.2.2.2.1};{sCert x.2.2.2.2.2}")
      (fun _ x => nonEmpty x.2.2.2.2.1 && validCertB x.2.2.2.2.2))
  | "encryptedExtensions" => some (mk (fun _ => encryptedExtensions) (fun f => fbytes f "alpnProtocol") (fun _ x => s!"alpnProtocol={toHex x}"))
  | "keyUpdate" => some (mk (fun _ => keyUpdate) (fun f => fnat f "updateRequested") (fun _ x => s!"updateRequested={x}")
      (fun _ x => x == 0 || x == 1))
  | "newSessionTicketTLS13" => some (mk (fun _ => newSessionTicketTLS13)
      (fun f => (fnat f "lifetime", fnat f "ageAdd", fbytes f "nonce", fbytes f "label", fnat f "maxEarlyData"))
      (fun _ x => s!"lifetime={x.1};ageAdd={x.2.1};nonce={toHex x.2.2.1};label={toHex x.2.2.2.1};maxEarlyData={x.2.2.2.2}"))
  | "certificateRequestTLS13" => some (mk (fun _ => certificateRequestTLS13)
      (fun f => ⟨fflag f "ocspStapling", fflag f "scts", fnatList f "supportedSignatureAlgorithms",
                 fnatList f "supportedSignatureAlgorithmsCert", fbyteList f "certificateAuthorities"⟩)
      (fun _ m => s!"ocspStapling={sBool m.ocspStapling};scts={sBool m.scts};supportedSignatureAlgorithms={sNatList m.sigAlgs};" ++
                  s!"supportedSignatureAlgorithmsCert={sNatList m.sigAlgsCert};certificateAuthorities={sByteList m.cas}")
      (fun _ m => m.cas.all nonEmpty))
  | "certificateTLS13" => some (mk (fun _ => certificateTLS13) (fun f => (certOf f, fflag f "ocspStapling", fflag f "scts"))
      (fun _ x => s!"{sCert x.1};ocspStapling={sBool x.2.1};scts={sBool x.2.2}")
      (fun _ x => validCertB x.1 && x.2.1 == x.1.ocsp.isSome && x.2.2 == x.1.scts.isSome))
  | "serverHello" => some (mk (fun _ => serverHello) shOf (fun _ => sSh) (fun _ => validSHB))
  | "clientHello" => some (mk (fun _ => clientHello) chOf (fun _ => sCh) (fun _ => validCHB))
  | _ => none

def handle (args : List String) : String :=
  match args with
  | ["rt", kind, fields] =>
    match kindOf kind with
    | none => "bad-kind"
    | some k =>
      let f := parseFields fields
      match k.ser f with
      | none => "panic"
      | some bs =>
        let v := if k.valid f then "v=1 " else "v=0 "
        match k.par f bs with
        | none => v ++ toHex bs ++ " err"
        | some d => v ++ toHex bs ++ " ok " ++ d
  | ["un", kind, params, hex] =>
    match kindOf kind, ofHex hex with
    | some k, some bs =>
      match k.par (parseFields params) bs with
      | none => "err"
      | some d => "ok " ++ d
    | _, _ => "bad-op"
  | ["pre", kind, fields] =>
    match kindOf kind with
    | none => "bad-kind"
    | some k =>
      let f := parseFields fields
      match k.ser f with
      | none => "panic"
      | some bs => "acc=" ++ sNatList (acceptedPrefixes (k.par f) bs)
  | ["wb", fields] =>
    match marshalWithoutBinders (chOf (parseFields fields)) with
    | .ok bs => "ok " ++ toHex bs
    | _ => "panic"
  | ["ub", cached, fields, binders] =>
    let new := if binders == "-" then [] else (binders.splitOn ",").map hexB
    match updateScenario (chOf (parseFields fields)) (cached == "1") new with
    | .ok bs =>
      (match clientHello.par bs with
       | none => "ok " ++ toHex bs ++ " err"
       | some m => "ok " ++ toHex bs ++ " ok " ++ sCh m)
    | _ => "panic"
  | ["rm", kind, params, hex] =>
    match kindOf kind, ofHex hex with
    | some k, some bs =>
      match k.rm (parseFields params) bs with
      | none => "err"
      | some none => "ok fresh=panic"
      | some (some fr) => "ok same=" ++ sBool (fr == bs) ++ " fresh=" ++ toHex fr
    | _, _ => "bad-op"
  | _ => "bad-op"

end ZV.C30
