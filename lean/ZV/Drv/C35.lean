import ZV.Model.C35
/-! line protocol for C35:  `c35 <cap> <op>,<op>,…`  with `p<key>:<id|n>` / `g<key>`;
    output: one token per `Get`:  `<id|n>/<t|f>` joined by `,` (or `-` when there is none). -/
namespace ZV.C35

def parseOp (s : String) : Option Op :=
  match s.toList with
  | 'p' :: rest =>
    match (String.ofList rest).splitOn ":" with
    | [k, v] =>
      match k.toNat? with
      | none => none
      | some kk => if v == "n" then some (.put kk none) else v.toNat?.map (fun i => .put kk (some i))
    | _ => none
  | 'g' :: rest => (String.ofList rest).toNat?.map .get
  | _ => none

def showOut : Option (Val × Bool) → Option String
  | none => none
  | some (v, b) => some ((match v with | none => "n" | some i => toString i) ++ "/" ++ (if b then "t" else "f"))

def showVal : Val → String
  | none => "n"
  | some i => toString i

def commaOrDash (l : List String) : String := if l.isEmpty then "-" else ",".intercalate l

/-- `c35 st <cap> <ops>`: the internal state after the history (see `tls.ZVC35Dump`). -/
def showState (c : Cache) : String :=
  "cap=" ++ toString c.cap ++ " len=" ++ toString c.q.length ++
  " q=" ++ commaOrDash (c.q.map (fun e => toString e.1 ++ ":" ++ showVal e.2)) ++
  " m=" ++ commaOrDash ((mKeys c).map toString)

/-- a call token of `c35 acc`: `p<k>:<v>` or `g<k>=<id|n>/<t|f>` -/
def parseCall (s : String) : Option Call :=
  match s.splitOn "=" with
  | [o] => (parseOp o).bind (fun op => match op with | .put _ _ => some (op, none) | .get _ => none)
  | [o, r] =>
    match parseOp o, r.splitOn "/" with
    | some (.get k), [v, b] =>
      let vv : Option Val := if v == "n" then some none else v.toNat?.map some
      let bb : Option Bool := if b == "t" then some true else if b == "f" then some false else none
      match vv, bb with
      | some v', some b' => some (.get k, some (v', b'))
      | _, _ => none
    | _, _ => none
  | _ => none

def handle (args : List String) : String :=
  match args with
  | ["st", cap, ops] =>
    match parseInt cap, (ops.splitOn ",").mapM parseOp with
    | some c, some os => showState (run (new c) os).1
    | _, _ => "bad-op"
  | ["acc", cap, calls] =>
    match parseInt cap, (calls.splitOn ",").mapM parseCall with
    | some c, some cs => if accepts (new c) cs then "acc" else "rej"
    | _, _ => "bad-op"
  | [cap, ops] =>
    match parseInt cap, (ops.splitOn ",").mapM parseOp with
    | some c, some os =>
      let outs := (run (new c) os).2.filterMap showOut
      if outs.isEmpty then "-" else ",".intercalate outs
    | _, _ => "bad-op"
  | _ => "bad-op"

end ZV.C35
