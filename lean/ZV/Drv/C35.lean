import ZV.Model.C35
/-! line protocol for C35:  `c35 <cap> <op>,<op>,…`  with `p<key>:<id|n>` / `g<key>`;
    output: one token per `Get`:  `<id|n>/<t|f>` joined by `,` (or `-` when there is none). -/
namespace ZV.C35

def parseOp (s : String) : Option Op :=
  match s.toList with
  | 'p' :: rest =>
    match (String.ofList rest).splitOn ":" with
    | [k, v] =>
      match k.toNat? with
      | none => none
      | some kk => if v == "n" then some (.put kk none) else v.toNat?.map (fun i => .put kk (some i))
    | _ => none
  | 'g' :: rest => (String.ofList rest).toNat?.map .get
  | _ => none

def showOut : Option (Val × Bool) → Option String
  | none => none
  | some (v, b) => some ((match v with | none => "n" | some i => toString i) ++ "/" ++ (if b then "t" else "f"))

def handle (args : List String) : String :=
  match args with
  | [cap, ops] =>
    match parseInt cap, (ops.splitOn ",").mapM parseOp with
    | some c, some os =>
      let outs := (run (new c) os).2.filterMap showOut
      if outs.isEmpty then "-" else ",".intercalate outs
    | _, _ => "bad-op"
  | _ => "bad-op"

end ZV.C35
