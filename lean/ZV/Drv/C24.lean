import ZV.Model.C24
/-! line protocol for C24
  `c24 neg cmin cmax csuites cforce ccurves calpn smin smax ssuites sprefer scurves salpn skey srand`
     lists: comma-separated decimals, `d` = nil (library default), `-` = empty
     → `ok v=<n> s=<n> a=<id|-> can=<n|12|11>` | `fail` | `unmodelled`
  `c24 seq <n> (<the 14 neg fields> <ccache: c|n> <stickets: x | key-index list>){n}`
     n connections, one after the other, through ONE client session cache (ccache=c: this connection's client
     Config uses it) against servers whose ticket keys are SetSessionTicketKeys(list) (x = SessionTicketsDisabled)
     → per connection `ok v= s= a= can= r=<0|1 DidResume> t=<k|p|d cache entry kept/put/deleted>` | `fail t=<k|d>`, joined by ` | `
  `c24 lsn <n> <lk> (<the 14 neg fields> <ccache: c|n> <hook> <pk>){n}`
     n connections through ONE client session cache to ONE listener Config (server fields of the first step, ticket-key
     setting lk: a = auto-managed | x = SessionTicketsDisabled | f<i> = SessionTicketKey field | key-index list =
     SetSessionTicketKeys) whose GetConfigForClient is, per connection, hook: 0 unset | n returns nil | c returns
     listener.Clone() | p / s returns a new / long-lived Config made of this step's server fields (optional suffix g:
     certificate through GetCertificate, h: GetCertificate returns nil and Certificates is used - no effect on the model); pk = what is set on the returned Config: i nothing
     | x SessionTicketsDisabled | f<i> | key-index list
     → as `seq`
  `c24 mv <min> <max> <peer list>`  → `<version>` | `none`        (Config.mutualVersion)
  `c24 deprio <list>`               → list | `unmodelled`         (deprioritizeAES)
  `c24 sel <pref> <sup> <vers> <ecdheOk> <ecSignOk> <rsaSignOk> <rsaDecryptOk>` → id | `none`
-/
namespace ZV.C24

def parseList (s : String) : Option (Option (List Nat)) :=
  if s == "d" then some none
  else if s == "-" then some (some [])
  else ((s.splitOn ",").mapM String.toNat?).map some

def showList (l : List Nat) : String :=
  if l.isEmpty then "-" else ",".intercalate (l.map toString)

def parseKey : String → Option KeyType
  | "rsa" => some .rsa | "ecdsa" => some .ecdsa | "ed25519" => some .ed25519 | _ => none

def parseCanary : String → Option Canary
  | "n" => some .none | "c12" => some .c12 | "c11" => some .c11 | _ => none

def showCanary : Canary → String
  | .none => "n" | .c12 => "12" | .c11 => "11"

def parseBool : String → Option Bool
  | "1" => some true | "0" => some false | _ => none

def parseConn : List String → Option Conn
  | [cmin, cmax, cs, cf, cc, ca, smin, smax, ss, sp, sc, sa, sk, sr, cch, stk] =>
    match cmin.toNat?, cmax.toNat?, parseList cs, parseBool cf, parseList cc, parseList ca,
          smin.toNat?, smax.toNat?, parseList ss, parseBool sp, parseList sc, parseList sa, parseKey sk, parseCanary sr with
    | some cmin, some cmax, some cs, some cf, some cc, some ca,
      some smin, some smax, some ss, some sp, some sc, some sa, some sk, some sr =>
      let useCache : Option Bool := if cch == "c" then some true else if cch == "n" then some false else none
      let tkeys : Option (Option (List Nat)) :=
        if stk == "x" then some none else
        match parseList stk with
        | some (some (k :: ks)) => some (some (k :: ks))
        | _ => none
      match useCache, tkeys with
      | some useCache, some tkeys =>
        some { c := { minV := cmin, maxV := cmax, suites := cs, force := cf, curves := cc, alpn := ca.getD [] },
               s := { minV := smin, maxV := smax, suites := ss, prefer := sp, curves := sc, alpn := sa.getD [], key := sk, rand := sr },
               useCache, tkeys }
      | _, _ => none
    | _, _, _, _, _, _, _, _, _, _, _, _, _, _ => none
  | _ => none

/-- split the argument list into chunks of 16 fields (fuel = the number of chunks announced) -/
def parseConns : Nat → List String → Option (List Conn)
  | 0, [] => some []
  | 0, _ :: _ => none
  | n + 1, l =>
    match parseConn (l.take 16), parseConns n (l.drop 16) with
    | some k, some ks => some (k :: ks)
    | _, _ => none

/-- `a` / `i` = nothing set, `x` = tickets disabled, `f<i>` / list = explicit keys -/
def parseKeyCfg (s : String) : Option (Option KeyCfg) :=
  if s == "a" || s == "i" then some none
  else if s == "x" then some (some { disabled := true, keys := [] })
  else if s.startsWith "f" then
    match (s.drop 1).toString.toNat? with
    | some k => some (some { disabled := false, keys := [k] })
    | none => none
  else match parseList s with
    | some (some (k :: ks)) => some (some { disabled := false, keys := k :: ks })
    | _ => none

def parseHook (s : String) : Option Hook :=
  let h := if (s.endsWith "g" || s.endsWith "h") && s.length == 2 then (s.take 1).toString else s
  if h == "0" then some .unset else if h == "n" then some .retNil else if h == "c" then some .clone
  else if h == "p" || h == "s" then some .fresh else none

def parseLStep : List String → Option LStep
  | [cmin, cmax, cs, cf, cc, ca, smin, smax, ss, sp, sc, sa, sk, sr, cch, hk, pk] =>
    match parseConn [cmin, cmax, cs, cf, cc, ca, smin, smax, ss, sp, sc, sa, sk, sr, cch, "x"], parseHook hk, parseKeyCfg pk with
    | some k, some h, some pk =>
      -- hooks that return no Config take no key setting
      if (h == .unset || h == .retNil) && pk.isSome then none
      else some { c := k.c, s := k.s, useCache := k.useCache, hook := h, pk }
    | _, _, _ => none
  | _ => none

def parseLSteps : Nat → List String → Option (List LStep)
  | 0, [] => some []
  | 0, _ :: _ => none
  | n + 1, l =>
    match parseLStep (l.take 17), parseLSteps n (l.drop 17) with
    | some k, some ks => some (k :: ks)
    | _, _ => none

def showEv : CacheEv → String
  | .keep => "k" | .put => "p" | .del => "d"

def showStep (o : StepOut) : Option String :=
  match o.res with
  | .unmodelled => none
  | .fail => some s!"fail t={showEv o.ev}"
  | .done r => some s!"ok v={r.vers} s={r.suite} a={match r.alpn with | none => "-" | some a => toString a} can={showCanary r.canary} r={if o.resumed then 1 else 0} t={showEv o.ev}"

def handle (args : List String) : String :=
  match args with
  | "seq" :: n :: rest =>
    match n.toNat? with
    | none => "bad-op"
    | some n =>
      if n == 0 || n > 8 then "bad-op" else
      match parseConns n rest with
      | none => "bad-op"
      | some ks =>
        match (runSeq none ks).mapM showStep with
        | none => "unmodelled"
        | some l => " | ".intercalate l
  | "lsn" :: n :: lk :: rest =>
    match n.toNat?, parseKeyCfg lk with
    | some n, some lk =>
      if n == 0 || n > 8 then "bad-op" else
      match parseLSteps n rest with
      | some (st :: sts) =>
        match (runLsn st.s (lk.getD { disabled := false, keys := [] }) none (st :: sts)).mapM showStep with
        | none => "unmodelled"
        | some l => " | ".intercalate l
      | _ => "bad-op"
    | _, _ => "bad-op"
  | ["neg", cmin, cmax, cs, cf, cc, ca, smin, smax, ss, sp, sc, sa, sk, sr] =>
    match cmin.toNat?, cmax.toNat?, parseList cs, parseBool cf, parseList cc, parseList ca,
          smin.toNat?, smax.toNat?, parseList ss, parseBool sp, parseList sc, parseList sa, parseKey sk, parseCanary sr with
    | some cmin, some cmax, some cs, some cf, some cc, some ca,
      some smin, some smax, some ss, some sp, some sc, some sa, some sk, some sr =>
      let c : Client := { minV := cmin, maxV := cmax, suites := cs, force := cf, curves := cc, alpn := ca.getD [] }
      let s : Server := { minV := smin, maxV := smax, suites := ss, prefer := sp, curves := sc, alpn := sa.getD [],
                          key := sk, rand := sr }
      match negotiate c s with
      | .fail => "fail"
      | .unmodelled => "unmodelled"
      | .done o => s!"ok v={o.vers} s={o.suite} a={match o.alpn with | none => "-" | some a => toString a} can={showCanary o.canary}"
    | _, _, _, _, _, _, _, _, _, _, _, _, _, _ => "bad-op"
  | ["mv", mn, mx, peer] =>
    match mn.toNat?, mx.toNat?, parseList peer with
    | some mn, some mx, some (some p) =>
      match mutualVersion (configVersions Gen.supportedVersions mn mx) p with
      | some v => toString v
      | none => "none"
    | _, _, _ => "bad-op"
  | ["deprio", l] =>
    match parseList l with
    | some (some l) => match deprio l with | some r => showList r | none => "unmodelled"
    | _ => "bad-op"
  | ["sel", pref, sup, vers, a, b, c, d] =>
    match parseList pref, parseList sup, vers.toNat?, parseBool a, parseBool b, parseBool c, parseBool d with
    | some (some pref), some (some sup), some vers, some a, some b, some c, some d =>
      match selectCipherSuite pref sup (cipherSuiteOk { vers, ecdheOk := a, ecSignOk := b, rsaSignOk := c, rsaDecryptOk := d }) with
      | some r => toString r.id
      | none => "none"
    | _, _, _, _, _, _, _ => "bad-op"
  | _ => "bad-op"

end ZV.C24
