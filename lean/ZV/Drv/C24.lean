import ZV.Model.C24
/-! line protocol for C24
  `c24 neg cmin cmax csuites cforce ccurves calpn smin smax ssuites sprefer scurves salpn skey srand`
     lists: comma-separated decimals, `d` = nil (library default), `-` = empty
     → `ok v=<n> s=<n> a=<id|-> can=<n|12|11>` | `fail` | `unmodelled`
  `c24 mv <min> <max> <peer list>`  → `<version>` | `none`        (Config.mutualVersion)
  `c24 deprio <list>`               → list | `unmodelled`         (deprioritizeAES)
  `c24 sel <pref> <sup> <vers> <ecdheOk> <ecSignOk> <rsaSignOk> <rsaDecryptOk>` → id | `none`
-/
namespace ZV.C24

def parseList (s : String) : Option (Option (List Nat)) :=
  if s == "d" then some none
  else if s == "-" then some (some [])
  else ((s.splitOn ",").mapM String.toNat?).map some

def showList (l : List Nat) : String :=
  if l.isEmpty then "-" else ",".intercalate (l.map toString)

def parseKey : String → Option KeyType
  | "rsa" => some .rsa | "ecdsa" => some .ecdsa | "ed25519" => some .ed25519 | _ => none

def parseCanary : String → Option Canary
  | "n" => some .none | "c12" => some .c12 | "c11" => some .c11 | _ => none

def showCanary : Canary → String
  | .none => "n" | .c12 => "12" | .c11 => "11"

def parseBool : String → Option Bool
  | "1" => some true | "0" => some false | _ => none

def handle (args : List String) : String :=
  match args with
  | ["neg", cmin, cmax, cs, cf, cc, ca, smin, smax, ss, sp, sc, sa, sk, sr] =>
    match cmin.toNat?, cmax.toNat?, parseList cs, parseBool cf, parseList cc, parseList ca,
          smin.toNat?, smax.toNat?, parseList ss, parseBool sp, parseList sc, parseList sa, parseKey sk, parseCanary sr with
    | some cmin, some cmax, some cs, some cf, some cc, some ca,
      some smin, some smax, some ss, some sp, some sc, some sa, some sk, some sr =>
      let c : Client := { minV := cmin, maxV := cmax, suites := cs, force := cf, curves := cc, alpn := ca.getD [] }
      let s : Server := { minV := smin, maxV := smax, suites := ss, prefer := sp, curves := sc, alpn := sa.getD [],
                          key := sk, rand := sr }
      match negotiate c s with
      | .fail => "fail"
      | .unmodelled => "unmodelled"
      | .done o => s!"ok v={o.vers} s={o.suite} a={match o.alpn with | none => "-" | some a => toString a} can={showCanary o.canary}"
    | _, _, _, _, _, _, _, _, _, _, _, _, _, _ => "bad-op"
  | ["mv", mn, mx, peer] =>
    match mn.toNat?, mx.toNat?, parseList peer with
    | some mn, some mx, some (some p) =>
      match mutualVersion (configVersions Gen.supportedVersions mn mx) p with
      | some v => toString v
      | none => "none"
    | _, _, _ => "bad-op"
  | ["deprio", l] =>
    match parseList l with
    | some (some l) => match deprio l with | some r => showList r | none => "unmodelled"
    | _ => "bad-op"
  | ["sel", pref, sup, vers, a, b, c, d] =>
    match parseList pref, parseList sup, vers.toNat?, parseBool a, parseBool b, parseBool c, parseBool d with
    | some (some pref), some (some sup), some vers, some a, some b, some c, some d =>
      match selectCipherSuite pref sup (cipherSuiteOk { vers, ecdheOk := a, ecSignOk := b, rsaSignOk := c, rsaDecryptOk := d }) with
      | some r => toString r.id
      | none => "none"
    | _, _, _, _, _, _, _ => "bad-op"
  | _ => "bad-op"

end ZV.C24
