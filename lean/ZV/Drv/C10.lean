import ZV.Model.C10
/-! line protocol for C10:  `c10 <specs> <verify-matrix> <ops>`
    * specs: certificates separated by `,`, each `subj.key.iss.sign.ca.bc.mpl.nb.na.serial.dns.flags`
      (`sign` and `flags` = bad-signature + 2*keyUsage flavour + 8*X.509v1 only tell the harness how to
      produce the real certificate and signature; the model sees the verify matrix instead: the graph
      depends on names and key verification only); the index of a certificate is its model fingerprint;
    * verify matrix: per certificate (`,`) the node keys `s:k` (`+`) whose key verifies it, `-` if none;
    * ops: `a<i>` (AddCert) / `r<i>` (AddRoot) separated by `,`.
    Output: the canonical dump (see go/props/c10/dump.go `Canon`) or `panic`. -/
namespace ZV.C10

def parseCert (idx : Nat) (s : String) : Option Cert :=
  match (s.splitOn ".").mapM parseInt with
  | some [subj, key, iss, _sign, ca, bc, mpl, nb, na, serial, dns, _flags] =>
    some { fp := idx, subj := subj.toNat, key := key.toNat, iss := iss.toNat, isCA := ca == 1, bcValid := bc == 1,
           maxPathLen := mpl, notBefore := nb, notAfter := na, serial := serial.toNat, dns := dns }
  | _ => none

def parseCertsAux : Nat → List String → Option (List Cert)
  | _, [] => some []
  | i, s :: rest =>
    match parseCert i s, parseCertsAux (i + 1) rest with
    | some c, some cs => some (c :: cs)
    | _, _ => none

def parseCerts (tok : String) : Option (List Cert) := parseCertsAux 0 (tok.splitOn ",")

def parseNodeKey (s : String) : Option NodeKey :=
  match s.splitOn ":" with
  | [a, b] =>
    match a.toNat?, b.toNat? with
    | some x, some y => some (x, y)
    | _, _ => none
  | _ => none

/-- per certificate the list of verifying node keys -/
def parseMatrix (tok : String) : Option (List (List NodeKey)) :=
  (tok.splitOn ",").mapM (fun s => if s == "-" then some [] else (s.splitOn "+").mapM parseNodeKey)

def nth? {α} : List α → Nat → Option α
  | [], _ => none
  | a :: _, 0 => some a
  | _ :: l, n + 1 => nth? l n

def verOf (m : List (List NodeKey)) : Ver := fun k fp =>
  match nth? m fp with
  | some l => l.contains k
  | none => false

def parseOp (cs : List Cert) (s : String) : Option Op :=
  match s.toList with
  | 'a' :: rest => ((String.ofList rest).toNat?.bind (nth? cs)).map Op.add
  | 'r' :: rest => ((String.ofList rest).toNat?.bind (nth? cs)).map Op.root
  | _ => none

def parseOps (cs : List Cert) (tok : String) : Option (List Op) :=
  if tok == "-" then some [] else (tok.splitOn ",").mapM (parseOp cs)

/-! canonical printing -/

def keyLe (a b : NodeKey) : Bool := a.1 < b.1 || (a.1 == b.1 && a.2 ≤ b.2)
def showKey (k : NodeKey) : String := toString k.1 ++ ":" ++ toString k.2

def showNats (l : List Nat) : String :=
  if l.isEmpty then "-" else "+".intercalate ((l.mergeSort (fun a b => a ≤ b)).map toString)

def showAdj (m : SetMap NodeKey) : String :=
  if m.isEmpty then "-"
  else "&".intercalate ((m.mergeSort (fun a b => keyLe a.1 b.1)).map (fun g => showKey g.1 ++ "=" ++ showNats g.2))

def orDash (sep : String) (l : List String) : String := if l.isEmpty then "-" else sep.intercalate l

def showGraph (g : Graph) : String :=
  let o := g.nodes.map (fun n => showKey n.key)
  let n := (g.nodes.mergeSort (fun a b => keyLe a.key b.key)).map
    (fun n => showKey n.key ++ "/P" ++ showAdj n.parents ++ "/C" ++ showAdj n.children)
  let e := (g.edges.mergeSort (fun a b => a.cert.fp ≤ b.cert.fp)).map (fun e =>
    toString e.cert.fp ++ "/" ++ (match e.issuer with | none => "nil" | some k => showKey k) ++ "/" ++ showKey e.child
      ++ "/" ++ (if e.root then "1" else "0"))
  let m := (g.missing.mergeSort (fun a b => a.1 ≤ b.1)).map (fun x => toString x.1 ++ "=" ++ showNats x.2)
  "ok O=" ++ orDash ">" o ++ " N=" ++ orDash ";" n ++ " E=" ++ orDash ";" e ++ " M=" ++ orDash ";" m

/-! `c10 obs <specs> <vm> <ops>`: the public observers on the graph after `ops`:
    `ok n=<len Nodes()> e=<len Edges()> q=<per certificate of the universe FindEdge!=nil,FindNode!=nil,IsRoot>` -/
def bit (b : Bool) : String := if b then "1" else "0"

def showObs (g : Graph) (cs : List Cert) : String :=
  "ok n=" ++ toString (nodesLen g) ++ " e=" ++ toString (edgesLen g) ++ " q=" ++
    orDash "," (cs.map (fun c => bit (findEdgeOk g c) ++ bit (findNodeOk g c) ++ bit (isRoot g c)))

/-! `c10 pem <specs> <vm> <ops0> <root> <items>`: `AppendFromPEMErr(stream(items), root)` on the graph
    reached by `ops0`.  items (`,`): `c<i>`/`t<i>`/`h<i>` certificate i (label CERTIFICATE / another label /
    with PEM headers), `b`/`k<i>`/`p` block that does not parse, `j`/`m`/`x`/`u` junk, `g` 70000 bytes
    without a block.  Output `n=<count> errs=<#parsing errors> rerr=<0/1> w=<AppendFromPEM count> <dump>`. -/
def parsePemItem (cs : List Cert) (s : String) : Option PemItem :=
  match s.toList with
  | ['j'] | ['m'] | ['x'] | ['u'] => some .junk
  | ['b'] | ['p'] => some .bad
  | ['g'] => some .big
  | 'k' :: rest => ((String.ofList rest).toNat?.bind (nth? cs)).map (fun _ => PemItem.bad)
  | 'c' :: rest | 't' :: rest | 'h' :: rest => ((String.ofList rest).toNat?.bind (nth? cs)).map PemItem.cert
  | _ => none

def parsePemItems (cs : List Cert) (tok : String) : Option (List PemItem) :=
  if tok == "-" then some [] else (tok.splitOn ",").mapM (parsePemItem cs)

def handlePem (V : Ver) (_cs : List Cert) (ops0 : List Op) (root : Bool) (items : List PemItem) : String :=
  match run V Graph.empty ops0 with
  | .ok g0 =>
    match appendFromPEMErr V g0 items root, appendFromPEM V g0 items root with
    | .ok o, .ok (w, _) =>
      "n=" ++ toString o.count ++ " errs=" ++ toString o.nerr ++ " rerr=" ++ bit o.readErr ++ " w=" ++ toString w
        ++ " " ++ showGraph o.g
    | _, _ => "panic"
  | _ => "panic"

def handle (args : List String) : String :=
  match args with
  | ["obs", specs, vm, ops] =>
    match parseCerts specs, parseMatrix vm with
    | some cs, some m =>
      match parseOps cs ops with
      | some os =>
        match run (verOf m) Graph.empty os with
        | .ok g => showObs g cs
        | _ => "panic"
      | none => "bad-op"
    | _, _ => "bad-op"
  | ["pem", specs, vm, ops0, root, items] =>
    match parseCerts specs, parseMatrix vm with
    | some cs, some m =>
      match parseOps cs ops0, parsePemItems cs items with
      | some os, some its => handlePem (verOf m) cs os (root == "1") its
      | _, _ => "bad-op"
    | _, _ => "bad-op"
  | [specs, vm, ops] =>
    match parseCerts specs, parseMatrix vm with
    | some cs, some m =>
      match parseOps cs ops with
      | some os =>
        match run (verOf m) Graph.empty os with
        | .ok g => showGraph g
        | _ => "panic"
      | none => "bad-op"
    | _, _ => "bad-op"
  | _ => "bad-op"

end ZV.C10
