import ZV.Model.C02
/-! line protocol for C02:
    pol <0|1> <spec>   spec = policies separated by `|`, notices by `.`, notice ∈ {t, r, tr, n}, `-` = no notice
    names <hex,hex,…|-> -/
namespace ZV.C02

def mkNotice (j : Nat) (s : String) : NoticeIn :=
  { text := if s.contains 't' then some ("text" ++ String.singleton (Char.ofNat (97 + j % 26)))
            else if s.contains 'e' then some "" else none,
    ref := if s.contains 'r' then some ("org" ++ String.singleton (Char.ofNat (65 + j % 26)), [1 + j]) else none }

def enumFrom {α} : Nat → List α → List (Nat × α)
  | _, [] => []
  | n, a :: l => (n, a) :: enumFrom (n + 1) l

def mkPolicy (cps : Bool) (s : String) : PolicyIn :=
  { cps := if cps then ["http://cps.example/"] else [],
    notices := if s == "-" then [] else (enumFrom 0 (s.splitOn ".")).map (fun (j, x) => mkNotice j x) }

def showNotice (n : NoticeOut) : String :=
  (match n.1 with | some t => "T" ++ t | none => "") ++
  (match n.2 with | some (o, k) => "R" ++ o ++ "[" ++ "_".intercalate (k.map toString) ++ "]" | none => "")

def handle (args : List String) : String :=
  match args with
  | ["pol", cps, spec] =>
    let ps := (spec.splitOn "|").map (mkPolicy (cps == "1"))
    match policiesJSON (parsePolicies ps) with
    | .ok out =>
      if out.isEmpty then "ok -"
      else "ok " ++ "|".intercalate (out.map (fun (c, ns) => toString c ++ ":" ++ ".".intercalate (ns.map showNotice)))
    | .err => "err"
    | .panic => "panic"
  | ["names", l] =>
    let names := if l == "-" then [] else l.splitOn ","
    let out := purge names
    if out.isEmpty then "-" else ",".intercalate (out.map (fun s => if s.isEmpty then "-" else s))
  | _ => "bad-op"

end ZV.C02
