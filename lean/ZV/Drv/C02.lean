import ZV.Model.C02
import ZV.Model.C02Names
import ZV.Model.C02Views
import ZV.Model.C09
import ZV.Model.C02Cert
/-! line protocol for C02:
    pol <0|1> <spec>   spec = policies separated by `|`, notices by `.`, notice ∈ {t, r, tr, n}, `-` = no notice
    names <hex,hex,…|->
    coll / jnames <cn> <dns> <uris> <ipbytes> <iptexts> <urlok>   (lists: `_` = empty, items hex, `-` = empty string) -/
namespace ZV.C02

def mkNotice (j : Nat) (s : String) : NoticeIn :=
  { text := if s.contains 't' then some ("text" ++ String.singleton (Char.ofNat (97 + j % 26)))
            else if s.contains 'e' then some "" else none,
    ref := if s.contains 'r' then some ("org" ++ String.singleton (Char.ofNat (65 + j % 26)), [1 + j]) else none }

def enumFrom {α} : Nat → List α → List (Nat × α)
  | _, [] => []
  | n, a :: l => (n, a) :: enumFrom (n + 1) l

def mkPolicy (cps : Bool) (s : String) : PolicyIn :=
  { cps := if cps then ["http://cps.example/"] else [],
    notices := if s == "-" then [] else (enumFrom 0 (s.splitOn ".")).map (fun (j, x) => mkNotice j x) }

def showNotice (n : NoticeOut) : String :=
  (match n.1 with | some t => "T" ++ t | none => "") ++
  (match n.2 with | some (o, k) => "R" ++ o ++ "[" ++ "_".intercalate (k.map toString) ++ "]" | none => "")

def parseStrList (s : String) : Option (List Str) :=
  if s == "_" then some [] else (s.splitOn ",").mapM ofHex

def showStrList (l : List Str) : String :=
  if l.isEmpty then "_" else ",".intercalate (l.map toHex)

def handleNames (withRedacted : Bool) (cn dns uris ipt ok : String) : String :=
  match ofHex cn, parseStrList dns, parseStrList uris, parseStrList ipt, parseStrList ok with
  | some cn, some dns, some uris, some ipt, some ok =>
    match namesView (fun s => ok.contains s) { commonName := cn, dnsNames := dns, uris := uris, ipTexts := ipt } with
    | .ok (names, red) => showStrList names ++ (if withRedacted then (if red then " r=1" else " r=0") else "")
    | .err => "err"
    | .panic => "panic"
  | _, _, _, _, _ => "bad-op"

def hexNoDash (b : Bytes) : String := String.join (b.map hexOfByte)

/-- canonical text of an optional IP as `net.IP.String` would show it, normalised to 16 bytes -/
def canonIP : Option Bytes → String
  | none => "-"
  | some b =>
    if b.length = 0 then "-"
    else if b.length = 4 then "i" ++ toHex (v4InV6Prefix ++ b)
    else if b.length = 16 then "i" ++ toHex b
    else "?" ++ hexNoDash b

def showCidr : Option (Bytes × (Nat ⊕ Bytes)) → String
  | none => "nil"
  | some (nn, .inl l) => canonIP (some nn) ++ "/" ++ toString l
  | some (nn, .inr m) => canonIP (some nn) ++ "/" ++ hexNoDash m

def parseOid (s : String) : Option (List Nat) := (s.splitOn ".").mapM (·.toNat?)

def showNats (l : List Nat) : String := if l.isEmpty then "_" else ",".intercalate (l.map toString)

def handleViews (args : List String) : String :=
  match args with
  | ["gsi", _, ip, mask] =>
    match ofHex ip, ofHex mask with
    | some ip, some mask =>
      match subtreeIPView ip mask with
      | .ok v => "cidr=" ++ showCidr v.cidr ++ " b=" ++ canonIP v.begin ++ " e=" ++ canonIP v.end_ ++ " m=" ++ canonIP v.mask
      | .err => "err"
      | .panic => "panic"
    | _, _ => "bad-op"
  | ["ku", k] =>
    match k.toNat? with
    | some k =>
      let (bits, v) := keyUsageView k
      String.join (bits.map (fun b => if b then "1" else "0")) ++ " v=" ++ toString v
    | none => "bad-op"
  | ["kan", p] =>
    match parseInt p with
    | some p => showRes id (keyAlgName p)
    | none => "bad-op"
  | ["san", a] =>
    match parseInt a with
    | some a =>
      match sigAlgString a, sigAlgJSONName a with
      | .ok s, .ok n => "ok " ++ (if s.isEmpty then "-" else s) ++ " " ++ (if n.isEmpty then "-" else n)
      | .panic, _ => "panic"
      | _, .panic => "panic"
      | _, _ => "err"
    | none => "bad-op"
  | ["jx", oids, isCA, mpl, z] =>
    match (if oids == "_" then some [] else (oids.splitOn ";").mapM parseOid), parseInt mpl with
    | some oids, some mpl =>
      let (known, unk) := jsonifySplit oids
      let bc := if known.contains 1 then
          let v := basicConstraintsView (isCA == "1") mpl (z == "1")
          (if v.1 then "true:" else "false:") ++ (match v.2 with | some n => itoa n | none => "nil")
        else "none"
      "k=" ++ showNats ((List.range knownExtOids.length).filter (fun i => known.contains i)) ++ " u=" ++ showNats unk ++ " bc=" ++ bc
    | _, _ => "bad-op"
  | _ => "bad-op"

def parseCivil (s : String) : Option Int :=
  match (s.splitOn "-").mapM (·.toNat?) with
  | some [y, mo, d, h, mi, sec] =>
    some (ZV.Time.toUnix { year := y, month := mo, day := d, hour := h, min := mi, sec := sec, off := 0 })
  | _ => none

def handleCert (args : List String) : Option String :=
  match args with
  | ["cf", _, der, tbs, spki, subj, serial, nb, na] =>
    match ofHex der, ofHex tbs, ofHex spki, ofHex subj, ofHex serial, parseCivil nb, parseCivil na with
    | some der, some tbs, some spki, some subj, some serial, some nb, some na =>
      let f := fingerprints der tbs spki subj
      some ("len=" ++ decimal (validityLengthJSON nb na) ++ " vp=" ++ decimal (validityLength nb na) ++ " serial=" ++ serialString serial ++ " md5=" ++ toHex f.md5 ++
        " sha1=" ++ toHex f.sha1 ++ " sha256=" ++ toHex f.sha256 ++ " spki=" ++ toHex f.spki ++ " tbs=" ++ toHex f.tbs ++
        " ss=" ++ toHex f.spkiSubject)
    | _, _, _, _, _, _, _ => some "bad-op"
  | ["rk", _, n, e] =>
    match ofHex n, ofHex e with
    | some n, some e =>
      let v := rsaKeyView (intOfBytes n) (intOfBytes e)
      some ("mod=" ++ toHex v.1 ++ " e=" ++ decimal v.2.1 ++ " len=" ++ toString v.2.2)
    | _, _ => some "bad-op"
  | _ => none

def handle (args : List String) : String :=
  match args with
  | ["pol", cps, spec] =>
    let ps := (spec.splitOn "|").map (mkPolicy (cps == "1"))
    match policiesJSON (parsePolicies ps) with
    | .ok out =>
      if out.isEmpty then "ok -"
      else "ok " ++ "|".intercalate (out.map (fun (c, ns) => toString c ++ ":" ++ ".".intercalate (ns.map showNotice)))
    | .err => "err"
    | .panic => "panic"
  | ["names", l] =>
    let names := if l == "-" then [] else l.splitOn ","
    let out := purge names
    if out.isEmpty then "-" else ",".intercalate (out.map (fun s => if s.isEmpty then "-" else s))
  | ["coll", cn, dns, uris, _, ipt, ok] => handleNames false cn dns uris ipt ok
  | ["jnames", cn, dns, uris, _, ipt, ok] => handleNames true cn dns uris ipt ok
  | ["vh", cn, dns, hosts] =>
    match ofHex cn, parseStrList dns, parseStrList hosts with
    | some cn, some dns, some hosts =>
      let cert : ZV.C09.Cert := { extOids := if dns.isEmpty then [] else [ZV.C09.oidSAN], dnsNames := dns, ipAddresses := [], commonName := cn }
      ",".intercalate (hosts.map (fun h =>
        match ZV.C09.verifyHostname cert h with
        | .ok .accept => "ok"
        | .ok (.reject x) => "e:" ++ toHex x
        | .err => "err"
        | .panic => "panic"))
    | _, _, _ => "bad-op"
  | _ => match handleCert args with
    | some r => r
    | none => handleViews args

end ZV.C02
