import ZV.Model.C01
import ZV.Model.C01Ec
/-! line protocol for C01 (see go/props/c01/c01.go for the Go side of every sub-op):
    tl <s|p> <hex> <off> | b128 <hex> <off> | il <a> <b> <c> | seqof <s|p> <hex> | cba <hex> | cbe <hex> |
    cblp <n> <hex> | sst <hex> <bits> | crlset <0|1> <hex> | onecrle <desc> | edkey <s|p> <e|x> <keylen> <siglen> |
    rsapub <N|nil> <E|nil> <siglen> <fill> <msglen> | ecpriv <version> <curve index> <private key hex> -/
namespace ZV.C01

def showTL (r : Res (TL × Nat)) : String :=
  match r with
  | .ok (t, off) => s!"ok {t.cls} {t.tag} {t.len} {if t.compound then "c" else "p"} {off}"
  | .err => "err"
  | .panic => "panic"

def parseFld (c : Char) : Option Fld :=
  match c with
  | 'a' => some .absent
  | 'b' => some .badB64
  | 'd' => some .notName
  | 'g' => some .good
  | _ => none

def parseRec (s : String) : Option Rec :=
  match s.toList with
  | ['n'] => some .null
  | ['o', a, b, c, d] =>
    match parseFld a, parseFld b, parseFld c, parseFld d with
    | some a, some b, some c, some d => some (.obj a b c d)
    | _, _, _, _ => none
  | _ => none

def parseOptInt (s : String) : Option (Option Int) :=
  if s == "nil" then some none else (parseInt s).map some

def lookupBlob (tbl : List (Bytes × Bool)) (c : Bytes) : Bool :=
  match tbl.find? (fun e => e.1 == c) with
  | some e => e.2
  | none => false

def handle (args : List String) : String :=
  match args with
  | ["tl", mode, hex, off] =>
    match ofHex hex, off.toNat? with
    | some bs, some o => showTL (parseTagAndLength (mode == "p") bs o)
    | _, _ => "bad-args"
  | ["b128", hex, off] =>
    match ofHex hex, off.toNat? with
    | some bs, some o =>
      match parseBase128Int bs o with
      | .ok (r, o') => s!"ok {r} {o'}"
      | .err => "err"
      | .panic => "panic"
    | _, _ => "bad-args"
  | ["il", a, b, c] =>
    match parseInt a, parseInt b, parseInt c with
    | some a, some b, some c => if invalidLengthInt a b c then "t" else "f"
    | _, _, _ => "bad-args"
  | ["seqof", mode, hex] =>
    match ofHex hex with
    | some bs =>
      match unmarshalRawSeq (mode == "p") bs with
      | .ok (n, rest) => s!"ok {n} {rest}"
      | .err => "err"
      | .panic => "panic"
    | none => "bad-args"
  | [op, hex] =>
    if op == "cba" || op == "cbe" then
      match ofHex hex with
      | some bs =>
        match cbReadASN1 bs (op == "cba") with
        | .ok (tag, out, rest) => s!"ok {tag.toNat} {out.length} {rest.length}"
        | .err => "err"
        | .panic => "panic"
      | none => "bad-args"
    else if op == "onecrle" then
      match parseRec hex with
      | some r =>
        match entryUnmarshal r with
        | .ok .blocked => "ok blocked"
        | .ok (.serial true) => "ok serial"
        | .ok (.serial false) => "ok INCOMPLETE"
        | .err => "err"
        | .panic => "panic"
      | none => "bad-args"
    else "bad-op"
  | ["cblp", n, hex] =>
    match n.toNat?, ofHex hex with
    | some n, some bs =>
      match cbReadLengthPrefixed bs n with
      | some (child, rest) => s!"ok {child.length} {rest.length}"
      | none => "err"
    | _, _ => "bad-args"
  | ["sst", hex, bits] =>
    match ofHex hex with
    | some bs =>
      -- the oracle bits are given per certificate entry in order; turn them into a function on blobs
      let blobs : List Bytes :=
        match sstLoop (((rdU32 bs).2).drop 4) { certs := [], alloc := 0 } with
        | .ok o => o.certs
        | _ => []
      let tbl := blobs.zip ((if bits == "-" then [] else bits.toList).map (· == '1'))
      match sstParse (lookupBlob tbl) bs with
      | .ok (n, _) => s!"ok {n}"
      | .err => "err"
      | .panic => "panic"
    | none => "bad-args"
  | ["ecpriv", ver, curve, hex] =>
    match ver.toNat?, curve.toNat?, ofHex hex with
    | some v, some c, some pk =>
      match ecPrivParse v c pk with
      | .ok (k, buf) => s!"ok {k} {buf.length}"
      | .err => "err"
      | .panic => "panic"
    | _, _, _ => "bad-args"
  | ["crlset", hdrok, hex] =>
    match ofHex hex with
    | some bs =>
      match crlsetParse (hdrok == "1") bs with
      | .ok (k, n, _) => s!"ok {k} {n}"
      | .err => "err"
      | .panic => "panic"
    | none => "bad-args"
  | ["edkey", _mode, alg, kl, sl] =>
    match kl.toNat?, sl.toNat? with
    | some kl, some sl =>
      match edKeyFlow (alg == "e") kl sl with
      | .ok _ => "ret"
      | .err => "err"
      | .panic => "panic"
    | _, _ => "bad-args"
  | ["rsapub", n, e, sl, fill, ml] =>
    match parseOptInt n, parseOptInt e, sl.toNat?, fill.toNat?, ml.toNat? with
    | some n, some e, some sl, some fill, some ml =>
      let p : RsaPub := { n := n, e := e }
      let sig := (List.replicate sl fill).foldl (fun acc b => acc * 256 + b) 0
      match verify p sl sig, encryptPKCS1v15 p ml with
      | .panic, _ => "panic"
      | _, .panic => "panic"
      | _, .ok true => "ret enc=ok"
      | _, _ => "ret enc=err"
    | _, _, _, _, _ => "bad-args"
  | _ => "bad-op"

end ZV.C01
