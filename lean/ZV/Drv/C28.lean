import ZV.Model.C28
import ZV.Model.C28Sched
/-! line protocol for C28 (see go/props/c28):
    `c28 sh|ch|cert|cert13|fin <msg hex>`  and
    `c28 skx <kex> <vers> <keytype> <client sigalgs> <pointOK> <client random> <server random> <cert (ignored)> <msg hex>`
    `c28 sched <base (ignored)> <offered 0|1> <items>`  items: comma separated tokens
       sh:<versOK><tls13><ok><resume><ocsp><ticket><hrr><psk><r|e|d>  cert:<nonEmpty><parse><verify><kxKey>  status  skx:<ok>
       creq  shd  nst  fin:<ok>  ee:<ok><alpn>  cv:<ok>  other  ccs -/
namespace ZV.C28

def showB (b : Bool) : String := if b then "1" else "0"
def joinNats (l : List Nat) : String := if l.isEmpty then "-" else ",".intercalate (l.map toString)
def joinHexs (l : List Bytes) : String := if l.isEmpty then "-" else ",".intercalate (l.map toHex)

def showSH (l : SHLog) : String :=
  s!"v={l.version} r={toHex l.random} sid={toHex l.sessionID} cs={l.cipherSuite} cm={l.compression} ocsp={showB l.ocsp} tick={showB l.ticket} reneg={showB l.secureReneg} ems={showB l.ems} alpn={toHex l.alpn} sv={l.selectedVersion} ks={l.keyShareGroup} ids={joinNats l.extIds} scts={joinHexs l.scts} unk={joinHexs l.unknown}"

def showCH (l : CHLog) : String :=
  let st := match l.sessionTicket with
    | none => "-"
    | some (n, v) => s!"{n}:{toHex v}"
  let sah := if l.sigHashes.isEmpty then "-" else ",".intercalate (l.sigHashes.map (fun p => s!"{p.1}:{p.2}"))
  s!"v={l.version} r={toHex l.random} sid={toHex l.sessionID} cs={joinNats l.suites} cm={joinNats (l.comps.map (·.toNat))} ocsp={showB l.ocsp} tick={showB l.ticket} reneg={showB l.secureReneg} ems={showB l.ems} hb=0 sni={toHex l.sni} scts={showB l.scts} curves={joinNats l.curves} points={joinNats (l.points.map (·.toNat))} sv={joinNats l.sv} st={st} sah={sah} alpn={joinHexs l.alpn} unk=-"

def showSig (s : SigLog) : String :=
  let sg := if s.hasSigHash then s.sig else 0
  let h := if s.hasSigHash then s.hash else 0
  s!" type={s.type} she={showB s.hasSigHash} sig={sg} hash={h} raw={toHex s.raw} ver={s.version}"

def showECDHE (l : ECDHELog) : String :=
  let y := match l.y with | none => "-" | some b => toHex b
  s!"curve={l.curve} x={toHex l.x} y={y}" ++ showSig l.sig ++ s!" digest={toHex l.digest}"

def showDHE (l : DHELog) : String :=
  s!"p={toHex l.p} g={toHex l.g} ys={toHex l.ys}" ++ showSig l.sig ++ s!" digest={toHex l.digest}"

def parseNats (s : String) : Option (List Nat) :=
  if s == "-" then some [] else (s.splitOn ",").mapM (·.toNat?)

def parseKT (s : String) : Option KeyType :=
  if s == "rsa" then some .rsa else if s == "ecdsa" then some .ecdsa else if s == "ed25519" then some .ed25519 else none

/-! ### logging schedule -/

def bitOf (c : Char) : Option Bool := if c == '1' then some true else if c == '0' then some false else none

def parseItem (t : String) : Option Item :=
  match t.splitOn ":" with
  | ["status"] => some .certStatus
  | ["creq"] => some .certRequest
  | ["shd"] => some .serverHelloDone
  | ["nst"] => some .newSessionTicket
  | ["other"] => some .other
  | ["ccs"] => some .ccs
  | ["skx", a] => match a.toList.mapM bitOf with
    | some [b] => some (.serverKeyExchange b)
    | _ => none
  | ["fin", a] => match a.toList.mapM bitOf with
    | some [b] => some (.finished b)
    | _ => none
  | ["cv", a] => match a.toList.mapM bitOf with
    | some [b] => some (.certVerify b)
    | _ => none
  | ["ee", a] => match a.toList.mapM bitOf with
    | some [b, c] => some (.encryptedExtensions b c)
    | _ => none
  | ["cert", a] => match a.toList.mapM bitOf with
    | some [b, c, d, e] => some (.certificate ⟨b, c, d, e⟩)
    | _ => none
  | ["sh", a] =>
    match (a.toList.take 8).mapM bitOf, a.toList.drop 8 with
    | some [v, t, o, r, oc, ti, h, p], [k] =>
      let kex : Option Kex := if k == 'r' then some .rsa else if k == 'e' then some .ecdhe else if k == 'd' then some .dhe else none
      match kex with
      | some kx => some (.serverHello ⟨v, t, o, r, oc, ti, h, p, kx⟩)
      | none => none
    | _, _ => none
  | _ => none

def showIdx : Option Nat → String
  | none => "-"
  | some i => toString i

def showHLog (l : HLog) : String :=
  let tk := match l.ticket with
    | .none => "-"
    | .cache => "cache"
    | .msg i => s!"m{i}"
  s!"ch={showB l.clientHello} sh={showIdx l.serverHello} certs={showIdx l.certs} parsed={showB l.parsed} skx={showIdx l.skx} ckx={showB l.ckx} cfin={showB l.clientFin} sfin={showIdx l.serverFin} tick={tk} km={showB l.keyMaterial} alpn={showB l.alpn13} done={showB l.done}"

def handle (args : List String) : String :=
  match args with
  | ["sh", h] =>
    match ofHex h with
    | none => "bad-op"
    | some msg => match parseSH msg with
      | none => "err"
      | some (f, m, ids) => showSH (shLog f m ids)
  | ["ch", h] =>
    match ofHex h with
    | none => "bad-op"
    | some msg => match parseCH msg with
      | none => "err"
      | some (f, m) => showCH (chLog f m)
  | ["cert", h] =>
    match ofHex h with
    | none => "bad-op"
    | some msg => match parseCerts msg with
      | none => "err"
      | some cs => let l := certLog cs; s!"leaf={toHex l.leaf} chain={joinHexs l.chain}"
  | ["cert13", h] =>
    match ofHex h with
    | none => "bad-op"
    | some msg => match parseCerts13 msg with
      | none => "err"
      | some r => let l := cert13Log r; s!"leaf={toHex l.leaf} chain={joinHexs l.chain} ocsp={showB r.ocsp} scts={showB r.scts}"
  | ["fin", h] =>
    match ofHex h with
    | none => "bad-op"
    | some msg => match parseFin msg with
      | none => "err"
      | some v => "vd=" ++ toHex v
  | ["skx", kex, vers, kt, algs, ptok, cr, sr, _cert, h] =>
    match vers.toNat?, parseKT kt, parseNats algs, ofHex cr, ofHex sr, ofHex h with
    | some v, some k, some al, some c, some s, some msg =>
      if msg.length < 4 then "err" else
      let key := msg.drop 4
      if kex == "dhe-rsa" then
        match dheLog v c s key with
        | none => "err"
        | some l => showDHE l
      else
        match ecdheLog v (kex == "ecdhe-rsa") k al (ptok == "1") c s key with
        | none => "err"
        | some l => showECDHE l
    | _, _, _, _, _, _ => "bad-op"
  | ["sched", _base, off, items] =>
    match (if items == "-" then some [] else (items.splitOn ",").mapM parseItem) with
    | none => "bad-op"
    | some ins => showHLog (clientLog (off == "1") ins)
  | _ => "bad-op"

end ZV.C28
