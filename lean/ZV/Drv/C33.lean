import ZV.Model.C33
/-! line protocol for C33.
    encode+decode:  `c33 <type> <value…>`      → `<abstract JSON the model's encoder builds>;<decode result>`
    decode only:    `c33 <type>-dec <members…>` → `<decode result>`
    JSON members are printed `key=s:<hex of UTF-8>` / `key=n:<decimal>` / `key=b:true`, sorted by key, joined by `,`;
    a bare JSON string prints as `s:<hex>`.  Strings in arguments are hex (`-` = empty). -/
namespace ZV.C33

def strHex (s : Str) : String := toHex (String.ofList s).toUTF8.toList

def hexStr (h : String) : Option Str :=
  match ofHex h with
  | none => none
  | some bs => (String.fromUTF8? (ByteArray.mk bs.toArray)).map String.toList

def showNat (r : Res Nat) : String := showRes toString r
def showInt (r : Res Int) : String := showRes toString r

def showNV (j : NameValue) : String :=
  (match j.hex with | some h => "hex=s:" ++ strHex h ++ "," | none => "") ++
  "name=s:" ++ strHex j.name ++ ",value=n:" ++ toString j.value

def encDec (enc : Nat → NameValue) (dec : NameValue → Res Nat) (hi : Nat) (v : String) : String :=
  match v.toNat? with
  | some n => if n ≤ hi then showNV (enc n) ++ ";" ++ showNat (dec (enc n)) else "bad-op"
  | none => "bad-op"

def decNV (dec : NameValue → Res Nat) (name value : String) : String :=
  match hexStr name, parseInt value with
  | some n, some v => showNat (dec { hex := none, name := n, value := v })
  | _, _ => "bad-op"

def flagNames : List String :=
  ["digital_signature", "content_commitment", "key_encipherment", "data_encipherment", "key_agreement",
   "certificate_sign", "crl_sign", "encipher_only", "decipher_only"]

/-- members sorted by key, `omitempty` booleans only when true -/
def showKeyUsage (j : KeyUsageJSON) : String :=
  let fl := (flagNames.zip j.flags).filterMap (fun (n, b) => if b then some (n ++ "=b:true") else none)
  let all := fl ++ ["value=n:" ++ toString j.value]
  ",".intercalate (all.toArray.qsort (· < ·)).toList

/-- `<hex of big-endian bytes|nil>` -/
def parseBig (s : String) : Option (Option Nat) :=
  if s == "nil" then some none else (ofHex s).map (fun b => some (bytesNat b))

def showBig : Option Nat → String
  | none => "nil"
  | some n => toHex (natBytes n)

def showParam : Option ParamJSON → String
  | none => "absent"
  | some p => (match p.value with | none => "null" | some b => toHex b) ++ "/" ++ toString p.length

/-- `absent` | `jnull` | `<valuehex|null>:<length>` -/
def parseMember (s : String) : Option (Option ParamJSON) :=
  if s == "absent" || s == "jnull" then some none
  else
    match s.splitOn ":" with
    | [v, l] =>
      match parseInt l with
      | none => none
      | some len =>
        if v == "null" then some (some { value := none, length := len })
        else (ofHex v).map (fun b => some { value := some b, length := len })
    | _ => none

def showPoint (r : Res (Option Nat × Option Nat)) : String :=
  showRes (fun p => showBig p.1 ++ "/" ++ showBig p.2) r

def handle (args : List String) : String :=
  match args with
  | ["tlsversion", v] => encDec tlsVersionEncode tlsVersionDecode 65535 v
  | ["ciphersuite", v] => encDec cipherSuiteEncode cipherSuiteDecode 65535 v
  | ["compression", v] => encDec compressionEncode compressionDecode 255 v
  | ["curve", v] => encDec curveEncode curveDecode 65535 v
  | ["pointformat", v] => encDec pointFormatEncode pointFormatDecode 255 v
  | ["tlsversion-dec", n, v] => decNV tlsVersionDecode n v
  | ["ciphersuite-dec", _, n, v] => decNV cipherSuiteDecode n v
  | ["compression-dec", _, n, v] => decNV compressionDecode n v
  | ["curve-dec", _, n, v] => decNV curveDecode n v
  | ["pointformat-dec", _, n, v] => decNV pointFormatDecode n v
  | ["sigandhash", s, h] =>
    match s.toNat?, h.toNat? with
    | some s, some h =>
      if s ≤ 255 ∧ h ≤ 255 then
        let j := sigHashEncode s h
        "hash_algorithm=s:" ++ strHex j.hash_algorithm ++ ",signature_algorithm=s:" ++ strHex j.signature_algorithm ++ ";" ++
          showRes (fun (p : Nat × Nat) => toString p.1 ++ "/" ++ toString p.2) (sigHashDecode j)
      else "bad-op"
    | _, _ => "bad-op"
  | ["sigandhash-dec", s, h] =>
    match hexStr s, hexStr h with
    | some s, some h =>
      showRes (fun (p : Nat × Nat) => toString p.1 ++ "/" ++ toString p.2) (sigHashDecode { signature_algorithm := s, hash_algorithm := h })
    | _, _ => "bad-op"
  | ["clientauth", v] =>
    match parseInt v with
    | some i => "s:" ++ strHex (clientAuthEncode i) ++ ";" ++ showInt (clientAuthDecode (clientAuthEncode i))
    | none => "bad-op"
  | ["clientauth-dec", s] =>
    match hexStr s with
    | some s => showInt (clientAuthDecode s)
    | none => "bad-op"
  | ["keyusage", v] =>
    match parseInt v with
    | some k => showKeyUsage (keyUsageEncode k) ++ ";" ++ showInt (keyUsageDecode (keyUsageEncode k))
    | none => "bad-op"
  | ["keyusage-dec", _, v] =>
    match parseInt v with
    | some v => showInt (keyUsageDecode { flags := [], value := v })
    | none => "bad-op"
  | ["tlscurveid", v] =>
    match v.toNat? with
    | some c =>
      if c ≤ 65535 then
        let j := tlsCurveIDEncode c
        "id=n:" ++ toString j.id ++ ",name=s:" ++ strHex j.name ++ ";" ++ showNat (tlsCurveIDDecode j)
      else "bad-op"
    | none => "bad-op"
  | ["tlscurveid-dec", n, v] =>
    match hexStr n, parseInt v with
    | some n, some v => showNat (tlsCurveIDDecode { name := n, id := v })
    | _, _ => "bad-op"
  | ["pubkeyalg", v] =>
    match parseInt v with
    | some p =>
      match publicKeyAlgorithmEncode p with
      | .ok n => (if n.isEmpty then "" else "name=s:" ++ strHex n) ++ ";" ++ showInt (publicKeyAlgorithmDecode n)
      | .err => "err"
      | .panic => "panic"
    | none => "bad-op"
  | ["pubkeyalg-dec", n] =>
    match hexStr n with
    | some n => showInt (publicKeyAlgorithmDecode n)
    | none => "bad-op"
  | ["sigalg", v] =>
    match parseInt v with
    | some a =>
      let j := signatureAlgorithmEncode a
      (if j.name.isEmpty then "" else "name=s:" ++ strHex j.name ++ ",") ++ "oid=s:" ++ strHex j.oid ++ ";" ++ showInt (signatureAlgorithmDecode j)
    | none => "bad-op"
  | ["sigalg-dec", n, o] =>
    match hexStr n, hexStr o with
    | some n, some o => showInt (signatureAlgorithmDecode { name := n, oid := o })
    | _, _ => "bad-op"
  | ["ecpoint", x, y] =>
    match parseBig x, parseBig y with
    | some x, some y =>
      let j := ecPointEncode x y
      showParam j.x ++ "," ++ showParam j.y ++ ";" ++ showPoint (ecPointDecode j)
    | _, _ => "bad-op"
  | ["ecpoint-dec", x, y] =>
    match parseMember x, parseMember y with
    | some x, some y => showPoint (ecPointDecode { x := x, y := y })
    | _, _ => "bad-op"
  | ["dhparams", a, b, c, d, e, f, g] =>
    match [a, b].mapM parseBig, [c, d, e, f, g].mapM parseBig with
    | some req, some opt =>
      let j := dhEncode req opt
      ",".intercalate (j.map showParam) ++ ";ok " ++ "/".intercalate ((dhDecode j).map showBig)
    | _, _ => "bad-op"
  | _ => "bad-op"

end ZV.C33
