import ZV.Model.C33
import ZV.Model.C33Struct
/-! line protocol for C33.
    encode+decode:  `c33 <type> <value…>`      → `<abstract JSON the model's encoder builds>;<decode result>`
    decode only:    `c33 <type>-dec <members…>` → `<decode result>`
    JSON members are printed `key=s:<hex of UTF-8>` / `key=n:<decimal>` / `key=b:true`, sorted by key, joined by `,`;
    a bare JSON string prints as `s:<hex>`.  Strings in arguments are hex (`-` = empty). -/
namespace ZV.C33

def strHex (s : Str) : String := toHex (String.ofList s).toUTF8.toList

def hexStr (h : String) : Option Str :=
  match ofHex h with
  | none => none
  | some bs => (String.fromUTF8? (ByteArray.mk bs.toArray)).map String.toList

def showNat (r : Res Nat) : String := showRes toString r
def showInt (r : Res Int) : String := showRes toString r

def showNV (j : NameValue) : String :=
  (match j.hex with | some h => "hex=s:" ++ strHex h ++ "," | none => "") ++
  "name=s:" ++ strHex j.name ++ ",value=n:" ++ toString j.value

def encDec (enc : Nat → NameValue) (dec : NameValue → Res Nat) (hi : Nat) (v : String) : String :=
  match v.toNat? with
  | some n => if n ≤ hi then showNV (enc n) ++ ";" ++ showNat (dec (enc n)) else "bad-op"
  | none => "bad-op"

def decNV (dec : NameValue → Res Nat) (name value : String) : String :=
  match hexStr name, parseInt value with
  | some n, some v => showNat (dec { hex := none, name := n, value := v })
  | _, _ => "bad-op"

def flagNames : List String :=
  ["digital_signature", "content_commitment", "key_encipherment", "data_encipherment", "key_agreement",
   "certificate_sign", "crl_sign", "encipher_only", "decipher_only"]

/-- members sorted by key, `omitempty` booleans only when true -/
def showKeyUsage (j : KeyUsageJSON) : String :=
  let fl := (flagNames.zip j.flags).filterMap (fun (n, b) => if b then some (n ++ "=b:true") else none)
  let all := fl ++ ["value=n:" ++ toString j.value]
  ",".intercalate (all.toArray.qsort (· < ·)).toList

/-- `<hex of big-endian bytes|nil>` -/
def parseBig (s : String) : Option (Option Nat) :=
  if s == "nil" then some none else (ofHex s).map (fun b => some (bytesNat b))

def showBig : Option Nat → String
  | none => "nil"
  | some n => toHex (natBytes n)

def showParam : Option ParamJSON → String
  | none => "absent"
  | some p => (match p.value with | none => "null" | some b => toHex b) ++ "/" ++ toString p.length

/-- `absent` | `jnull` | `<valuehex|null>:<length>` -/
def parseMember (s : String) : Option (Option ParamJSON) :=
  if s == "absent" || s == "jnull" then some none
  else
    match s.splitOn ":" with
    | [v, l] =>
      match parseInt l with
      | none => none
      | some len =>
        if v == "null" then some (some { value := none, length := len })
        else (ofHex v).map (fun b => some { value := some b, length := len })
    | _ => none

def showPoint (r : Res (Option Nat × Option Nat)) : String :=
  showRes (fun p => showBig p.1 ++ "/" ++ showBig p.2) r

/-! ### structured types (`m-…` ops).  Abstract JSON: `{k=v,…}` keys sorted, `s:<hex>` strings (a `[]byte`
    member is the string holding its base64 text), `n:<literal>` numbers, `b:true|false`, `null`.
    Values in arguments: OID `1.2.3` | `nil`; bytes `<hex>` | `-` (empty, non-nil) | `nil`;
    JSON scalars for the decode-only ops: `absent` | `null` | `s:<hex>` | `n:<literal>` | `b:true|false` | `other`. -/

def showJV : JV → String
  | .null => "null"
  | .str s => "s:" ++ strHex s
  | .num l => "n:" ++ String.ofList l
  | .bool b => "b:" ++ (if b then "true" else "false")
  | .other => "other"

def showObj (ms : List (String × Option String)) : String :=
  "{" ++ ",".intercalate (ms.filterMap (fun (k, v) => v.map (fun x => k ++ "=" ++ x))) ++ "}"

/-- outer `none`: malformed argument; inner `none`: member absent -/
def parseJV (s : String) : Option (Option JV) :=
  if s == "absent" then some none
  else if s == "null" then some (some .null)
  else if s == "other" then some (some .other)
  else if s == "b:true" then some (some (.bool true))
  else if s == "b:false" then some (some (.bool false))
  else if s.startsWith "s:" then (hexStr (s.drop 2).toString).map (fun x => some (.str x))
  else if s.startsWith "n:" then some (some (.num (s.drop 2).toString.toList))
  else none

def parseJV1 (s : String) : Option JV :=
  match parseJV s with
  | some (some j) => some j
  | _ => none

def parseOID (s : String) : Option (List Int) :=
  if s == "nil" then some [] else (s.splitOn ".").mapM parseInt

def showOID (o : List Int) : String :=
  if o.isEmpty then "nil" else ".".intercalate (o.map toString)

def parseOptBytes (s : String) : Option (Option Bytes) :=
  if s == "nil" then some none else (ofHex s).map some

def showOptBytes : Option Bytes → String
  | none => "nil"
  | some b => toHex b

/-- a nested cryptoParameter object of the ECPoint model -/
def showParamObj (p : ParamJSON) : String :=
  showObj [("length", some ("n:" ++ toString p.length)),
           ("value", some (match p.value with | none => "null" | some b => "s:" ++ strHex (b64Encode b)))]

def showPointObj (p : PointJSON) : String :=
  showObj [("x", p.x.map showParamObj), ("y", p.y.map showParamObj)]

def showPrivObj (p : PrivJSON) : String :=
  showObj [("length", p.length.map showJV), ("value", p.value.map showJV)]

def parsePoint (s : String) : Option (Option (Option Nat × Option Nat)) :=
  if s == "nil" then some none
  else
    match s.splitOn "/" with
    | [x, y] =>
      match parseBig x, parseBig y with
      | some x, some y => some (some (x, y))
      | _, _ => none
    | _ => none

def parsePriv (s : String) : Option (Option (Option Bytes × Int)) :=
  if s == "nil" then some none
  else
    match s.splitOn ":" with
    | [v, l] =>
      match parseOptBytes v, parseInt l with
      | some v, some l => some (some (v, l))
      | _, _ => none
    | _ => none

def showPointVal : Option (Option Nat × Option Nat) → String
  | none => "nil"
  | some p => showBig p.1 ++ "/" ++ showBig p.2

def showPrivVal : Option (Option Bytes × Int) → String
  | none => "nil"
  | some p => showOptBytes p.1 ++ ":" ++ toString p.2

def showEcdh (v : EcdhVal) : String :=
  toString v.curve ++ " " ++ showPointVal v.server_public ++ " " ++ showPrivVal v.server_private ++ " " ++
    showPointVal v.client_public ++ " " ++ showPrivVal v.client_private

def showDS (r : Res (UInt8 × UInt8 × Bytes)) : String :=
  showRes (fun t => toString t.1.toNat ++ "/" ++ toString t.2.1.toNat ++ "/" ++ toHex t.2.2) r

def showOIDNat (o : List Nat) : String := showOID (o.map Int.ofNat)

def handleStruct (args : List String) : String :=
  match args with
  | ["m-auxoid", o] =>
    match parseOID o with
    | some o => "s:" ++ strHex (auxOIDMarshal o) ++ ";" ++ showRes showOIDNat (auxOIDUnmarshal (.str (auxOIDMarshal o)))
    | none => "bad-op"
  | ["m-auxoid-dec", j] =>
    match parseJV1 j with
    | some j => showRes showOIDNat (auxOIDUnmarshal j)
    | none => "bad-op"
  | ["m-fingerprint", b] =>
    match parseOptBytes b with
    | some f => "s:" ++ strHex (fingerprintMarshal f) ++ ";" ++ showRes toHex (fingerprintUnmarshal (.str (fingerprintMarshal f)))
    | none => "bad-op"
  | ["m-fingerprint-dec", j] =>
    match parseJV1 j with
    | some j => showRes toHex (fingerprintUnmarshal j)
    | none => "bad-op"
  | ["m-sha256", b] =>
    match ofHex b with
    | some h =>
      if h.length = 32 then "s:" ++ strHex (sha256HashMarshal h) ++ ";" ++ showRes toHex (sha256HashUnmarshal (.str (sha256HashMarshal h)))
      else "bad-op"
    | none => "bad-op"
  | ["m-sha256-dec", j] =>
    match parseJV1 j with
    | some j => showRes toHex (sha256HashUnmarshal j)
    | none => "bad-op"
  | ["m-ds", h, s, sig] =>
    match h.toNat?, s.toNat?, parseOptBytes sig with
    | some h, some s, some sig =>
      if h < 256 ∧ s < 256 then
        match dsMarshal (UInt8.ofNat h) (UInt8.ofNat s) sig with
        | .ok t => "s:" ++ strHex t ++ ";" ++ showDS (dsUnmarshal (.str t))
        | .err => "err"
        | .panic => "panic"
      else "bad-op"
    | _, _, _ => "bad-op"
  | ["m-ds-dec", j] =>
    match parseJV1 j with
    | some j => showDS (dsUnmarshal j)
    | none => "bad-op"
  | ["m-atv", t, v] =>
    match parseOID t, hexStr v with
    | some t, some v =>
      let j := atvMarshal t v
      showObj [("type", j.type.map showJV), ("value", j.value.map showJV)] ++ ";" ++
        showRes (fun (p : List Int × Str) => showOID p.1 ++ "/" ++ strHex p.2) (atvUnmarshal j)
    | _, _ => "bad-op"
  | ["m-atv-dec", t, v] =>
    match parseJV t, parseJV v with
    | some t, some v => showRes (fun (p : List Int × Str) => showOID p.1 ++ "/" ++ strHex p.2) (atvUnmarshal { type := t, value := v })
    | _, _ => "bad-op"
  | ["m-othername", t, v] =>
    match parseOID t, parseOptBytes v with
    | some t, some v =>
      let j := otherNameMarshal t v
      showObj [("id", j.id.map showJV), ("value", j.value.map showJV)] ++ ";" ++
        showRes (fun (p : List Int × Option Bytes) => showOID p.1 ++ "/" ++ showOptBytes p.2) (otherNameUnmarshal j)
    | _, _ => "bad-op"
  | ["m-othername-dec", t, v] =>
    match parseJV t, parseJV v with
    | some t, some v =>
      showRes (fun (p : List Int × Option Bytes) => showOID p.1 ++ "/" ++ showOptBytes p.2) (otherNameUnmarshal { id := t, value := v })
    | _, _ => "bad-op"
  | ["m-ext", t, c, v] =>
    match parseOID t, parseOptBytes v with
    | some t, some v =>
      let j := extMarshal t (c == "1") v
      showObj [("critical", j.critical.map showJV), ("id", j.id.map showJV), ("value", j.value.map showJV)] ++ ";" ++
        showRes (fun (p : List Int × Bool × Option Bytes) => showOID p.1 ++ "/" ++ (if p.2.1 then "1" else "0") ++ "/" ++ showOptBytes p.2.2) (extUnmarshal j)
    | _, _ => "bad-op"
  | ["m-ext-dec", t, c, v] =>
    match parseJV t, parseJV c, parseJV v with
    | some t, some c, some v =>
      showRes (fun (p : List Int × Bool × Option Bytes) => showOID p.1 ++ "/" ++ (if p.2.1 then "1" else "0") ++ "/" ++ showOptBytes p.2.2)
        (extUnmarshal { id := t, critical := c, value := v })
    | _, _, _ => "bad-op"
  | "m-rsa" :: rest =>
    let key : Option (Option (Option Nat × Option Int)) :=
      match rest with
      | ["nokey"] => some none
      | [n, e] =>
        match parseBig n, (if e == "nil" then some none else (parseInt e).map some) with
        | some n, some e => some (some (n, e))
        | _, _ => none
      | _ => none
    match key with
    | none => "bad-op"
    | some key =>
      match rsaMarshal key with
      | .ok j =>
        showObj [("exponent", j.exponent.map showJV), ("length", j.length.map showJV), ("modulus", j.modulus.map showJV)] ++ ";" ++
          showRes (fun (p : Nat × Int) => toHex (natBytes p.1) ++ "/" ++ toString p.2) (rsaUnmarshal j)
      | .err => "err"
      | .panic => "panic"
  | ["m-rsa-dec", e, m, l] =>
    match parseJV e, parseJV m, parseJV l with
    | some e, some m, some l =>
      showRes (fun (p : Nat × Int) => toHex (natBytes p.1) ++ "/" ++ toString p.2) (rsaUnmarshal { exponent := e, modulus := m, length := l })
    | _, _, _ => "bad-op"
  | ["m-rsaclient", l, p] =>
    match l.toNat?, parseOptBytes p with
    | some l, some p =>
      if l < 65536 then
        let j := rsaClientMarshal l p
        showObj [("encrypted_pre_master_secret", j.pms.map showJV), ("length", j.length.map showJV)] ++ ";" ++
          showRes (fun (r : Nat × Option Bytes) => toString r.1 ++ "/" ++ showOptBytes r.2) (rsaClientUnmarshal j)
      else "bad-op"
    | _, _ => "bad-op"
  | ["m-rsaclient-dec", l, p] =>
    match parseJV l, parseJV p with
    | some l, some p => showRes (fun (r : Nat × Option Bytes) => toString r.1 ++ "/" ++ showOptBytes r.2) (rsaClientUnmarshal { length := l, pms := p })
    | _, _ => "bad-op"
  | ["m-subtreeip4", mp, ip, mk] =>
    match ofHex ip, ofHex mk with
    | some ip, some mk =>
      if ip.length = 4 ∧ mk.length = 4 then
        let j := subtreeIP4Marshal (mp == "1") ip mk
        showObj [("begin", j.begin_.map showJV), ("cidr", j.cidr.map showJV), ("end", j.end_.map showJV), ("mask", j.mask.map showJV)] ++ ";" ++
          showRes (fun (r : Bytes × Bytes) => toHex r.1 ++ "/" ++ toHex r.2) (subtreeIP4Unmarshal j)
      else "bad-op"
    | _, _ => "bad-op"
  | ["m-subtreeip4-dec", c, b, e, m] =>
    match parseJV c, parseJV b, parseJV e, parseJV m with
    | some c, some b, some e, some m =>
      -- IPv6 text is outside the model: refuse the line rather than agree by accident
      if (match c with | some (.str t) => t.contains ':' | _ => false) then "bad-op"
      else showRes (fun (r : Bytes × Bytes) => toHex r.1 ++ "/" ++ toHex r.2) (subtreeIP4Unmarshal { cidr := c, begin_ := b, end_ := e, mask := m })
    | _, _, _, _ => "bad-op"
  | ["m-keyshare", c] =>
    match (if c == "nil" then some none else c.toNat?.map some) with
    | some (some k) =>
      if k < 65536 then
        "{" ++ showNV (curveEncode k) ++ "};" ++ showNat (keyShareUnmarshal (keyShareMarshal (some k)))
      else "bad-op"
    | some none => "null;" ++ showNat (keyShareUnmarshal (keyShareMarshal none))
    | none => "bad-op"
  | ["m-ecdh", c, sp, spr, cp, cpr] =>
    match c.toNat?, parsePoint sp, parsePriv spr, parsePoint cp, parsePriv cpr with
    | some c, some sp, some spr, some cp, some cpr =>
      if c < 65536 then
        let j := ecdhMarshal { curve := c, server_public := sp, server_private := spr, client_public := cp, client_private := cpr }
        showObj [("client_private", j.client_private.map showPrivObj), ("client_public", j.client_public.map showPointObj),
                 ("curve_id", j.curve_id.map (fun n => showObj [("id", some ("n:" ++ toString n.id)), ("name", some ("s:" ++ strHex n.name))])),
                 ("server_private", j.server_private.map showPrivObj), ("server_public", j.server_public.map showPointObj)] ++ ";" ++
          showRes showEcdh (ecdhUnmarshal j)
      else "bad-op"
    | _, _, _, _, _ => "bad-op"
  | _ => "bad-op"

def handle (args : List String) : String :=
  match args with
  | ["tlsversion", v] => encDec tlsVersionEncode tlsVersionDecode 65535 v
  | ["ciphersuite", v] => encDec cipherSuiteEncode cipherSuiteDecode 65535 v
  | ["compression", v] => encDec compressionEncode compressionDecode 255 v
  | ["curve", v] => encDec curveEncode curveDecode 65535 v
  | ["pointformat", v] => encDec pointFormatEncode pointFormatDecode 255 v
  | ["tlsversion-dec", n, v] => decNV tlsVersionDecode n v
  | ["ciphersuite-dec", _, n, v] => decNV cipherSuiteDecode n v
  | ["compression-dec", _, n, v] => decNV compressionDecode n v
  | ["curve-dec", _, n, v] => decNV curveDecode n v
  | ["pointformat-dec", _, n, v] => decNV pointFormatDecode n v
  | ["sigandhash", s, h] =>
    match s.toNat?, h.toNat? with
    | some s, some h =>
      if s ≤ 255 ∧ h ≤ 255 then
        let j := sigHashEncode s h
        "hash_algorithm=s:" ++ strHex j.hash_algorithm ++ ",signature_algorithm=s:" ++ strHex j.signature_algorithm ++ ";" ++
          showRes (fun (p : Nat × Nat) => toString p.1 ++ "/" ++ toString p.2) (sigHashDecode j)
      else "bad-op"
    | _, _ => "bad-op"
  | ["sigandhash-dec", s, h] =>
    match hexStr s, hexStr h with
    | some s, some h =>
      showRes (fun (p : Nat × Nat) => toString p.1 ++ "/" ++ toString p.2) (sigHashDecode { signature_algorithm := s, hash_algorithm := h })
    | _, _ => "bad-op"
  | ["clientauth", v] =>
    match parseInt v with
    | some i => "s:" ++ strHex (clientAuthEncode i) ++ ";" ++ showInt (clientAuthDecode (clientAuthEncode i))
    | none => "bad-op"
  | ["clientauth-dec", s] =>
    match hexStr s with
    | some s => showInt (clientAuthDecode s)
    | none => "bad-op"
  | ["keyusage", v] =>
    match parseInt v with
    | some k => showKeyUsage (keyUsageEncode k) ++ ";" ++ showInt (keyUsageDecode (keyUsageEncode k))
    | none => "bad-op"
  | ["keyusage-dec", _, v] =>
    match parseInt v with
    | some v => showInt (keyUsageDecode { flags := [], value := v })
    | none => "bad-op"
  | ["tlscurveid", v] =>
    match v.toNat? with
    | some c =>
      if c ≤ 65535 then
        let j := tlsCurveIDEncode c
        "id=n:" ++ toString j.id ++ ",name=s:" ++ strHex j.name ++ ";" ++ showNat (tlsCurveIDDecode j)
      else "bad-op"
    | none => "bad-op"
  | ["tlscurveid-dec", n, v] =>
    match hexStr n, parseInt v with
    | some n, some v => showNat (tlsCurveIDDecode { name := n, id := v })
    | _, _ => "bad-op"
  | ["pubkeyalg", v] =>
    match parseInt v with
    | some p =>
      match publicKeyAlgorithmEncode p with
      | .ok n => (if n.isEmpty then "" else "name=s:" ++ strHex n) ++ ";" ++ showInt (publicKeyAlgorithmDecode n)
      | .err => "err"
      | .panic => "panic"
    | none => "bad-op"
  | ["pubkeyalg-dec", n] =>
    match hexStr n with
    | some n => showInt (publicKeyAlgorithmDecode n)
    | none => "bad-op"
  | ["sigalg", v] =>
    match parseInt v with
    | some a =>
      let j := signatureAlgorithmEncode a
      (if j.name.isEmpty then "" else "name=s:" ++ strHex j.name ++ ",") ++ "oid=s:" ++ strHex j.oid ++ ";" ++ showInt (signatureAlgorithmDecode j)
    | none => "bad-op"
  | ["sigalg-dec", n, o] =>
    match hexStr n, hexStr o with
    | some n, some o => showInt (signatureAlgorithmDecode { name := n, oid := o })
    | _, _ => "bad-op"
  | ["ecpoint", x, y] =>
    match parseBig x, parseBig y with
    | some x, some y =>
      let j := ecPointEncode x y
      showParam j.x ++ "," ++ showParam j.y ++ ";" ++ showPoint (ecPointDecode j)
    | _, _ => "bad-op"
  | ["ecpoint-dec", x, y] =>
    match parseMember x, parseMember y with
    | some x, some y => showPoint (ecPointDecode { x := x, y := y })
    | _, _ => "bad-op"
  | ["dhparams", a, b, c, d, e, f, g] =>
    match [a, b].mapM parseBig, [c, d, e, f, g].mapM parseBig with
    | some req, some opt =>
      let j := dhEncode req opt
      ",".intercalate (j.map showParam) ++ ";ok " ++ "/".intercalate ((dhDecode j).map showBig)
    | _, _ => "bad-op"
  | _ => handleStruct args

end ZV.C33
