-- Root of the `ZV` library: models, property theorems, driver handlers.
import ZV.Base
import ZV.All
