import ZV.Drv.Dispatch
/-! `zvdriver`: one request per input line (`topic arg…`), one answer per output line. -/
partial def loop (h : IO.FS.Stream) (out : IO.FS.Stream) : IO Unit := do
  let line ← h.getLine
  if line.isEmpty then return ()
  let toks := (line.trimAscii.toString.splitOn " ").filter (· ≠ "")
  match toks with
  | [] => out.putStrLn "bad-line"
  | t :: args => out.putStrLn (ZV.dispatch t args)
  loop h out

def main : IO Unit := do
  let out ← IO.getStdout
  loop (← IO.getStdin) out
  out.flush
