#!/bin/sh
# tools/runall.sh [--tier t] ids... : runs checks sequentially, prints the summary line of each
tier=quick; if [ "$1" = "--tier" ]; then tier=$2; shift 2; fi
cd "$(dirname "$0")/.."
for p in "$@"; do ./check $p --tier $tier 2>/dev/null | grep -E "^(VIOLATION|KNOWN-FINDING|C[0-9]+ )" ; done
