#!/bin/sh
# tools/pull.sh <agent> [apply]: list (or copy) files of /work/<agent>/verif that are new or changed w.r.t. /verif
# (source files only; glue, build output, evidence and replays excluded).
a=$1; mode=$2
cd /work/$a/verif || exit 1
EXC="--exclude .git --exclude .build --exclude .lake --exclude replays --exclude evidence --exclude __pycache__ --exclude lean/ZV/All.lean --exclude lean/ZV/Drv/Dispatch.lean --exclude go/props/all.go --exclude go/cmd/zvextract/all.go --exclude go/go.mod --exclude go/go.sum --exclude lean/ZV/Generated --exclude MANIFEST.json --exclude lean/lake-manifest.json"
if [ "$mode" = apply ]; then
  shift 2
  # copy only the given paths (relative), or everything new/changed when none given
  if [ $# -gt 0 ]; then for p in "$@"; do mkdir -p /verif/$(dirname $p); cp -r $p /verif/$(dirname $p)/; done
  else rsync -a $EXC ./ /verif/; fi
else
  rsync -aicn $EXC ./ /verif/ | grep -v '/$' | awk '{print $1, $2}'
fi
