#!/usr/bin/env python3
"""Runs /repo's pinned test suite WITHOUT the verif tag and checks that every test of
/root/.vp/BASELINE.json's stable_pass list passes.  usage: tools/baseline.py [repo-dir]"""
import json, subprocess, sys, os
repo = sys.argv[1] if len(sys.argv) > 1 else "/repo"
base = json.load(open("/root/.vp/BASELINE.json"))
env = dict(os.environ, GOFLAGS="-mod=mod", GOPROXY="off")
for k in ("GOTOOLCHAIN", "GOSUMDB"):
    env.pop(k, None)
p = subprocess.run(["go", "test", "-mod=mod", "-json", "-vet=off", "-count=1", "-timeout", "25m", "./..."],
                   cwd=repo, env=env, stdout=subprocess.PIPE, stderr=subprocess.STDOUT, text=True)
passed, failed = set(), set()
for line in p.stdout.split("\n"):
    if not line.startswith("{"):
        continue
    try:
        ev = json.loads(line)
    except Exception:
        continue
    if ev.get("Test") is None or ev.get("Action") not in ("pass", "fail"):
        continue
    tid = ev["Package"] + "::" + ev["Test"]
    (passed if ev["Action"] == "pass" else failed).add(tid)
passed -= failed
missing = [t for t in base["stable_pass"] if t not in passed]
print("stable_pass=%d passed_now=%d failed_now=%d missing_from_pass=%d" % (len(base["stable_pass"]), len(passed), len(failed), len(missing)))
for t in missing[:40]:
    print("  NOT PASSING:", t)
sys.exit(1 if missing else 0)
