# Per-property metadata used by tools/zvcheck.py (Lean module holding the property theorems,
# shrinking strategy, trusted base and what is modelled rather than verified).
PROPS = {
    "C35": {
        "lean": "ZV.Props.C35",
        "shrink": "ops",
        "level_text": "Proof: run_refines shows, by induction over arbitrary operation sequences, that the branch-for-branch Lean model of Put/Get equals an abstract bounded-LRU map (nil Put = delete only); size_le_cap, get_after_put, put_nil_removes_only, evicts_lru_first, get_hit_non_nil are the sentences of the property for every reachable state. The model is tied to the Go code by running every history up to length 4/5 over 3 keys and capacities 1..3 plus long random histories through the public API and through the model and diffing all Get results.",
        "level_note": "Trusted: Lean kernel + propext/Classical.choice/Quot.sound; the hand-written model (exercised by the T2 stream, case counts in evidence); harness and diff tooling; Go runtime, container/list. Mutex/concurrent use not modelled.",
        "technique": "Lean 4 refinement proof (invariant + induction over op sequences) + exhaustive short-history correspondence with the Go code",
        "trusted": ["hand-written Lean model ZV.Model.C35 of tls/common.go lruSessionCache.Put/Get, tied to the Go code by the T2 stream c35 (public API NewLRUClientSessionCache/Put/Get)"],
        "modelled": ["sync.Mutex locking of the cache is not modelled (single-threaded histories)",
                     "*ClientSessionState values are abstracted to identities"],
        "assumptions": ["container/list and Go maps behave as documented"],
    },
}

# properties with no check: id -> reason
NOT_APPLICABLE = {}

# commits in /repo that add verif-tagged hook files
HOOK_COMMITS = []
