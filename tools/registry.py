# Per-property metadata used by tools/zvcheck.py and tools/mkmanifest.py: one JSON file per property in
# tools/props/Cxx.json  (keys: lean, level, level_text, level_note, technique, shrink, trusted, modelled,
# assumptions, timeout_s, serial …).
import json, os, glob
_d = os.path.join(os.path.dirname(os.path.abspath(__file__)), "props")
PROPS = {}
for f in sorted(glob.glob(os.path.join(_d, "C*.json"))):
    PROPS[os.path.basename(f)[:-5]] = json.load(open(f))
_na = os.path.join(_d, "not_applicable.json")
NOT_APPLICABLE = json.load(open(_na)) if os.path.exists(_na) else {}
_hc = os.path.join(_d, "hook_commits.json")
HOOK_COMMITS = json.load(open(_hc)) if os.path.exists(_hc) else []
