#!/bin/bash
# tools/seedtest.sh <Cxx> <seed-dir> <pkg-dir-for-demo> <test-regex> [<id-suffix>]
# 1. confirms the seeded change in a scratch worktree: demo passes without / fails with the patch, package tests unchanged
# 2. applies the patch to /repo, runs ./check Cxx, reverts
# 3. stores /verif/seeded/<Cxx>-<suffix>/{patch.diff,demo_test.go,NOTES.md,meta.json}
set -u
P=$1; S=$2; PKG=$3; RE=$4; SUF=${5:-$(basename $S)}
export GOFLAGS=-mod=mod GOPROXY=off
W=/tmp/seedchk-$$; git -C /repo worktree add -q --detach $W HEAD
demo=$(ls $S/*_test.go | head -1)
( cd $W && go test -vet=off -count=1 ./$PKG/ 2>&1 | grep -v "^--- \|^=== \|^    " | tail -3 >/tmp/seedchk-$$.pkgpre )
mkdir -p $W/$PKG; cp $demo $W/$PKG/zvseed_demo_test.go
( cd $W && go test ${SEED_GOTESTFLAGS:-} -vet=off -count=1 -run "$RE" ./$PKG/ >/tmp/seedchk-$$.pre 2>&1 ); pre=$?
( cd $W && git apply $S/patch.diff ) || { echo "patch does not apply"; git -C /repo worktree remove --force $W; exit 2; }
( cd $W && go build ./... >/tmp/seedchk-$$.build 2>&1 ); build=$?
( cd $W && go test ${SEED_GOTESTFLAGS:-} -vet=off -count=1 -run "$RE" ./$PKG/ >/tmp/seedchk-$$.post 2>&1 ); post=$?
rm $W/$PKG/zvseed_demo_test.go
( cd $W && go test -vet=off -count=1 ./$PKG/ 2>&1 | grep -v "^--- \|^=== \|^    " | tail -3 >/tmp/seedchk-$$.pkgpost )
pkgsame=no; diff <(sed 's/[0-9.]*s$//' /tmp/seedchk-$$.pkgpre) <(sed 's/[0-9.]*s$//' /tmp/seedchk-$$.pkgpost) >/dev/null && pkgsame=yes
git -C /repo worktree remove --force $W
echo "demo without patch: rc=$pre (want 0); with patch: rc=$post (want !=0); build rc=$build; package tests same before/after: $pkgsame"
# run the check against the patched /repo
git -C /repo apply $S/patch.diff || exit 2
out=$(cd /verif && ./check $P 2>/dev/null | tail -3)
git -C /repo checkout -- .
echo "$out"
caught=no; echo "$out" | grep -q "^VIOLATION property=$P" && caught=yes
kind=$(echo "$out" | grep "^VIOLATION" | grep -q no-failing-input-found && echo no-failing-input-found || echo failing-input)
what=$(python3 -c "import json,sys; r=json.load(open('/verif/replays/$P-quick-1.json')); print((r.get('what') or '')[:300].replace(chr(10),' '))" 2>/dev/null)
[ "$caught" = no ] && what=""
D=/verif/seeded/$P-$SUF; mkdir -p $D; echo "$what" > $D/caught_by.txt; cp $S/patch.diff $D/; cp $demo $D/demo_test.go; cp $S/NOTES.md $D/ 2>/dev/null
python3 - "$P" "$D" "$pre" "$post" "$build" "$pkgsame" "$caught" "$kind" "$PKG" "$RE" <<'PY'
import json,sys
P,D,pre,post,build,pkgsame,caught,kind,pkg,rx=sys.argv[1:]
json.dump({"property":P,"breaks":P,"demo":{"package":pkg,"run":rx,"passes_without_patch":pre=="0","fails_with_patch":post!="0"},
 "builds":build=="0","existing_package_tests_unchanged":pkgsame=="yes","check":"./check %s (quick)"%P,"caught":caught=="yes","verdict_kind":kind if caught=="yes" else None,
 "needs":"see NOTES.md","ran":"tools/seedtest.sh"},open(D+"/meta.json","w"),indent=1)
PY
rm -f /tmp/seedchk-$$.*
echo "=> $P-$SUF caught=$caught"
