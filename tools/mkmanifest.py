#!/usr/bin/env python3
"""Regenerates /verif/MANIFEST.json from tools/registry.py (single source of truth)."""
import json, os, sys, subprocess
V = os.path.dirname(os.path.dirname(os.path.abspath(__file__)))
sys.path.insert(0, os.path.join(V, "tools"))
from registry import PROPS, NOT_APPLICABLE, HOOK_COMMITS
def hook_commits():
    out = []
    try:
        log = subprocess.check_output(["git", "-C", "/repo", "log", "--format=%h", "--reverse", "87500ae..HEAD"], text=True).split()
        for h in log:
            files = subprocess.check_output(["git", "-C", "/repo", "show", "--name-only", "--format=", h], text=True).split()
            if files and all(f.endswith("_verif.go") for f in files):
                out.append(h)
    except Exception:
        return HOOK_COMMITS
    return out
HOOK_COMMITS = hook_commits() or HOOK_COMMITS
ids = [json.loads(l)["id"] for l in open(os.path.join(V, "properties.jsonl"))]
checks = []
for pid in ids:
    if pid not in PROPS:
        continue
    c = PROPS[pid]
    checks.append({
        "property_id": pid,
        "quick_cmd": "./check %s --tier quick" % pid,
        "thorough_cmd": "./check %s --tier thorough" % pid,
        "evidence_file": "/verif/evidence/%s.json" % pid,
        "replay_cmd_template": "./check %s --replay {path}" % pid,
        "engine": "zvcheck",
        "level_claimed": {"category": c.get("level", "proof"), "text": c["level_text"], "design_ref": c.get("design_ref", "DESIGN.md section 3, " + pid)},
        "level_note": c["level_note"],
        "technique": c.get("technique", "Lean 4 theorem over an executable model + Go/Lean correspondence check"),
    })
na = [{"property_id": p, "reason": NOT_APPLICABLE.get(p, "no check registered yet for this property (framework under construction); nothing is claimed")} for p in ids if p not in PROPS]
m = {
    "version": 1,
    "setup_cmd": "cd /verif && ./setup.sh",
    "hooks": {"guard": "verif", "enable": "go build -tags verif (harness module /verif/go, replace github.com/zmap/zcrypto => /repo)",
              "baseline_off_cmd": "python3 /verif/tools/baseline.py /repo", "source_commits": HOOK_COMMITS, "add_only": True},
    "engines": [{"name": "zvcheck", "path": "tools/zvcheck.py", "serves_properties": [c["property_id"] for c in checks],
                 "kind_free_text": "Lean 4 theorems over executable models (lean/ZV), tied to /repo by regenerated tables (T1), a Go-vs-Lean correspondence stream (T2) and implementation-only property oracles (T3)"}],
    "checks": checks,
    "not_applicable": na,
    "notes": "Design, trusted base, findings and the change-detection matrix are in DESIGN.md; known_findings.json lists fixed defects and recorded findings.",
}
json.dump(m, open(os.path.join(V, "MANIFEST.json"), "w"), indent=1)
print("checks=%d not_applicable=%d" % (len(checks), len(na)))
