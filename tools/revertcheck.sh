#!/bin/bash
# For every `fixed` entry of known_findings.json: revert the fix commit in /repo (working tree only), run the owning
# check, expect a VIOLATION, restore. Output: one line per entry.
cd /verif
python3 -c "
import json
for e in json.load(open('known_findings.json'))['entries']:
    if e['kind']=='fixed': print(e['property'], e['id'], e['commit'])
" | while read P ID H; do
  if git -C /repo revert -n $H >/dev/null 2>&1; then
    out=$(./check $P 2>/dev/null | tail -2 | tr '\n' ' ')
    res=MISSED; echo "$out" | grep -q "^VIOLATION property=$P" && res=caught
    kind=$(echo "$out" | grep -q no-failing-input-found && echo no-input || echo input)
    echo "$P $ID $H $res $kind"
  else
    echo "$P $ID $H revert-conflict"
  fi
  git -C /repo revert --abort >/dev/null 2>&1; git -C /repo reset -q --hard HEAD
done
