#!/bin/bash
# tools/seedlist.sh <Cxx> <worktree> <suffix-prefix>: prints seedbatch lines for every seed/N of a seeder worktree
P=$1; W=$2; PRE=$3
for d in $W/seed/[0-9]*; do
  [ -f $d/patch.diff ] || continue
  demo=$(ls $d/*_test.go 2>/dev/null | head -1); [ -z "$demo" ] && continue
  path=$(cat $demo $d/NOTES.md 2>/dev/null | grep -oE '\b(tls|x509(/[a-z0-9/]+)?|rsa|dsa|json|ct(/[a-z0-9]+)?|cryptobyte|verifier|encoding/asn1|seed/[0-9]+)/[A-Za-z0-9_]*_test\.go' | head -1)
  pkg=$(dirname "$path"); [ "$pkg" = "." ] && pkg="seed/$(basename $d)"
  race=""; grep -qi "\-race" $d/NOTES.md 2>/dev/null && grep -qi "only under\|fails only\|needs -race\|requires -race" $d/NOTES.md && race=race
  echo "$P $d $pkg $PRE$(basename $d) $race"
done
