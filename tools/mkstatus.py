#!/usr/bin/env python3
"""Rewrites the generated status table of DESIGN.md (between the STATUS-TABLE markers) from tools/props, Props/*.lean and evidence/."""
import json, os, re, glob, sys
V = os.path.dirname(os.path.dirname(os.path.abspath(__file__)))
sys.path.insert(0, os.path.join(V, "tools"))
from zvcheck import theorems_of
rows = ["| id | theorems in Props (audited) | quick-tier cases (model-compared) | findings hit | first theorems |", "|---|---|---|---|---|"]
for f in sorted(glob.glob(os.path.join(V, "tools/props/C*.json"))):
    pid = os.path.basename(f)[:-5]
    d = json.load(open(f))
    th = theorems_of(d["lean"])
    ev = {}
    p = os.path.join(V, "evidence", pid + ".json")
    if os.path.exists(p):
        ev = json.load(open(p))["coverage"]
    rows.append("| %s | %d | %s (%s) | %s | %s |" % (pid, len(th), ev.get("evaluations", "-"), ev.get("traces_validated_against_impl", "-"),
                ", ".join(ev.get("known_findings_hit", [])) or "-", ", ".join("`%s`" % t.split(".")[-1] for t in th[:6]) + (" …" if len(th) > 6 else "")))
s = open(os.path.join(V, "DESIGN.md")).read()
a, b = "<!-- STATUS-TABLE-BEGIN -->", "<!-- STATUS-TABLE-END -->"
if a in s:
    s = s[:s.index(a) + len(a)] + "\n" + "\n".join(rows) + "\n" + s[s.index(b):]
    open(os.path.join(V, "DESIGN.md"), "w").write(s)
print("\n".join(rows[:5]))
