#!/bin/bash
# tools/seedbatch.sh <listfile>: lines "Cxx <seed-dir> <pkg-dir-for-demo> <suffix> [race]"
while read P D PKG SUF RACE; do
  [ -z "$P" ] && continue
  extra=""; [ "$RACE" = race ] && extra="-race"
  echo "### $P $D"
  SEED_GOTESTFLAGS=$extra /verif/tools/seedtest.sh $P $D $PKG 'Seed|Demo|seed' $SUF 2>&1 | tail -4
done < "$1"
