#!/bin/bash
# tools/seedbatch.sh <listfile>: lines "Cxx sNN n pkg"
while read P S N PKG; do
  [ -z "$P" ] && continue
  extra=""; [ "$P $N" = "C17 2" ] && extra="-race"
  echo "### $P $S/$N"
  SEED_GOTESTFLAGS=$extra /verif/tools/seedtest.sh $P /tmp/seed-$S/seed/$N $PKG 'Seed|Demo|seed' $N 2>&1 | tail -4
done < "$1"
