#!/bin/sh
# tools/mkwork.sh <name>: private workspace for one builder: /work/<name>/verif (copy incl. build outputs) and
# /work/<name>/repo (git worktree of /repo at HEAD on branch zv-<name>).
set -e
n=$1; mkdir -p /work/$n
rsync -a --exclude .git --exclude replays /verif/ /work/$n/verif/
git -C /repo worktree add -q -b zv-$n /work/$n/repo HEAD
sed -i "s#replace github.com/zmap/zcrypto => .*#replace github.com/zmap/zcrypto => /work/$n/repo#" /work/$n/verif/go/go.mod
echo "/work/$n ready"
