#!/usr/bin/env python3
"""Rewrites the seeded-changes table of DESIGN.md (between SEEDED-TABLE markers) from seeded/*/meta.json."""
import json, os, glob, re
V = os.path.dirname(os.path.dirname(os.path.abspath(__file__)))
rows = ["| seeded change | property | what it changes (from the seeder's notes) | demo verified | caught by `./check` | how |", "|---|---|---|---|---|---|"]
tot = caught = 0
def key(d):
    m = re.match(r".*/(C\d+)-(\d+)$", d)
    return (m.group(1), int(m.group(2))) if m else (d, 0)
for d in sorted(glob.glob(os.path.join(V, "seeded", "C*-*")), key=key):
    mp = os.path.join(d, "meta.json")
    if not os.path.exists(mp):
        continue
    m = json.load(open(mp))
    notes = ""
    np_ = os.path.join(d, "NOTES.md")
    if os.path.exists(np_):
        txt = open(np_).read()
        lines = [l.strip() for l in txt.split("\n") if l.strip() and not l.startswith("#")]
        notes = (lines[0] if lines else "")[:160].replace("|", "/")
    how = ""
    cp = os.path.join(d, "caught_by.txt")
    if os.path.exists(cp):
        how = open(cp).read().strip()[:110].replace("|", "/").replace("\n", " ")
    if m.get("caught") and not how:
        how = m.get("verdict_kind") or ""
    demo = "yes" if (m["demo"]["passes_without_patch"] and m["demo"]["fails_with_patch"] and m["builds"]) else "NO"
    tot += 1; caught += 1 if m.get("caught") else 0
    rows.append("| seeded/%s | %s | %s | %s | %s | %s |" % (os.path.basename(d), m["property"], notes, demo, "yes" if m.get("caught") else "**no**", how))
rows.append("")
rows.append("%d seeded changes kept, %d caught by the quick tier of the owning check." % (tot, caught))
s = open(os.path.join(V, "DESIGN.md")).read()
a, b = "<!-- SEEDED-TABLE-BEGIN -->", "<!-- SEEDED-TABLE-END -->"
if a in s:
    s = s[:s.index(a) + len(a)] + "\n" + "\n".join(rows) + "\n" + s[s.index(b):]
    open(os.path.join(V, "DESIGN.md"), "w").write(s)
print(rows[-1])
