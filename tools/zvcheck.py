#!/usr/bin/env python3
"""
./check <Cxx> [--tier quick|thorough] [--replay <file>]

One run of one property:
  1. T1  regenerate lean/ZV/Generated from /repo's working tree (zvextract, -tags verif)
  2.     lake build ZV.Props.<id> + zvdriver; axiom audit of every theorem of Props/<id>.lean
  3. T2  zvharness (real zcrypto code, built from /repo now) and zvdriver (Lean model) on the same
         case lines; outputs diffed
  4. T3  the property evaluated on the implementation alone for every case (inside zvharness)
  5.     classify against known_findings.json, shrink, write replay + evidence
Exit 0 = held on everything explored; exit 1 + "VIOLATION property=<id> replay=<path>" otherwise.
"""
import sys, os, json, subprocess, tempfile, shutil, time, re, fcntl, hashlib, glob

VERIF = os.path.dirname(os.path.dirname(os.path.abspath(__file__)))
LEAN = os.path.join(VERIF, "lean")
GO = os.path.join(VERIF, "go")
BUILD = os.path.join(VERIF, ".build")
REPO = os.environ.get("ZV_REPO", "/repo")
ALLOWED_AXIOMS = {"propext", "Classical.choice", "Quot.sound"}
BANNED = re.compile(r"\b(sorry|admit|native_decide|bv_decide|implemented_by|unsafe)\b|^\s*axiom\s|maxHeartbeats\s+0")

sys.path.insert(0, os.path.join(VERIF, "tools"))
from registry import PROPS  # noqa: E402


def env_go():
    e = dict(os.environ)
    e["GOFLAGS"] = "-mod=mod"
    e["GOPROXY"] = "off"
    e.pop("GOTOOLCHAIN", None)
    e.pop("GOSUMDB", None)
    e.pop("GONOSUMDB", None)
    e.pop("GONOSUMCHECK", None)
    e.pop("GOFLAGS_EXTRA", None)
    return e


def run(cmd, cwd=None, env=None, timeout=None, stdin=None, stdout=None):
    p = subprocess.run(cmd, cwd=cwd, env=env, timeout=timeout, stdin=stdin,
                       stdout=stdout if stdout is not None else subprocess.PIPE,
                       stderr=subprocess.STDOUT if stdout is None else subprocess.PIPE, text=True)
    return p.returncode, (p.stdout if stdout is None else (p.stderr or ""))


class Lock:
    def __init__(self, name):
        os.makedirs(BUILD, exist_ok=True)
        self.f = open(os.path.join(BUILD, name), "w")

    def __enter__(self):
        fcntl.flock(self.f, fcntl.LOCK_EX)

    def __exit__(self, *a):
        fcntl.flock(self.f, fcntl.LOCK_UN)


def strip_comments(src):
    # remove /- ... -/ (nested not handled beyond one level, enough for our files) and -- comments
    out, i, depth = [], 0, 0
    while i < len(src):
        if src.startswith("/-", i):
            depth += 1; i += 2; continue
        if src.startswith("-/", i) and depth > 0:
            depth -= 1; i += 2; continue
        if depth == 0:
            out.append(src[i])
        elif src[i] == "\n":
            out.append("\n")
        i += 1
    s = "".join(out)
    return "\n".join(l.split("--")[0] for l in s.split("\n"))


def lean_sources_of(mod):
    """transitive ZV.* imports of a module (files under lean/)"""
    seen, todo = [], [mod]
    while todo:
        m = todo.pop()
        if m in seen:
            continue
        path = os.path.join(LEAN, *m.split(".")) + ".lean"
        if not os.path.exists(path):
            continue
        seen.append(m)
        for l in open(path):
            mm = re.match(r"\s*(?:public\s+)?import\s+(ZV\.\S+)", l)
            if mm:
                todo.append(mm.group(1))
    return seen


def build_go(log):
    """harness + extractor from /repo's CURRENT working tree, hooks on"""
    with Lock("go.lock"):
        subprocess.run([sys.executable, os.path.join(VERIF, "tools", "genglue.py")], check=True)
        shutil.copyfile(os.path.join(REPO, "go.sum"), os.path.join(GO, "go.sum"))
        gm = open(os.path.join(GO, "go.mod")).read()
        gm2 = re.sub(r"replace github.com/zmap/zcrypto => \S+", "replace github.com/zmap/zcrypto => " + REPO, gm)
        if gm2 != gm:
            open(os.path.join(GO, "go.mod"), "w").write(gm2)
        rc, out = run(["go", "build", "-tags", "verif", "-o", os.path.join(BUILD, "zvharness"), "./cmd/zvharness"],
                      cwd=GO, env=env_go(), timeout=1200)
        log.append("go build zvharness rc=%d\n%s" % (rc, out[-3000:]))
        if rc != 0:
            return False, out
        if os.path.isdir(os.path.join(GO, "cmd", "zvextract")):
            rc, out = run(["go", "build", "-tags", "verif", "-o", os.path.join(BUILD, "zvextract"), "./cmd/zvextract"],
                          cwd=GO, env=env_go(), timeout=1200)
            log.append("go build zvextract rc=%d\n%s" % (rc, out[-3000:]))
            if rc != 0:
                return False, out
    return True, ""


def regenerate(log):
    """T1: rewrite lean/ZV/Generated/*.lean from the current tree (only touching files whose content changed)"""
    ex = os.path.join(BUILD, "zvextract")
    if not os.path.exists(ex):
        return True, ""
    with Lock("lean.lock"):
        tmp = tempfile.mkdtemp(prefix="zvgen-")
        try:
            rc, out = run([ex, REPO, tmp], env=env_go(), timeout=600)
            log.append("zvextract rc=%d %s" % (rc, out[-2000:]))
            if rc != 0:
                return False, out
            gdir = os.path.join(LEAN, "ZV", "Generated")
            os.makedirs(gdir, exist_ok=True)
            new = {f for f in os.listdir(tmp) if f.endswith(".lean")}
            for f in os.listdir(gdir):
                if f.endswith(".lean") and f not in new:
                    os.remove(os.path.join(gdir, f))
            for f in new:
                a, b = os.path.join(tmp, f), os.path.join(gdir, f)
                if not os.path.exists(b) or open(a).read() != open(b).read():
                    shutil.copyfile(a, b)
        finally:
            shutil.rmtree(tmp, ignore_errors=True)
    return True, ""


def lake_build(targets, log):
    with Lock("lean.lock"):
        rc, out = run(["lake", "build"] + targets, cwd=LEAN, timeout=7200)
    log.append("lake build %s rc=%d\n%s" % (" ".join(targets), rc, out[-6000:]))
    return rc == 0, out


def theorems_of(propmod):
    path = os.path.join(LEAN, *propmod.split(".")) + ".lean"
    src = strip_comments(open(path).read())
    ns = None
    m = re.search(r"^namespace\s+(\S+)", src, re.M)
    if m:
        ns = m.group(1)
    names = []
    # track nested namespaces roughly: only top-level namespace + `namespace X … end X` blocks
    stack = []
    for line in src.split("\n"):
        m = re.match(r"\s*namespace\s+(\S+)", line)
        if m:
            stack.append(m.group(1)); continue
        m = re.match(r"\s*end\s+(\S+)", line)
        if m and stack and stack[-1].split(".")[-1] == m.group(1).split(".")[-1]:
            stack.pop(); continue
        m = re.match(r"\s*(?:private\s+|protected\s+)?theorem\s+(\S+)", line)
        if m:
            names.append(".".join(stack + [m.group(1)]))
    return names


def audit(propmod, log):
    """#print axioms for every theorem of the Props file; banned-token grep over the transitive ZV sources."""
    thms = theorems_of(propmod)
    bad_tokens = []
    for m in lean_sources_of(propmod):
        path = os.path.join(LEAN, *m.split(".")) + ".lean"
        for n, l in enumerate(strip_comments(open(path).read()).split("\n"), 1):
            if BANNED.search(l):
                bad_tokens.append("%s:%d: %s" % (m, n, l.strip()[:120]))
    tmpd = tempfile.mkdtemp(prefix="zvaudit-")
    res = {}
    try:
        f = os.path.join(tmpd, "Audit.lean")
        with open(f, "w") as fh:
            fh.write("import %s\n" % propmod)
            for t in thms:
                fh.write("#print axioms %s\n" % t)
        rc, out = run(["lake", "env", "lean", f], cwd=LEAN, timeout=1800)
        log.append("audit rc=%d\n%s" % (rc, out[-4000:]))
        cur = None
        for chunk in re.split(r"(?m)^(?=')", out):
            m = re.match(r"'(.+?)' (does not depend on any axioms|depends on axioms: \[([^\]]*)\])", chunk.replace("\n", " "))
            if m:
                ax = [] if m.group(3) is None else [a.strip() for a in m.group(3).split(",") if a.strip()]
                res[m.group(1)] = ax
    finally:
        shutil.rmtree(tmpd, ignore_errors=True)
    ok, problems = True, list(bad_tokens)
    if bad_tokens:
        ok = False
    for t in thms:
        if t not in res:
            ok = False; problems.append("theorem %s: no #print axioms output (did not check)" % t)
        else:
            extra = [a for a in res[t] if a not in ALLOWED_AXIOMS]
            if extra:
                ok = False; problems.append("theorem %s depends on %s" % (t, extra))
    return ok, thms, res, problems


def run_cases(pid, tier, seed, scratch, log, replay_lines=None):
    """harness (Go) then driver (Lean) on the same lines; returns report dict, list of T2 disagreements"""
    h = os.path.join(BUILD, "zvharness")
    if replay_lines is None:
        cmd = [h, "run", pid, tier, str(seed), scratch]
    else:
        rf = os.path.join(scratch, "replay.in")
        open(rf, "w").write("\n".join(replay_lines) + "\n")
        cmd = [h, "replay", pid, scratch, rf]
    e = env_go()
    e.setdefault("GOMEMLIMIT", "24GiB")
    e["ZV_CORPUS"] = os.path.join(VERIF, "corpus")
    rc, out = run(cmd, env=e, timeout=PROPS[pid].get("timeout_s", 3000) * (1 if tier == "quick" else 4))
    log.append("harness rc=%d %s" % (rc, out[-3000:]))
    if rc != 0:
        raise RuntimeError("harness failed: " + out[-2000:])
    rep = json.load(open(os.path.join(scratch, "report.json")))
    cin, gout, lout = (os.path.join(scratch, x) for x in ("cases.in", "go.out", "lean.out"))
    dis = []
    if rep["model_lines"] > 0:
        drv = os.path.join(LEAN, ".lake", "build", "bin", "zvdriver")
        with open(cin) as fi, open(lout, "w") as fo:
            p = subprocess.run([drv], stdin=fi, stdout=fo, stderr=subprocess.PIPE, text=True, timeout=7200)
        if p.returncode != 0:
            raise RuntimeError("zvdriver failed: " + p.stderr[-2000:])
        with open(cin) as a, open(gout) as b, open(lout) as c:
            n = 0
            for line, g, l in zip(a, b, c):
                n += 1
                if g != l:
                    if len(dis) < 200:
                        dis.append({"line": line.rstrip("\n"), "go": g.rstrip("\n"), "lean": l.rstrip("\n")})
                    else:
                        dis.append(None)
            rest = c.read()
        if n != rep["model_lines"]:
            raise RuntimeError("driver produced %d lines for %d cases" % (n, rep["model_lines"]))
    return rep, dis


def load_known():
    p = os.path.join(VERIF, "known_findings.json")
    if not os.path.exists(p):
        return []
    return json.load(open(p)).get("entries", [])


def known_match(pid, line, what):
    for e in load_known():
        if e.get("kind") != "finding" or e.get("property") != pid:
            continue
        m = e.get("match", {})
        if "line" in m and m["line"] == line:
            return e
        if "line_regex" in m and re.search(m["line_regex"], line) and \
                ("what_regex" not in m or re.search(m["what_regex"], what or "")):
            return e
    return None


def shrink(pid, bad, scratch, log, budget=40):
    """delta-debug the comma-separated last field of a failing line (op sequences); keeps failing = T3 violation or T2 disagreement"""
    cfg = PROPS[pid]
    if cfg.get("shrink") != "ops":
        return bad
    line = bad["line"]
    head, _, tail = line.rpartition(" ")
    ops = tail.split(",")

    def fails(cands):
        d = tempfile.mkdtemp(prefix="zvshr-", dir=scratch)
        rep, dis = run_cases(pid, "replay", 0, d, [], replay_lines=cands)
        bad_lines = {v["line"] for v in rep["violations"]} | {x["line"] for x in dis if x}
        shutil.rmtree(d, ignore_errors=True)
        return bad_lines
    rounds = 0
    while rounds < budget and len(ops) > 1:
        rounds += 1
        cands = {}
        for i in range(len(ops)):
            c = ops[:i] + ops[i + 1:]
            cands[head + " " + ",".join(c)] = c
        try:
            bl = fails(list(cands))
        except Exception as ex:  # noqa
            log.append("shrink aborted: %s" % ex)
            break
        if not bl:
            break
        best = min(bl, key=len)
        ops = cands[best]
    bad = dict(bad)
    bad["line"] = head + " " + ",".join(ops)
    bad["shrunk_from"] = line
    return bad


def main():
    args = sys.argv[1:]
    if not args:
        print(__doc__); sys.exit(2)
    pid = args[0]
    tier = os.environ.get("VERIF_TIER", "quick")
    replay = None
    i = 1
    while i < len(args):
        if args[i] == "--tier":
            tier = args[i + 1]; i += 2
        elif args[i] == "--replay":
            replay = args[i + 1]; i += 2
        else:
            i += 1
    if pid not in PROPS:
        print("unknown property", pid); sys.exit(2)
    cfg = PROPS[pid]
    seed = int(os.environ.get("VERIF_SEED", "1"))
    t0 = time.time()
    log = []
    scratch = tempfile.mkdtemp(prefix="zv-%s-" % pid, dir=os.environ.get("ZV_SCRATCH"))
    propmod = cfg["lean"]
    violations = []   # list of dicts: {kind, what, line?, go?, lean?, theorem?}
    known_hits = []
    status = {"go_build": None, "t1": None, "lean_build": None, "audit": None}
    rep, dis = {"evaluations": 0, "distinct_nontrivial": 0, "model_lines": 0, "hist": {}, "samples": [], "violations": [], "rule": ""}, []
    thms, axioms, problems = [], {}, []
    try:
        ok, out = build_go(log)
        status["go_build"] = ok
        if not ok:
            print(out[-3000:])
            print("ERROR: harness does not build against /repo's working tree (hooks missing or API changed)")
            violations.append({"kind": "build", "what": "zvharness does not build against the current tree: " + out[-1500:]})
        if ok:
            ok1, out1 = regenerate(log)
            status["t1"] = ok1
            if not ok1:
                violations.append({"kind": "t1", "what": "zvextract failed on the current tree: " + out1[-1500:]})
        # Lean: property theorems and driver
        okp, outp = lake_build([propmod], log)
        okd, outd = lake_build(["zvdriver"], log)
        status["lean_build"] = okp and okd
        if not okp:
            errs = re.findall(r"error: (\S+?:\d+:\d+): (.*)", outp)
            violations.append({"kind": "proof", "theorem": propmod,
                               "what": "proof obligations of %s no longer check: %s" % (propmod, "; ".join("%s %s" % e for e in errs[:6]) or outp[-800:])})
        if not okd:
            violations.append({"kind": "model-build", "what": "zvdriver (executable model) does not build: " + outd[-800:]})
        if okp:
            aok, thms, axioms, problems = audit(propmod, log)
            status["audit"] = aok
            if not aok:
                violations.append({"kind": "audit", "what": "axiom/sorry audit failed: " + "; ".join(problems[:8])})
        if status["go_build"] and okd:
            corpus = []
            cdir = os.path.join(VERIF, "corpus", pid)
            if replay:
                rj = json.load(open(replay))
                lines = rj.get("lines") or ([rj["line"]] if rj.get("line") else [])
                if not lines:
                    print("replay file names no input line (theorem/correspondence only):", rj.get("theorem") or rj.get("what"))
                    lines = []
                rep, dis = run_cases(pid, "replay", seed, scratch, log, replay_lines=lines) if lines else (rep, dis)
                for l in lines:
                    pass
            else:
                rep, dis = run_cases(pid, tier, seed, scratch, log)
            # when a proof / T1 obligation broke and nothing failed yet: widen the search once
            if not replay and any(v["kind"] in ("proof", "t1", "model-build", "audit") for v in violations) \
                    and not rep["violations"] and not dis and tier == "quick":
                d2 = tempfile.mkdtemp(prefix="wide-", dir=scratch)
                try:
                    rep2, dis2 = run_cases(pid, "thorough", seed + 1, d2, log)
                    if rep2["violations"] or dis2:
                        rep, dis = rep2, dis2
                except Exception as ex:  # noqa
                    log.append("widened search failed: %s" % ex)
            for v in rep["violations"]:
                violations.append({"kind": "t3", "what": v["what"], "line": v["line"], "go": v.get("go")})
            for d in dis:
                if d is None:
                    continue
                violations.append({"kind": "t2", "line": d["line"], "go": d["go"], "lean": d["lean"],
                                   "what": "correspondence T2:%s broke: Go %r vs Lean model %r" % (pid, d["go"][:200], d["lean"][:200])})
    except Exception as ex:
        import traceback
        log.append(traceback.format_exc())
        violations.append({"kind": "machinery", "what": "check machinery error: %r" % ex})

    # classify
    t3_lines = {v["line"] for v in violations if v["kind"] == "t3"}
    unknown = []
    printed_known = set()
    for v in violations:
        if v["kind"] == "t2" and v["line"] in t3_lines:
            continue  # same input already reported through the property oracle
        k = known_match(pid, v.get("line", ""), v.get("what", "")) if v.get("line") else None
        if k:
            if k["id"] not in printed_known:
                printed_known.add(k["id"])
                print("KNOWN-FINDING: property=%s %s" % (pid, k["what"]))
            known_hits.append(k["id"])
        else:
            unknown.append(v)
    exit_code = 0
    replay_path = None
    if unknown and not replay:
        # prefer a concrete failing input on the implementation (T3), then a T2 disagreement
        with_input = [v for v in unknown if v["kind"] == "t3"]
        t2only = [v for v in unknown if v["kind"] == "t2"]
        others = [v for v in unknown if v["kind"] not in ("t3", "t2")]
        os.makedirs(os.path.join(VERIF, "replays"), exist_ok=True)
        replay_path = os.path.join(VERIF, "replays", "%s-%s-%d.json" % (pid, tier, seed))
        if with_input:
            best = min(with_input, key=lambda v: len(v["line"]))
            try:
                best = shrink(pid, best, scratch, log)
            except Exception as ex:  # noqa
                log.append("shrink error %r" % ex)
            rj = {"property": pid, "kind": "failing-input", "line": best["line"], "what": best["what"],
                  "go_output": best.get("go"), "how": "./check %s --replay %s" % (pid, replay_path),
                  "also_broken": [v["what"][:300] for v in others + t2only[:3]],
                  "n_failing_inputs_this_run": len(with_input)}
            json.dump(rj, open(replay_path, "w"), indent=1)
            print("VIOLATION property=%s replay=%s" % (pid, replay_path))
        else:
            first = (others + t2only)[0]
            best2 = None
            if t2only:
                best2 = min(t2only, key=lambda v: len(v["line"]))
                try:
                    best2 = shrink(pid, best2, scratch, log)
                except Exception as ex:  # noqa
                    log.append("shrink error %r" % ex)
            rj = {"property": pid, "kind": "no-failing-input-found",
                  "theorem_or_correspondence": first.get("theorem") or ("T2:%s" % pid if first["kind"] == "t2" else first["kind"]),
                  "what": first["what"], "line": best2["line"] if best2 else None,
                  "go_output": best2.get("go") if best2 else None, "lean_output": best2.get("lean") if best2 else None,
                  "all": [v["what"][:300] for v in (others + t2only)[:10]]}
            json.dump(rj, open(replay_path, "w"), indent=1)
            print("VIOLATION property=%s replay=%s no-failing-input-found" % (pid, replay_path))
        exit_code = 1
    elif unknown and replay:
        for v in unknown[:5]:
            print("REPLAY-FAILS:", v["what"][:500])
        print("VIOLATION property=%s replay=%s" % (pid, replay))
        exit_code = 1
    elif replay:
        print("replay: property held on the replayed input(s)")

    # evidence (always rewritten)
    nthm = len(thms)
    discharged = sum(1 for t in thms if t in axioms and all(a in ALLOWED_AXIOMS for a in axioms[t])) if status["audit"] is not None else 0
    samples = list(rep.get("samples") or [])
    if not samples:
        samples = ["(no cases: build failed before the harness ran)"]
    cov = {
        "obligations": max(nthm, 1),
        "discharged": max(discharged, 1) if (status["lean_build"] and status["audit"]) else discharged,
        "checker_cmd": "cd lean && lake build %s zvdriver && lake env lean <generated #print axioms file>%s" % (
            propmod, " && lake env leanchecker %s" % propmod if tier == "thorough" else ""),
        "trusted_base": cfg.get("trusted", []) + [
            "Lean 4.33.0 kernel; axioms allowed: propext, Classical.choice, Quot.sound (audited per theorem, see axioms)",
            "tools/zvcheck.py, go/cmd/zvharness, go/internal/zv (diff, canonicalisation, oracles)",
            "Lean compiler for the executable model (zvdriver); Go toolchain and standard library"],
        "theorems": thms,
        "axioms": axioms,
        "evaluations": max(rep["evaluations"], 1),
        "distinct_nontrivial": max(rep["distinct_nontrivial"], 2) if rep["evaluations"] else 2,
        "rule": rep.get("rule", ""),
        "samples": samples,
        "traces_validated_against_impl": rep["model_lines"],
        "t2_disagreements": len(dis),
        "t3_violations": len(rep["violations"]),
        "generator_histogram": rep.get("hist", {}),
        "modelled_not_verified": cfg.get("modelled", []),
        "status": status,
        "known_findings_hit": sorted(set(known_hits)),
    }
    if not rep["evaluations"]:
        cov["distinct_nontrivial_note"] = "no cases were run; the minimum allowed by the schema is written"
    if tier == "thorough" and status["lean_build"]:
        rc, out = run(["lake", "env", "leanchecker", propmod], cwd=LEAN, timeout=3600)
        cov["leanchecker"] = "rc=%d %s" % (rc, out.strip()[-300:])
        if rc != 0 and exit_code == 0:
            os.makedirs(os.path.join(VERIF, "replays"), exist_ok=True)
            replay_path = os.path.join(VERIF, "replays", "%s-%s-%d.json" % (pid, tier, seed))
            json.dump({"property": pid, "kind": "no-failing-input-found", "theorem_or_correspondence": propmod,
                       "what": "leanchecker rejected the compiled proofs: " + out[-1000:]}, open(replay_path, "w"), indent=1)
            print("VIOLATION property=%s replay=%s no-failing-input-found" % (pid, replay_path))
            exit_code = 1
    ev = {
        "property_id": pid, "tier": "thorough" if tier == "thorough" else "quick", "seed": seed,
        "level": cfg.get("level", "proof"), "coverage": cov,
        "assumptions": cfg.get("assumptions", []),
        "wall_s": round(time.time() - t0, 2),
        "violations": len(unknown),
    }
    if not replay:
        os.makedirs(os.path.join(VERIF, "evidence"), exist_ok=True)
        json.dump(ev, open(os.path.join(VERIF, "evidence", pid + ".json"), "w"), indent=1)
    if os.environ.get("ZV_VERBOSE"):
        sys.stderr.write("\n".join(log)[-12000:] + "\n")
    elif exit_code != 0:
        sys.stderr.write("\n".join(l for l in log if not l.startswith("audit"))[-3000:] + "\n")
    shutil.rmtree(scratch, ignore_errors=True)
    print("%s %s: theorems=%d discharged=%d cases=%d model-compared=%d t2-diff=%d t3-viol=%d known=%d wall=%.1fs => %s" % (
        pid, tier, nthm, discharged, rep["evaluations"], rep["model_lines"], len(dis), len(rep["violations"]),
        len(set(known_hits)), time.time() - t0, "OK" if exit_code == 0 else "VIOLATION"))
    sys.exit(exit_code)


if __name__ == "__main__":
    main()
