#!/bin/bash
# tools/seedpkgtests.sh <seeded-dir>: re-measures "existing package tests unchanged" for one kept seeded change:
# the set of failing tests of the demo's package (go test -json, demo file absent) before and after the patch,
# in a scratch worktree of /repo HEAD outside /repo and /verif. Updates meta.json.
export GOFLAGS=-mod=mod GOPROXY=off
D=$1; id=$(basename $D)
PKG=$(python3 -c "import json;print(json.load(open('$D/meta.json'))['demo']['package'])")
W=/work/pkgchk/$id; rm -rf $W; git -C /repo worktree prune; git -C /repo worktree add -q --detach $W HEAD || exit 2
fails() { (cd $W && go test -vet=off -count=1 -json ./$PKG/ 2>/dev/null | python3 -c "
import sys,json
s=set()
for l in sys.stdin:
    try: e=json.loads(l)
    except Exception: continue
    if e.get('Action')=='fail' and e.get('Test'): s.add(e['Test'])
print('\n'.join(sorted(s)))"); }
pre=$(fails)
if (cd $W && git apply $D/patch.diff 2>/dev/null); then post=$(fails); applies=1; else applies=0; fi
git -C /repo worktree remove --force $W
python3 - "$D" "$applies" "$pre" "$post" <<'P'
import sys,json
d,applies,pre,post=sys.argv[1:5]
m=json.load(open(d+'/meta.json'))
if applies=='1':
    m['existing_package_tests_unchanged']=(pre==post)
    m['existing_package_tests_note']='failing-test sets of the package compared (go test -json) at the current head, demo file absent; %d tests fail with and without the change'%len([x for x in pre.split('\n') if x]) if pre==post else 'failing sets differ: before=%r after=%r'%(pre,post)
else:
    m['existing_package_tests_unchanged']=None
    m['existing_package_tests_note']='patch no longer applies to the current head (later fix commits touched the same lines); verified when the change was made'
json.dump(m,open(d+'/meta.json','w'),indent=1)
print(d, applies, pre==post)
P
