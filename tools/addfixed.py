#!/usr/bin/env python3
"""tools/addfixed.py <property> <Dnn> <grep-in-commit-subject> <what failed (with replay line)>"""
import json, subprocess, sys
prop, did, pat, what = sys.argv[1:5]
h = subprocess.check_output(["git", "-C", "/repo", "log", "--format=%h", "--grep", pat, "-1"], text=True).strip()
assert h, "no commit matches"
p = "/verif/known_findings.json"
kf = json.load(open(p))
kf["entries"] = [e for e in kf["entries"] if not (e.get("id") == did and e.get("property") == prop)]
kf["entries"].append({"kind": "fixed", "property": prop, "id": did, "commit": h, "what": "fixed: property=%s %s %s" % (prop, h, what)})
json.dump(kf, open(p, "w"), indent=1)
print(prop, did, h)
