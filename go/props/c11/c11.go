// Package c11: chain walking (verifier/walk.go) over real graphs of real certificates.
package c11

import (
	"fmt"
	"runtime"
	"sort"
	"strconv"
	"strings"
	"time"

	"github.com/zmap/zcrypto/verifier"
	"github.com/zmap/zcrypto/x509"

	"zv/internal/zv"
	"zv/props/c10"
)

// line:  c11 <specs> <verify-matrix> <start index> <ops>
// output: <number of chains> <chains sorted, ';' between chains, '>' between certificate indices>
//
// line:  c11 seq <specs> <verify-matrix> <history>      a HISTORY on ONE graph: insertions and walks interleaved
//   history tokens: a<i> AddCert, r<i> AddRoot, s<i> WalkChains(cert i), c<i>:<n> WalkChainsAsync(cert i, ChannelSize n)
// output: per token, joined by '|': the canonical dump of the graph after the token (c10 Canon), preceded for a walk
//   by `W=<chains> `. Walks must not change the graph; the model's walk is a pure function of the graph.

const maxLen = 9 // documented maximum chain length (maxIntermediateCount)

// ChainsToIdx translates chains to lists of universe indices.
func ChainsToIdx(u *c10.Universe, chains []x509.CertificateChain) ([][]int, string) {
	var out [][]int
	for _, ch := range chains {
		var l []int
		for _, c := range ch {
			i := u.CertIndex(c)
			if i < 0 {
				return nil, "chain contains a certificate that is not in the universe"
			}
			l = append(l, i)
		}
		out = append(out, l)
	}
	return out, ""
}

func lexLess(a, b []int) bool {
	for i := 0; i < len(a) && i < len(b); i++ {
		if a[i] != b[i] {
			return a[i] < b[i]
		}
	}
	return len(a) < len(b)
}

// Canon: sorted multiset of chains.
func Canon(chains [][]int) string {
	cs := append([][]int{}, chains...)
	sort.Slice(cs, func(i, j int) bool { return lexLess(cs[i], cs[j]) })
	var ss []string
	for _, c := range cs {
		var t []string
		for _, x := range c {
			t = append(t, strconv.Itoa(x))
		}
		ss = append(ss, strings.Join(t, ">"))
	}
	if len(ss) == 0 {
		return "0 -"
	}
	return strconv.Itoa(len(ss)) + " " + strings.Join(ss, ";")
}

// Reference enumerates the permitted paths from the property's sentence, on the EDGE SET of the real
// graph (not on the adjacency maps the walk uses): start at the certificate; the next certificate is an
// edge whose subject node is the current issuer and which itself has an issuer that is not the
// (subject,key) of any certificate already in the chain; stop at the first root edge; non-root
// certificates appended must be CAs (basic constraints valid); path-length limits count the
// intermediates between the start and the appended certificate; at most maxLen certificates.
func Reference(u *c10.Universe, g *c10.G, start int) [][]int {
	var startIssuer *c10.NodeKey
	startRoot := false
	if e := g.Edge(start); e != nil {
		startIssuer, startRoot = e.Issuer, e.Root
	} else {
		// not in the graph: the first node (in nodesBySubject order = g.nodes order) with the issuer
		// name whose key verifies the certificate
		for _, k := range g.Order {
			if k.S == u.Specs[start].Iss && u.Verifies(k.K, start) {
				kk := k
				startIssuer = &kk
				break
			}
		}
	}
	var out [][]int
	var rec func(chain []int, issuer *c10.NodeKey, root bool)
	rec = func(chain []int, issuer *c10.NodeKey, root bool) {
		if root {
			out = append(out, append([]int{}, chain...))
			return
		}
		if issuer == nil || len(chain) >= maxLen {
			return
		}
		for _, e := range g.Edges {
			if e.Child != *issuer || e.Issuer == nil {
				continue
			}
			revisit := false
			for _, i := range chain {
				if u.Specs[i].Subj == e.Issuer.S && u.Specs[i].Key == e.Issuer.K {
					revisit = true
				}
			}
			if revisit {
				continue
			}
			s := u.Specs[e.FP]
			if !e.Root && !(s.BC && s.CA) {
				continue
			}
			if s.BC && s.MPL >= 0 && len(chain)-1 > s.MPL {
				continue
			}
			rec(append(chain, e.FP), e.Issuer, e.Root)
		}
	}
	rec([]int{start}, startIssuer, startRoot)
	return out
}

// HTok is one token of a history.
type HTok struct {
	Kind byte // 'a' AddCert, 'r' AddRoot, 's' WalkChains, 'c' WalkChainsAsync
	I    int
	Size int // channel size ('c')
}

func (t HTok) String() string {
	if t.Kind == 'c' {
		return fmt.Sprintf("c%d:%d", t.I, t.Size)
	}
	return fmt.Sprintf("%c%d", t.Kind, t.I)
}

func parseHistory(tok string) []HTok {
	var out []HTok
	if tok == "-" {
		return out
	}
	for _, s := range strings.Split(tok, ",") {
		t := HTok{Kind: s[0]}
		arg := s[1:]
		if t.Kind == 'c' {
			p := strings.SplitN(arg, ":", 2)
			if len(p) != 2 {
				panic("bad history token " + s)
			}
			arg = p[0]
			t.Size, _ = strconv.Atoi(p[1])
		}
		i, err := strconv.Atoi(arg)
		if err != nil || !strings.ContainsRune("arsc", rune(t.Kind)) {
			panic("bad history token " + s)
		}
		t.I = i
		out = append(out, t)
	}
	return out
}

func formatHistory(h []HTok) string {
	if len(h) == 0 {
		return "-"
	}
	ss := make([]string, len(h))
	for i, t := range h {
		ss[i] = t.String()
	}
	return strings.Join(ss, ",")
}

// execSeq: a history of insertions and walks on ONE real graph. After every token the whole internal state is
// dumped (c10's canonical dump). T3: a walk leaves the dump (and the public observers) exactly as they were;
// every walk returns the permitted paths of the CURRENT graph (independent enumeration), hence walking a
// certificate again -- immediately or after other walks -- returns the same set.
func execSeq(line string, f []string) zv.Out {
	u := c10.Load(f[2])
	if p := u.SelfCheck(); p != "" {
		return zv.Out{Go: "harness-error", Viol: p}
	}
	hist := parseHistory(f[4])
	viol := ""
	fail := func(format string, a ...any) {
		if viol == "" {
			viol = fmt.Sprintf(format, a...)
		}
	}
	if vm := u.VerifyMatrix(); vm != f[3] {
		fail("signature relation differs from construction: %s", vm)
	}
	h := uint64(14695981039346656037)
	for i := 0; i < len(line); i++ {
		h = (h ^ uint64(line[i])) * 1099511628211
	}
	r := zv.NewRng(h)
	rg := verifier.NewGraph()
	var ops []c10.Op
	g := c10.Translate(u, rg.ZVDump())
	dump := g.Canon()
	var parts []string
	tags := map[string]bool{}
	lastWalk := map[int]string{} // start -> chains of the last walk from it since the last insertion
	nWalks := 0
	for k, t := range hist {
		c := u.Certs[t.I]
		switch t.Kind {
		case 'a', 'r':
			var preWalk string
			preOK := t.Kind == 'a' && g.Edge(t.I) == nil
			if preOK {
				ci, _ := ChainsToIdx(u, rg.WalkChains(c))
				preWalk = Canon(ci)
			}
			if t.Kind == 'r' {
				rg.AddRoot(c)
			} else {
				rg.AddCert(c)
			}
			if preOK {
				// T3 (start-edge synthesis): the walk from a certificate that is not in the graph returns what the
				// walk returns once the certificate has been inserted with AddCert
				ci, _ := ChainsToIdx(u, rg.WalkChains(c))
				if post := Canon(ci); post != preWalk {
					fail("token %d %s: WalkChains before inserting the certificate returned %s, after AddCert %s", k, t, preWalk, post)
				}
				tags["synth-vs-insert"] = true
				if preWalk != "0 -" {
					tags["synth-vs-insert-nonempty"] = true
				}
			}
			ops = append(ops, c10.Op{Root: t.Kind == 'r', I: t.I})
			g = c10.Translate(u, rg.ZVDump())
			dump = g.Canon()
			if p := c10.CheckInvariant(u, ops, g); p != "" {
				fail("graph invariant (C10) after token %d %s: %s", k, t, p)
			}
			lastWalk = map[int]string{}
			if nWalks > 0 {
				tags["insert-between-walks"] = true
			}
			parts = append(parts, dump)
		default:
			nWalks++
			inGraph := g.Edge(t.I) != nil
			nEdges, nNodes := len(rg.Edges()), len(rg.Nodes())
			var chains []x509.CertificateChain
			if t.Kind == 's' {
				chains = rg.WalkChains(c)
			} else {
				ch := rg.WalkChainsAsync(c, verifier.WalkOptions{ChannelSize: t.Size})
				for x := range ch {
					chains = append(chains, x)
					switch r.Intn(4) {
					case 0:
						runtime.Gosched()
					case 1:
						time.Sleep(time.Duration(r.Intn(30)) * time.Microsecond)
					}
				}
				if _, open := <-ch; open {
					fail("token %d %s: channel not closed after the range loop ended", k, t)
				}
			}
			ci, p := ChainsToIdx(u, chains)
			if p != "" {
				fail("token %d %s: %s", k, t, p)
			}
			got := Canon(ci)
			what := "in-graph"
			if !inGraph {
				what = "out-of-graph"
			}
			if s := u.Specs[t.I]; s.BC && s.CA {
				what += " CA"
			} else {
				what += " non-CA"
			}
			tags["walk-"+what] = true
			// T3: exactly the permitted root-terminated paths of the graph as it was before the walk
			if want := Canon(Reference(u, g, t.I)); got != want {
				fail("token %d %s (%s start): walk returned %s but the permitted root-terminated paths are %s", k, t, what, got, want)
			}
			for _, x := range ci {
				if len(x) > maxLen {
					fail("token %d %s: chain longer than %d", k, t, maxLen)
				}
			}
			if prev, ok := lastWalk[t.I]; ok {
				tags["walk-repeated"] = true
				if prev != got {
					fail("token %d %s (%s start): repeating the walk on the unchanged graph returned %s, before it returned %s", k, t, what, got, prev)
				}
			}
			lastWalk[t.I] = got
			// T3: the walk did not change the graph
			g2 := c10.Translate(u, rg.ZVDump())
			after := g2.Canon()
			if after != dump {
				fail("token %d %s (%s start): the walk changed the graph: before %s, after %s", k, t, what, dump, after)
			}
			if len(rg.Edges()) != nEdges || len(rg.Nodes()) != nNodes || (rg.FindEdge(c.FingerprintSHA256) != nil) != inGraph {
				fail("token %d %s (%s start): Edges()/Nodes()/FindEdge changed by the walk", k, t, what)
			}
			g, dump = g2, after
			parts = append(parts, "W="+got+" "+dump)
		}
	}
	tl := []string{"seq", fmt.Sprintf("walks=%d", min(nWalks, 12))}
	for t := range tags {
		tl = append(tl, t)
	}
	sort.Strings(tl)
	out := strings.Join(parts, "|")
	if out == "" {
		out = "-"
	}
	return zv.Out{Go: out, Viol: viol, Tags: tl}
}

func exec(line string) zv.Out {
	f := strings.Fields(line)
	if len(f) == 5 && f[1] == "seq" {
		return execSeq(line, f)
	}
	if len(f) == 2 && f[1] == "const" {
		return execConst()
	}
	if len(f) == 7 && f[1] == "can" {
		return execCan(f)
	}
	if len(f) == 8 && f[1] == "async" {
		return execAsync(line, f)
	}
	if len(f) != 5 {
		panic("bad c11 line")
	}
	u := c10.Load(f[1])
	if p := u.SelfCheck(); p != "" {
		return zv.Out{Go: "harness-error", Viol: p}
	}
	start, _ := strconv.Atoi(f[3])
	ops := c10.ParseOps(f[4])
	viol := ""
	if vm := u.VerifyMatrix(); vm != f[2] {
		viol = "signature relation differs from construction: " + vm
	}
	rg := c10.BuildGraph(u, ops)
	g := c10.Translate(u, rg.ZVDump())
	if viol == "" {
		if p := c10.CheckInvariant(u, ops, g); p != "" {
			viol = "graph invariant (C10): " + p
		}
	}
	chains, p := ChainsToIdx(u, rg.WalkChains(u.Certs[start]))
	if p != "" && viol == "" {
		viol = p
	}
	got := Canon(chains)
	ref := Reference(u, g, start)
	want := Canon(ref)
	if viol == "" && got != want {
		viol = "WalkChains returned " + got + " but the permitted root-terminated paths are " + want
	}
	if viol == "" {
		for _, c := range chains {
			if len(c) > maxLen {
				viol = fmt.Sprintf("chain longer than %d", maxLen)
			}
		}
	}
	// async: same multiset for every channel size and consumer pacing; channel closed
	if viol == "" {
		h := uint64(14695981039346656037)
		for i := 0; i < len(line); i++ {
			h = (h ^ uint64(line[i])) * 1099511628211
		}
		r := zv.NewRng(h)
		for _, size := range []int{1, 2, 4, 64} {
			ch := rg.WalkChainsAsync(u.Certs[start], verifier.WalkOptions{ChannelSize: size})
			var recv []x509.CertificateChain
			for c := range ch {
				recv = append(recv, c)
				switch r.Intn(4) {
				case 0:
					runtime.Gosched()
				case 1:
					time.Sleep(time.Duration(r.Intn(30)) * time.Microsecond)
				}
			}
			if _, open := <-ch; open {
				viol = "channel not closed after the range loop ended"
			}
			ci, _ := ChainsToIdx(u, recv)
			if a := Canon(ci); a != got && viol == "" {
				viol = fmt.Sprintf("WalkChainsAsync with channel size %d delivered %s, WalkChains %s", size, a, got)
			}
		}
	}
	tags := []string{fmt.Sprintf("chains=%d", min(len(chains), 8))}
	ml := 0
	for _, c := range chains {
		if len(c) > ml {
			ml = len(c)
		}
	}
	tags = append(tags, fmt.Sprintf("maxlen=%d", ml))
	if g.Edge(start) == nil {
		tags = append(tags, "start-not-in-graph")
	} else if g.Edge(start).Root {
		tags = append(tags, "start-is-root")
	}
	return zv.Out{Go: got, Viol: viol, Tags: tags}
}


// line:  c11 const
// output: maxIntermediateCount=<n> defaultChannelSize=<cap of the channel WalkChainsAsync returns for ChannelSize 0>
func execConst() zv.Out {
	g := verifier.NewGraph()
	u := c10.Load(c10.FormatSpecs([]c10.CertSpec{def(0, 0, 0, 0)}))
	ch := g.WalkChainsAsync(u.Certs[0], verifier.WalkOptions{})
	n := cap(ch)
	for range ch {
	}
	viol := ""
	if verifier.ZVMaxIntermediateCount != maxLen {
		viol = fmt.Sprintf("maxIntermediateCount is %d, the documented maximum chain length is %d", verifier.ZVMaxIntermediateCount, maxLen)
	}
	return zv.Out{Go: fmt.Sprintf("maxIntermediateCount=%d defaultChannelSize=%d", verifier.ZVMaxIntermediateCount, n), Viol: viol, Tags: []string{"const"}}
}

// line:  c11 can <BasicConstraintsValid 0/1> <IsCA 0/1> <MaxPathLen> <root 0/1> <len(chain)>
// output: 0 nil / 1 NotAuthorizedToSign / 2 TooManyIntermediates   (the REAL canAddToChain, through the hook)
func execCan(f []string) zv.Out {
	bc, _ := strconv.Atoi(f[2])
	ca, _ := strconv.Atoi(f[3])
	mpl, _ := strconv.Atoi(f[4])
	root, _ := strconv.Atoi(f[5])
	n, _ := strconv.Atoi(f[6])
	c := &x509.Certificate{BasicConstraintsValid: bc != 0, IsCA: ca != 0, MaxPathLen: mpl, MaxPathLenZero: bc != 0 && mpl == 0}
	ct := x509.CertificateTypeIntermediate
	if root != 0 {
		ct = x509.CertificateTypeRoot
	}
	chain := make(x509.CertificateChain, n)
	for i := range chain {
		chain[i] = c
	}
	r := verifier.ZVCanAddToChain(c, ct, chain)
	viol := ""
	// T3, from the property's sentence: before the root only CA certificates; a path-length limit L admits at most
	// L intermediates between the start certificate and the certificate carrying the limit
	want := 0
	if root == 0 && !(bc != 0 && ca != 0) {
		want = 1
	} else if bc != 0 && mpl >= 0 && n-1 > mpl {
		want = 2
	}
	if r != want {
		viol = fmt.Sprintf("canAddToChain returned kind %d, expected %d", r, want)
	}
	return zv.Out{Go: strconv.Itoa(r), Viol: viol, Tags: []string{"can", fmt.Sprintf("can-result=%d", r)}}
}

// line:  c11 async <specs> <verify-matrix> <start> <ChannelSize> <ValidSignature before 0/1> <ops>
// output: cap=<cap(channel)> vs=<c.ValidSignature afterwards> <chains>
func execAsync(line string, f []string) zv.Out {
	u := c10.Load(f[2])
	if p := u.SelfCheck(); p != "" {
		return zv.Out{Go: "harness-error", Viol: p}
	}
	start, _ := strconv.Atoi(f[4])
	size, _ := strconv.Atoi(f[5])
	before := f[6] != "0"
	ops := c10.ParseOps(f[7])
	viol := ""
	fail := func(format string, a ...any) {
		if viol == "" {
			viol = fmt.Sprintf(format, a...)
		}
	}
	if vm := u.VerifyMatrix(); vm != f[3] {
		fail("signature relation differs from construction: %s", vm)
	}
	rg := c10.BuildGraph(u, ops)
	g := c10.Translate(u, rg.ZVDump())
	dump := g.Canon()
	c := u.Certs[start]
	saved := c.ValidSignature
	c.ValidSignature = before
	ch := rg.WalkChainsAsync(c, verifier.WalkOptions{ChannelSize: size})
	capv := cap(ch)
	vsAtReturn := c.ValidSignature
	var recv []x509.CertificateChain
	for x := range ch {
		recv = append(recv, x)
	}
	if _, open := <-ch; open {
		fail("channel not closed after the range loop ended")
	}
	vs := c.ValidSignature
	c.ValidSignature = saved
	if vs != vsAtReturn {
		fail("ValidSignature changed after WalkChainsAsync returned")
	}
	ci, p := ChainsToIdx(u, recv)
	if p != "" {
		fail("%s", p)
	}
	got := Canon(ci)
	// branch of the start-edge synthesis, from the dump
	tags := []string{"async", fmt.Sprintf("chansize=%s", sizeClass(size)), fmt.Sprintf("cap=%d", min(capv, 65))}
	verifying, skipped := false, false
	if g.Edge(start) != nil {
		tags = append(tags, "start-in-graph")
	} else {
		for _, k := range g.Order {
			if k.S != u.Specs[start].Iss {
				continue
			}
			if u.Verifies(k.K, start) {
				verifying = true
				break
			}
			skipped = true
		}
		if verifying {
			tags = append(tags, "synth-issuer-found")
		} else {
			tags = append(tags, "synth-no-issuer")
		}
		if skipped {
			tags = append(tags, "synth-candidate-rejected")
		}
		if selfSigned(u.Specs[start]) {
			tags = append(tags, "synth-self-signed-start")
		}
	}
	// T3: the flag is set exactly when the certificate is in the graph or a node with the issuer name verifies it
	if wantVS := before || g.Edge(start) != nil || verifying; vs != wantVS {
		fail("ValidSignature is %v after the walk, expected %v (before=%v, in graph=%v, verifying issuer node=%v)", vs, wantVS, before, g.Edge(start) != nil, verifying)
	}
	if want := Canon(Reference(u, g, start)); got != want {
		fail("WalkChainsAsync(size %d) delivered %s but the permitted root-terminated paths are %s", size, got, want)
	}
	if size > 0 && capv != size {
		fail("channel capacity %d, requested %d", capv, size)
	}
	if after := c10.Translate(u, rg.ZVDump()).Canon(); after != dump {
		fail("the walk changed the graph: before %s, after %s", dump, after)
	}
	tags = append(tags, fmt.Sprintf("vs=%v->%v", before, vs), fmt.Sprintf("chains=%d", min(len(ci), 8)))
	return zv.Out{Go: fmt.Sprintf("cap=%d vs=%s %s", capv, b01(vs), got), Viol: viol, Tags: tags}
}

func b01(b bool) string {
	if b {
		return "1"
	}
	return "0"
}

func sizeClass(n int) string {
	switch {
	case n < 0:
		return "neg"
	case n == 0:
		return "0"
	case n <= 4:
		return strconv.Itoa(n)
	}
	return "big"
}

var asyncSizes = []int{-3, -1, 0, 1, 2, 3, 4, 5, 7, 64, 1000}

func emitAsync(g *zv.Gen, cs []c10.CertSpec, ops []c10.Op, starts []int) {
	for i := range cs {
		cs[i].Serial = i + 1
	}
	tok := c10.FormatSpecs(cs)
	vm := c10.Load(tok).VerifyMatrix()
	for _, s := range starts {
		g.Emitf("c11 async %s %s %d %d %d %s", tok, vm, s, asyncSizes[g.Rng.Intn(len(asyncSizes))], g.Rng.Intn(2), c10.FormatOps(ops))
	}
}

// genExtra: the constants, canAddToChain exhaustively on a small box, WalkChainsAsync observables.
func genExtra(g *zv.Gen) {
	r := g.Rng
	g.Emitf("c11 const")
	for bc := 0; bc <= 1; bc++ {
		for ca := 0; ca <= 1; ca++ {
			for mpl := -2; mpl <= 11; mpl++ {
				for root := 0; root <= 1; root++ {
					for n := 0; n <= 12; n++ {
						g.Emitf("c11 can %d %d %d %d %d", bc, ca, mpl, root, n)
					}
				}
			}
		}
	}
	// every channel size on one fixed graph, both flag values, in-graph and out-of-graph start
	{
		cs := lineChain(4)
		for i := range cs {
			cs[i].Serial = i + 1
		}
		tok := c10.FormatSpecs(cs)
		vm := c10.Load(tok).VerifyMatrix()
		for _, sz := range asyncSizes {
			for b := 0; b <= 1; b++ {
				g.Emitf("c11 async %s %s 3 %d %d r0,a1,a2,a3", tok, vm, sz, b)
				g.Emitf("c11 async %s %s 3 %d %d r0,a1,a2", tok, vm, sz, b)
				g.Emitf("c11 async %s %s 3 %d %d r0,a1", tok, vm, sz, b)
			}
		}
	}
	// twins: several candidate nodes with the issuer name, some rejected before one verifies
	for _, cs := range c10.Twins() {
		for k := 0; k < len(cs); k++ {
			var o2 []c10.Op
			for i := 0; i < len(cs); i++ {
				if i != k {
					o2 = append(o2, c10.Op{Root: i == 0, I: i})
				}
			}
			emitAsync(g, cs, o2, []int{k})
			for j := len(o2) - 1; j > 0; j-- {
				x := r.Intn(j + 1)
				o2[j], o2[x] = o2[x], o2[j]
			}
			emitAsync(g, cs, o2, []int{k})
		}
	}
	hs := c10.Handcrafted()
	n := g.N(500, 20000)
	for i := 0; i < n; i++ {
		var cs []c10.CertSpec
		if i < 2*len(hs) {
			cs = append(cs, hs[i%len(hs)]...)
		} else {
			cs = c10.RandomUniverse(r, 4+r.Intn(6))
		}
		if r.Chance(50) {
			mutateConstraints(r, cs)
		}
		if r.Chance(30) {
			c10.Flavour(r, cs, 30)
		}
		var ops []c10.Op
		for j := range cs {
			if r.Chance(70) {
				ops = append(ops, c10.Op{Root: (selfSigned(cs[j]) && r.Chance(70)) || r.Chance(8), I: j})
			}
		}
		for j := len(ops) - 1; j > 0; j-- {
			x := r.Intn(j + 1)
			ops[j], ops[x] = ops[x], ops[j]
		}
		emitAsync(g, cs, ops, []int{r.Intn(len(cs)), r.Intn(len(cs))})
	}
}

func def(subj, key, iss, sign int) c10.CertSpec {
	return c10.CertSpec{Subj: subj, Key: key, Iss: iss, Sign: sign, CA: true, BC: true, MPL: -1, NB: -1000, NA: 1000}
}

// lineChain: root(0) <- 1 <- … <- n-1 (leaf)
func lineChain(n int) []c10.CertSpec {
	cs := []c10.CertSpec{def(0, 0, 0, 0)}
	for i := 1; i < n; i++ {
		cs = append(cs, def(i, i, i-1, i-1))
	}
	return cs
}

// ring of m cross-signing CAs + one self-signed root certifying CA 0 + a leaf under CA m-1
func ring(m int) []c10.CertSpec {
	var cs []c10.CertSpec
	for i := 0; i < m; i++ {
		cs = append(cs, def(i, i, (i+1)%m, (i+1)%m)) // CA i certified by CA i+1
		cs = append(cs, def((i+1)%m, (i+1)%m, i, i)) // and back
	}
	cs = append(cs, def(m, m, m, m), def(0, 0, m, m), def(m+1, m+1, m-1, m-1))
	return cs
}

func emit(g *zv.Gen, cs []c10.CertSpec, ops []c10.Op, starts []int) {
	for i := range cs {
		cs[i].Serial = i + 1
	}
	tok := c10.FormatSpecs(cs)
	vm := c10.Load(tok).VerifyMatrix()
	for _, s := range starts {
		g.Emitf("c11 %s %s %d %s", tok, vm, s, c10.FormatOps(ops))
	}
}

// emitSeq emits one history line.
func emitSeq(g *zv.Gen, cs []c10.CertSpec, h []HTok) {
	for i := range cs {
		cs[i].Serial = i + 1
	}
	tok := c10.FormatSpecs(cs)
	vm := c10.Load(tok).VerifyMatrix()
	g.Emitf("c11 seq %s %s %s", tok, vm, formatHistory(h))
}

var chanSizes = []int{0, 1, 2, 4, 64}

// walkTok: a walk from certificate i, synchronous or asynchronous with one of the channel sizes.
func walkTok(r *zv.Rng, i int) HTok {
	if r.Chance(45) {
		return HTok{Kind: 's', I: i}
	}
	return HTok{Kind: 'c', I: i, Size: chanSizes[r.Intn(len(chanSizes))]}
}

func selfSigned(c c10.CertSpec) bool { return c.Subj == c.Iss && c.Key == c.Sign }

// genSeq: histories of walks on ONE graph.
func genSeq(g *zv.Gen) {
	r := g.Rng
	// (1) systematic: every structure x every certificate k left out of the graph (and none): insert the others, walk
	// from EVERY certificate of the universe (k included: an out-of-graph start), walk from k again, then from every
	// certificate again: the second round must return what the first returned, the graph must never change
	var structs [][]c10.CertSpec
	structs = append(structs, c10.Handcrafted()...)
	structs = append(structs, c10.Twins()...)
	for f := 1; f < c10.NFlav; f++ {
		structs = append(structs, c10.Unauthorised(f)...)
	}
	structs = append(structs, lineChain(4), lineChain(9), ring(2), ring(3))
	// the peer-presented cross certificate: leaf <- I <- R1 (root), second root R2, cross certificate I-by-R2
	structs = append(structs, []c10.CertSpec{def(0, 0, 0, 0), def(1, 1, 1, 1), def(2, 2, 0, 0), def(2, 2, 1, 1), def(3, 3, 2, 2), def(4, 4, 3, 3)})
	for _, cs0 := range structs {
		n := len(cs0)
		for k := -1; k < n; k++ {
			cs := append([]c10.CertSpec{}, cs0...)
			var h []HTok
			for i := range cs {
				if i == k {
					continue
				}
				kind := byte('a')
				if selfSigned(cs[i]) {
					kind = 'r'
				}
				h = append(h, HTok{Kind: kind, I: i})
			}
			if k >= 0 {
				h = append(h, walkTok(r, k))
			}
			for i := 0; i < n; i++ {
				h = append(h, walkTok(r, i))
			}
			if k >= 0 {
				h = append(h, walkTok(r, k), walkTok(r, k))
			}
			for i := n - 1; i >= 0; i-- {
				h = append(h, HTok{Kind: 's', I: i})
			}
			if k >= 0 {
				// finally the certificate is really inserted: the walks now see it
				h = append(h, HTok{Kind: 'a', I: k})
				for i := 0; i < n; i++ {
					h = append(h, walkTok(r, i))
				}
			}
			emitSeq(g, cs, h)
		}
	}
	// (2) random graphs (path-length limits, non-CA, authority flavours), part of the certificates left out; random
	// walks biased towards out-of-graph starts and repetitions, insertions in between
	hs := c10.Handcrafted()
	nr := g.N(1200, 40000)
	for i := 0; i < nr; i++ {
		var cs []c10.CertSpec
		if i%8 == 0 {
			cs = append(cs, hs[r.Intn(len(hs))]...)
			cs = append(cs, c10.RandomUniverse(r, 2+r.Intn(3))...)
		} else {
			cs = c10.RandomUniverse(r, 4+r.Intn(6))
		}
		if r.Chance(60) {
			mutateConstraints(r, cs)
		}
		if r.Chance(40) {
			c10.Flavour(r, cs, 30)
		}
		var h []HTok
		var in, out []int
		pOut := 10 + r.Intn(40)
		for j := range cs {
			if r.Chance(pOut) {
				out = append(out, j)
				continue
			}
			in = append(in, j)
			kind := byte('a')
			if (selfSigned(cs[j]) && r.Chance(70)) || r.Chance(8) {
				kind = 'r'
			}
			h = append(h, HTok{Kind: kind, I: j})
		}
		for j := len(h) - 1; j > 0; j-- {
			x := r.Intn(j + 1)
			h[j], h[x] = h[x], h[j]
		}
		var walked []int
		for w, nw := 0, 4+r.Intn(9); w < nw; w++ {
			var st int
			switch x := r.Intn(100); {
			case x < 30 && len(walked) > 0:
				st = walked[r.Intn(len(walked))]
			case x < 65 && len(out) > 0:
				st = out[r.Intn(len(out))]
			case x < 90 && len(in) > 0:
				st = in[r.Intn(len(in))]
			default:
				st = r.Intn(len(cs))
			}
			h = append(h, walkTok(r, st))
			walked = append(walked, st)
			if r.Chance(12) {
				// an insertion between walks: a left-out certificate, or any certificate again (possibly as root)
				j := r.Intn(len(cs))
				if len(out) > 0 && r.Chance(60) {
					x := r.Intn(len(out))
					j = out[x]
					out = append(out[:x], out[x+1:]...)
					in = append(in, j)
				}
				kind := byte('a')
				if r.Chance(25) {
					kind = 'r'
				}
				h = append(h, HTok{Kind: kind, I: j})
			}
		}
		emitSeq(g, cs, h)
	}
}

func allStarts(n int) []int {
	s := make([]int, n)
	for i := range s {
		s[i] = i
	}
	return s
}

func mutateConstraints(r *zv.Rng, cs []c10.CertSpec) {
	for i := range cs {
		switch x := r.Intn(100); {
		case x < 12:
			cs[i].MPL = 0
		case x < 22:
			cs[i].MPL = 1
		case x < 28:
			cs[i].MPL = 2
		case x < 34:
			cs[i].CA = false // basic constraints present, cA false
		case x < 40:
			cs[i].BC, cs[i].CA, cs[i].MPL = false, false, 0 // no basic constraints
		}
	}
}

func gen(g *zv.Gen) {
	r := g.Rng
	genExtra(g)
	genSeq(g)
	// depth-limit boundaries: line chains of 7..11 certificates, root at the far end, start anywhere;
	// with and without the leaf being in the graph
	for n := 7; n <= 11; n++ {
		cs := lineChain(n)
		ops := []c10.Op{{Root: true, I: 0}}
		for i := 1; i < n; i++ {
			ops = append(ops, c10.Op{I: i})
		}
		emit(g, cs, ops, allStarts(n))
		emit(g, cs, ops[:n-1], []int{n - 1, n - 2}) // leaf not in the graph
		// a second root in the middle: stops at the first root edge
		ops2 := append([]c10.Op{}, ops...)
		ops2[n/2].Root = true
		emit(g, cs, ops2, allStarts(n))
		// path-length limits along the line
		for k := 0; k < g.N(6, 40); k++ {
			cs2 := lineChain(n)
			cs2[r.Intn(n)].MPL = r.Intn(n)
			if r.Chance(50) {
				cs2[r.Intn(n)].MPL = r.Intn(3)
			}
			emit(g, cs2, ops, []int{n - 1, n - 2, r.Intn(n)})
		}
	}
	// cyclic cross-sign rings
	for m := 2; m <= 4; m++ {
		cs := ring(m)
		var ops []c10.Op
		for i := range cs {
			ops = append(ops, c10.Op{Root: i == 2*m, I: i})
		}
		emit(g, cs, ops, allStarts(len(cs)))
		for k := 0; k < g.N(10, 60); k++ {
			cs2 := ring(m)
			mutateConstraints(r, cs2)
			ops2 := append([]c10.Op{}, ops...)
			for j := range ops2 {
				if r.Chance(10) {
					ops2[j].Root = true
				}
			}
			for j := len(ops2) - 1; j > 0; j-- {
				x := r.Intn(j + 1)
				ops2[j], ops2[x] = ops2[x], ops2[j]
			}
			emit(g, cs2, ops2, allStarts(len(cs2)))
		}
	}
	// twin RSA encodings: several nodes verify the same certificate (start-edge synthesis picks the first)
	for _, cs := range c10.Twins() {
		var ops []c10.Op
		for i := range cs {
			ops = append(ops, c10.Op{Root: i == 0, I: i})
		}
		emit(g, cs, ops, allStarts(len(cs)))
		for k := 0; k < len(cs); k++ { // leave one certificate out of the graph, walk from it
			var o2 []c10.Op
			for i := len(cs) - 1; i >= 0; i-- {
				if i != k {
					o2 = append(o2, c10.Op{Root: i == 0 || i == 1, I: i})
				}
			}
			emit(g, cs, o2, []int{k})
		}
	}
	// the C10 structures and random graphs, every start certificate, some certificates left out of the graph
	hs := c10.Handcrafted()
	n := g.N(700, 30000)
	for i := 0; i < n; i++ {
		var cs []c10.CertSpec
		if i < 4*len(hs) {
			cs = append(cs, hs[i%len(hs)]...)
		} else {
			cs = c10.RandomUniverse(r, 4+r.Intn(7))
		}
		if i >= len(hs) {
			mutateConstraints(r, cs)
		}
		var ops []c10.Op
		for j := range cs {
			if r.Chance(88) {
				self := cs[j].Subj == cs[j].Iss && cs[j].Key == cs[j].Sign
				ops = append(ops, c10.Op{Root: (self && r.Chance(70)) || r.Chance(8), I: j})
			}
		}
		for j := len(ops) - 1; j > 0; j-- {
			x := r.Intn(j + 1)
			ops[j], ops[x] = ops[x], ops[j]
		}
		emit(g, cs, ops, allStarts(len(cs)))
	}
}

func init() {
	zv.Register(&zv.Prop{ID: "C11", Topic: "c11", Gen: gen, Exec: exec,
		Rule: "real graphs of real ECDSA certificates: line chains of 7..11 certificates (depth-limit boundary 8/9/10, second root in the middle, path-length limits), cross-sign rings of 2..4 CAs, the C10 structures and random graphs with pathLen 0/1/2, non-CA and no-basic-constraints certificates, random roots; every certificate of the universe as start (in or out of the graph); a case is one (graph, start); T3 = independent path enumeration over the dumped edge set + WalkChainsAsync with channel sizes 1,2,4,64 and randomised consumer pacing. PLUS histories on ONE graph (`c11 seq`): insertions, WalkChains and WalkChainsAsync (channel sizes 0,1,2,4,64) interleaved; systematic: every structure (C10 handcrafted, twins, the 18 unauthorised-issuer universes, lines, rings, peer-presented cross certificate) x every certificate left out in turn: walk from every certificate, from the left-out one again, from every certificate again, insert it, walk again; random: 1200/40000 random graphs with path-length limits, non-CA certificates and authority flavours, 4..12 walks biased to out-of-graph starts and repetitions, insertions between walks; the canonical dump of the whole graph state (c10) is taken after EVERY token and compared with the model; T3 = a walk leaves dump, Edges(), Nodes(), FindEdge unchanged, returns the permitted paths of the current graph, and returns the same set when repeated"})
}
