package c13

// The ASN.1 leg of ocsp.go against the Lean model of encoding/asn1 (ZV.Model.C18) instantiated at the package's struct
// types (ZV.Model.C13Der):
//
//	c13 der <hex>                         the two asn1.Unmarshal calls of ParseResponseForCert on ocsp.go's OWN unexported types
//	                                      (hook zv_c13_verif.go) vs the Lean decode of the same bytes: every decoded field
//	c13 rq <hash> <nameHash> <keyHash> <serial>   Request.Marshal bytes and ParseRequest of them vs the Lean pipeline
//	c13 rqd <hex>                         ParseRequest on given bytes
//	c13 time <23|24> <hex>                UTCTime / GeneralizedTime content through asn1.Unmarshal into a time.Time
//
// Output formats: see lean/ZV/Drv/C13.lean.

import (
	"bytes"
	"crypto"
	"encoding/asn1"
	"fmt"
	"math/big"
	"reflect"
	"strconv"
	"strings"
	"time"

	zasn1 "github.com/zmap/zcrypto/encoding/asn1"
	"github.com/zmap/zcrypto/x509/revocation/ocsp"

	"zv/internal/zv"
)

// ---- canonical text ----

func oidText(o []int) string {
	if len(o) == 0 {
		return "-"
	}
	ss := make([]string, len(o))
	for i, k := range o {
		ss[i] = strconv.Itoa(k)
	}
	return strings.Join(ss, ".")
}

type vSingle struct {
	hashOID           []int
	params            []byte
	nh, kh            []byte
	serial            *big.Int
	good, unk         bool
	revAt             int64
	reason            int
	this, next        int64
	exts              []string
}

type vBasic struct {
	tbs                   []byte
	version               int
	ridC, ridT            int
	ridK                  bool
	ridB                  []byte
	produced              int64
	singles               []vSingle
	sigOID                []int
	sigParams, sig        []byte
	bitLen                int
	certs                 []int
}

func (s vSingle) String() string {
	e := "-"
	if len(s.exts) > 0 {
		e = strings.Join(s.exts, "+")
	}
	return strings.Join([]string{oidText(s.hashOID), zv.Hex(s.params), zv.Hex(s.nh), zv.Hex(s.kh), s.serial.String(), b01(s.good), b01(s.unk),
		strconv.FormatInt(s.revAt, 10), strconv.Itoa(s.reason), strconv.FormatInt(s.this, 10), strconv.FormatInt(s.next, 10), e}, "/")
}

func (b vBasic) text(rest int) string {
	ss := "-"
	if len(b.singles) > 0 {
		l := make([]string, len(b.singles))
		for i, s := range b.singles {
			l[i] = s.String()
		}
		ss = strings.Join(l, ";")
	}
	cl := make([]string, len(b.certs))
	for i, c := range b.certs {
		cl[i] = strconv.Itoa(c)
	}
	return fmt.Sprintf("rest=%d tbs=%s v=%d rid=%d/%d/%s/%s pa=%d alg=%s/%s sig=%s/%d certs=%d:%s s=%s", rest, zv.Hex(b.tbs), b.version,
		b.ridC, b.ridT, b01(b.ridK), zv.Hex(b.ridB), b.produced, oidText(b.sigOID), zv.Hex(b.sigParams), zv.Hex(b.sig), b.bitLen,
		len(b.certs), strings.Join(cl, ","), ss)
}

// what zcrypto decoded (through the hook, ocsp.go's own types)
func zBasic(body []byte) (*vBasic, int, error) {
	zb, rest, err := ocsp.ZVUnmarshalBasic(body)
	if err != nil {
		return nil, 0, err
	}
	v := &vBasic{tbs: zb.Raw, version: zb.Version, ridC: zb.RawResponderID.Class, ridT: zb.RawResponderID.Tag, ridK: zb.RawResponderID.IsCompound,
		ridB: zb.RawResponderID.Bytes, produced: zb.ProducedAt.Unix(), sigOID: zb.SignatureAlgorithm.Algorithm,
		sigParams: zb.SignatureAlgorithm.Parameters.FullBytes, sig: zb.Signature.Bytes, bitLen: zb.Signature.BitLength}
	for _, c := range zb.Certificates {
		v.certs = append(v.certs, len(c.FullBytes))
	}
	for _, s := range zb.Responses {
		x := vSingle{hashOID: s.HashAlgorithm.Algorithm, params: s.HashAlgorithm.Parameters.FullBytes, nh: s.NameHash, kh: s.IssuerKeyHash,
			serial: s.SerialNumber, good: s.Good, unk: s.Unknown, revAt: s.RevocationTime.Unix(), reason: s.Reason, this: s.ThisUpdate.Unix(),
			next: s.NextUpdate.Unix()}
		for _, e := range s.SingleExtensions {
			x.exts = append(x.exts, oidText(e.Id)+":"+b01(e.Critical)+":"+zv.Hex(e.Value))
		}
		v.singles = append(v.singles, x)
	}
	return v, len(rest), nil
}

// the same through the STANDARD LIBRARY's encoding/asn1 on the mirror types of asn.go (independent reference)
func sBasic(body []byte) (*vBasic, int, error) {
	var b mBasic
	rest, err := asn1.Unmarshal(body, &b)
	if err != nil {
		return nil, 0, err
	}
	d := b.TBSResponseData
	v := &vBasic{tbs: d.Raw, version: d.Version, ridC: d.RawResponderID.Class, ridT: d.RawResponderID.Tag, ridK: d.RawResponderID.IsCompound,
		ridB: d.RawResponderID.Bytes, produced: d.ProducedAt.Unix(), sigOID: b.SignatureAlgorithm.Algorithm,
		sigParams: b.SignatureAlgorithm.Parameters.FullBytes, sig: b.Signature.Bytes, bitLen: b.Signature.BitLength}
	for _, c := range b.Certificates {
		v.certs = append(v.certs, len(c.FullBytes))
	}
	for _, s := range d.Responses {
		x := vSingle{hashOID: s.CertID.HashAlgorithm.Algorithm, params: s.CertID.HashAlgorithm.Parameters.FullBytes, nh: s.CertID.NameHash,
			kh: s.CertID.IssuerKeyHash, serial: s.CertID.SerialNumber, good: bool(s.Good), unk: bool(s.Unknown), revAt: s.Revoked.RevocationTime.Unix(),
			reason: int(s.Revoked.Reason), this: s.ThisUpdate.Unix(), next: s.NextUpdate.Unix()}
		for _, e := range s.SingleExtensions {
			x.exts = append(x.exts, oidText(e.Id)+":"+b01(e.Critical)+":"+zv.Hex(e.Value))
		}
		v.singles = append(v.singles, x)
	}
	return v, len(rest), nil
}

func execDer(f []string) zv.Out {
	der := zv.UnHex(f[1])
	var o zv.Out
	st, ty, body, rest, err := ocsp.ZVUnmarshalOuter(der)
	// reference decode of the outer structure
	var sr mResponse
	srest, serr := asn1.Unmarshal(der, &sr)
	if err != nil {
		o.Go = "o:err"
		o.Tags = append(o.Tags, "der:outer-err")
		if serr == nil {
			o.Tags = append(o.Tags, "der:outer-err-stdlib-accepts")
		}
		return o
	}
	o.Go = fmt.Sprintf("o:%d,%s,%d,%d b:", st, oidText(ty), len(rest), len(body))
	if serr == nil && (int(sr.Status) != st || !sr.Response.ResponseType.Equal(asn1.ObjectIdentifier(ty)) || !bytes.Equal(sr.Response.Response, body) || len(srest) != len(rest)) {
		o.Viol = "outer OCSPResponse: zcrypto and the standard library both decode the bytes but to different values"
	}
	zb, zrest, err := zBasic(body)
	sb, srest2, serr := sBasic(body)
	if err != nil {
		o.Go += "err"
		o.Tags = append(o.Tags, "der:basic-err")
		if serr == nil {
			o.Tags = append(o.Tags, "der:basic-err-stdlib-accepts")
		}
		return o
	}
	o.Go += zb.text(zrest)
	o.Tags = append(o.Tags, fmt.Sprintf("der:ok-singles=%d", len(zb.singles)), fmt.Sprintf("der:ok-certs=%d", len(zb.certs)))
	if serr != nil {
		o.Tags = append(o.Tags, "der:ok-stdlib-rejects")
	} else if o.Viol == "" && zb.text(zrest) != sb.text(srest2) {
		o.Viol = "BasicOCSPResponse: zcrypto and the standard library both decode the bytes but to different values: " + zb.text(zrest) + " vs " + sb.text(srest2)
	}
	// what ParseResponse reports must be what was decoded (byte-exact TBS, right-aligned signature, serial, times)
	if st == 0 && len(rest) == 0 && zrest == 0 && len(zb.singles) == 1 && o.Viol == "" {
		if r, err := ocsp.ParseResponse(der, nil); err == nil {
			o.Tags = append(o.Tags, "der:parse-response-ok")
			s := zb.singles[0]
			switch {
			case !bytes.Equal(r.TBSResponseData, zb.tbs):
				o.Viol = "ParseResponse: TBSResponseData is not the decoded element"
			case r.SerialNumber.Cmp(s.serial) != 0:
				o.Viol = "ParseResponse: serial differs from the decoded CertID"
			case r.ThisUpdate.Unix() != s.this || r.NextUpdate.Unix() != s.next || r.ProducedAt.Unix() != zb.produced:
				o.Viol = "ParseResponse: times differ from the decoded ones"
			case len(r.Signature)*8 < zb.bitLen:
				o.Viol = "ParseResponse: signature shorter than the decoded BIT STRING"
			}
		}
	}
	return o
}

func execRq(f []string) zv.Out {
	hash, nh, kh, serial := atoi(f[1]), zv.UnHex(f[2]), zv.UnHex(f[3]), bigOf(f[4])
	req := &ocsp.Request{HashAlgorithm: crypto.Hash(hash), IssuerNameHash: nh, IssuerKeyHash: kh, SerialNumber: serial}
	der, err := req.Marshal()
	if err != nil {
		return zv.Out{Go: "merr", Tags: []string{"rq:marshal-err"}}
	}
	o := zv.Out{Go: zv.Hex(der) + " " + reqText(der), Tags: []string{"rq:ok"}}
	// T3: round trip on the implementation, and the bytes decode with the standard library to the same values
	q, err := ocsp.ParseRequest(der)
	if err != nil {
		o.Viol = "marshalled request does not parse back: " + err.Error()
	} else if q.HashAlgorithm != req.HashAlgorithm || !bytes.Equal(q.IssuerNameHash, nh) || !bytes.Equal(q.IssuerKeyHash, kh) || q.SerialNumber.Cmp(serial) != 0 {
		o.Viol = "Request.Marshal -> ParseRequest changed a field"
	}
	var m mRequest
	if rest, err := asn1.Unmarshal(der, &m); err != nil || len(rest) != 0 || len(m.TBSRequest.RequestList) != 1 {
		if o.Viol == "" {
			o.Viol = "request DER does not decode as an RFC 6960 OCSPRequest with one Request (standard library)"
		}
	}
	return o
}

func reqText(der []byte) string {
	q, err := ocsp.ParseRequest(der)
	if err != nil {
		return "err"
	}
	return fmt.Sprintf("ok %d %s %s %s", int(q.HashAlgorithm), zv.Hex(q.IssuerNameHash), zv.Hex(q.IssuerKeyHash), q.SerialNumber.String())
}

func execRqd(f []string) zv.Out {
	der := zv.UnHex(f[1])
	orig := append([]byte{}, der...)
	t := reqText(der)
	tag := "rqd:ok"
	if t == "err" {
		tag = "rqd:err"
	}
	o := zv.Out{Go: t, Tags: []string{tag}}
	// the input is only read, and parsing it again gives the same answer
	if !bytes.Equal(der, orig) {
		o.Viol = "ParseRequest modified the bytes handed in"
	} else if t2 := reqText(der); t2 != t {
		o.Viol = "ParseRequest on the same bytes a second time: " + t2 + " after " + t
	}
	return o
}

func execTime(f []string) zv.Out {
	tag, content := atoi(f[1]), zv.UnHex(f[2])
	tlv := append([]byte{byte(tag), byte(len(content))}, content...)
	var zt, st time.Time
	zrest, zerr := zasn1.Unmarshal(tlv, &zt)
	srest, serr := asn1.Unmarshal(tlv, &st)
	o := zv.Out{Go: "err"}
	if zerr == nil && len(zrest) == 0 {
		o.Go = "ok " + strconv.FormatInt(zt.Unix(), 10)
		o.Tags = append(o.Tags, fmt.Sprintf("time:%d-ok", tag))
	} else {
		o.Tags = append(o.Tags, fmt.Sprintf("time:%d-err", tag))
	}
	// differential oracle: the standard library's encoding/asn1 (same grammar, strict). One documented difference: since
	// go1.? the standard library's GeneralizedTime layout carries fractional seconds ("….999999999Z0700"), zcrypto's fork
	// does not (RFC 5280 / 6960 forbid them); such contents are refused by zcrypto only.
	if zerr != nil && serr == nil && tag == 24 && bytes.ContainsAny(content, ".,") {
		o.Tags = append(o.Tags, "time:fractional-seconds-refused")
	} else if (zerr == nil) != (serr == nil) {
		o.Viol = fmt.Sprintf("time content %q (tag %d): zcrypto error=%v, standard library error=%v", content, tag, zerr, serr)
	} else if zerr == nil && (!zt.Equal(st) || len(zrest) != len(srest)) {
		o.Viol = fmt.Sprintf("time content %q (tag %d): zcrypto %v, standard library %v", content, tag, zt, st)
	}
	return o
}

// ---- the struct declarations of ocsp.go as the compiler sees them (reflection through the hook) against the schema terms of
// ZV.Model.C13Der.  Rendering: leaf kinds i64 i32 enum big bool oid bits oct str raw flag; L(elem) / LS(elem) for slices (LS:
// the type's name ends in "SET"); {params:field;…} for structs, params = the REAL parseFieldParameters of the tag (hook).  The
// three documented stand-ins are applied here as they are in the model: a leading asn1.RawContent field is dropped,
// time.Time is rendered raw without its time-type parameter, interface{} is rendered raw.

var (
	tBigInt = reflect.TypeOf((*big.Int)(nil))
	tOID    = reflect.TypeOf(zasn1.ObjectIdentifier{})
	tBits   = reflect.TypeOf(zasn1.BitString{})
	tRaw    = reflect.TypeOf(zasn1.RawValue{})
	tFlag   = reflect.TypeOf(zasn1.Flag(false))
	tEnum   = reflect.TypeOf(zasn1.Enumerated(0))
	tTime   = reflect.TypeOf(time.Time{})
	tRawC   = reflect.TypeOf(zasn1.RawContent(nil))
)

func schemaText(t reflect.Type) string {
	switch t {
	case tBigInt:
		return "big"
	case tOID:
		return "oid"
	case tBits:
		return "bits"
	case tRaw, tTime:
		return "raw"
	case tFlag:
		return "flag"
	case tEnum:
		return "enum"
	}
	switch t.Kind() {
	case reflect.Int64, reflect.Int:
		return "i64"
	case reflect.Int32:
		return "i32"
	case reflect.Bool:
		return "bool"
	case reflect.String:
		return "str"
	case reflect.Interface:
		return "raw"
	case reflect.Slice:
		if t.Elem().Kind() == reflect.Uint8 {
			return "oct"
		}
		k := "L"
		if strings.HasSuffix(t.Name(), "SET") {
			k = "LS"
		}
		return k + "(" + schemaText(t.Elem()) + ")"
	case reflect.Struct:
		var fs []string
		for i := 0; i < t.NumField(); i++ {
			f := t.Field(i)
			if i == 0 && f.Type == tRawC {
				continue
			}
			ps := zasn1.ZVFieldParametersText(f.Tag.Get("asn1"))
			if f.Type == tTime { // the raw stand-in carries no time type
				var keep []string
				for _, x := range strings.Split(ps, ",") {
					if !strings.HasPrefix(x, "m") {
						keep = append(keep, x)
					}
				}
				ps = strings.Join(keep, ",")
				if ps == "" {
					ps = "-"
				}
			}
			fs = append(fs, ps+":"+schemaText(f.Type))
		}
		return "{" + strings.Join(fs, ";") + "}"
	}
	panic("schemaText: unsupported type " + t.String())
}

func execSchema(f []string) zv.Out {
	t, ok := ocsp.ZVTypes()[f[1]]
	if !ok {
		panic("schema: unknown type " + f[1])
	}
	return zv.Out{Go: schemaText(t), Tags: []string{"schema:" + f[1]}}
}

// ---- hand-built responses: no signatures are made or checked here, only the decoding is compared ----

func dlen(n int) []byte {
	switch {
	case n < 128:
		return []byte{byte(n)}
	case n < 256:
		return []byte{0x81, byte(n)}
	case n < 65536:
		return []byte{0x82, byte(n >> 8), byte(n)}
	}
	return []byte{0x83, byte(n >> 16), byte(n >> 8), byte(n)}
}

func tlv(tag byte, parts ...[]byte) []byte {
	var c []byte
	for _, p := range parts {
		c = append(c, p...)
	}
	return append(append([]byte{tag}, dlen(len(c))...), c...)
}

func must(b []byte, err error) []byte {
	if err != nil {
		panic(err)
	}
	return b
}

type dExt struct {
	id   asn1.ObjectIdentifier
	crit int // 0 absent, 1 true, 2 explicit FALSE (not DER, accepted)
	val  []byte
}

type dSingle struct {
	hash            asn1.ObjectIdentifier
	params          int // 0 absent, 1 NULL, 2 an OCTET STRING
	nh, kh          []byte
	serial          *big.Int
	good, unk       bool
	rev             bool
	revTag          byte
	revAt           string
	reason          int // < 0: absent
	thisTag         byte
	this            string
	nextTag         byte // 0: NextUpdate absent
	next            string
	exts            []dExt
	extsEmpty       bool // [1] wrapper with an empty SEQUENCE
	trailing        []byte
}

type dBasic struct {
	version   int // < 0: absent
	ridTag    byte
	rid       []byte
	prodTag   byte
	produced  string
	singles   []dSingle
	sigOID    asn1.ObjectIdentifier
	sigParams int
	sig       []byte
	pad       byte
	certs     [][]byte // each a full TLV; nil: field absent
	certsWrap bool     // [0] present even when certs is empty
}

func algID(o asn1.ObjectIdentifier, params int) []byte {
	p := []byte{}
	switch params {
	case 1:
		p = []byte{5, 0}
	case 2:
		p = []byte{4, 2, 0xab, 0xcd}
	}
	return tlv(0x30, must(asn1.Marshal(o)), p)
}

func (s *dSingle) der() []byte {
	certID := tlv(0x30, algID(s.hash, s.params), tlv(4, s.nh), tlv(4, s.kh), must(asn1.Marshal(s.serial)))
	parts := [][]byte{certID}
	if s.good {
		parts = append(parts, []byte{0x80, 0})
	}
	if s.rev {
		r := tlv(s.revTag, []byte(s.revAt))
		if s.reason >= 0 {
			r = append(r, tlv(0xa0, []byte{0x0a, 1, byte(s.reason)})...)
		}
		parts = append(parts, tlv(0xa1, r))
	}
	if s.unk {
		parts = append(parts, []byte{0x82, 0})
	}
	parts = append(parts, tlv(s.thisTag, []byte(s.this)))
	if s.nextTag != 0 {
		parts = append(parts, tlv(0xa0, tlv(s.nextTag, []byte(s.next))))
	}
	if len(s.exts) > 0 || s.extsEmpty {
		var es []byte
		for _, e := range s.exts {
			c := []byte{}
			switch e.crit {
			case 1:
				c = []byte{1, 1, 0xff}
			case 2:
				c = []byte{1, 1, 0}
			}
			es = append(es, tlv(0x30, must(asn1.Marshal(e.id)), c, tlv(4, e.val))...)
		}
		parts = append(parts, tlv(0xa1, tlv(0x30, es)))
	}
	parts = append(parts, s.trailing)
	return tlv(0x30, parts...)
}

func (b *dBasic) tbs() []byte {
	var parts [][]byte
	if b.version >= 0 {
		parts = append(parts, tlv(0xa0, []byte{2, 1, byte(b.version)}))
	}
	parts = append(parts, tlv(b.ridTag, b.rid), tlv(b.prodTag, []byte(b.produced)))
	var ss []byte
	for i := range b.singles {
		ss = append(ss, b.singles[i].der()...)
	}
	parts = append(parts, tlv(0x30, ss))
	return tlv(0x30, parts...)
}

func (b *dBasic) der() []byte {
	parts := [][]byte{b.tbs(), algID(b.sigOID, b.sigParams), tlv(3, []byte{b.pad}, b.sig)}
	if b.certs != nil || b.certsWrap {
		var cs []byte
		for _, c := range b.certs {
			cs = append(cs, c...)
		}
		parts = append(parts, tlv(0xa0, tlv(0x30, cs)))
	}
	return tlv(0x30, parts...)
}

func wrapResponse(status int, typ asn1.ObjectIdentifier, body []byte, withBytes bool) []byte {
	parts := [][]byte{{0x0a, 1, byte(status)}}
	if withBytes {
		parts = append(parts, tlv(0xa0, tlv(0x30, must(asn1.Marshal(typ)), tlv(4, body))))
	}
	return tlv(0x30, parts...)
}

func genTimeStr(r *zv.Rng, sec int64) string { return utc(sec).Format("20060102150405Z") }

var (
	oidSHA256RSA = asn1.ObjectIdentifier{1, 2, 840, 113549, 1, 1, 11}
	oidECDSA256  = asn1.ObjectIdentifier{1, 2, 840, 10045, 4, 3, 2}
	oidExtA      = asn1.ObjectIdentifier{1, 3, 6, 1, 4, 1, 99999, 1}
	oidExtB      = asn1.ObjectIdentifier{2, 5, 29, 21}
	oidBig       = asn1.ObjectIdentifier{2, 999, 2147483647, 0, 1}
)

func randSingle(r *zv.Rng, base int64) dSingle {
	hashes := []asn1.ObjectIdentifier{oidSHA1, oidSHA256, oidSHA384, oidSHA512, oidMD5, oidSHA224, oidBig}
	s := dSingle{hash: hashes[r.Intn(len(hashes))], params: r.Intn(3), nh: r.Bytes(r.Intn(34)), kh: r.Bytes(r.Intn(34)),
		serial: bigOf(decSerials[r.Intn(len(decSerials))]), revTag: 0x18, thisTag: 0x18, reason: -1,
		this: genTimeStr(r, base+int64(r.Intn(100000))), revAt: genTimeStr(r, base-int64(r.Intn(100000000)))}
	if r.Chance(30) {
		s.serial = new(big.Int).SetBytes(r.Bytes(1 + r.Intn(20)))
		if r.Bool() {
			s.serial.Neg(s.serial)
		}
	}
	switch k := r.Intn(100); {
	case k < 35:
		s.good = true
	case k < 65:
		s.rev = true
	case k < 80:
		s.unk = true
	case k < 85:
		s.good, s.unk = true, true
	case k < 90:
		s.good, s.rev = true, true
	case k < 94:
		s.rev, s.unk = true, true
	}
	if s.rev && r.Chance(60) {
		s.reason = r.Intn(11)
	}
	if r.Chance(55) {
		s.nextTag, s.next = 0x18, genTimeStr(r, base+200000+int64(r.Intn(100000)))
	}
	if r.Chance(12) { // UTCTime where GeneralizedTime is specified: accepted by the decoder
		s.thisTag, s.this = 0x17, utc(base+int64(r.Intn(100000))).Format("060102150405Z")
	}
	if r.Chance(8) && s.nextTag != 0 {
		s.nextTag, s.next = 0x17, utc(base+300000).Format("0601021504Z")
	}
	if r.Chance(8) { // a zone offset
		s.this = utc(base).Format("20060102150405") + []string{"+0100", "-0800", "+0530", "+2400", "-0001"}[r.Intn(5)]
	}
	for k := r.Intn(4); k > 0 && r.Chance(50); k-- {
		s.exts = append(s.exts, dExt{id: []asn1.ObjectIdentifier{oidExtA, oidExtB, oidNonce}[r.Intn(3)], crit: r.Intn(3), val: r.Bytes(r.Intn(6))})
	}
	s.extsEmpty = len(s.exts) == 0 && r.Chance(5)
	if r.Chance(5) {
		s.trailing = []byte{5, 0}
	}
	return s
}

func randBasic(r *zv.Rng, nSingles int) *dBasic {
	base := int64(1700000000) + int64(r.Intn(100000000))
	b := &dBasic{version: -1, ridTag: 0xa1, rid: tlv(0x30, tlv(0x31, tlv(0x30, []byte{6, 3, 0x55, 4, 3}, tlv(0x0c, []byte("r"))))), prodTag: 0x18,
		produced: genTimeStr(r, base), sigOID: oidSHA256RSA, sigParams: 1, sig: r.Bytes(1 + r.Intn(40))}
	if r.Chance(15) {
		b.version = r.Intn(3)
	}
	if r.Chance(40) {
		b.ridTag, b.rid = 0xa2, tlv(4, r.Bytes(20))
	}
	if r.Chance(5) {
		b.ridTag, b.rid = []byte{0xa0, 0xa3, 0x82, 0x30, 0x04}[r.Intn(5)], r.Bytes(r.Intn(5))
	}
	if r.Chance(30) {
		b.sigOID, b.sigParams = oidECDSA256, 0
	}
	if r.Chance(10) {
		b.sigParams = 2
	}
	if r.Chance(25) { // unused bits: the last byte's low bits must be zero
		b.pad = byte(1 + r.Intn(7))
		b.sig[len(b.sig)-1] &^= byte(1<<b.pad - 1)
	}
	if r.Chance(4) {
		b.sig, b.pad = nil, 0
	}
	if r.Chance(10) {
		b.prodTag, b.produced = 0x17, utc(base).Format("060102150405Z")
	}
	for i := 0; i < nSingles; i++ {
		b.singles = append(b.singles, randSingle(r, base))
	}
	switch k := r.Intn(10); {
	case k < 5:
	case k < 7:
		b.certs = [][]byte{tlv(0x30, r.Bytes(3+r.Intn(30)))}
	case k < 9:
		b.certs = [][]byte{tlv(0x30, r.Bytes(10)), tlv(0x30, tlv(0x30, r.Bytes(4)), []byte{5, 0})}
	default:
		b.certsWrap = true
	}
	return b
}

// every identifier / length octet of the TLV tree under b[from:to) (plain walk; primitive contents are not descended into,
// except OCTET STRINGs and context-specific constructed elements that hold DER)
func headerPositions(b []byte, from, to int, out *[]int, depth int) {
	for off := from; off < to; {
		h, l, ok := tl(b[:to], off)
		if !ok {
			return
		}
		for i := 0; i < h; i++ {
			*out = append(*out, off+i)
		}
		if (b[off]&0x20 != 0 || b[off] == 0x04) && depth < 12 {
			headerPositions(b, off+h, off+h+l, out, depth+1)
		}
		off += h + l
	}
}

var mutTags = []byte{0x00, 0x02, 0x03, 0x04, 0x05, 0x06, 0x0a, 0x0c, 0x13, 0x17, 0x18, 0x30, 0x31, 0x80, 0x81, 0x82, 0xa0, 0xa1, 0xa2, 0xa3, 0x1f, 0x3f, 0xff}

func genDer(g *zv.Gen) {
	r := g.Rng
	emit := func(der []byte) { g.Emit("c13 der " + zv.Hex(der)) }
	for _, n := range []string{"ocspRequest", "responseASN1", "basicResponse"} {
		g.Emit("c13 schema " + n)
	}
	// corpus: the smallest messages
	emit([]byte{0x30, 0x03, 0x0a, 0x01, 0x01})
	emit([]byte{0x30, 0x03, 0x0a, 0x01, 0x00})
	emit([]byte{})
	emit(wrapResponse(0, oidBasic, nil, true))
	emit(wrapResponse(6, oidNonce, []byte{1, 2, 3}, true))
	// responses made by the real CreateResponse / the assembler of the decide stream (signed, with certificates)
	p := pool()
	for ca := 0; ca < nCA; ca++ {
		for mode := 0; mode < 3; mode++ {
			sp := &asmSpec{ca: ca, rtag: 1 + mode%2, produced: 1700000000, signer: p[ca],
				singles: []asmSingle{{serial: big.NewInt(int64(5 + mode)), good: mode == 0, rev: mode == 1, unk: mode == 2, this: 1700000000, next: 1700086400,
					revAt: 1690000000, reason: 1, hash: 3 + 2*(mode%2), ext: mode == 1, crit: mode == 2}}}
			if mode == 1 {
				sp.signer, sp.certs = responderOf(ca), [][]byte{responderOf(ca).der}
			}
			if mode == 2 {
				sp.padBits = 2
			}
			emit(assemble(sp))
		}
	}
	// hand-built, every knob
	for n := 0; n <= 4; n++ {
		for k := 0; k < g.N(40, 600); k++ {
			b := randBasic(r, n)
			body := b.der()
			if r.Chance(5) {
				body = append(body, 0x05, 0x00)
			}
			der := wrapResponse([]int{0, 0, 0, 0, 1, 2, 3, 5, 6, 255}[r.Intn(10)], oidBasic, body, true)
			if r.Chance(4) {
				der = append(der, 0x00)
			}
			emit(der)
		}
	}
	// mutants of small well-formed responses: every identifier and length octet x a set of values, random bytes anywhere,
	// truncations
	nb := g.N(6, 60)
	for k := 0; k < nb; k++ {
		b := randBasic(r, 1+r.Intn(2))
		if k%2 == 0 { // make sure the interesting optional parts are there
			b.singles[0].nextTag, b.singles[0].next = 0x18, "20240101000000Z"
			b.singles[0].rev, b.singles[0].revAt, b.singles[0].reason, b.singles[0].good, b.singles[0].unk = true, "20230101000000Z", 1, false, false
			b.singles[0].exts = []dExt{{id: oidExtA, crit: 1, val: []byte{5, 0}}}
			b.certs = [][]byte{tlv(0x30, []byte{2, 1, 1})}
			b.version = 0
		}
		der := wrapResponse(0, oidBasic, b.der(), true)
		emit(der)
		var ps []int
		headerPositions(der, 0, len(der), &ps, 0)
		for _, pos := range ps {
			vals := []byte{der[pos] + 1, der[pos] - 1, der[pos] ^ 0x20, der[pos] ^ 0x80, der[pos] ^ 0x40}
			if k < 2 || !g.Quick {
				vals = append(vals, mutTags...)
			} else {
				vals = append(vals, mutTags[r.Intn(len(mutTags))], mutTags[r.Intn(len(mutTags))])
			}
			for _, v := range vals {
				if v == der[pos] {
					continue
				}
				m := append([]byte{}, der...)
				m[pos] = v
				emit(m)
			}
		}
		for i := 0; i < g.N(60, 400); i++ {
			m := append([]byte{}, der...)
			m[r.Intn(len(m))] ^= byte(1 + r.Intn(255))
			emit(m)
		}
		for i := 0; i < 6; i++ {
			emit(der[:r.Intn(len(der))])
		}
	}
}

func genRq(g *zv.Gen) {
	r := g.Rng
	serials := []string{"0", "1", "127", "128", "-1", "-128", "-129", "255", "256", "1427247692705959881058285969449495136382746624", "-340282366920938463463374607431768211456"}
	for h := 0; h <= 20; h++ {
		for _, s := range serials {
			g.Emitf("c13 rq %d %s %s %s", h, zv.Hex(r.Bytes(20)), zv.Hex(r.Bytes(20)), s)
		}
	}
	g.Emit("c13 rq 3 - - 0")
	n := g.N(400, 20000)
	for i := 0; i < n; i++ {
		h := []int{3, 5, 6, 7}[r.Intn(4)]
		sn := new(big.Int).SetBytes(r.Bytes(1 + r.Intn(24)))
		if r.Chance(20) {
			sn.Neg(sn)
		}
		ln := []int{0, 1, 20, 32, 48, 64, 127, 128, 200, 300}
		g.Emitf("c13 rq %d %s %s %s", h, zv.Hex(r.Bytes(ln[r.Intn(len(ln))])), zv.Hex(r.Bytes(ln[r.Intn(len(ln))])), sn.String())
	}
	// ParseRequest on bytes: marshalled requests, their mutants, requests with a version / requestor name / several entries
	mk := func(h crypto.Hash, nh, kh []byte, sn *big.Int) []byte {
		return must((&ocsp.Request{HashAlgorithm: h, IssuerNameHash: nh, IssuerKeyHash: kh, SerialNumber: sn}).Marshal())
	}
	g.Emit("c13 rqd -")
	g.Emit("c13 rqd 3000")
	g.Emit("c13 rqd 30023000")
	g.Emit("c13 rqd 300430023000")
	nr := g.N(8, 80)
	for k := 0; k < nr; k++ {
		der := mk([]crypto.Hash{crypto.SHA1, crypto.SHA256, crypto.SHA384, crypto.SHA512}[r.Intn(4)], r.Bytes(r.Intn(30)), r.Bytes(r.Intn(30)), big.NewInt(int64(r.Intn(100000))-500))
		g.Emit("c13 rqd " + zv.Hex(der))
		g.Emit("c13 rqd " + zv.Hex(append(append([]byte{}, der...), 0)))
		var ps []int
		headerPositions(der, 0, len(der), &ps, 0)
		for _, pos := range ps {
			for _, v := range append([]byte{der[pos] + 1, der[pos] - 1, der[pos] ^ 0x20, der[pos] ^ 0x80}, mutTags...) {
				if v != der[pos] {
					m := append([]byte{}, der...)
					m[pos] = v
					g.Emit("c13 rqd " + zv.Hex(m))
				}
			}
		}
		for i := 0; i < g.N(30, 200); i++ {
			m := append([]byte{}, der...)
			m[r.Intn(len(m))] ^= byte(1 + r.Intn(255))
			g.Emit("c13 rqd " + zv.Hex(m))
		}
		// explicit version, requestor name, two requests, an unknown hash
		cid := func(o asn1.ObjectIdentifier) []byte {
			return tlv(0x30, tlv(0x30, algID(o, r.Intn(3)), tlv(4, r.Bytes(4)), tlv(4, r.Bytes(4)), []byte{2, 1, byte(r.Intn(128))}))
		}
		name := tlv(0xa1, tlv(0x30, tlv(0x31, tlv(0x30, []byte{6, 3, 0x55, 4, 3}, tlv(0x13, []byte("ab"))), tlv(0x30, []byte{6, 3, 0x55, 4, 10}, tlv(0x0c, []byte("é"))))))
		ver := tlv(0xa0, []byte{2, 1, byte(r.Intn(3))})
		g.Emit("c13 rqd " + zv.Hex(tlv(0x30, tlv(0x30, ver, tlv(0x30, cid(oidSHA256))))))
		g.Emit("c13 rqd " + zv.Hex(tlv(0x30, tlv(0x30, name, tlv(0x30, cid(oidSHA1), cid(oidSHA512))))))
		g.Emit("c13 rqd " + zv.Hex(tlv(0x30, tlv(0x30, ver, name, tlv(0x30, cid(oidMD5))))))
		g.Emit("c13 rqd " + zv.Hex(tlv(0x30, tlv(0x30, tlv(0x30)))))
		g.Emit("c13 rqd " + zv.Hex(tlv(0x30, tlv(0x30, tlv(0x30, cid(oidSHA384))), tlv(0xa0, tlv(0x30, []byte{5, 0})))))
	}
}

func genTime(g *zv.Gen) {
	r := g.Rng
	emit := func(tag int, s string) {
		if len(s) < 128 {
			g.Emitf("c13 time %d %s", tag, zv.Hex([]byte(s)))
		}
	}
	zones := []string{"Z", "", "z", "+0000", "-0000", "+0100", "-0100", "-0130", "+0059", "+0060", "+2359", "+2400", "+2430", "+2459", "-2400", "+2500", "+9900",
		"+01", "+010", "+01000", "+0a00", "*0100", "Z0", "ZZ", " Z", "Z ", ".5Z", ",5Z", ".Z", "+01:00", "GMT", "\x00", "\xff"}
	years := []int{0, 1, 4, 69, 99, 100, 400, 1600, 1899, 1900, 1949, 1950, 1968, 1969, 1970, 1999, 2000, 2001, 2004, 2023, 2024, 2038, 2049, 2050, 2068, 2069, 2099, 2100, 2400, 9999}
	mds := [][2]int{{1, 1}, {1, 31}, {1, 32}, {2, 28}, {2, 29}, {2, 30}, {3, 31}, {4, 30}, {4, 31}, {6, 31}, {9, 31}, {11, 31}, {12, 31}, {12, 32}, {0, 1}, {13, 1}, {1, 0}, {7, 4}, {10, 10}}
	hms := [][3]int{{0, 0, 0}, {23, 59, 59}, {24, 0, 0}, {23, 60, 0}, {23, 59, 60}, {12, 30, 15}, {1, 2, 3}}
	for _, y := range years {
		for _, md := range mds {
			hm := hms[(y+md[0]+md[1])%len(hms)]
			emit(24, fmt.Sprintf("%04d%02d%02d%02d%02d%02dZ", y, md[0], md[1], hm[0], hm[1], hm[2]))
			emit(24, fmt.Sprintf("%04d%02d%02d000000Z", y, md[0], md[1]))
			emit(23, fmt.Sprintf("%02d%02d%02d%02d%02d%02dZ", y%100, md[0], md[1], hm[0], hm[1], hm[2]))
			emit(23, fmt.Sprintf("%02d%02d%02d%02d%02dZ", y%100, md[0], md[1], hm[0], hm[1]))
		}
	}
	for _, hm := range hms {
		for _, z := range zones {
			emit(24, fmt.Sprintf("20240229%02d%02d%02d%s", hm[0], hm[1], hm[2], z))
			emit(23, fmt.Sprintf("500101%02d%02d%02d%s", hm[0], hm[1], hm[2], z))
			emit(23, fmt.Sprintf("491231%02d%02d%s", hm[0], hm[1], z))
		}
	}
	for _, z := range zones {
		emit(24, "00000101000000"+z)
		emit(24, "99991231235959"+z)
		emit(23, "0001010000"+z)
		emit(23, "680229000000"+z)
		emit(23, "690228235959"+z)
	}
	// every position of a valid string replaced by characters around the digits and by separators
	subs := []byte{'/', '0', '9', ':', '+', '-', ' ', 'Z', 'a', '.', ',', 0x00, 0x80, 0xff}
	for _, c := range []struct {
		tag int
		s   string
	}{{24, "20240229123456Z"}, {24, "19991231235959+0130"}, {23, "240229123456Z"}, {23, "9912312359Z"}, {23, "5001010000-0800"}} {
		for i := 0; i < len(c.s); i++ {
			for _, b := range subs {
				m := []byte(c.s)
				m[i] = b
				emit(c.tag, string(m))
			}
			emit(c.tag, c.s[:i])
			emit(c.tag, c.s[:i]+c.s[i+1:])
			emit(c.tag, c.s[:i]+"0"+c.s[i:])
		}
		emit(24-(c.tag-23), c.s) // the other tag
		emit(22, c.s)
	}
	n := g.N(1500, 60000)
	for i := 0; i < n; i++ {
		y, mo, d := r.Intn(10000), r.Intn(14), r.Intn(33)
		if r.Chance(70) {
			mo, d = 1+r.Intn(12), 1+r.Intn(31)
		}
		h, mi, s := r.Intn(25), r.Intn(61), r.Intn(61)
		if r.Chance(70) {
			h, mi, s = r.Intn(24), r.Intn(60), r.Intn(60)
		}
		z := "Z"
		if r.Chance(30) {
			z = fmt.Sprintf("%c%02d%02d", "+-"[r.Intn(2)], r.Intn(26), r.Intn(62))
		}
		switch r.Intn(3) {
		case 0:
			emit(24, fmt.Sprintf("%04d%02d%02d%02d%02d%02d%s", y, mo, d, h, mi, s, z))
		case 1:
			emit(23, fmt.Sprintf("%02d%02d%02d%02d%02d%02d%s", y%100, mo, d, h, mi, s, z))
		default:
			emit(23, fmt.Sprintf("%02d%02d%02d%02d%02d%s", y%100, mo, d, h, mi, z))
		}
	}
}
