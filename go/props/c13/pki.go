package c13

import (
	"crypto"
	stdx509 "crypto/x509"
	"encoding/hex"
	"sync"

	"github.com/zmap/zcrypto/x509"
)

// ent is one member of the fixed PKI pool (see pkidata.go / mkpki.go).
type ent struct {
	name string
	key  crypto.Signer        // private key in the representation zcrypto uses (zcrypto/rsa for RSA)
	cert *x509.Certificate    // parsed by the code under test (needed as API argument)
	std  *stdx509.Certificate // parsed by the standard library (independent reference)
	der  []byte
	// the bytes the certificate was CONFIGURED from (pool: as the standard library reports them; xpki.go: the hand-written
	// name / key bytes that went into the tbsCertificate) — the reference for every raw field the code under test reports
	subj, issuerSubj, spki []byte
	stdParsed              bool // std is a parse of der (false: exotic name the standard library refuses; std then only carries the key)
}

const (
	nCA   = 6  // pool[0..5]: self-signed CAs: rsa1024, rsa2048, p256, p384, p224, p521
	idxEd = 12 // pool[12]: Ed25519
)

// poolOrder maps a pool index to its pkiData entry: CAs first, then the responder of CA i at nCA+i, Ed25519 last.
// Responder key types (by CA): p256, rsa2048, rsa1024, p384, p521, p224 — so that RSA and every curve the creation
// API accepts (P-224, P-256, P-384, P-521) occurs both as issuer key and as delegated-responder key.
var poolOrder = []int{0, 1, 2, 3, 9, 10, 4, 5, 6, 7, 11, 12, 8}

var (
	poolOnce sync.Once
	poolV    []*ent
)

func pool() []*ent {
	poolOnce.Do(func() {
		if len(poolOrder) != len(pkiData) || len(poolOrder) != idxEd+1 {
			panic("c13: poolOrder does not cover pkiData")
		}
		for _, di := range poolOrder {
			d := pkiData[di]
			kb, err := hex.DecodeString(d[1])
			if err != nil {
				panic(err)
			}
			cb, err := hex.DecodeString(d[2])
			if err != nil {
				panic(err)
			}
			k, err := x509.ParsePKCS8PrivateKey(kb)
			if err != nil {
				panic(err)
			}
			c, err := x509.ParseCertificate(cb)
			if err != nil {
				panic(err)
			}
			sc, err := stdx509.ParseCertificate(cb)
			if err != nil {
				panic(err)
			}
			poolV = append(poolV, &ent{name: d[0], key: k.(crypto.Signer), cert: c, std: sc, der: cb,
				subj: sc.RawSubject, issuerSubj: sc.RawIssuer, spki: sc.RawSubjectPublicKeyInfo, stdParsed: true})
		}
	})
	return poolV
}

// responderOf returns the delegated responder certified by CA i.
func responderOf(i int) *ent { return pool()[nCA+i] }
