package c13

import (
	"crypto"
	stdx509 "crypto/x509"
	"encoding/hex"
	"sync"

	"github.com/zmap/zcrypto/x509"
)

// ent is one member of the fixed PKI pool (see pkidata.go / mkpki.go).
type ent struct {
	name string
	key  crypto.Signer         // private key in the representation zcrypto uses (zcrypto/rsa for RSA)
	cert *x509.Certificate     // parsed by the code under test (needed as API argument)
	std  *stdx509.Certificate  // parsed by the standard library (independent reference)
	der  []byte
}

const (
	nCA    = 4 // pool[0..3]: self-signed CAs: rsa1024, rsa2048, p256, p384
	idxEd  = 8 // pool[8]: Ed25519
)

var (
	poolOnce sync.Once
	poolV    []*ent
)

func pool() []*ent {
	poolOnce.Do(func() {
		for _, d := range pkiData {
			kb, err := hex.DecodeString(d[1])
			if err != nil {
				panic(err)
			}
			cb, err := hex.DecodeString(d[2])
			if err != nil {
				panic(err)
			}
			k, err := x509.ParsePKCS8PrivateKey(kb)
			if err != nil {
				panic(err)
			}
			c, err := x509.ParseCertificate(cb)
			if err != nil {
				panic(err)
			}
			sc, err := stdx509.ParseCertificate(cb)
			if err != nil {
				panic(err)
			}
			poolV = append(poolV, &ent{name: d[0], key: k.(crypto.Signer), cert: c, std: sc, der: cb})
		}
	})
	return poolV
}

// responderOf returns the delegated responder certified by CA i.
func responderOf(i int) *ent { return pool()[nCA+i] }
